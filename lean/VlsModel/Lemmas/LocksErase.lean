import VlsModel.Lemmas.LocksAtomic
/-
Erasing READER sections is sound (lock model with data, `Model/Locks2pl.lean`).

A request is given with a flag on every event; a flagged `acq l` opens a section that is to be erased (a section
in which the thread does not `upd l`: `eraseOk`), its matching `rel l` is erased with it.  Every execution of the
FULL requests is simulated by an execution of the ERASED requests with the same data (an erased acquisition only
removes blocking, never enables a data change): so whatever is proved about the final data of all complete
executions of the erased requests (serializability of strict two-phase write transactions) holds for the full ones.
-/
namespace VlsModel.Locks2pl

variable {L D : Type} [DecidableEq L]

/-- flagged event: the flag on an `acq` says "reader section, erase it" (ignored on other events) -/
abbrev FEv (L D : Type) := Bool × DEv L D

def unflag (r : List (FEv L D)) : List (DEv L D) := r.map (·.2)

/-- the erased request (`er` = locks of the currently open erased sections) -/
def erase : List L → List (FEv L D) → List (DEv L D)
  | _, [] => []
  | er, (b, .acq l) :: r => if b then erase (l :: er) r else .acq l :: erase er r
  | er, (_, .rel l) :: r => if er.contains l then erase (er.erase l) r else .rel l :: erase er r
  | er, (_, .upd l f) :: r => .upd l f :: erase er r

/-- no data update on `l` inside an erased section of `l` -/
def eraseOk : List L → List (FEv L D) → Bool
  | _, [] => true
  | er, (b, .acq l) :: r => if b then eraseOk (l :: er) r else eraseOk er r
  | er, (_, .rel l) :: r => if er.contains l then eraseOk (er.erase l) r else eraseOk er r
  | er, (_, .upd l _) :: r => !er.contains l && eraseOk er r

/-- thread of the full execution vs thread of the erased execution -/
def TRel (t t' : DThread L D) : Prop :=
  ∃ (er : List L) (fl : List (FEv L D)),
    t.todo = unflag fl ∧ t'.todo = erase er fl ∧ eraseOk er fl = true ∧
    (∀ x ∈ er, x ∈ t.held) ∧ er.Nodup ∧ t.held.Nodup ∧ t'.held.Nodup ∧
    ∀ x, x ∈ t'.held ↔ (x ∈ t.held ∧ x ∉ er)

def SRel (s s' : DState L D) : Prop :=
  s.mem = s'.mem ∧ s.threads.length = s'.threads.length ∧
  ∀ (i : Nat) (t t' : DThread L D), s.threads[i]? = some t → s'.threads[i]? = some t' → TRel t t'

theorem srel_corr {s s' : DState L D} (h : SRel s s') {i : Nat} {t : DThread L D}
    (hi : s.threads[i]? = some t) : ∃ t', s'.threads[i]? = some t' ∧ TRel t t' := by
  have hlt : i < s.threads.length := by
    rcases Nat.lt_or_ge i s.threads.length with h' | h'
    · exact h'
    · simp [h'] at hi
  have hlt' : i < s'.threads.length := by rw [← h.2.1]; exact hlt
  exact ⟨s'.threads[i], by simp [hlt'], h.2.2 i t _ hi (by simp [hlt'])⟩

theorem srel_corr' {s s' : DState L D} (h : SRel s s') {i : Nat} {t' : DThread L D}
    (hi : s'.threads[i]? = some t') : ∃ t, s.threads[i]? = some t ∧ TRel t t' := by
  have hlt' : i < s'.threads.length := by
    rcases Nat.lt_or_ge i s'.threads.length with h' | h'
    · exact h'
    · simp [h'] at hi
  have hlt : i < s.threads.length := by rw [h.2.1]; exact hlt'
  exact ⟨s.threads[i], by simp [hlt], h.2.2 i _ t' (by simp [hlt]) hi⟩

/-- relation after thread `i` of both states has been replaced by related threads -/
theorem srel_set {s s' : DState L D} (h : SRel s s') {i : Nat} {t t' x x' : DThread L D}
    (hi : s.threads[i]? = some t) (hi' : s'.threads[i]? = some t') (hx : TRel x x')
    (m m' : L → D) (hm : m = m') (c c' : List Nat) :
    SRel { threads := s.threads.set i x, mem := m, commits := c }
         { threads := s'.threads.set i x', mem := m', commits := c' } := by
  refine ⟨hm, by simp [h.2.1], ?_⟩
  intro j u u' hu hu'
  rcases get_set hi hu with ⟨rfl, rfl⟩ | ⟨hji, hu0⟩
  · rcases get_set hi' hu' with ⟨_, rfl⟩ | ⟨hne, _⟩
    · exact hx
    · exact absurd rfl hne
  · rcases get_set hi' hu' with ⟨rfl, _⟩ | ⟨_, hu0'⟩
    · exact absurd rfl hji
    · exact h.2.2 j u u' hu0 hu0'

/-- the full state keeps thread `i`'s partner unchanged (stutter of the erased execution) -/
theorem srel_set_left {s s' : DState L D} (h : SRel s s') {i : Nat} {t t' x : DThread L D}
    (hi : s.threads[i]? = some t) (hi' : s'.threads[i]? = some t') (hx : TRel x t')
    (c : List Nat) :
    SRel { threads := s.threads.set i x, mem := s.mem, commits := c } s' := by
  refine ⟨h.1, by simp [h.2.1], ?_⟩
  intro j u u' hu hu'
  rcases get_set hi hu with ⟨rfl, rfl⟩ | ⟨hji, hu0⟩
  · rw [hi'] at hu'; cases hu'; exact hx
  · exact h.2.2 j u u' hu0 hu'

theorem unflag_cons_inv {fl : List (FEv L D)} {e : DEv L D} {r : List (DEv L D)}
    (h : unflag fl = e :: r) : ∃ b fl', fl = (b, e) :: fl' ∧ unflag fl' = r := by
  cases fl with
  | nil => simp [unflag] at h
  | cons a fl' =>
    obtain ⟨b, e'⟩ := a
    simp only [unflag, List.map_cons, List.cons.injEq] at h
    exact ⟨b, fl', by rw [← h.1], h.2⟩

/-- **Simulation**: a step of the full execution is matched by zero or one step of the erased execution. -/
theorem erase_sim_step {s s' s1 : DState L D} (hrel : SRel s s') (h : Step s s1) :
    ∃ s1', (s1' = s' ∨ Step s' s1') ∧ SRel s1 s1' := by
  obtain ⟨i, hi⟩ := h
  obtain ⟨t, hti, hc⟩ := stepAt_cases hi
  obtain ⟨t', hti', er, fl, htodo, htodo', hok, hsub, hnd, hhnd, hhnd', hheld⟩ := srel_corr hrel hti
  rcases hc with ⟨l, r, hd, hfree, rfl⟩ | ⟨l, f, r, hd, hcont, rfl⟩ | ⟨l, r, hd, rfl⟩
  · -- acquire
    rw [hd] at htodo
    obtain ⟨b, fl', rfl, hr⟩ := unflag_cons_inv htodo.symm
    have hlfree : l ∉ t.held := isFree_spec hfree t (List.mem_of_getElem? hti)
    have hler : l ∉ er := fun hx => hlfree (hsub l hx)
    cases b with
    | true =>
      -- erased acquisition: the erased execution does not move
      refine ⟨s', Or.inl rfl, srel_set_left hrel hti hti' ?_ _⟩
      refine ⟨l :: er, fl', hr.symm, by simpa [erase] using htodo', by simpa [eraseOk] using hok, ?_, ?_, ?_, hhnd', ?_⟩
      · intro x hx
        simp only [List.mem_cons] at hx ⊢
        rcases hx with rfl | hx
        · exact Or.inl rfl
        · exact Or.inr (hsub x hx)
      · exact List.nodup_cons.mpr ⟨hler, hnd⟩
      · exact List.nodup_cons.mpr ⟨hlfree, hhnd⟩
      · intro x
        rw [hheld x]
        simp only [List.mem_cons, not_or]
        constructor
        · rintro ⟨hx, hxe⟩
          exact ⟨Or.inr hx, fun e => hlfree (e ▸ hx), hxe⟩
        · rintro ⟨hx | hx, hxl, hxe⟩
          · exact absurd hx hxl
          · exact ⟨hx, hxe⟩
    | false =>
      have htodo'' : t'.todo = .acq l :: erase er fl' := by simpa [erase] using htodo'
      have hfree' : isFree s'.threads l = true := by
        unfold isFree
        rw [List.all_eq_true]
        intro u' hu'
        obtain ⟨j, hj⟩ := List.getElem?_of_mem hu'
        obtain ⟨u, hu, er2, fl2, _, _, _, _, _, _, _, hheld2⟩ := srel_corr' hrel hj
        have : l ∉ u.held := isFree_spec hfree u (List.mem_of_getElem? hu)
        have hl' : l ∉ u'.held := fun hx => this ((hheld2 l).mp hx).1
        simpa using hl'
      refine ⟨{ threads := s'.threads.set i { t' with held := l :: t'.held, done := t'.done ++ [.acq l], todo := erase er fl' },
                mem := s'.mem, commits := s'.commits }, Or.inr ⟨i, ?_⟩, ?_⟩
      · simp [stepAt, hti', htodo'', hfree']
      · refine srel_set hrel hti hti' ?_ _ _ hrel.1 _ _
        have hl' : l ∉ t'.held := fun hx => hlfree ((hheld l).mp hx).1
        refine ⟨er, fl', hr.symm, rfl, by simpa [eraseOk] using hok, ?_, hnd, ?_, ?_, ?_⟩
        · intro x hx; exact List.mem_cons_of_mem _ (hsub x hx)
        · exact List.nodup_cons.mpr ⟨hlfree, hhnd⟩
        · exact List.nodup_cons.mpr ⟨hl', hhnd'⟩
        · intro x
          simp only [List.mem_cons]
          constructor
          · rintro (rfl | hx)
            · exact ⟨Or.inl rfl, hler⟩
            · exact ⟨Or.inr ((hheld x).mp hx).1, ((hheld x).mp hx).2⟩
          · rintro ⟨rfl | hx, hxe⟩
            · exact Or.inl rfl
            · exact Or.inr ((hheld x).mpr ⟨hx, hxe⟩)
  · -- update
    rw [hd] at htodo
    obtain ⟨b, fl', rfl, hr⟩ := unflag_cons_inv htodo.symm
    have hl : l ∈ t.held := by simpa using hcont
    simp only [eraseOk, Bool.and_eq_true, Bool.not_eq_true', List.contains_eq_mem, decide_eq_false_iff_not] at hok
    have hl' : l ∈ t'.held := (hheld l).mpr ⟨hl, by simpa using hok.1⟩
    have htodo'' : t'.todo = .upd l f :: erase er fl' := by simpa [erase] using htodo'
    refine ⟨{ threads := s'.threads.set i { t' with done := t'.done ++ [.upd l f], todo := erase er fl' },
              mem := setMem s'.mem l (f (s'.mem l)), commits := s'.commits }, Or.inr ⟨i, ?_⟩, ?_⟩
    · simp [stepAt, hti', htodo'', hl']
    · refine srel_set hrel hti hti' ?_ _ _ (by rw [hrel.1]) _ _
      exact ⟨er, fl', hr.symm, rfl, hok.2, hsub, hnd, hhnd, hhnd', hheld⟩
  · -- release
    rw [hd] at htodo
    obtain ⟨b, fl', rfl, hr⟩ := unflag_cons_inv htodo.symm
    by_cases hle : l ∈ er
    · -- erased release: the erased execution does not move
      have hc : er.contains l = true := by simpa using hle
      refine ⟨s', Or.inl rfl, srel_set_left hrel hti hti' ?_ _⟩
      refine ⟨er.erase l, fl', hr.symm, by simpa [erase, hle] using htodo', by simpa [eraseOk, hle] using hok, ?_, hnd.erase l, hhnd.erase l, hhnd', ?_⟩
      · intro x hx
        have := (List.Nodup.mem_erase_iff hnd).mp hx
        exact (List.Nodup.mem_erase_iff hhnd).mpr ⟨this.1, hsub x this.2⟩
      · intro x
        rw [hheld x, List.Nodup.mem_erase_iff hhnd, List.Nodup.mem_erase_iff hnd]
        constructor
        · rintro ⟨hx, hxe⟩
          exact ⟨⟨fun e => hxe (e ▸ hle), hx⟩, fun h => hxe h.2⟩
        · rintro ⟨⟨hxl, hx⟩, hxe⟩
          exact ⟨hx, fun h => hxe ⟨hxl, h⟩⟩
    · have hc : er.contains l = false := by simpa using hle
      have htodo'' : t'.todo = .rel l :: erase er fl' := by simpa [erase, hle] using htodo'
      refine ⟨{ threads := s'.threads.set i { t' with held := t'.held.erase l, done := t'.done ++ [.rel l], todo := erase er fl', committed := true },
                mem := s'.mem, commits := if t'.committed then s'.commits else s'.commits ++ [i] }, Or.inr ⟨i, ?_⟩, ?_⟩
      · simp [stepAt, hti', htodo'']
      · refine srel_set hrel hti hti' ?_ _ _ hrel.1 _ _
        refine ⟨er, fl', hr.symm, rfl, by simpa [eraseOk, hle] using hok, ?_, hnd, hhnd.erase l, hhnd'.erase l, ?_⟩
        · intro x hx
          exact (List.Nodup.mem_erase_iff hhnd).mpr ⟨fun e => hle (e ▸ hx), hsub x hx⟩
        · intro x
          rw [List.Nodup.mem_erase_iff hhnd', List.Nodup.mem_erase_iff hhnd, hheld x]
          constructor
          · rintro ⟨hxl, hx, hxe⟩; exact ⟨⟨hxl, hx⟩, hxe⟩
          · rintro ⟨⟨hxl, hx⟩, hxe⟩; exact ⟨hxl, hx, hxe⟩

theorem erase_sim_steps {n : Nat} {s s1 s' : DState L D} (hrel : SRel s s') (h : Steps n s s1) :
    ∃ m s1', Steps m s' s1' ∧ SRel s1 s1' := by
  induction h with
  | refl => exact ⟨0, s', Steps.refl _, hrel⟩
  | tail _ hstep ih =>
    obtain ⟨m, s2', hs2, hrel2⟩ := ih hrel
    obtain ⟨s3', hor, hrel3⟩ := erase_sim_step hrel2 hstep
    rcases hor with rfl | hst
    · exact ⟨m, _, hs2, hrel3⟩
    · exact ⟨m + 1, s3', Steps.tail hs2 hst, hrel3⟩

omit [DecidableEq L] in
theorem runReq_congr_updsOn : ∀ (r r' : List (DEv L D)) [DecidableEq L], (∀ l, updsOn l r = updsOn l r') →
    ∀ m : L → D, runReq m r = runReq m r' := by
  intro r r' _ h m
  funext l
  rw [runReq_apply, runReq_apply, h l]

theorem updsOn_erase (l : L) : ∀ (fl : List (FEv L D)) (er : List L),
    updsOn l (erase er fl) = updsOn l (unflag fl) := by
  intro fl
  induction fl with
  | nil => intro er; rfl
  | cons a fl ih =>
    intro er
    obtain ⟨b, e⟩ := a
    cases e with
    | acq x =>
      cases b <;> simp [erase, unflag, updsOn] <;> simpa [unflag] using ih _
    | rel x =>
      cases hc : er.contains x
      · simp only [erase, hc, unflag, List.map_cons, updsOn, Bool.false_eq_true, if_false]; simpa [unflag] using ih _
      · simp only [erase, hc, if_true, unflag, List.map_cons, updsOn]; simpa [unflag] using ih _
    | upd x f =>
      by_cases hx : x = l
      · simp only [erase, unflag, List.map_cons, updsOn, hx, if_true]; congr 1; simpa [unflag] using ih er
      · simp only [erase, unflag, List.map_cons, updsOn, hx, if_false]; simpa [unflag] using ih er

/-- sequentially, a request and its erasure do the same to the data -/
theorem runReq_erase (fl : List (FEv L D)) (m : L → D) : runReq m (erase [] fl) = runReq m (unflag fl) :=
  runReq_congr_updsOn _ _ (fun l => updsOn_erase l fl []) m

omit [DecidableEq L] in
theorem unflag_eq_nil {fl : List (FEv L D)} (h : unflag fl = []) : fl = [] := by
  cases fl with
  | nil => rfl
  | cons a r => simp [unflag] at h

theorem srel_init (mem0 : L → D) (freqs : List (List (FEv L D)))
    (hok : ∀ r ∈ freqs, eraseOk [] r = true) :
    SRel (mkState mem0 (freqs.map unflag)) (mkState mem0 (freqs.map (erase []))) := by
  refine ⟨rfl, by simp [mkState], ?_⟩
  intro i t t' hi hi'
  simp only [mkState, List.getElem?_map, List.map_map] at hi hi'
  cases hr : freqs[i]? with
  | none => simp [hr] at hi
  | some r =>
    simp only [hr, Option.map_some, Function.comp, Option.some.injEq] at hi hi'
    subst hi; subst hi'
    exact ⟨[], r, rfl, rfl, hok r (List.mem_of_getElem? hr), by simp, List.nodup_nil, List.nodup_nil, List.nodup_nil, by simp⟩

theorem srel_allDone {s s' : DState L D} (hrel : SRel s s') (hdone : allDone s) : allDone s' := by
  intro t' ht'
  obtain ⟨j, hj⟩ := List.getElem?_of_mem ht'
  obtain ⟨t, ht, er, fl, htodo, htodo', _⟩ := srel_corr' hrel hj
  have : fl = [] := unflag_eq_nil (by rw [← htodo]; exact hdone t (List.mem_of_getElem? ht))
  subst this
  rw [htodo']; rfl

end VlsModel.Locks2pl

/-! ### relabelling locks and forgetting update functions -/

namespace VlsModel.Locks2pl

variable {L L' D D' : Type} [DecidableEq L] [DecidableEq L']

/-- relabel the locks of an event with `g`, replace the update functions by `u` -/
def mapEv (g : L → L') (u : D' → D') : DEv L D → DEv L' D'
  | .acq l => .acq (g l)
  | .rel l => .rel (g l)
  | .upd l _ => .upd (g l) u

def mapF (g : L → L') (u : D' → D') (r : List (FEv L D)) : List (FEv L' D') :=
  r.map (fun e => (e.1, mapEv g u e.2))

theorem contains_map_inj (g : L → L') (hg : ∀ a b, g a = g b → a = b) (er : List L) (l : L) :
    (er.map g).contains (g l) = er.contains l := by
  induction er with
  | nil => rfl
  | cons a er ih =>
    rw [List.map_cons, List.contains_cons, List.contains_cons, ih]
    have hb : (g l == g a) = (l == a) := by
      rw [Bool.eq_iff_iff]
      simp only [beq_iff_eq]
      exact ⟨fun e => hg _ _ e, fun e => by rw [e]⟩
    rw [hb]

theorem erase_map_inj (g : L → L') (hg : ∀ a b, g a = g b → a = b) (er : List L) (l : L) :
    (er.erase l).map g = (er.map g).erase (g l) := by
  induction er with
  | nil => rfl
  | cons a er ih =>
    by_cases h : a = l
    · subst h
      rw [List.erase_cons_head, List.map_cons, List.erase_cons_head]
    · have h' : ¬ g a = g l := fun e => h (hg _ _ e)
      rw [List.erase_cons_tail (by simpa using h), List.map_cons, List.map_cons,
        List.erase_cons_tail (by simpa using h'), ih]

omit [DecidableEq L] [DecidableEq L'] in
theorem mapF_cons (g : L → L') (u : D' → D') (b : Bool) (ev : DEv L D) (r : List (FEv L D)) :
    mapF g u ((b, ev) :: r) = (b, mapEv g u ev) :: mapF g u r := rfl

omit [DecidableEq L] [DecidableEq L'] in
theorem onlyRels_map (g : L → L') (u : D' → D') : ∀ r : List (DEv L D),
    onlyRels (r.map (mapEv g u)) = onlyRels r
  | [] => rfl
  | .acq _ :: _ => rfl
  | .upd _ _ :: _ => rfl
  | .rel _ :: r => by simp only [List.map_cons, mapEv, onlyRels]; exact onlyRels_map g u r

omit [DecidableEq L] [DecidableEq L'] in
theorem strict2pl_map (g : L → L') (u : D' → D') : ∀ r : List (DEv L D),
    strict2pl (r.map (mapEv g u)) = strict2pl r
  | [] => rfl
  | .acq _ :: r => by simp only [List.map_cons, mapEv, strict2pl]; exact strict2pl_map g u r
  | .upd _ _ :: r => by simp only [List.map_cons, mapEv, strict2pl]; exact strict2pl_map g u r
  | .rel _ :: r => by simp only [List.map_cons, mapEv, strict2pl]; exact onlyRels_map g u r

omit [DecidableEq L] [DecidableEq L'] in
theorem hasRel_map (g : L → L') (u : D' → D') : ∀ r : List (DEv L D),
    hasRel (r.map (mapEv g u)) = hasRel r
  | [] => rfl
  | .acq _ :: r => by simp only [List.map_cons, mapEv, hasRel]; exact hasRel_map g u r
  | .upd _ _ :: r => by simp only [List.map_cons, mapEv, hasRel]; exact hasRel_map g u r
  | .rel _ :: _ => rfl

/-- erasure commutes with an injective relabelling of the locks -/
theorem erase_mapF (g : L → L') (hg : ∀ a b, g a = g b → a = b) (u : D' → D') :
    ∀ (r : List (FEv L D)) (er : List L),
      erase (er.map g) (mapF g u r) = (erase er r).map (mapEv g u) := by
  intro r
  induction r with
  | nil => intro er; rfl
  | cons e r ih =>
    intro er
    obtain ⟨b, ev⟩ := e
    rw [mapF_cons]
    cases ev with
    | acq l =>
      cases b with
      | true =>
        show erase (g l :: er.map g) (mapF g u r) = (erase (l :: er) r).map (mapEv g u)
        exact ih (l :: er)
      | false =>
        show DEv.acq (g l) :: erase (er.map g) (mapF g u r) = (DEv.acq l :: erase er r).map (mapEv g u)
        rw [ih er]; rfl
    | rel l =>
      show (if (er.map g).contains (g l) then erase ((er.map g).erase (g l)) (mapF g u r)
            else DEv.rel (g l) :: erase (er.map g) (mapF g u r)) =
           (if er.contains l then erase (er.erase l) r else DEv.rel l :: erase er r).map (mapEv g u)
      rw [contains_map_inj g hg]
      cases h : er.contains l
      · simp only [Bool.false_eq_true, if_false]
        rw [ih er]; rfl
      · simp only [if_true]
        rw [← erase_map_inj g hg]
        exact ih _
    | upd l f =>
      show DEv.upd (g l) u :: erase (er.map g) (mapF g u r) = (DEv.upd l f :: erase er r).map (mapEv g u)
      rw [ih er]; rfl

theorem eraseOk_mapF (g : L → L') (hg : ∀ a b, g a = g b → a = b) (u : D' → D') :
    ∀ (r : List (FEv L D)) (er : List L), eraseOk (er.map g) (mapF g u r) = eraseOk er r := by
  intro r
  induction r with
  | nil => intro er; rfl
  | cons e r ih =>
    intro er
    obtain ⟨b, ev⟩ := e
    rw [mapF_cons]
    cases ev with
    | acq l =>
      cases b with
      | true =>
        show eraseOk (g l :: er.map g) (mapF g u r) = eraseOk (l :: er) r
        exact ih (l :: er)
      | false =>
        show eraseOk (er.map g) (mapF g u r) = eraseOk er r
        exact ih er
    | rel l =>
      show (if (er.map g).contains (g l) then eraseOk ((er.map g).erase (g l)) (mapF g u r)
            else eraseOk (er.map g) (mapF g u r)) =
           (if er.contains l then eraseOk (er.erase l) r else eraseOk er r)
      rw [contains_map_inj g hg]
      cases h : er.contains l
      · simp only [Bool.false_eq_true, if_false]
        exact ih er
      · simp only [if_true]
        rw [← erase_map_inj g hg]
        exact ih _
    | upd l f =>
      show (!(er.map g).contains (g l) && eraseOk (er.map g) (mapF g u r)) = (!er.contains l && eraseOk er r)
      rw [contains_map_inj g hg, ih er]

end VlsModel.Locks2pl
