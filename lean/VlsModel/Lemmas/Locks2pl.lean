import VlsModel.Model.Locks2pl
/-
Serializability of strict two-phase requests in the lock model with data: the data after any
complete interleaved execution equals the data after running the requests sequentially in the order
of their first releases (`commits`).
-/
namespace VlsModel.Locks2pl

variable {L D : Type} [DecidableEq L]

/-! ### small facts -/

omit [DecidableEq L] in
theorem app_nil (d : D) : app d [] = d := rfl

omit [DecidableEq L] in
theorem app_append (d : D) (a b : List (D → D)) : app d (a ++ b) = app (app d a) b := by
  simp [app, List.foldl_append]

theorem updsOn_append (l : L) (a b : List (DEv L D)) :
    updsOn l (a ++ b) = updsOn l a ++ updsOn l b := by
  induction a with
  | nil => rfl
  | cons e r ih =>
    cases e with
    | acq x => simpa [updsOn] using ih
    | rel x => simpa [updsOn] using ih
    | upd x f =>
      by_cases h : x = l
      · simp [updsOn, h, ih]
      · simp [updsOn, h, ih]

theorem updsOn_onlyRels (l : L) : ∀ r : List (DEv L D), onlyRels r = true → updsOn l r = [] := by
  intro r
  induction r with
  | nil => intro _; rfl
  | cons e r ih =>
    intro h
    cases e with
    | acq x => simp [onlyRels] at h
    | upd x f => simp [onlyRels] at h
    | rel x => simpa [updsOn] using ih (by simpa [onlyRels] using h)

theorem runReq_apply (l : L) : ∀ (r : List (DEv L D)) (m : L → D),
    runReq m r l = app (m l) (updsOn l r) := by
  intro r
  induction r with
  | nil => intro m; rfl
  | cons e r ih =>
    intro m
    cases e with
    | acq x => simpa [runReq, updsOn] using ih m
    | rel x => simpa [runReq, updsOn] using ih m
    | upd x f =>
      by_cases h : x = l
      · subst h
        simp [runReq, updsOn, ih, setMem, app]
      · have hl : ¬ l = x := fun e => h e.symm
        simp [runReq, updsOn, ih, setMem, h, hl]

theorem get_set {ts : List (DThread L D)} {i j : Nat} {t x u : DThread L D}
    (hi : ts[i]? = some t) (h : (ts.set i x)[j]? = some u) :
    (j = i ∧ u = x) ∨ (j ≠ i ∧ ts[j]? = some u) := by
  rw [List.getElem?_set] at h
  by_cases hij : i = j
  · subst hij
    have hlt : i < ts.length := by
      rcases Nat.lt_or_ge i ts.length with h' | h'
      · exact h'
      · simp [h'] at hi
    simp [hlt] at h
    exact Or.inl ⟨rfl, h.symm⟩
  · simp [hij] at h
    exact Or.inr ⟨fun e => hij e.symm, h⟩

theorem get_set_self {ts : List (DThread L D)} {i : Nat} {t x : DThread L D}
    (hi : ts[i]? = some t) : (ts.set i x)[i]? = some x := by
  have hlt : i < ts.length := by
    rcases Nat.lt_or_ge i ts.length with h' | h'
    · exact h'
    · simp [h'] at hi
  simp [hlt]

theorem get_set_ne {ts : List (DThread L D)} {i j : Nat} {x : DThread L D} (h : j ≠ i) :
    (ts.set i x)[j]? = ts[j]? := by
  rw [List.getElem?_set]
  have : ¬ i = j := fun e => h e.symm
  simp [this]

theorem reqAt_set {ts : List (DThread L D)} {i : Nat} {t x : DThread L D}
    (hi : ts[i]? = some t) (hreq : x.req = t.req) (j : Nat) :
    reqAt (ts.set i x) j = reqAt ts j := by
  unfold reqAt
  by_cases hji : j = i
  · subst hji
    rw [get_set_self hi, hi]; exact hreq
  · rw [get_set_ne hji]

theorem serialMem_congr (mem0 : L → D) {ts ts' : List (DThread L D)}
    (h : ∀ j, reqAt ts' j = reqAt ts j) (order : List Nat) :
    serialMem mem0 ts' order = serialMem mem0 ts order := by
  unfold serialMem
  have : (fun (m : L → D) (i : Nat) => runReq m (reqAt ts' i)) = (fun m i => runReq m (reqAt ts i)) := by
    funext m i; rw [h i]
  rw [this]

theorem serialMem_snoc (mem0 : L → D) (ts : List (DThread L D)) (o : List Nat) (i : Nat) :
    serialMem mem0 ts (o ++ [i]) = runReq (serialMem mem0 ts o) (reqAt ts i) := by
  simp [serialMem, List.foldl_append]

theorem isFree_spec {ts : List (DThread L D)} {l : L} (h : isFree ts l = true) :
    ∀ u ∈ ts, l ∉ u.held := by
  unfold isFree at h
  rw [List.all_eq_true] at h
  intro u hu
  simpa using h u hu

/-! ### invariants -/

/-- thread-local invariant -/
def TInv (t : DThread L D) : Prop :=
  t.req = t.done ++ t.todo ∧
  (t.committed = true → onlyRels t.todo = true) ∧
  (t.committed = false → strict2pl t.todo = true ∧ hasRel t.todo = true ∧
      (∀ l, updsOn l t.done ≠ [] → l ∈ t.held))

structure Inv (mem0 : L → D) (ts0 : List (DThread L D)) (s : DState L D) : Prop where
  tinv : ∀ t ∈ s.threads, TInv t
  excl : ∀ (i j : Nat) (ti tj : DThread L D), s.threads[i]? = some ti → s.threads[j]? = some tj → i ≠ j →
    ∀ l, l ∈ ti.held → l ∉ tj.held
  cnodup : s.commits.Nodup
  cmem : ∀ i, i ∈ s.commits ↔ ∃ t, s.threads[i]? = some t ∧ t.committed = true
  reqs_same : ∀ i, reqAt s.threads i = reqAt ts0 i
  len : s.threads.length = ts0.length
  memA : ∀ l, (∀ (j : Nat) (tj : DThread L D), s.threads[j]? = some tj → tj.committed = false → l ∉ tj.held) →
    s.mem l = serialMem mem0 s.threads s.commits l
  memB : ∀ (l : L) (j : Nat) (tj : DThread L D), s.threads[j]? = some tj → tj.committed = false → l ∈ tj.held →
    s.mem l = app (serialMem mem0 s.threads s.commits l) (updsOn l tj.done)

theorem stepAt_cases {s s' : DState L D} {i : Nat} (h : stepAt s i = some s') :
    ∃ t, s.threads[i]? = some t ∧
      ((∃ l r, t.todo = .acq l :: r ∧ isFree s.threads l = true ∧
          s' = { threads := s.threads.set i { t with held := l :: t.held, done := t.done ++ [.acq l], todo := r },
                 mem := s.mem, commits := s.commits }) ∨
       (∃ l f r, t.todo = .upd l f :: r ∧ t.held.contains l = true ∧
          s' = { threads := s.threads.set i { t with done := t.done ++ [.upd l f], todo := r },
                 mem := setMem s.mem l (f (s.mem l)), commits := s.commits }) ∨
       (∃ l r, t.todo = .rel l :: r ∧
          s' = { threads := s.threads.set i { t with held := t.held.erase l, done := t.done ++ [.rel l], todo := r, committed := true },
                 mem := s.mem,
                 commits := if t.committed then s.commits else s.commits ++ [i] })) := by
  unfold stepAt at h
  cases hi : s.threads[i]? with
  | none => simp [hi] at h
  | some t =>
    refine ⟨t, rfl, ?_⟩
    simp only [hi] at h
    cases ht : t.todo with
    | nil => simp [ht] at h
    | cons e r =>
      simp only [ht] at h
      cases e with
      | acq l =>
        by_cases hf : isFree s.threads l = true
        · simp [hf] at h; exact Or.inl ⟨l, r, rfl, hf, h.symm⟩
        · simp [hf] at h
      | upd l f =>
        by_cases hc : t.held.contains l = true
        · have hc' : l ∈ t.held := by simpa using hc
          simp [hc'] at h
          exact Or.inr (Or.inl ⟨l, f, r, rfl, hc, h.symm⟩)
        · have hc' : l ∉ t.held := by simpa using hc
          simp [hc'] at h
      | rel l =>
        simp only [Option.some.injEq] at h
        exact Or.inr (Or.inr ⟨l, r, rfl, h.symm⟩)

/-- exclusion is preserved when thread `i` only gains locks that were free, or keeps/loses locks -/
theorem excl_set {ts : List (DThread L D)} {i : Nat} {t x : DThread L D}
    (hi : ts[i]? = some t)
    (excl : ∀ (i j : Nat) (ti tj : DThread L D), ts[i]? = some ti → ts[j]? = some tj → i ≠ j →
      ∀ l, l ∈ ti.held → l ∉ tj.held)
    (hsub : ∀ l ∈ x.held, l ∈ t.held ∨ ∀ u ∈ ts, l ∉ u.held) :
    ∀ (a b : Nat) (ta tb : DThread L D), (ts.set i x)[a]? = some ta → (ts.set i x)[b]? = some tb → a ≠ b →
      ∀ l, l ∈ ta.held → l ∉ tb.held := by
  intro a b ta tb ha hb hab l hl
  rcases get_set hi ha with ⟨rfl, rfl⟩ | ⟨hai, ha'⟩
  · rcases get_set hi hb with ⟨rfl, _⟩ | ⟨_, hb'⟩
    · exact absurd rfl hab
    · rcases hsub l hl with h | h
      · exact excl _ _ _ _ hi hb' hab l h
      · exact h tb (List.mem_of_getElem? hb')
  · rcases get_set hi hb with ⟨rfl, rfl⟩ | ⟨_, hb'⟩
    · intro hl'
      rcases hsub l hl' with h | h
      · exact excl _ _ _ _ ha' hi hab l hl h
      · exact h ta (List.mem_of_getElem? ha') hl
    · exact excl _ _ _ _ ha' hb' hab l hl

/-- the set of committed thread indices does not change when the flag of thread `i` is kept -/
theorem committed_set {ts : List (DThread L D)} {i : Nat} {t x : DThread L D}
    (hi : ts[i]? = some t) (hc : x.committed = t.committed) (k : Nat) :
    (∃ u, (ts.set i x)[k]? = some u ∧ u.committed = true) ↔ (∃ u, ts[k]? = some u ∧ u.committed = true) := by
  constructor
  · rintro ⟨u, hu, huc⟩
    rcases get_set hi hu with ⟨rfl, rfl⟩ | ⟨_, hu'⟩
    · exact ⟨t, hi, by rw [← hc]; exact huc⟩
    · exact ⟨u, hu', huc⟩
  · rintro ⟨u, hu, huc⟩
    by_cases hk : k = i
    · subst hk
      rw [hi] at hu; cases hu
      exact ⟨x, get_set_self hi, by rw [hc]; exact huc⟩
    · exact ⟨u, by rw [get_set_ne hk]; exact hu, huc⟩

theorem uncommitted_of_head {t : DThread L D} (ht : TInv t) {e : DEv L D} {r : List (DEv L D)}
    (htodo : t.todo = e :: r) (hne : ∀ l, e ≠ .rel l) : t.committed = false := by
  cases hc : t.committed with
  | false => rfl
  | true =>
    have := ht.2.1 hc
    rw [htodo] at this
    cases e with
    | rel l => exact absurd rfl (hne l)
    | acq l => simp [onlyRels] at this
    | upd l f => simp [onlyRels] at this

/-- **The invariant is preserved by every step.** -/
theorem inv_step (mem0 : L → D) (ts0 : List (DThread L D)) {s s' : DState L D}
    (inv : Inv mem0 ts0 s) (h : Step s s') : Inv mem0 ts0 s' := by
  obtain ⟨i, hstep⟩ := h
  obtain ⟨t, hi, hc⟩ := stepAt_cases hstep
  have htm : t ∈ s.threads := List.mem_of_getElem? hi
  have ht := inv.tinv t htm
  rcases hc with ⟨l, r, htodo, hfree, rfl⟩ | ⟨l, f, r, htodo, hheld, rfl⟩ | ⟨l, r, htodo, rfl⟩
  · -- acquire
    have hunc : t.committed = false := uncommitted_of_head ht htodo (by intro x; simp)
    have hfr := isFree_spec hfree
    obtain ⟨hreq, _, hun⟩ := ht
    obtain ⟨hstrict, hrel, hupds⟩ := hun hunc
    have hreqs : ∀ j, reqAt (s.threads.set i { t with held := l :: t.held, done := t.done ++ [.acq l], todo := r }) j
        = reqAt s.threads j := reqAt_set hi rfl
    have hser := serialMem_congr mem0 hreqs s.commits
    have hlnot : updsOn l t.done = [] := by
      apply Classical.byContradiction
      intro hne
      exact hfr t htm (hupds l hne)
    refine ⟨?_, ?_, inv.cnodup, ?_, ?_, ?_, ?_, ?_⟩
    · intro u hu
      rcases List.mem_or_eq_of_mem_set hu with hu | rfl
      · exact inv.tinv u hu
      · refine ⟨by simp [hreq, htodo], by intro hc; simp [hunc] at hc, ?_⟩
        intro _
        refine ⟨by simpa [htodo, strict2pl] using hstrict, by simpa [htodo, hasRel] using hrel, ?_⟩
        intro x hx
        have : updsOn x t.done ≠ [] := by simpa [updsOn_append, updsOn] using hx
        exact List.mem_cons_of_mem _ (hupds x this)
    · exact excl_set hi inv.excl (by
        intro x hx
        rcases List.mem_cons.mp hx with rfl | hx
        · exact Or.inr hfr
        · exact Or.inl hx)
    · intro k
      rw [inv.cmem k]
      exact (committed_set (x := { t with held := l :: t.held, done := t.done ++ [.acq l], todo := r })
        hi rfl k).symm
    · intro j; rw [hreqs j]; exact inv.reqs_same j
    · simp [inv.len]
    · intro x hx
      show s.mem x = _
      rw [hser]
      apply inv.memA x
      intro j tj hj hjc
      by_cases hji : j = i
      · subst hji
        rw [hi] at hj; cases hj
        intro hmem
        exact hx j _ (get_set_self hi) hunc (List.mem_cons_of_mem _ hmem)
      · exact hx j tj (by rw [get_set_ne hji]; exact hj) hjc
    · intro x j tj hj hjc hxh
      show s.mem x = _
      rw [hser]
      rcases get_set hi hj with ⟨rfl, rfl⟩ | ⟨_, hj'⟩
      · have hupd : updsOn x (t.done ++ [DEv.acq l]) = updsOn x t.done := by simp [updsOn_append, updsOn]
        show s.mem x = app _ (updsOn x (t.done ++ [DEv.acq l]))
        rw [hupd]
        rcases List.mem_cons.mp hxh with rfl | hxh
        · rw [hlnot, app_nil]
          apply inv.memA
          intro k tk hk _
          exact hfr tk (List.mem_of_getElem? hk)
        · exact inv.memB x j t hi hunc hxh
      · exact inv.memB x j tj hj' hjc hxh
  · -- update
    have hunc : t.committed = false := uncommitted_of_head ht htodo (by intro x; simp)
    have hlheld : l ∈ t.held := by simpa using hheld
    obtain ⟨hreq, _, hun⟩ := ht
    obtain ⟨hstrict, hrel, hupds⟩ := hun hunc
    have hreqs : ∀ j, reqAt (s.threads.set i { t with done := t.done ++ [.upd l f], todo := r }) j
        = reqAt s.threads j := reqAt_set hi rfl
    have hser := serialMem_congr mem0 hreqs s.commits
    refine ⟨?_, ?_, inv.cnodup, ?_, ?_, ?_, ?_, ?_⟩
    · intro u hu
      rcases List.mem_or_eq_of_mem_set hu with hu | rfl
      · exact inv.tinv u hu
      · refine ⟨by simp [hreq, htodo], by intro hc; simp [hunc] at hc, ?_⟩
        intro _
        refine ⟨by simpa [htodo, strict2pl] using hstrict, by simpa [htodo, hasRel] using hrel, ?_⟩
        intro x hx
        by_cases hxl : l = x
        · subst hxl; exact hlheld
        · have : updsOn x t.done ≠ [] := by simpa [updsOn_append, updsOn, hxl] using hx
          exact hupds x this
    · exact excl_set hi inv.excl (by intro x hx; exact Or.inl hx)
    · intro k
      rw [inv.cmem k]
      exact (committed_set (x := { t with done := t.done ++ [.upd l f], todo := r }) hi rfl k).symm
    · intro j; rw [hreqs j]; exact inv.reqs_same j
    · simp [inv.len]
    · intro x hx
      have hxl : ¬ x = l := by
        intro e; subst e
        exact hx i { t with done := t.done ++ [.upd x f], todo := r } (get_set_self hi) hunc hlheld
      show setMem s.mem l (f (s.mem l)) x = _
      rw [hser]
      simp only [setMem, hxl, if_false]
      apply inv.memA x
      intro j tj hj hjc
      by_cases hji : j = i
      · subst hji
        rw [hi] at hj; cases hj
        exact hx j { t with done := t.done ++ [.upd l f], todo := r } (get_set_self hi) hunc
      · exact hx j tj (by rw [get_set_ne hji]; exact hj) hjc
    · intro x j tj hj hjc hxh
      show setMem s.mem l (f (s.mem l)) x = _
      rw [hser]
      rcases get_set hi hj with ⟨rfl, rfl⟩ | ⟨hji, hj'⟩
      · show _ = app _ (updsOn x (t.done ++ [DEv.upd l f]))
        by_cases hxl : x = l
        · subst hxl
          have : updsOn x (t.done ++ [DEv.upd x f]) = updsOn x t.done ++ [f] := by
            simp [updsOn_append, updsOn]
          rw [this, app_append]
          simp only [setMem, if_true]
          rw [inv.memB x j t hi hunc hxh]
          rfl
        · have hlx : ¬ l = x := fun e => hxl e.symm
          have : updsOn x (t.done ++ [DEv.upd l f]) = updsOn x t.done := by
            simp [updsOn_append, updsOn, hlx]
          rw [this]
          simp only [setMem, hxl, if_false]
          exact inv.memB x j t hi hunc hxh
      · have hxl : ¬ x = l := by
          intro e; subst e
          exact inv.excl i j t tj hi hj' (fun e => hji e.symm) x hlheld hxh
        simp only [setMem, hxl, if_false]
        exact inv.memB x j tj hj' hjc hxh
  · -- release
    obtain ⟨hreq, hcom, hun⟩ := ht
    have hreqs : ∀ j, reqAt (s.threads.set i
        { t with held := t.held.erase l, done := t.done ++ [.rel l], todo := r, committed := true }) j
        = reqAt s.threads j := reqAt_set hi rfl
    have honly : onlyRels r = true := by
      cases hc : t.committed with
      | true => have := hcom hc; rw [htodo] at this; simpa [onlyRels] using this
      | false => have := (hun hc).1; rw [htodo] at this; simpa [strict2pl] using this
    have hexcl := excl_set (x := { t with held := t.held.erase l, done := t.done ++ [.rel l], todo := r, committed := true })
      hi inv.excl (by intro x hx; exact Or.inl (List.mem_of_mem_erase hx))
    have htinv : ∀ u ∈ s.threads.set i
        { t with held := t.held.erase l, done := t.done ++ [.rel l], todo := r, committed := true }, TInv u := by
      intro u hu
      rcases List.mem_or_eq_of_mem_set hu with hu | rfl
      · exact inv.tinv u hu
      · exact ⟨by simp [hreq, htodo], fun _ => honly, by intro hc; simp at hc⟩
    cases hc : t.committed with
    | true =>
      -- a later release of an already committed thread
      have hser := serialMem_congr mem0 hreqs s.commits
      refine ⟨htinv, hexcl, by simpa [hc] using inv.cnodup, ?_, ?_, by simp [inv.len], ?_, ?_⟩
      · intro k
        simp only [hc, if_true]
        rw [inv.cmem k]
        exact (committed_set (x := { t with held := t.held.erase l, done := t.done ++ [.rel l], todo := r, committed := true })
          hi (by simp [hc]) k).symm
      · intro j; rw [hreqs j]; exact inv.reqs_same j
      · intro x hx
        show s.mem x = _
        simp only [hc, if_true]
        rw [hser]
        apply inv.memA x
        intro j tj hj hjc
        by_cases hji : j = i
        · subst hji
          rw [hi] at hj; cases hj
          rw [hc] at hjc; cases hjc
        · exact hx j tj (by rw [get_set_ne hji]; exact hj) hjc
      · intro x j tj hj hjc hxh
        show s.mem x = _
        simp only [hc, if_true]
        rw [hser]
        rcases get_set hi hj with ⟨rfl, rfl⟩ | ⟨_, hj'⟩
        · simp at hjc
        · exact inv.memB x j tj hj' hjc hxh
    | false =>
      -- the first release: thread i commits
      obtain ⟨_, _, hupds⟩ := hun hc
      have hinotin : i ∉ s.commits := by
        intro hmem
        obtain ⟨u, hu, huc⟩ := (inv.cmem i).mp hmem
        rw [hi] at hu; cases hu
        rw [hc] at huc; cases huc
      have hreqi : reqAt s.threads i = t.done ++ DEv.rel l :: r := by
        unfold reqAt; rw [hi]; show t.req = _; rw [hreq, htodo]
      have hser : ∀ x, serialMem mem0 (s.threads.set i
          { t with held := t.held.erase l, done := t.done ++ [.rel l], todo := r, committed := true })
          (s.commits ++ [i]) x = app (serialMem mem0 s.threads s.commits x) (updsOn x t.done) := by
        intro x
        rw [serialMem_congr mem0 hreqs, serialMem_snoc, runReq_apply, hreqi, updsOn_append]
        have : updsOn x (DEv.rel l :: r) = [] := by
          simpa [updsOn] using updsOn_onlyRels x r honly
        rw [this, List.append_nil]
      have hnoupd : ∀ x, x ∉ t.held → updsOn x t.done = [] := by
        intro x hx
        apply Classical.byContradiction
        intro hne
        exact hx (hupds x hne)
      refine ⟨htinv, hexcl, ?_, ?_, ?_, by simp [inv.len], ?_, ?_⟩
      · simp only [hc, Bool.false_eq_true, if_false]
        rw [List.nodup_append]
        refine ⟨inv.cnodup, by simp, ?_⟩
        intro a ha b hb
        simp at hb; subst hb
        intro e; subst e; exact hinotin ha
      · intro k
        simp only [hc, Bool.false_eq_true, if_false]
        rw [List.mem_append]
        constructor
        · rintro (hk | hk)
          · obtain ⟨u, hu, huc⟩ := (inv.cmem k).mp hk
            have hki : k ≠ i := by
              intro e; subst e
              rw [hi] at hu; cases hu
              rw [hc] at huc; cases huc
            exact ⟨u, by rw [get_set_ne hki]; exact hu, huc⟩
          · simp at hk; subst hk
            exact ⟨_, get_set_self hi, rfl⟩
        · rintro ⟨u, hu, huc⟩
          rcases get_set hi hu with ⟨rfl, _⟩ | ⟨_, hu'⟩
          · exact Or.inr (by simp)
          · exact Or.inl ((inv.cmem k).mpr ⟨u, hu', huc⟩)
      · intro j; rw [hreqs j]; exact inv.reqs_same j
      · intro x hx
        show s.mem x = _
        simp only [hc, Bool.false_eq_true, if_false]
        rw [hser x]
        by_cases hxh : x ∈ t.held
        · exact inv.memB x i t hi hc hxh
        · rw [hnoupd x hxh, app_nil]
          apply inv.memA x
          intro j tj hj hjc
          by_cases hji : j = i
          · subst hji
            rw [hi] at hj; cases hj
            exact hxh
          · exact hx j tj (by rw [get_set_ne hji]; exact hj) hjc
      · intro x j tj hj hjc hxh
        show s.mem x = _
        simp only [hc, Bool.false_eq_true, if_false]
        rw [hser x]
        rcases get_set hi hj with ⟨rfl, rfl⟩ | ⟨hji, hj'⟩
        · simp at hjc
        · have hxt : x ∉ t.held := by
            intro hxt
            exact inv.excl i j t tj hi hj' (fun e => hji e.symm) x hxt hxh
          rw [hnoupd x hxt, app_nil]
          exact inv.memB x j tj hj' hjc hxh

theorem inv_steps (mem0 : L → D) (ts0 : List (DThread L D)) {n : Nat} {s s' : DState L D}
    (h : Steps n s s') : Inv mem0 ts0 s → Inv mem0 ts0 s' := by
  induction h with
  | refl => exact id
  | tail _ hs ih => intro hinv; exact inv_step mem0 ts0 (ih hinv) hs

theorem inv_init (mem0 : L → D) (reqs : List (List (DEv L D)))
    (hstrict : ∀ r ∈ reqs, strict2pl r = true) (hrel : ∀ r ∈ reqs, hasRel r = true) :
    Inv mem0 (mkState mem0 reqs).threads (mkState mem0 reqs) := by
  have hth : ∀ t ∈ (mkState mem0 reqs).threads, ∃ r ∈ reqs, t = ⟨[], [], r, r, false⟩ := by
    intro t ht
    unfold mkState at ht
    obtain ⟨r, hr, rfl⟩ := List.mem_map.mp ht
    exact ⟨r, hr, rfl⟩
  refine ⟨?_, ?_, by simp [mkState], ?_, fun _ => rfl, rfl, ?_, ?_⟩
  · intro t ht
    obtain ⟨r, hr, rfl⟩ := hth t ht
    exact ⟨by simp, by intro hc; simp at hc, fun _ => ⟨hstrict r hr, hrel r hr, by intro l h; simp [updsOn] at h⟩⟩
  · intro i j ti tj hi _ _ l hl
    obtain ⟨r, _, rfl⟩ := hth ti (List.mem_of_getElem? hi)
    simp at hl
  · intro i
    constructor
    · intro h; simp [mkState] at h
    · rintro ⟨t, ht, hc⟩
      obtain ⟨r, _, rfl⟩ := hth t (List.mem_of_getElem? ht)
      simp at hc
  · intro l _; rfl
  · intro l j tj hj _ hl
    obtain ⟨r, _, rfl⟩ := hth tj (List.mem_of_getElem? hj)
    simp at hl

end VlsModel.Locks2pl
