import VlsModel.Lemmas.EnforcementC02
/-
Helper lemmas for C03: the counterparty side of the enforcement state.  No Mathlib.
-/
namespace VlsModel.Enforcement
open VlsModel VlsModel.Secrets

/-- the counterparty-side fields -/
def cpPart (c : Chan) : Nat × Nat × Option Nat × Option Nat × Option Nat × Option Nat × Option (Store Bytes) :=
  (c.cpCommit, c.cpRevoke, c.curPt, c.prevPt, c.curInfo, c.prevInfo, c.secrets)

theorem cpPart_validate (c : Chan) (n info : Nat) (sv : SigFact) (pk : Bool) :
    cpPart (validate c n info sv pk).c = cpPart c := by
  unfold validate fail cpPart
  try dsimp only
  repeat' split
  all_goals rfl

theorem cpPart_revoke (c : Chan) (n : Nat) : cpPart (revoke c n).c = cpPart c := by
  unfold revoke fail cpPart
  dsimp only
  repeat' split
  all_goals rfl

theorem cpPart_revokeP (c : Chan) (n : Nat) (po : Bool) : cpPart (revokeP c n po).c = cpPart c := by
  rcases revokeP_cases c n po with e | e <;> rw [e]
  · exact cpPart_revoke c n
  · rfl

theorem cpPart_activate (c : Chan) : cpPart (activate c).c = cpPart c := by
  unfold activate fail cpPart
  repeat' split
  all_goals rfl

theorem cpPart_signHolder (c : Chan) (n : Nat) : cpPart (signHolder c n).c = cpPart c := by
  unfold signHolder fail cpPart
  repeat' split
  all_goals rfl

theorem cpPart_signRecovery (c : Chan) : cpPart (signRecovery c).c = cpPart c := by
  unfold signRecovery fail cpPart
  repeat' split
  all_goals rfl

theorem cpPart_signRedundant (c : Chan) (n info : Nat) (pk : Bool) :
    cpPart (signRedundant c n info pk).c = cpPart c := by
  unfold signRedundant fail cpPart
  repeat' split
  all_goals rfl

theorem cpPart_signMutualClose (c : Chan) (pk : Bool) : cpPart (signMutualClose c pk).c = cpPart c := by
  unfold signMutualClose fail cpPart
  repeat' split
  all_goals rfl

theorem cpPart_needReady (c : Chan) (f : Chan → R) (hf : cpPart (f c).c = cpPart c) :
    cpPart (needReady c f).c = cpPart c := by
  unfold needReady
  split
  · rfl
  · exact hf

/-- requests other than sign-counterparty / counterparty-revocation leave the counterparty side alone -/
theorem chanStep_cpPart (F : Nat → Bytes → Bytes) (c : Chan) (hs : StubFresh c) (op : Op)
    (h1 : ∀ n pt info pk, op ≠ .signCp n pt info pk) (h2 : ∀ n s pt, op ≠ .revokeCp n s pt) :
    cpPart (chanStep F c op).c = cpPart c := by
  cases op with
  | setup =>
    simp only [chanStep]
    split
    · rename_i hst; rw [hs hst]; rfl
    · rfl
  | getPoint n => rfl
  | getSecret n => rfl
  | getSecretOrNone n => rfl
  | validate n info sv pk => exact cpPart_needReady c (validate · n info sv pk) (cpPart_validate c n info sv pk)
  | revoke n po => exact cpPart_needReady c (revokeP · n po) (cpPart_revokeP c n po)
  | activate => exact cpPart_needReady c activate (cpPart_activate c)
  | signHolder n => exact cpPart_needReady c (signHolder · n) (cpPart_signHolder c n)
  | signRecovery => exact cpPart_needReady c signRecovery (cpPart_signRecovery c)
  | signRedundant n info pk => exact cpPart_needReady c (signRedundant · n info pk) (cpPart_signRedundant c n info pk)
  | signMutualClose pk => exact cpPart_needReady c (signMutualClose · pk) (cpPart_signMutualClose c pk)
  | signCp n pt info pk => exact absurd rfl (h1 n pt info pk)
  | revokeCp n s pt => exact absurd rfl (h2 n s pt)
  | restart => rfl
  | hValidate ver n info sv pk =>
    simp only [chanStep]
    apply cpPart_needReady
    unfold andThen
    split
    · dsimp only
      split
      · rw [cpPart_revoke, cpPart_validate]
      · split
        · split <;> exact cpPart_validate c n info sv pk
        · rw [cpPart_activate, cpPart_validate]
    · exact cpPart_validate c n info sv pk
  | hRevoke ver n po =>
    simp only [chanStep]
    split
    · rfl
    · apply cpPart_needReady
      split
      · rfl
      · split
        · exact cpPart_revokeP c (n + 1) po
        · exact cpPart_revokeP c (n + 1) po
  | hGetPoint ver n =>
    simp only [chanStep]
    repeat' split
    all_goals rfl
  | hGetPoint2 n => rfl

/-- what an accepted `sign_counterparty_commitment_tx` did -/
theorem signCp_ok {c : Chan} {n pt info : Nat} {pk : Bool} (h : (signCp c n pt info pk).out.res = .ok) :
    n ≤ c.cpRevoke + 1 ∧ c.cpRevoke + 1 ≤ n + 1 ∧
    ((n = c.cpCommit ∧ cpPart (signCp c n pt info pk).c =
        (n + 1, c.cpRevoke, some pt, c.curPt, some info, c.curInfo, c.secrets)) ∨
     (n + 1 = c.cpCommit ∧ c.curPt = some pt ∧ c.curInfo = some info ∧ (signCp c n pt info pk).c = c)) := by
  revert h
  unfold signCp fail
  dsimp only
  repeat' split
  all_goals intro h
  all_goals simp at h
  all_goals simp_all [cpPart]
  all_goals omega

theorem signCp_notok {c : Chan} {n pt info : Nat} {pk : Bool} (h : (signCp c n pt info pk).out.res ≠ .ok) :
    (signCp c n pt info pk).c = c := by
  revert h
  unfold signCp fail
  dsimp only
  repeat' split
  all_goals intro h
  all_goals simp at h
  all_goals rfl

/-- what an accepted `validate_counterparty_revocation` did -/
theorem revokeCp_ok {F : Nat → Bytes → Bytes} {c : Chan} {n : Nat} {s : Bytes} {pt : Nat}
    (h : (revokeCp F c n s pt).out.res = .ok) :
    (n = c.cpRevoke ∨ n + 1 = c.cpRevoke) ∧ prevPoint c n = some pt ∧
    n + 2 ≤ c.cpCommit ∧ c.cpCommit ≤ n + 3 ∧
    (revokeCp F c n s pt).c.cpCommit = c.cpCommit ∧ (revokeCp F c n s pt).c.cpRevoke = n + 1 ∧
    (revokeCp F c n s pt).c.curPt = c.curPt ∧ (revokeCp F c n s pt).c.prevPt = c.prevPt ∧
    (revokeCp F c n s pt).c.curInfo = c.curInfo := by
  revert h
  unfold revokeCp fail
  dsimp only
  repeat' split
  all_goals intro h
  all_goals simp at h
  all_goals simp_all
  all_goals omega

theorem revokeCp_notok {F : Nat → Bytes → Bytes} {c : Chan} {n : Nat} {s : Bytes} {pt : Nat}
    (h : (revokeCp F c n s pt).out.res ≠ .ok) : (revokeCp F c n s pt).c = c := by
  revert h
  unfold revokeCp fail
  dsimp only
  repeat' split
  all_goals intro h
  all_goals simp at h
  all_goals rfl

/-! ### ghost ledger of the counterparty side -/

/-- a `sign_counterparty_commitment_tx` for number `n` with point `pt` and content `info` was accepted -/
def CpSigned (h : Hist) (n pt info : Nat) : Prop :=
  ∃ e ∈ h, (∃ pk, e.1 = .signCp n pt info pk) ∧ e.2.res = .ok
/-- a revocation of number `n` by a secret whose point is `pt` was accepted -/
def CpRevoked (h : Hist) (n pt : Nat) : Prop :=
  ∃ e ∈ h, (∃ sec, e.1 = .revokeCp n sec pt) ∧ e.2.res = .ok

theorem CpSigned.mono {h : Hist} {n pt info : Nat} (e : Op × Out) (a : CpSigned h n pt info) :
    CpSigned (e :: h) n pt info := by
  obtain ⟨x, hx, hv⟩ := a
  exact ⟨x, List.mem_cons_of_mem _ hx, hv⟩

theorem CpRevoked.mono {h : Hist} {n pt : Nat} (e : Op × Out) (a : CpRevoked h n pt) :
    CpRevoked (e :: h) n pt := by
  obtain ⟨x, hx, hv⟩ := a
  exact ⟨x, List.mem_cons_of_mem _ hx, hv⟩

theorem cpSigned_cons {h : Hist} {n pt info : Nat} {e : Op × Out} :
    CpSigned (e :: h) n pt info ↔ (((∃ pk, e.1 = .signCp n pt info pk) ∧ e.2.res = .ok) ∨ CpSigned h n pt info) := by
  constructor
  · rintro ⟨x, hx, hv⟩
    rcases List.mem_cons.mp hx with rfl | hx
    · exact Or.inl hv
    · exact Or.inr ⟨x, hx, hv⟩
  · rintro (hv | a)
    · exact ⟨e, List.mem_cons_self, hv⟩
    · exact a.mono e

/-- C03 invariant (on the in-memory channel; the persisted copy has the same counterparty side) -/
structure L (s : Sys) (h : Hist) : Prop where
  fresh : StubFresh s.mem
  freshd : StubFresh s.disk
  sync : cpPart s.disk = cpPart s.mem
  w0 : s.mem.cpCommit = 0 → s.mem.cpRevoke = 0
  w1 : s.mem.cpCommit ≥ 1 → s.mem.cpRevoke + 1 ≤ s.mem.cpCommit ∧ s.mem.cpCommit ≤ s.mem.cpRevoke + 2
  c1 : ∀ n pt info, CpSigned h n pt info → n < s.mem.cpCommit
  c2 : s.mem.cpCommit ≥ 1 → ∃ pt info, s.mem.curPt = some pt ∧ s.mem.curInfo = some info ∧
        CpSigned h (s.mem.cpCommit - 1) pt info
  c3 : s.mem.cpCommit ≥ 2 → ∃ pt info, s.mem.prevPt = some pt ∧ CpSigned h (s.mem.cpCommit - 2) pt info
  c4 : ∀ j, j < s.mem.cpRevoke → ∃ pt info, CpRevoked h j pt ∧ CpSigned h j pt info
  c5 : ∀ n pt info pt' info', CpSigned h n pt info → CpSigned h n pt' info' → pt = pt' ∧ info = info'

theorem L_init : L init [] := by
  refine ⟨fun _ => rfl, fun _ => rfl, rfl, fun _ => rfl, ?_, ?_, ?_, ?_, ?_, ?_⟩
  · intro h; simp [init] at h
  · rintro n pt info ⟨e, he, _⟩; cases he
  · intro h; simp [init] at h
  · intro h; simp [init] at h
  · intro j h; simp [init] at h
  · rintro n pt info pt' info' ⟨e, he, _⟩; cases he

/-- the invariant only looks at the counterparty fields of the in-memory channel -/
theorem L_transfer {s s' : Sys} {h : Hist} (e : Op × Out) (inv : L s h)
    (hm : cpPart s'.mem = cpPart s.mem) (hd : cpPart s'.disk = cpPart s'.mem)
    (f1 : StubFresh s'.mem) (f2 : StubFresh s'.disk)
    (hs : ∀ n pt info, ¬ ((∃ pk, e.1 = .signCp n pt info pk) ∧ e.2.res = .ok)) : L s' (e :: h) := by
  simp only [cpPart, Prod.mk.injEq] at hm
  obtain ⟨m1, m2, m3, m4, m5, _, _⟩ := hm
  have old : ∀ n pt info, CpSigned (e :: h) n pt info → CpSigned h n pt info := by
    intro n pt info hh
    rcases cpSigned_cons.mp hh with hn | ho
    · exact absurd hn (hs n pt info)
    · exact ho
  refine ⟨f1, f2, hd, ?_, ?_, ?_, ?_, ?_, ?_, ?_⟩
  · rw [m1, m2]; exact inv.w0
  · rw [m1, m2]; exact inv.w1
  · intro n pt info hh; rw [m1]; exact inv.c1 n pt info (old _ _ _ hh)
  · rw [m1, m3, m5]; intro hc
    obtain ⟨pt, info, a, b, c⟩ := inv.c2 hc
    exact ⟨pt, info, a, b, c.mono e⟩
  · rw [m1, m4]; intro hc
    obtain ⟨pt, info, a, c⟩ := inv.c3 hc
    exact ⟨pt, info, a, c.mono e⟩
  · rw [m2]; intro j hj
    obtain ⟨pt, info, a, c⟩ := inv.c4 j hj
    exact ⟨pt, info, a.mono e, c.mono e⟩
  · intro n pt info pt' info' a b
    exact inv.c5 n pt info pt' info' (old _ _ _ a) (old _ _ _ b)

theorem signCp_ok_persisted {c : Chan} {n pt info : Nat} {pk : Bool}
    (h : (signCp c n pt info pk).out.res = .ok) : (signCp c n pt info pk).persisted = true := by
  revert h
  unfold signCp fail
  dsimp only
  repeat' split
  all_goals intro h
  all_goals simp at h
  all_goals rfl

theorem revokeCp_ok_persisted {F : Nat → Bytes → Bytes} {c : Chan} {n : Nat} {s : Bytes} {pt : Nat}
    (h : (revokeCp F c n s pt).out.res = .ok) : (revokeCp F c n s pt).persisted = true := by
  revert h
  unfold revokeCp fail
  dsimp only
  repeat' split
  all_goals intro h
  all_goals simp at h
  all_goals rfl

theorem prevPoint_signed {s : Sys} {h : Hist} (inv : L s h) {n pt : Nat}
    (hp : prevPoint s.mem n = some pt) : ∃ info, CpSigned h n pt info := by
  unfold prevPoint at hp
  split at hp
  · rename_i h1
    obtain ⟨p, i, a, _, c⟩ := inv.c2 (by omega)
    rw [a] at hp
    have : p = pt := by simpa using hp
    subst this
    have hn : s.mem.cpCommit - 1 = n := by omega
    rw [hn] at c
    exact ⟨i, c⟩
  · split at hp
    · rename_i h1 h2
      obtain ⟨p, i, a, c⟩ := inv.c3 (by omega)
      rw [a] at hp
      have : p = pt := by simpa using hp
      subst this
      have hn : s.mem.cpCommit - 2 = n := by omega
      rw [hn] at c
      exact ⟨i, c⟩
    · cases hp

/-- **step lemma of C03** -/
theorem L_step (F : Nat → Bytes → Bytes) {s : Sys} {h : Hist} (inv : L s h) (op : Op) :
    L (step F s op).1 ((op, (step F s op).2) :: h) ∧
    (∀ n pt info pk, op = .signCp n pt info pk → (step F s op).2.res = .ok →
        n ≤ s.mem.cpRevoke + 1 ∧ ∀ j, j + 1 < n → ∃ p i, CpRevoked h j p ∧ CpSigned h j p i) ∧
    (∀ n sec pt, op = .revokeCp n sec pt → (step F s op).2.res = .ok → ∃ info, CpSigned h n pt info) := by
  by_cases hr : op = .restart
  · subst hr
    refine ⟨?_, (by intro n pt info pk hh; cases hh), (by intro n sec pt hh; cases hh)⟩
    refine L_transfer _ inv ?_ rfl inv.freshd inv.freshd ?_
    · exact inv.sync
    · rintro n pt info ⟨⟨pk, hh⟩, _⟩; cases hh
  · rw [step_eq F s hr]
    have sf := chanStep_stubFresh F s.mem inv.fresh op
    have fdisk : StubFresh (sysAfter s (chanStep F s.mem op)).disk := by
      unfold sysAfter; dsimp only
      split
      · exact sf
      · exact inv.freshd
    by_cases hsig : ∃ n pt info pk, op = .signCp n pt info pk
    · obtain ⟨n, pt, info, pk, rfl⟩ := hsig
      refine ⟨?_, ?_, (by intro n sec pt hh; cases hh)⟩
      · -- invariant
        cases hslot : s.mem.slot with
        | stub =>
          have hc : chanStep F s.mem (.signCp n pt info pk) = fail s.mem .errInvalid := by
            simp [chanStep, needReady, hslot]
          rw [hc] at sf fdisk ⊢
          refine L_transfer _ inv rfl ?_ sf fdisk ?_
          · simp [sysAfter, fail]; exact inv.sync
          · rintro n' pt' info' ⟨_, hh⟩; simp [fail] at hh
        | ready =>
          have hc : chanStep F s.mem (.signCp n pt info pk) = signCp s.mem n pt info pk := by
            simp [chanStep, needReady, hslot]
          rw [hc] at sf fdisk ⊢
          by_cases hok : (signCp s.mem n pt info pk).out.res = .ok
          · have ok := signCp_ok hok
            have hp := signCp_ok_persisted hok
            rcases ok.2.2 with ⟨hadv, hcp⟩ | ⟨hre, hpt, hinfo, hsame⟩
            · -- advance
              simp only [cpPart, Prod.mk.injEq] at hcp
              obtain ⟨m1, m2, m3, m4, m5, m6, m7⟩ := hcp
              have newev : CpSigned ((Op.signCp n pt info pk, (signCp s.mem n pt info pk).out) :: h) n pt info :=
                ⟨_, List.mem_cons_self, ⟨pk, rfl⟩, hok⟩
              have olds : ∀ n' pt' info', CpSigned ((Op.signCp n pt info pk, (signCp s.mem n pt info pk).out) :: h) n' pt' info' →
                  (n' = n ∧ pt' = pt ∧ info' = info) ∨ CpSigned h n' pt' info' := by
                intro n' pt' info' hh
                rcases cpSigned_cons.mp hh with ⟨⟨pk', he⟩, _⟩ | ho
                · simp at he; exact Or.inl ⟨he.1.symm, he.2.1.symm, he.2.2.1.symm⟩
                · exact Or.inr ho
              refine ⟨sf, fdisk, ?_, ?_, ?_, ?_, ?_, ?_, ?_, ?_⟩
              · simp [sysAfter, hp]
              · simp only [sysAfter]; rw [m1]; intro hh; omega
              · simp only [sysAfter]; rw [m1, m2]; intro _; omega
              · intro n' pt' info' hh
                simp only [sysAfter]; rw [m1]
                rcases olds _ _ _ hh with ⟨rfl, _, _⟩ | ho
                · omega
                · have := inv.c1 _ _ _ ho; omega
              · simp only [sysAfter]; rw [m1, m3, m5]; intro _
                exact ⟨pt, info, rfl, rfl, by simpa using newev⟩
              · simp only [sysAfter]; rw [m1, m4]; intro hc2
                obtain ⟨p, i, a, _, c⟩ := inv.c2 (by omega)
                refine ⟨p, i, a, ?_⟩
                have : n + 1 - 2 = s.mem.cpCommit - 1 := by omega
                rw [this]; exact c.mono _
              · simp only [sysAfter]; rw [m2]; intro j hj
                obtain ⟨p, i, a, c⟩ := inv.c4 j hj
                exact ⟨p, i, a.mono _, c.mono _⟩
              · intro n' p1 i1 p2 i2 a b
                rcases olds _ _ _ a with ⟨rfl, rfl, rfl⟩ | oa
                · rcases olds _ _ _ b with ⟨_, rfl, rfl⟩ | ob
                  · exact ⟨rfl, rfl⟩
                  · have := inv.c1 _ _ _ ob; omega
                · rcases olds _ _ _ b with ⟨rfl, rfl, rfl⟩ | ob
                  · have := inv.c1 _ _ _ oa; omega
                  · exact inv.c5 _ _ _ _ _ oa ob
            · -- retry: nothing moves, the new event repeats the recorded point and content
              rw [hsame] at sf
              obtain ⟨p, i, a, b, c⟩ := inv.c2 (by omega)
              have hn : s.mem.cpCommit - 1 = n := by omega
              rw [hn] at c
              rw [a] at hpt; rw [b] at hinfo
              have e1 : p = pt := by simpa using hpt
              have e2 : i = info := by simpa using hinfo
              subst e1 e2
              have olds : ∀ n' pt' info', CpSigned ((Op.signCp n p i pk, (signCp s.mem n p i pk).out) :: h) n' pt' info' →
                  CpSigned h n' pt' info' := by
                intro n' pt' info' hh
                rcases cpSigned_cons.mp hh with ⟨⟨pk', he⟩, _⟩ | ho
                · simp at he
                  obtain ⟨rfl, rfl, rfl, _⟩ := he
                  exact c
                · exact ho
              refine ⟨by simpa [sysAfter, hsame] using inv.fresh, fdisk, ?_, ?_, ?_, ?_, ?_, ?_, ?_, ?_⟩
              · simp [sysAfter, hp]
              · simp only [sysAfter, hsame]; exact inv.w0
              · simp only [sysAfter, hsame]; exact inv.w1
              · intro n' pt' info' hh; simp only [sysAfter, hsame]; exact inv.c1 _ _ _ (olds _ _ _ hh)
              · simp only [sysAfter, hsame]; intro hc2
                obtain ⟨p', i', a', b', c'⟩ := inv.c2 hc2
                exact ⟨p', i', a', b', c'.mono _⟩
              · simp only [sysAfter, hsame]; intro hc2
                obtain ⟨p', i', a', c'⟩ := inv.c3 hc2
                exact ⟨p', i', a', c'.mono _⟩
              · simp only [sysAfter, hsame]; intro j hj
                obtain ⟨p', i', a', c'⟩ := inv.c4 j hj
                exact ⟨p', i', a'.mono _, c'.mono _⟩
              · intro n' p1 i1 p2 i2 a1 b1
                exact inv.c5 _ _ _ _ _ (olds _ _ _ a1) (olds _ _ _ b1)
          · have hsame := signCp_notok hok
            refine L_transfer _ inv (by simp [sysAfter, hsame]) ?_ sf fdisk ?_
            · simp only [sysAfter, hsame]
              split
              · rfl
              · exact inv.sync
            · rintro n' pt' info' ⟨_, hh⟩; exact hok hh
      · -- justification of an accepted signature
        intro n' pt' info' pk' he hok
        simp at he
        obtain ⟨rfl, rfl, rfl, rfl⟩ := he
        cases hslot : s.mem.slot with
        | stub => simp [chanStep, needReady, hslot, fail] at hok
        | ready =>
          have hc : chanStep F s.mem (.signCp n pt info pk) = signCp s.mem n pt info pk := by
            simp [chanStep, needReady, hslot]
          rw [hc] at hok
          have ok := signCp_ok hok
          refine ⟨ok.1, ?_⟩
          intro j hj
          exact inv.c4 j (by omega)
    · by_cases hrev : ∃ n sec pt, op = .revokeCp n sec pt
      · obtain ⟨n, sec, pt, rfl⟩ := hrev
        refine ⟨?_, (by intro n pt info pk hh; cases hh), ?_⟩
        · cases hslot : s.mem.slot with
          | stub =>
            have hc : chanStep F s.mem (.revokeCp n sec pt) = fail s.mem .errInvalid := by
              simp [chanStep, needReady, hslot]
            rw [hc] at sf fdisk ⊢
            refine L_transfer _ inv rfl ?_ sf fdisk ?_
            · simp [sysAfter, fail]; exact inv.sync
            · rintro n' pt' info' ⟨⟨_, hh⟩, _⟩; cases hh
          | ready =>
            have hc : chanStep F s.mem (.revokeCp n sec pt) = revokeCp F s.mem n sec pt := by
              simp [chanStep, needReady, hslot]
            rw [hc] at sf fdisk ⊢
            by_cases hok : (revokeCp F s.mem n sec pt).out.res = .ok
            · obtain ⟨hwhich, hpp, hlo, hhi, m1, m2, m3, m4, m5⟩ := revokeCp_ok hok
              have hp := revokeCp_ok_persisted hok
              obtain ⟨i0, hsigned⟩ := prevPoint_signed inv hpp
              have olds : ∀ n' pt' info', CpSigned ((Op.revokeCp n sec pt, (revokeCp F s.mem n sec pt).out) :: h) n' pt' info' →
                  CpSigned h n' pt' info' := by
                intro n' pt' info' hh
                rcases cpSigned_cons.mp hh with ⟨⟨pk', he⟩, _⟩ | ho
                · cases he
                · exact ho
              refine ⟨sf, fdisk, ?_, ?_, ?_, ?_, ?_, ?_, ?_, ?_⟩
              · simp [sysAfter, hp]
              · simp only [sysAfter]; rw [m1, m2]; intro hh; omega
              · simp only [sysAfter]; rw [m1, m2]; intro _; omega
              · intro n' pt' info' hh; simp only [sysAfter]; rw [m1]; exact inv.c1 _ _ _ (olds _ _ _ hh)
              · simp only [sysAfter]; rw [m1, m3, m5]; intro hc2
                obtain ⟨p', i', a', b', c'⟩ := inv.c2 hc2
                exact ⟨p', i', a', b', c'.mono _⟩
              · simp only [sysAfter]; rw [m1, m4]; intro hc2
                obtain ⟨p', i', a', c'⟩ := inv.c3 hc2
                exact ⟨p', i', a', c'.mono _⟩
              · simp only [sysAfter]; rw [m2]; intro j hj
                by_cases hjo : j < s.mem.cpRevoke
                · obtain ⟨p', i', a', c'⟩ := inv.c4 j hjo
                  exact ⟨p', i', a'.mono _, c'.mono _⟩
                · have : j = n := by omega
                  subst this
                  exact ⟨pt, i0, ⟨_, List.mem_cons_self, ⟨sec, rfl⟩, hok⟩, hsigned.mono _⟩
              · intro n' p1 i1 p2 i2 a1 b1
                exact inv.c5 _ _ _ _ _ (olds _ _ _ a1) (olds _ _ _ b1)
            · have hsame := revokeCp_notok hok
              refine L_transfer _ inv (by simp [sysAfter, hsame]) ?_ sf fdisk ?_
              · simp only [sysAfter, hsame]
                split
                · rfl
                · exact inv.sync
              · rintro n' pt' info' ⟨⟨_, hh⟩, _⟩; cases hh
        · intro n' sec' pt' he hok
          simp at he
          obtain ⟨rfl, rfl, rfl⟩ := he
          cases hslot : s.mem.slot with
          | stub => simp [chanStep, needReady, hslot, fail] at hok
          | ready =>
            have hc : chanStep F s.mem (.revokeCp n sec pt) = revokeCp F s.mem n sec pt := by
              simp [chanStep, needReady, hslot]
            rw [hc] at hok
            exact prevPoint_signed inv (revokeCp_ok hok).2.1
      · -- any other request: the counterparty side does not move
        have h1 : ∀ n pt info pk, op ≠ .signCp n pt info pk := fun n pt info pk hh => hsig ⟨n, pt, info, pk, hh⟩
        have h2 : ∀ n sec pt, op ≠ .revokeCp n sec pt := fun n sec pt hh => hrev ⟨n, sec, pt, hh⟩
        have hcp := chanStep_cpPart F s.mem inv.fresh op h1 h2
        refine ⟨?_, fun n pt info pk hh => absurd hh (h1 n pt info pk), fun n sec pt hh => absurd hh (h2 n sec pt)⟩
        refine L_transfer _ inv hcp ?_ sf fdisk ?_
        · simp only [sysAfter]
          split
          · rfl
          · rw [hcp]; exact inv.sync
        · rintro n pt info ⟨⟨pk, hh⟩, _⟩; exact h1 n pt info pk hh

/-- every accepted counterparty signature / revocation in the history was justified when it happened -/
def CpJustified : Hist → Prop
  | [] => True
  | e :: pre =>
    ((∀ n pt info pk, e.1 = .signCp n pt info pk → e.2.res = .ok →
        ∀ j, j + 1 < n → ∃ p i, CpRevoked pre j p ∧ CpSigned pre j p i) ∧
     (∀ n sec pt, e.1 = .revokeCp n sec pt → e.2.res = .ok → ∃ info, CpSigned pre n pt info)) ∧
    CpJustified pre

theorem runL (F : Nat → Bytes → Bytes) (ops : List Op) (s : Sys) (h : Hist)
    (inv : L s h) (cj : CpJustified h) :
    L (runH F s h ops).1 (runH F s h ops).2 ∧ CpJustified (runH F s h ops).2 := by
  induction ops generalizing s h with
  | nil => exact ⟨inv, cj⟩
  | cons op rest ih =>
    have st := L_step F inv op
    refine ih _ _ st.1 ⟨⟨?_, ?_⟩, cj⟩
    · intro n pt info pk he hok
      exact (st.2.1 n pt info pk he hok).2
    · intro n sec pt he hok
      exact st.2.2 n sec pt he hok

end VlsModel.Enforcement
