import VlsModel.Model.Velocity
/-
Helper lemmas for C12: the buckets of a `VelocityControl` are an exact abstraction of the log of
approved amounts (per aligned epoch), and shifting re-expresses the same log at a later epoch.
-/
namespace VlsModel.Velocity
open VlsModel

/-- approved (time, amount) pairs, newest first -/
abbrev Log := List (Nat × Nat)

/-- amount approved in epoch `e - i` -/
def bsum (log : Log) (bi e i : Nat) : Nat :=
  (log.map (fun p => if p.1 / bi + i = e then p.2 else 0)).sum

/-- amount approved in the `n` most recent epochs `e-n+1 … e` -/
def recent (log : Log) (bi e n : Nat) : Nat :=
  (log.map (fun p => if e < p.1 / bi + n then p.2 else 0)).sum

/-- amount approved with a timestamp in the closed window `[lo, hi]` -/
def windowSum (log : Log) (lo hi : Nat) : Nat :=
  (log.map (fun p => if lo ≤ p.1 ∧ p.1 ≤ hi then p.2 else 0)).sum

theorem sum_map_zero {α : Type} (l : List α) : (l.map (fun _ => (0 : Nat))).sum = 0 := by
  induction l with
  | nil => rfl
  | cons a as ih => simp only [List.map_cons, List.sum_cons, ih]

theorem foldl_satAdd (l : List Nat) (s : Nat) (hs : s ≤ U64.MAX) :
    l.foldl U64.satAdd s = min (s + l.sum) U64.MAX := by
  induction l generalizing s with
  | nil => simp [Nat.min_eq_left hs]
  | cons x xs ih =>
    simp only [List.foldl_cons, List.sum_cons]
    rw [ih _ (U64.satAdd_le_max s x)]
    unfold U64.satAdd
    simp only [Nat.min_def]
    split <;> split <;> split <;> omega

theorem velocity_eq (v : VC) : v.velocity = min v.buckets.sum U64.MAX := by
  unfold VC.velocity
  rw [foldl_satAdd _ 0 (Nat.zero_le _)]
  simp

theorem shift_map_range (f : Nat → Nat) (n k : Nat) (hk : k ≤ n) :
    shift ((List.range n).map f) k = (List.range n).map (fun i => if i < k then 0 else f (i - k)) := by
  unfold shift
  apply List.ext_getElem
  · simp; omega
  · intro i h1 h2
    simp only [List.length_map, List.length_range] at h2
    by_cases hik : i < k
    · rw [List.getElem_append_left (by simpa using hik)]
      simp [hik]
    · rw [List.getElem_append_right (by simpa using Nat.le_of_not_lt hik)]
      simp [hik]

theorem sum_map_range_ite (n c a : Nat) :
    ((List.range n).map (fun i => if c + i = a then (1 : Nat) else 0)).sum = if c ≤ a ∧ a < c + n then 1 else 0 := by
  induction n with
  | zero => simp
  | succ n ih =>
    rw [List.range_succ, List.map_append, List.sum_append, ih]
    simp only [List.map_cons, List.map_nil, List.sum_cons, List.sum_nil]
    split <;> split <;> split <;> omega

theorem sum_bsum_eq_recent (log : Log) (bi e n : Nat) (hle : ∀ p ∈ log, p.1 / bi ≤ e) :
    ((List.range n).map (bsum log bi e)).sum = recent log bi e n := by
  induction log with
  | nil =>
    have : bsum [] bi e = fun _ => 0 := by funext i; simp [bsum]
    rw [this, sum_map_zero]; simp [recent]
  | cons p ps ih =>
    have hp : p.1 / bi ≤ e := hle p (List.mem_cons_self)
    have ih' := ih (fun q hq => hle q (List.mem_cons_of_mem _ hq))
    have hsplit : ((List.range n).map (bsum (p :: ps) bi e)).sum
        = ((List.range n).map (fun i => if p.1 / bi + i = e then p.2 else 0)).sum
          + ((List.range n).map (bsum ps bi e)).sum := by
      unfold bsum
      simp only [List.map_cons, List.sum_cons]
      induction (List.range n) with
      | nil => simp
      | cons a as iha => simp only [List.map_cons, List.sum_cons]; omega
    rw [hsplit, ih']
    unfold recent
    simp only [List.map_cons, List.sum_cons]
    have hone : ((List.range n).map (fun i => if p.1 / bi + i = e then p.2 else 0)).sum
        = p.2 * ((List.range n).map (fun i => if p.1 / bi + i = e then (1:Nat) else 0)).sum := by
      induction (List.range n) with
      | nil => simp
      | cons a as iha =>
        simp only [List.map_cons, List.sum_cons, iha, Nat.mul_add]
        split <;> simp
    rw [hone, sum_map_range_ite]
    split <;> split <;> simp <;> omega

theorem windowSum_le_recent (log : Log) (bi e n lo hi : Nat)
    (h : ∀ p ∈ log, lo ≤ p.1 → p.1 ≤ hi → e < p.1 / bi + n) :
    windowSum log lo hi ≤ recent log bi e n := by
  induction log with
  | nil => simp [windowSum, recent]
  | cons p ps ih =>
    have ih' := ih (fun q hq => h q (List.mem_cons_of_mem _ hq))
    have hp := h p (List.mem_cons_self)
    unfold windowSum recent at *
    simp only [List.map_cons, List.sum_cons]
    split <;> split <;> omega

/-- epoch arithmetic: a timestamp at most `(n-1)*bi` before `t` lies in one of the `n` epochs ending at `t`'s -/
theorem epoch_close (bi n t t' : Nat) (hbi : 0 < bi) (hn : 0 < n) (h : t ≤ t' + (n - 1) * bi) :
    t / bi < t' / bi + n := by
  have h1 : t / bi ≤ (t' + (n - 1) * bi) / bi := Nat.div_le_div_right h
  rw [Nat.add_mul_div_right _ _ hbi] at h1
  omega

end VlsModel.Velocity

namespace VlsModel.Velocity
open VlsModel

/-- The buckets are exactly the per-epoch sums of the approved log at the control's epoch. -/
structure Inv (v : VC) (log : Log) : Prop where
  bi_pos : 0 < v.bi
  aligned : v.start % v.bi = 0
  log_le : ∀ p ∈ log, p.1 / v.bi ≤ v.start / v.bi
  buckets_eq : v.buckets = (List.range v.buckets.length).map (bsum log v.bi (v.start / v.bi))

theorem bsum_shift (log : Log) (bi e k i : Nat) (hle : ∀ p ∈ log, p.1 / bi ≤ e) :
    bsum log bi (e + k) i = if i < k then 0 else bsum log bi e (i - k) := by
  unfold bsum
  induction log with
  | nil => simp
  | cons p ps ih =>
    have hp := hle p (List.mem_cons_self)
    have ih' := ih (fun q hq => hle q (List.mem_cons_of_mem _ hq))
    simp only [List.map_cons, List.sum_cons, ih']
    split <;> split <;> first | omega | (split <;> omega)

/-- shifting (what `insert` does first) keeps the abstraction, at the later epoch -/
theorem shift_inv (v : VC) (log : Log) (now : Nat) (h : Inv v log) (hnow : v.start ≤ now) :
    Inv { v with buckets := shift v.buckets (min v.buckets.length ((now - v.start) / v.bi)),
                 start := now - now % v.bi } log
    ∧ (now - now % v.bi) / v.bi = now / v.bi
    ∧ (shift v.buckets (min v.buckets.length ((now - v.start) / v.bi))).length = v.buckets.length := by
  obtain ⟨hbi, hal, hle, hb⟩ := h
  have hdm := Nat.div_add_mod now v.bi
  have hdm' := Nat.div_add_mod v.start v.bi
  have hmul : (now - now % v.bi) = v.bi * (now / v.bi) := by omega
  have he : (now - now % v.bi) / v.bi = now / v.bi := by
    rw [hmul, Nat.mul_div_cancel_left _ hbi]
  have hse : v.start / v.bi ≤ now / v.bi := Nat.div_le_div_right hnow
  -- number of epochs advanced
  have hk : (now - v.start) / v.bi = now / v.bi - v.start / v.bi := by
    have hs : v.start = v.bi * (v.start / v.bi) := by omega
    have hA : v.bi * (now / v.bi - v.start / v.bi)
        = v.bi * (now / v.bi) - v.bi * (v.start / v.bi) := Nat.mul_sub _ _ _
    have hB : v.bi * (v.start / v.bi) ≤ v.bi * (now / v.bi) := Nat.mul_le_mul_left _ hse
    have : now - v.start = now % v.bi + v.bi * (now / v.bi - v.start / v.bi) := by
      omega
    rw [this, Nat.add_mul_div_left _ _ hbi, Nat.div_eq_of_lt (Nat.mod_lt _ hbi)]; omega
  have hlen : (shift v.buckets (min v.buckets.length ((now - v.start) / v.bi))).length = v.buckets.length := by
    unfold shift; simp; omega
  refine ⟨⟨hbi, ?_, ?_, ?_⟩, he, hlen⟩
  · show (now - now % v.bi) % v.bi = 0
    rw [hmul]; exact Nat.mul_mod_right _ _
  · intro p hp
    show p.1 / v.bi ≤ (now - now % v.bi) / v.bi
    rw [he]; exact Nat.le_trans (hle p hp) hse
  · show shift v.buckets _ = (List.range (shift v.buckets _).length).map (bsum log v.bi ((now - now % v.bi) / v.bi))
    rw [hlen, he]
    generalize hn : v.buckets.length = n at *
    rw [hb, shift_map_range _ _ _ (Nat.min_le_left _ _)]
    apply List.map_congr_left
    intro i hi
    have hi' : i < n := by simpa using hi
    rw [hk]
    by_cases hc : n ≤ now / v.bi - v.start / v.bi
    · -- everything is shifted out
      rw [Nat.min_eq_left hc]
      simp only [hi', if_true]
      have := bsum_shift log v.bi (v.start / v.bi) (now / v.bi - v.start / v.bi) i hle
      rw [show v.start / v.bi + (now / v.bi - v.start / v.bi) = now / v.bi by omega] at this
      rw [this]; simp; omega
    · rw [Nat.min_eq_right (by omega)]
      have := bsum_shift log v.bi (v.start / v.bi) (now / v.bi - v.start / v.bi) i hle
      rw [show v.start / v.bi + (now / v.bi - v.start / v.bi) = now / v.bi by omega] at this
      rw [this]

end VlsModel.Velocity

namespace VlsModel.Velocity
open VlsModel

theorem bsum_cons (p : Nat × Nat) (log : Log) (bi e i : Nat) :
    bsum (p :: log) bi e i = (if p.1 / bi + i = e then p.2 else 0) + bsum log bi e i := by
  simp [bsum]

/-- One `insert` keeps the abstraction (with the approved request added to the log), keeps the
    configuration, and an approval implies that the amount fits on top of everything approved in
    the tracked epochs. -/
theorem insert_inv (v : VC) (log : Log) (now amt : Nat) (v' : VC) (ok : Bool)
    (h : Inv v log) (hnow : v.start ≤ now) (hlim : v.limit < U64.MAX)
    (hins : v.insert now amt = some (v', ok)) :
    Inv v' (if ok then (now, amt) :: log else log)
    ∧ v'.bi = v.bi ∧ v'.limit = v.limit ∧ v'.buckets.length = v.buckets.length
    ∧ v'.start = now - now % v.bi
    ∧ (ok = true → amt + recent log v.bi (now / v.bi) v.buckets.length ≤ v.limit) := by
  obtain ⟨hsi, he, hlen⟩ := shift_inv v log now h hnow
  have hbi := h.bi_pos
  unfold VC.insert at hins
  rw [if_neg (by omega)] at hins
  simp only at hins
  generalize hb : shift v.buckets (min v.buckets.length ((now - v.start) / v.bi)) = b at *
  have hvel : ({ v with buckets := b, start := now - now % v.bi } : VC).velocity = min b.sum U64.MAX :=
    velocity_eq _
  rw [hvel] at hins
  have hbe := hsi.buckets_eq
  simp only [he, hlen] at hbe
  have hsum : b.sum = recent log v.bi (now / v.bi) v.buckets.length := by
    rw [hbe]
    apply sum_bsum_eq_recent
    intro p hp
    have := hsi.log_le p hp
    simpa [he] using this
  split at hins
  · -- refused
    injection hins with hins
    injection hins with hv hok
    subst hv; subst hok
    exact ⟨hsi, rfl, rfl, hlen, rfl, by simp⟩
  · rename_i hnot
    have hfit : b.sum + amt ≤ v.limit := by
      unfold U64.satAdd at hnot
      simp only [Nat.min_def] at hnot
      split at hnot <;> split at hnot <;> omega
    match hbm : b, hins with
    | [], hins => simp at hins
    | x :: xs, hins =>
      injection hins with hins
      injection hins with hv hok
      subst hv; subst hok
      have hlen' : xs.length + 1 = v.buckets.length := by rw [← hlen]; simp
      have hx : x ≤ (x :: xs).sum := by simp
      have hexact : U64.satAdd x amt = x + amt := U64.satAdd_exact (by omega)
      refine ⟨⟨hbi, hsi.aligned, ?_, ?_⟩, rfl, rfl, by simpa using hlen', rfl, ?_⟩
      · intro p hp
        simp only [if_true] at hp
        show p.1 / v.bi ≤ (now - now % v.bi) / v.bi
        rcases List.mem_cons.mp hp with rfl | hp
        · rw [he]; exact Nat.le_refl _
        · exact hsi.log_le p hp
      · show U64.satAdd x amt :: xs
            = (List.range (U64.satAdd x amt :: xs).length).map
                (bsum (if true = true then (now, amt) :: log else log) v.bi ((now - now % v.bi) / v.bi))
        simp only [if_true, he, List.length_cons, hexact]
        rw [← hlen'] at hbe
        rw [List.range_succ_eq_map, List.map_cons, List.map_map] at hbe ⊢
        injection hbe with hx0 hxs
        congr 1
        · rw [bsum_cons]; simp; omega
        · conv => lhs; rw [hxs]
          apply List.map_congr_left
          intro i _
          simp only [Function.comp, bsum_cons]
          rw [if_neg (by omega)]; omega
      · intro _
        rw [← hsum]; omega

end VlsModel.Velocity
