import VlsModel.Model.Payments
import VlsModel.Lemmas.Payments
import VlsModel.Lemmas.FnGen
/-
Helper lemmas for `Props/C06Fn.lean`: the association lists that `rs2lean` generates for `OrderedMap<ChannelId, u64>`
(`Rs.omapGet` / `Rs.omapInsert`, order not represented) against the total functions `Chan → Nat` of the payments model.
-/
namespace VlsModel.Payments.Fn
open VlsModel VlsModel.Payments

/-- the function a per-channel map stands for (`get(c).unwrap_or(0)`) -/
def toFun (m : List (Nat × Nat)) : Chan → Nat := fun c => (Rs.omapGet m c).getD 0

/-- no duplicate keys, every key a channel of the node -/
def WFm (nch : Nat) : List (Nat × Nat) → Prop
  | [] => True
  | (k, _) :: r => k < nch ∧ Rs.omapGet r k = none ∧ WFm nch r

theorem omapGet_insert {α : Type} (m : List (Nat × α)) (k k' : Nat) (x : α) :
    Rs.omapGet (Rs.omapInsert m k x) k' = if k' = k then some x else Rs.omapGet m k' := by
  induction m with
  | nil =>
    simp only [Rs.omapInsert, Rs.omapGet]
    by_cases h : k' = k
    · simp [h]
    · have : ¬ k = k' := fun e => h e.symm
      simp [h, this]
  | cons e m ih =>
    obtain ⟨k0, v0⟩ := e
    simp only [Rs.omapInsert]
    by_cases h1 : k0 = k
    · subst h1
      simp only [if_true, Rs.omapGet]
      by_cases h2 : k' = k0
      · simp [h2]
      · have : ¬ k0 = k' := fun e => h2 e.symm
        simp [h2, this]
    · simp only [h1, if_false, Rs.omapGet, ih]
      by_cases h3 : k0 = k'
      · have : ¬ k' = k := fun e => h1 (h3.trans e)
        simp [h3, this]
      · simp [h3]

theorem toFun_insert (m : List (Nat × Nat)) (k v : Nat) : toFun (Rs.omapInsert m k v) = upd (toFun m) k v := by
  funext c
  simp only [toFun, upd, omapGet_insert]
  by_cases h : c = k <;> simp [h]

theorem toFun_cons (k v : Nat) (r : List (Nat × Nat)) : toFun ((k, v) :: r) = upd (toFun r) k v := by
  funext c
  simp only [toFun, upd, Rs.omapGet]
  by_cases h : c = k
  · simp [h]
  · have : ¬ k = c := fun e => h e.symm
    simp [h, this]

theorem WFm_insert {nch : Nat} (m : List (Nat × Nat)) (k v : Nat) (hk : k < nch) (h : WFm nch m) :
    WFm nch (Rs.omapInsert m k v) := by
  induction m with
  | nil => exact ⟨hk, rfl, trivial⟩
  | cons e m ih =>
    obtain ⟨k0, v0⟩ := e
    obtain ⟨h1, h2, h3⟩ := h
    simp only [Rs.omapInsert]
    by_cases hk0 : k0 = k
    · simp only [hk0, if_true]
      subst hk0
      exact ⟨h1, h2, h3⟩
    · simp only [hk0, if_false]
      refine ⟨h1, ?_, ih h3⟩
      rw [omapGet_insert]
      simp [hk0, h2]

/-- `values().sum()` (mathematical sum) = `sumCh nch` of the function the map stands for -/
theorem sum_values {nch : Nat} (m : List (Nat × Nat)) (h : WFm nch m) :
    (m.map (fun kv => kv.2)).sum = sumCh nch (toFun m) := by
  induction m with
  | nil =>
    have : toFun [] = fun _ => 0 := by funext c; rfl
    rw [this, sumCh_zero]; rfl
  | cons e m ih =>
    obtain ⟨k, v⟩ := e
    obtain ⟨h1, h2, h3⟩ := h
    rw [toFun_cons, List.map_cons, List.sum_cons, ih h3]
    have hz : toFun m k = 0 := by simp [toFun, h2]
    have := sumCh_upd (toFun m) k v h1
    omega

theorem toFun_zero_of_ge {nch : Nat} (m : List (Nat × Nat)) (h : WFm nch m) (c : Nat) (hc : nch ≤ c) :
    toFun m c = 0 := by
  induction m with
  | nil => rfl
  | cons e m ih =>
    obtain ⟨k, v⟩ := e
    obtain ⟨h1, _, h3⟩ := h
    rw [toFun_cons]
    simp only [upd]
    have : ¬ c = k := by omega
    simp [this, ih h3]

/-- the entry of a channel is at most the sum (`sum + new - old` cannot underflow) -/
theorem toFun_le_sum {nch : Nat} (m : List (Nat × Nat)) (h : WFm nch m) (c : Nat) :
    toFun m c ≤ sumCh nch (toFun m) := by
  by_cases hc : c < nch
  · exact sumCh_ge _ c hc
  · rw [toFun_zero_of_ge m h c (by omega)]; omega

theorem uadd_ok {m a b : Nat} (h : a + b ≤ m) : Rs.uadd m a b = .ok (a + b) := by simp [Rs.uadd, h]
theorem uadd_ov {m a b : Nat} (h : ¬ a + b ≤ m) : Rs.uadd m a b = .error .overflow := by
  simp [Rs.uadd, h, Rs.overflow]
theorem usub_ok {a b : Nat} (h : b ≤ a) : Rs.usub a b = .ok (a - b) := by simp [Rs.usub, h]
theorem udiv_ok {a b : Nat} (h : b ≠ 0) : Rs.udiv a b = .ok (a / b) := by simp [Rs.udiv, h]

/-- `sum + new - old` of one direction, as the generated code computes it (`k` = the rest of the function) -/
theorem upd_sum_k {β : Type} {nch : Nat} (m : List (Nat × Nat)) (h : WFm nch m) (c x : Nat) (k : Nat → Rs.M β) :
    (Rs.usum Rs.U64_MAX (m.map (fun (kv : Nat × Nat) => kv.2)) >>= fun s =>
      Rs.uadd Rs.U64_MAX s x >>= fun t => Rs.usub t ((Rs.omapGet m c).getD 0) >>= k)
      = if sumCh nch (toFun m) + x ≤ U64.MAX then k (sumCh nch (toFun m) + x - toFun m c) else .error .overflow := by
  rw [Rs.usum_eq, sum_values m h]
  have hle := toFun_le_sum m h c
  have e : Rs.U64_MAX = U64.MAX := rfl
  by_cases h1 : sumCh nch (toFun m) + x ≤ U64.MAX
  · have h0 : sumCh nch (toFun m) ≤ Rs.U64_MAX := by rw [e]; omega
    have h1' : sumCh nch (toFun m) + x ≤ Rs.U64_MAX := by rw [e]; exact h1
    have h2 : (Rs.omapGet m c).getD 0 ≤ sumCh nch (toFun m) + x := by
      have : (Rs.omapGet m c).getD 0 = toFun m c := rfl
      omega
    simp only [h0, if_true, Rs.bind_ok, uadd_ok h1', usub_ok h2, h1]
    rfl
  · by_cases h0 : sumCh nch (toFun m) ≤ Rs.U64_MAX
    · have h1' : ¬ sumCh nch (toFun m) + x ≤ Rs.U64_MAX := by rw [e]; exact h1
      simp only [h0, if_true, Rs.bind_ok, uadd_ov h1', Rs.bind_err, h1, if_false]
    · simp only [h0, if_false, Rs.bind_err, h1]

/-- `values().sum::<u64>()` against the model's `sumCh` -/
theorem usum_values {nch : Nat} (m : List (Nat × Nat)) (h : WFm nch m) :
    Rs.usum Rs.U64_MAX (m.map (fun (kv : Nat × Nat) => kv.2))
      = if sumCh nch (toFun m) ≤ U64.MAX then .ok (sumCh nch (toFun m)) else .error .overflow := by
  rw [Rs.usum_eq, sum_values m h]; rfl

end VlsModel.Payments.Fn
