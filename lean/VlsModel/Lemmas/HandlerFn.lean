import VlsModel.Model.Enforcement
import VlsModel.Gen.FnHandlerArms
import VlsModel.Lemmas.FnGen
/-
Shared by `Props/C01Fn.lean` and `Props/C03Fn.lean`: how the arms of `ChannelHandler::do_handle`
(`vls-protocol-signer/src/handler.rs`), which `translate/rs2lean.py` regenerates on every run as methods of their own
(`Gen/FnHandlerArms.lean`; arm extraction: `translate/fn_arms.py`, targets `translate/fn_targets/HandlerArms.b0103.json`),
are run on a channel of the hand-written model `Model/Enforcement.lean`.

The generated arms take the channel methods their closures call as explicit parameters (declared externals).  Here
those parameters are instantiated with the channel-level functions of the model (`getPoint`, `getSecret`, `revokeP`,
`validate`, `revoke`, `activate`, `revokeCp`, `signCp`), read as functions into the outcome monad `Rs.M`:

* opaque types: `Node` := the model channel of the handler's `channel_id` (`Chan`), `ChannelId` := `Unit`,
  `Channel`/`ChannelBase` := `Chan` (the `&mut self` method `validate_holder_commitment_tx(_phase2)` returns the updated
  channel, so the calls after it run on the state it leaves — as in the generated text),
  `PublicKey`/`PubKey` := `Nat` (the holder commitment number the point belongs to), `SecretKey`/`DisclosedSecret` := `Nat`
  (the holder commitment number whose secret it is);
* `readyChannel` = `Node::with_channel`'s lookup (a stub is refused with `invalid_argument`), `channelBase` =
  `Node::with_channel_base`'s lookup (both kinds);
* `hcls` reads an outcome of a generated arm as the model's reply class (`Status::invalid_argument` ↦ `errInvalid`, any
  other `Status` ↦ `errPolicy`, a panic or a debug-build overflow ↦ `panic`).
-/
namespace VlsModel.Lemmas.HandlerFn
open VlsModel VlsModel.Enforcement
open VlsModel.Gen.FnHandlerArms (BitcoinSignature)

/-- a reply class of the model as an outcome carrying `a` on success -/
def resM {α : Type} (r : Res) (a : α) : Rs.M α :=
  match r with
  | .ok => .ok a
  | .errPolicy => .error (.err "policy")
  | .errInvalid => .error (.err "invalid-argument")
  | .errInternal => .error (.err "internal")
  | .panic => .error .panic

/-- outcome of a generated handler arm as the model's reply class -/
def hcls {α : Type} : Rs.M α → Res
  | .ok _ => .ok
  | .error (.err t) => if t = "invalid-argument" then .errInvalid else if t = "internal" then .errInternal else .errPolicy
  | .error _ => .panic

@[simp] theorem hcls_resM {α : Type} (r : Res) (a : α) : hcls (resM r a) = r := by
  cases r <;> simp [resM, hcls]

@[simp] theorem hcls_ok {α : Type} (a : α) : hcls (Except.ok a : Rs.M α) = .ok := rfl
@[simp] theorem hcls_panic {α : Type} : hcls (Except.error .panic : Rs.M α) = .panic := rfl
@[simp] theorem hcls_overflow {α : Type} : hcls (Except.error .overflow : Rs.M α) = .panic := rfl
@[simp] theorem hcls_invalid {α : Type} : hcls (Except.error (.err "invalid-argument") : Rs.M α) = .errInvalid := by
  simp [hcls]

/-- `Node::with_channel`: the slot lookup, a stub is refused (`channel not ready`) -/
def readyChannel (c : Chan) (_ : Unit) : Rs.M Chan :=
  match c.slot with
  | .stub => .error (.err "invalid-argument")
  | .ready => .ok c

/-- `Node::with_channel_base`: the slot lookup, stub or ready -/
def channelBase (c : Chan) (_ : Unit) : Rs.M Chan := .ok c

/-- `ChannelBase::get_per_commitment_point(n)` of the model: the point of `n` -/
def pointM (c : Chan) (n : Nat) : Rs.M Nat := resM (getPoint c n) n

/-- a reply of the model that carries a secret, as `Result<SecretKey>` -/
def secretM (o : Out) : Rs.M Nat :=
  match o.res, o.secret with
  | .ok, some k => .ok k
  | .ok, none => .error .panic         -- never: `getSecret` answers `ok` only with a secret
  | r, _ => resM r 0

/-- `revoke_previous_holder_commitment(n)`-shaped replies: `(point of n + 1, Option<secret>)` -/
def revokeM (o : Out) (n : Nat) : Rs.M (Nat × Option Nat) := resM o.res (n + 1, o.secret)

/-- the handler of protocol version `ver` for the channel `c` -/
def handler (c : Chan) (ver : Nat) : Gen.FnHandlerArms.ChannelHandler Chan Unit :=
  { node := c, protocol_version := ver, channel_id := () }

theorem ver_revoke : PROTOCOL_VERSION_REVOKE = 5 := by decide
theorem ver_no_secret : PROTOCOL_VERSION_NO_SECRET = 6 := by decide

theorem u64max : U64.MAX = Rs.U64_MAX := by decide

theorem getSecret_cases (c : Chan) (k : Nat) :
    getSecret c k = { res := .errPolicy } ∨ getSecret c k = { res := .ok, secret := some k } := by
  unfold getSecret
  split
  · simp
  · split
    · simp
    · split <;> simp

/-- a channel method that returns the updated channel (`&mut self`, `Result<()>`) -/
def validateM (r : R) : Rs.M Chan := resM r.out.res r.c

/-- the HTLC signature list of a well-formed request parses: every element has an allowed sighash byte and a
    parsable compact signature (otherwise the handler panics: `assert!` / `.expect("signature")`) -/
theorem htlc_sigs_parse (sfc : Nat → Option Nat) (l : List (BitcoinSignature Nat))
    (h : ∀ s ∈ l, (s.sighash = 1 ∨ s.sighash = 131) ∧ ∃ e, sfc s.signature = some e) :
    ∃ hs, List.mapM (fun (s : BitcoinSignature Nat) => do
        let t_6 ← do
            let _ ← Rs.assert ((s.sighash == 1) || (s.sighash == 131))
            let t_5 ← Rs.unwrap (sfc s.signature)
            pure t_5
        pure t_6) l = (.ok hs : Rs.M (List Nat)) ∧ hs.length = l.length := by
  induction l with
  | nil => exact ⟨[], rfl, rfl⟩
  | cons x xs ih =>
    have hx := h x (by simp)
    obtain ⟨hs, h1, h2⟩ := ih (fun s hs => h s (by simp [hs]))
    obtain ⟨e, he⟩ := hx.2
    refine ⟨e :: hs, ?_, by simp [h2]⟩
    have hb : ((x.sighash == 1) || (x.sighash == 131)) = true := by
      rcases hx.1 with a | a <;> simp [a]
    simp only [List.mapM_cons, hb, Rs.assert, he, Rs.unwrap, if_true, Rs.bind_ok, Rs.pure_eq] at h1 ⊢
    rw [h1]; rfl

/-- a holder signature in the reply of `sign_holder_commitment_tx_phase2(n)` is for `n` -/
theorem signHolder_signed (c : Chan) (n : Nat) :
    (signHolder c n).out.res = .ok → (signHolder c n).out.signed = some n := by
  unfold signHolder
  split
  · simp [fail]
  · split
    · simp [fail]
    · split <;> simp [fail]

end VlsModel.Lemmas.HandlerFn
