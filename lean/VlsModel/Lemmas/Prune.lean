import VlsModel.Model.Prune
/-
Helper lemmas for C15: association-list facts (`lookup`/`insert`/`erase`/`update`/`filter`),
the store/memory invariant `Inv` and its preservation by every operation.
-/
namespace VlsModel.Prune
open VlsModel.Monitor VlsModel.Gen.Chain

/-! ### association lists -/

theorem lookup_filter_key {β} (p : Nat → Bool) (k : Nat) (l : List (Nat × β)) :
    lookup k (l.filter (fun e => p e.1)) = if p k then lookup k l else none := by
  induction l with
  | nil => simp [lookup]
  | cons e r ih =>
    obtain ⟨k', v⟩ := e
    simp only [List.filter_cons]
    cases hp : p k' with
    | true =>
      simp only [if_true, lookup]
      by_cases hk : k' = k
      · subst hk; simp [hp]
      · simp only [hk, if_false]; exact ih
    | false =>
      simp only [Bool.false_eq_true, if_false, lookup]
      by_cases hk : k' = k
      · subst hk; simp only [if_true]; rw [ih]; simp [hp]
      · simp only [hk, if_false]; exact ih

theorem lookup_erase {β} (d d' : Nat) (l : List (Nat × β)) :
    lookup d (erase d' l) = if d = d' then none else lookup d l := by
  unfold erase
  have := lookup_filter_key (β := β) (fun x => decide (x ≠ d')) d l
  simp only [decide_not, Bool.not_eq_eq_eq_not, Bool.not_true, decide_eq_false_iff_not] at this
  simp only [ne_eq, decide_not]
  rw [this]
  by_cases h : d = d' <;> simp [h]

theorem lookup_insert {β} (d d' : Nat) (v : β) (l : List (Nat × β)) :
    lookup d (insert d' v l) = if d = d' then some v else lookup d l := by
  unfold insert
  simp only [lookup]
  by_cases h : d' = d
  · subst h; simp
  · have h' : ¬ d = d' := fun e => h e.symm
    simp only [h, h', if_false]
    rw [lookup_erase]; simp [h']

theorem lookup_update {β} (k key : Nat) (f : β → β) (l : List (Nat × β)) :
    lookup k (update key f l) = if k = key then (lookup k l).map f else lookup k l := by
  induction l with
  | nil => simp [update, lookup]
  | cons e r ih =>
    obtain ⟨k', v⟩ := e
    simp only [update]
    by_cases h1 : k' = key
    · subst h1
      simp only [if_true, lookup]
      by_cases h2 : k' = k
      · subst h2; simp
      · have : ¬ k = k' := fun e => h2 e.symm
        simp [h2, this]
    · simp only [h1, if_false, lookup]
      by_cases h2 : k' = k
      · subst h2; simp [h1]
      · simp only [h2, if_false]; exact ih

/-- an entry that `lookup` finds and that satisfies the filter is still found after filtering -/
theorem lookup_filter_of_pos {β} (p : Nat × β → Bool) (d : Nat) (v : β) (l : List (Nat × β))
    (h : lookup d l = some v) (hp : p (d, v) = true) : lookup d (l.filter p) = some v := by
  induction l with
  | nil => simp [lookup] at h
  | cons e r ih =>
    obtain ⟨k', v'⟩ := e
    simp only [lookup] at h
    by_cases hk : k' = d
    · subst hk
      simp only [if_true, Option.some.injEq] at h
      subst h
      simp [hp, lookup]
    · simp only [hk, if_false] at h
      simp only [List.filter_cons]
      split
      · simp only [lookup, hk, if_false]; exact ih h
      · exact ih h

theorem lookup_mem {β} {d : Nat} {v : β} {l : List (Nat × β)} (h : lookup d l = some v) :
    (d, v) ∈ l := by
  induction l with
  | nil => simp [lookup] at h
  | cons e r ih =>
    obtain ⟨k', v'⟩ := e
    simp only [lookup] at h
    by_cases hk : k' = d
    · subst hk
      simp only [if_true, Option.some.injEq] at h
      subst h; exact List.mem_cons_self
    · simp only [hk, if_false] at h
      exact List.mem_cons_of_mem _ (ih h)

/-- keys are pairwise distinct -/
def KeysNodup {β} (l : List (Nat × β)) : Prop := (l.map (·.1)).Nodup

theorem KeysNodup.filter {β} {l : List (Nat × β)} (h : KeysNodup l) (p : Nat × β → Bool) :
    KeysNodup (l.filter p) :=
  List.Nodup.sublist (List.Sublist.map _ List.filter_sublist) h

theorem KeysNodup.erase {β} {l : List (Nat × β)} (h : KeysNodup l) (d : Nat) :
    KeysNodup (erase d l) := h.filter _

theorem KeysNodup.insert {β} {l : List (Nat × β)} (h : KeysNodup l) (d : Nat) (v : β) :
    KeysNodup (insert d v l) := by
  unfold Prune.insert KeysNodup
  simp only [List.map_cons]
  refine List.nodup_cons.mpr ⟨?_, h.erase d⟩
  intro hm
  obtain ⟨e, he, hd⟩ := List.mem_map.mp hm
  unfold Prune.erase at he
  have := (List.mem_filter.mp he).2
  simp at this
  exact this hd

theorem KeysNodup.eq_of_mem {β} {l : List (Nat × β)} (h : KeysNodup l) {e e' : Nat × β}
    (he : e ∈ l) (he' : e' ∈ l) (hk : e.1 = e'.1) : e = e' := by
  induction l with
  | nil => cases he
  | cons x r ih =>
    unfold KeysNodup at h
    simp only [List.map_cons] at h
    obtain ⟨hx, hr⟩ := List.nodup_cons.mp h
    rcases List.mem_cons.mp he with rfl | he1
    · rcases List.mem_cons.mp he' with rfl | he2
      · rfl
      · exact absurd (List.mem_map.mpr ⟨e', he2, hk.symm⟩) hx
    · rcases List.mem_cons.mp he' with rfl | he2
      · exact absurd (List.mem_map.mpr ⟨e, he1, hk⟩) hx
      · exact ih hr he1 he2

/-! ### the forget flag and `isDone` -/

theorem setForget_idem (l : Listener) : setForget (setForget l) = setForget l := rfl

/-- `a` (persisted copy) equals `b` (in memory) except that `b` may already carry the forget flag -/
def Weaker (a b : Listener) : Prop := a = b ∨ setForget a = b

theorem Weaker.refl (a : Listener) : Weaker a a := Or.inl rfl

theorem Weaker.setForget {a b : Listener} (h : Weaker a b) : Weaker a (setForget b) := by
  rcases h with rfl | rfl
  · exact Or.inr rfl
  · exact Or.inr rfl

theorem isDone_setForget_false {l : Listener} {m : Nat} (h : (setForget l).st.isDone m = false) :
    l.st.isDone m = false := by
  unfold State.isDone State.deepEnough State.depthOf at *
  simp only [setForget] at h
  simp only [Bool.or_eq_false_iff] at h ⊢
  obtain ⟨⟨h1, h2⟩, h3⟩ := h
  refine ⟨⟨?_, ?_⟩, ?_⟩
  · split
    · rfl
    · rename_i hn; simp [hn] at h1
  · split
    · rfl
    · rename_i hn; simp [hn] at h2
  · split
    · rfl
    · rename_i hn; simp [hn] at h3

theorem Weaker.isDone_false {a b : Listener} {m : Nat} (h : Weaker a b)
    (hb : b.st.isDone m = false) : a.st.isDone m = false := by
  rcases h with rfl | rfl
  · exact hb
  · exact isDone_setForget_false hb

/-- relation between the persisted and the in-memory entry under one key -/
def OptWeaker : Option Listener → Option Listener → Prop
  | none, none => True
  | some a, some b => Weaker a b
  | _, _ => False

theorem OptWeaker.refl (o : Option Listener) : OptWeaker o o := by
  cases o with
  | none => trivial
  | some a => exact Weaker.refl a

theorem OptWeaker.map_setForget {a b : Option Listener} (h : OptWeaker a b) :
    OptWeaker a (b.map setForget) := by
  cases a <;> cases b <;> simp_all [OptWeaker]
  exact h.setForget

/-- `isDone` unfolded -/
theorem isDone_true {s : State} {m : Nat} (h : s.isDone m = true) :
    s.sawForget = true ∧
      (m ≤ s.depthOf s.dsHeight ∨ m ≤ s.depthOf s.mutualHeight ∨ m ≤ s.depthOf s.closingSweptHeight) := by
  unfold State.isDone State.deepEnough at h
  simp only [Bool.or_eq_true] at h
  rcases h with (h | h) | h
  · split at h
    · cases h
    · exact ⟨h, Or.inl (by omega)⟩
  · split at h
    · cases h
    · exact ⟨h, Or.inr (Or.inl (by omega))⟩
  · split at h
    · cases h
    · exact ⟨h, Or.inr (Or.inr (by omega))⟩

/-! ### the invariant -/

/-- The persisted copy agrees with memory on the high-water mark and the channel map, channel ids
are distinct, and the persisted listeners equal the in-memory ones except that the forget flag may
be missing in the store (when `forget_channel` does not persist the tracker, F12). -/
structure Inv (n : Node) : Prop where
  hwm : n.store.hwm = n.hwm
  chans : n.store.channels = n.channels
  nodup : KeysNodup n.channels
  lrel : ∀ k, OptWeaker (lookup k n.store.listeners) (lookup k n.listeners)

theorem inv_init (h : Nat) (r : Bool) (mc : Nat := maxChannelsDefault) : Inv (Node.init h r mc) :=
  ⟨rfl, rfl, List.nodup_nil, fun _ => trivial⟩

theorem inv_newChannel {n : Node} (i : Inv n) (d : Nat) : Inv (newChannel n d).1 := by
  unfold newChannel
  split
  · exact i
  · split
    · exact i
    · split
      · exact i
      · exact ⟨i.hwm, by simp only [i.chans], i.nodup.insert _ _, i.lrel⟩

theorem inv_setup {n : Node} (i : Inv n) (d key ft fv : Nat) (ins : List OutPoint) :
    Inv (setup n d key ft fv ins).1 := by
  unfold setup
  split
  · exact i
  · exact i
  · exact ⟨i.hwm, by simp only [i.chans], i.nodup.insert _ _, fun _ => OptWeaker.refl _⟩

theorem inv_forget {n : Node} (i : Inv n) (d : Nat) : Inv (forget n d).1 := by
  unfold forget
  split
  · exact i
  · simp only
    split
    · exact ⟨rfl, by simp only [i.chans], i.nodup.erase _, i.lrel⟩
    · rename_i key
      refine ⟨rfl, i.chans, i.nodup, ?_⟩
      intro k
      simp only
      split
      · exact OptWeaker.refl _
      · rw [lookup_update]
        split
        · exact (i.lrel k).map_setForget
        · exact i.lrel k

/-- ids of the pruned entries are exactly the ids of prunable entries (distinct ids) -/
theorem heartbeat_keep_eq {n : Node} (hn : KeysNodup n.channels) :
    n.channels.filter (fun e => !((n.channels.filter (fun e => prunable n e.2)).map (·.1)).contains e.1)
      = n.channels.filter (fun e => !prunable n e.2) := by
  apply List.filter_congr
  intro e he
  congr 1
  cases hp : prunable n e.2 with
  | true =>
    rw [List.contains_iff_mem]
    exact List.mem_map.mpr ⟨e, List.mem_filter.mpr ⟨he, hp⟩, rfl⟩
  | false =>
    cases hc : ((n.channels.filter (fun e => prunable n e.2)).map (·.1)).contains e.1 with
    | false => rfl
    | true =>
      rw [List.contains_iff_mem] at hc
      obtain ⟨e', he', hk⟩ := List.mem_map.mp hc
      obtain ⟨hm, hp'⟩ := List.mem_filter.mp he'
      have := hn.eq_of_mem hm he hk
      subst this
      rw [hp] at hp'; cases hp'

theorem inv_heartbeat {n : Node} (i : Inv n) : Inv (heartbeat n).1 := by
  unfold heartbeat
  refine ⟨i.hwm, ?_, i.nodup.filter _, ?_⟩
  · simp only [i.chans]
    exact heartbeat_keep_eq i.nodup
  · intro k
    simp only
    split
    · rename_i he
      rw [List.isEmpty_iff] at he
      rw [he]
      simp only [List.contains_nil, Bool.not_false]
      rw [List.filter_eq_self.mpr (fun _ _ => rfl)]
      exact i.lrel k
    · exact OptWeaker.refl _

theorem inv_addBlock {n : Node} (i : Inv n) (txs : List Tx) : Inv (addBlock n txs).1 := by
  unfold addBlock
  split
  · exact i
  · exact ⟨i.hwm, i.chans, i.nodup, fun _ => OptWeaker.refl _⟩

theorem inv_removeBlock {n : Node} (i : Inv n) (txs : List Tx) : Inv (removeBlock n txs).1 := by
  unfold removeBlock
  split
  · exact i
  · split
    · exact i
    · exact ⟨i.hwm, i.chans, i.nodup, fun _ => OptWeaker.refl _⟩

theorem inv_restart {n : Node} (i : Inv n) : Inv (restart n).1 := by
  unfold restart
  exact ⟨rfl, rfl, by simpa only [i.chans] using i.nodup, fun _ => OptWeaker.refl _⟩

theorem inv_step {n : Node} (i : Inv n) (op : Op) : Inv (step n op).1 := by
  cases op with
  | newChannel d => exact inv_newChannel i d
  | setup d k t v ins => exact inv_setup i d k t v ins
  | forget d => exact inv_forget i d
  | heartbeat => exact inv_heartbeat i
  | addBlock txs => exact inv_addBlock i txs
  | removeBlock txs => exact inv_removeBlock i txs
  | restart => exact inv_restart i

theorem inv_run {n : Node} (i : Inv n) (ops : List Op) : Inv (run n ops) := by
  induction ops generalizing n with
  | nil => exact i
  | cons op ops ih => exact ih (inv_step i op)

/-! ### high-water mark -/

theorem hwm_step {n : Node} (i : Inv n) (op : Op) : n.hwm ≤ (step n op).1.hwm := by
  cases op with
  | newChannel d =>
    simp only [step, newChannel]
    split
    · exact Nat.le_refl _
    · split
      · exact Nat.le_refl _
      · split <;> exact Nat.le_refl _
  | setup d k t v ins =>
    simp only [step, setup]
    split <;> exact Nat.le_refl _
  | forget d =>
    simp only [step, forget]
    split
    · exact Nat.le_refl _
    · split <;> (simp only; split <;> omega)
  | heartbeat => exact Nat.le_refl _
  | addBlock txs =>
    simp only [step, addBlock]
    split <;> exact Nat.le_refl _
  | removeBlock txs =>
    simp only [step, removeBlock]
    split
    · exact Nat.le_refl _
    · split <;> exact Nat.le_refl _
  | restart =>
    simp only [step, restart]
    rw [i.hwm]; exact Nat.le_refl _

theorem hwm_run {n : Node} (i : Inv n) (ops : List Op) : n.hwm ≤ (run n ops).hwm := by
  induction ops generalizing n with
  | nil => exact Nat.le_refl _
  | cons op ops ih => exact Nat.le_trans (hwm_step i op) (ih (inv_step i op))

theorem forget_hwm {n : Node} {d : Nat} {slot : ChanSlot} (h : lookup d n.channels = some slot) :
    d ≤ (forget n d).1.hwm := by
  unfold forget
  rw [h]
  simp only
  split <;> (simp only; split <;> omega)

/-! ### what a single step does to a ready channel -/

/-- every operation except the heartbeat leaves a ready channel entry in place -/
theorem ready_step_of_ne_heartbeat {n : Node} (i : Inv n) {d k : Nat}
    (h : lookup d n.channels = some (.ready k)) (op : Op) (hop : op ≠ .heartbeat) :
    lookup d (step n op).1.channels = some (.ready k) := by
  cases op with
  | heartbeat => exact absurd rfl hop
  | newChannel d' =>
    simp only [step, newChannel]
    split
    · exact h
    · split
      · exact h
      · split
        · exact h
        · rename_i hn
          simp only
          rw [lookup_insert]
          split
          · rename_i hd; subst hd; rw [hn] at h; cases h
          · exact h
  | setup d' key t v ins =>
    simp only [step, setup]
    split
    · exact h
    · exact h
    · rename_i bh hs
      simp only
      rw [lookup_insert]
      split
      · rename_i hd; subst hd; rw [hs] at h; cases h
      · exact h
  | forget d' =>
    simp only [step, forget]
    split
    · exact h
    · rename_i slot hs
      split
      · rw [lookup_erase]
        split
        · rename_i hd; subst hd; rw [hs] at h; cases h
        · exact h
      · exact h
  | addBlock txs =>
    simp only [step, addBlock]
    split <;> exact h
  | removeBlock txs =>
    simp only [step, removeBlock]
    split
    · exact h
    · split <;> exact h
  | restart =>
    simp only [step, restart]
    rw [i.chans]; exact h

/-- a ready channel that is not prunable survives the heartbeat -/
theorem ready_heartbeat_of_not_prunable {n : Node} {d k : Nat}
    (h : lookup d n.channels = some (.ready k)) (hp : prunable n (.ready k) = false) :
    lookup d (heartbeat n).1.channels = some (.ready k) := by
  unfold heartbeat
  simp only
  exact lookup_filter_of_pos _ d _ _ h (by simp [hp])

/-- the listener of a non-prunable ready channel survives the heartbeat -/
theorem listener_heartbeat_of_not_prunable {n : Node} {k : Nat}
    (hp : prunable n (.ready k) = false) :
    lookup k (heartbeat n).1.listeners = lookup k n.listeners := by
  unfold heartbeat
  simp only
  generalize hg : List.filterMap _ (List.filter (fun e => prunable n e.snd) n.channels) = gk
  rw [lookup_filter_key (fun x => !gk.contains x)]
  split
  · rfl
  · rename_i hc
    exfalso
    simp only [Bool.not_eq_eq_eq_not, Bool.not_true, Bool.not_eq_false] at hc
    rw [List.contains_iff_mem, ← hg] at hc
    obtain ⟨e, he, hk⟩ := List.mem_filterMap.mp hc
    obtain ⟨_, hpe⟩ := List.mem_filter.mp he
    obtain ⟨d', s⟩ := e
    cases s with
    | stub b => simp at hk
    | ready k' =>
      simp only [Option.some.injEq] at hk
      subst hk
      simp only at hpe
      rw [hp] at hpe; cases hpe

theorem prunable_ready_false {n : Node} {k : Nat} {l : Listener}
    (hl : lookup k n.listeners = some l) (hd : l.st.isDone minDepth = false) :
    prunable n (.ready k) = false := by
  simp only [prunable, hl, hd]

theorem prunable_ready_true {n : Node} {k : Nat} (h : prunable n (.ready k) = true) :
    ∃ l, lookup k n.listeners = some l ∧ l.st.isDone minDepth = true := by
  simp only [prunable] at h
  split at h
  · rename_i l hl; exact ⟨l, hl, h⟩
  · cases h

/-! ### capacity (`channels.len() >= policy.max_channels()` in `find_or_create_channel`) -/

theorem erase_eq_self_of_lookup_none {β} {d : Nat} {l : List (Nat × β)} (h : lookup d l = none) :
    erase d l = l := by
  induction l with
  | nil => rfl
  | cons e r ih =>
    obtain ⟨k', v'⟩ := e
    simp only [lookup] at h
    by_cases hk : k' = d
    · simp [hk] at h
    · simp only [hk, if_false] at h
      unfold erase at ih ⊢
      simp only [List.filter_cons, ne_eq, hk, not_false_eq_true, decide_true, if_true]
      rw [ih h]

theorem length_erase_le {β} (d : Nat) (l : List (Nat × β)) : (erase d l).length ≤ l.length :=
  List.length_filter_le _ _

/-- erasing a present key of a list with distinct keys removes exactly one entry -/
theorem length_erase_of_lookup {β} {d : Nat} {v : β} {l : List (Nat × β)} (hn : KeysNodup l)
    (h : lookup d l = some v) : (erase d l).length + 1 = l.length := by
  induction l with
  | nil => simp [lookup] at h
  | cons e r ih =>
    obtain ⟨k', v'⟩ := e
    unfold KeysNodup at hn
    simp only [List.map_cons] at hn
    obtain ⟨hx, hr⟩ := List.nodup_cons.mp hn
    simp only [lookup] at h
    by_cases hk : k' = d
    · subst hk
      have hnone : lookup k' r = none := by
        cases hl : lookup k' r with
        | none => rfl
        | some w => exact absurd (List.mem_map.mpr ⟨(k', w), lookup_mem hl, rfl⟩) hx
      have he : erase k' ((k', v') :: r) = erase k' r := by
        unfold erase; simp
      rw [he, erase_eq_self_of_lookup_none hnone]; rfl
    · simp only [hk, if_false] at h
      have he : erase d ((k', v') :: r) = (k', v') :: erase d r := by
        unfold erase; simp [hk]
      rw [he]; simp only [List.length_cons]
      have := ih hr h
      omega

/-- replacing the value of a present key keeps the number of entries -/
theorem length_insert_of_lookup {β} {d : Nat} {v w : β} {l : List (Nat × β)} (hn : KeysNodup l)
    (h : lookup d l = some v) : (insert d w l).length = l.length := by
  unfold insert
  simp only [List.length_cons]
  exact length_erase_of_lookup hn h

theorem length_insert_of_lookup_none {β} {d : Nat} {w : β} {l : List (Nat × β)}
    (h : lookup d l = none) : (insert d w l).length = l.length + 1 := by
  unfold insert
  rw [erase_eq_self_of_lookup_none h]; rfl

theorem maxChannels_step (n : Node) (op : Op) : (step n op).1.maxChannels = n.maxChannels := by
  cases op with
  | newChannel d => simp only [step, newChannel]; split; · rfl
                    split; · rfl
                    split <;> rfl
  | setup d k t v ins => simp only [step, setup]; split <;> rfl
  | forget d => simp only [step, forget]; split; · rfl
                split <;> rfl
  | heartbeat => rfl
  | addBlock txs => simp only [step, addBlock]; split <;> rfl
  | removeBlock txs => simp only [step, removeBlock]; split; · rfl
                       split <;> rfl
  | restart => rfl

/-- the channel map never grows beyond the configured capacity: only `new_channel` adds an entry, and only below
    the limit; `setup_channel` replaces the stub under the same id; forget/prune/restart do not add entries -/
theorem capacity_step {n : Node} (i : Inv n) (hc : n.channels.length ≤ n.maxChannels) (op : Op) :
    (step n op).1.channels.length ≤ n.maxChannels := by
  cases op with
  | newChannel d =>
    simp only [step, newChannel]
    split
    · exact hc
    · split
      · exact hc
      · rename_i hlt
        split
        · exact hc
        · rename_i hnone
          simp only
          rw [length_insert_of_lookup_none hnone]
          omega
  | setup d k t v ins =>
    simp only [step, setup]
    split
    · exact hc
    · exact hc
    · rename_i bh hs
      simp only
      rw [length_insert_of_lookup i.nodup hs]; exact hc
  | forget d =>
    simp only [step, forget]
    split
    · exact hc
    · split
      · exact Nat.le_trans (length_erase_le _ _) hc
      · exact hc
  | heartbeat =>
    simp only [step, heartbeat]
    exact Nat.le_trans (List.length_filter_le _ _) hc
  | addBlock txs =>
    simp only [step, addBlock]
    split <;> exact hc
  | removeBlock txs =>
    simp only [step, removeBlock]
    split
    · exact hc
    · split <;> exact hc
  | restart =>
    simp only [step, restart]
    rw [i.chans]; exact hc

theorem maxChannels_run (n : Node) (ops : List Op) : (run n ops).maxChannels = n.maxChannels := by
  induction ops generalizing n with
  | nil => rfl
  | cons op ops ih => simp only [run]; rw [ih, maxChannels_step]

theorem capacity_run {n : Node} (i : Inv n) (hc : n.channels.length ≤ n.maxChannels) (ops : List Op) :
    (run n ops).channels.length ≤ n.maxChannels := by
  induction ops generalizing n with
  | nil => exact hc
  | cons op ops ih =>
    simp only [run]
    have := ih (inv_step i op) (by rw [maxChannels_step]; exact capacity_step i hc op)
    rw [maxChannels_step] at this
    exact this

end VlsModel.Prune
