import VlsModel.Lemmas.Monitor
import VlsModel.Lemmas.MonitorValid
import VlsModel.Lemmas.MonitorSim
import VlsModel.Lemmas.MonitorPre
import VlsModel.Lemmas.MonitorWF
/-
Whole-chain (consensus) validity for C14: the representation invariant `Rep` linking the monitor
state to the prefix of the chain it has seen.

* `Just tx t ch`: why the listener emitted change `ch` while scanning transaction `tx` (which input
  of `tx` / which txid it is about); `just_run`: every detected change is justified by a transaction
  of the block, at the state where it is applied;
* `Rep ftx fins X I s`: every fact recorded in `s` is about a txid in `X` / an input in `I`
  (`X`, `I`: txids and inputs of the chain prefix);
* `Rep.step`, `Rep.applyAll`, `Rep.addEnd`: `Rep` is preserved by applicable, justified changes.
-/
namespace VlsModel.Monitor

/-! ### a predicate holding along a forward run -/

def Along (P : State → Change → Prop) : State → List Change → Prop
  | _, [] => True
  | s, c :: cs => P s c ∧ ∀ s1 a r, applyForward s c = some (s1, a, r) → Along P s1 cs

theorem Along_snoc {P : State → Change → Prop} {t0 t : State} {new : List Change}
    {a r : List OutPoint} {ch : Change}
    (hp : Along P t0 new) (h : applyAll applyForward t0 new = some (t, a, r)) (hc : P t ch) :
    Along P t0 (new ++ [ch]) := by
  induction new generalizing t0 a r with
  | nil =>
    simp only [applyAll, Option.some.injEq, Prod.mk.injEq] at h
    obtain ⟨rfl, _, _⟩ := h
    exact ⟨hc, fun _ _ _ _ => trivial⟩
  | cons c cs ih =>
    refine ⟨hp.1, ?_⟩
    intro s1 a1 r1 h1
    simp only [applyAll, h1] at h
    cases hrest : applyAll applyForward s1 cs with
    | none => simp [hrest] at h
    | some d2 =>
      obtain ⟨sx, a2, r2⟩ := d2
      simp only [hrest, Option.some.injEq, Prod.mk.injEq] at h
      obtain ⟨rfl, _, _⟩ := h
      exact ih (hp.2 s1 a1 r1 h1) hrest

theorem Along_nz {P : State → Change → Prop}
    (hP : ∀ a b c, nz a = nz b → P a c → P b c) {a b : State} (h : nz a = nz b)
    {cs : List Change} (hp : Along P a cs) : Along P b cs := by
  induction cs generalizing a b with
  | nil => trivial
  | cons c cs ih =>
    refine ⟨hP a b c h hp.1, ?_⟩
    intro b1 ab rb hb
    have k := applyForward_nz h c
    rw [hb] at k
    cases ha : applyForward a c with
    | none => rw [ha] at k; simp at k
    | some d =>
      obtain ⟨a1, aa, ra⟩ := d
      rw [ha] at k
      simp only [Option.map_some, Option.some.injEq] at k
      exact ih k (hp.2 a1 aa ra ha)

/-! ### justification of a detected change -/

/-- why the listener emits `ch` while scanning `tx` on the temporary state `t` -/
def Just (tx : Tx) (t : State) : Change → Prop
  | .fundingConfirmed op => op.1 = tx.txid ∧ tx.txid ∈ t.fundingTxids
  | .fundingInputSpent op => op ∈ tx.inputs ∧ op ∈ t.fundingInputs
  | .unilateral _ fo _ _ => fo ∈ tx.inputs ∧ some fo = t.fundingOutpoint
  | .mutual _ fo => fo ∈ tx.inputs ∧ some fo = t.fundingOutpoint
  | .ourSpent v => ∀ c, t.closing = some c → (c.txid, v) ∈ tx.inputs
  | .htlcSpent v sl => sl.1 = tx.txid ∧ ∀ c, t.closing = some c → (c.txid, v) ∈ tx.inputs
  | .secondSpent op => op ∈ tx.inputs

def JustB (txs : List Tx) (t : State) (c : Change) : Prop := ∃ tx ∈ txs, Just tx t c

theorem Just_nz {tx : Tx} (a b : State) (c : Change) (h : nz a = nz b) (hp : Just tx a c) :
    Just tx b c := by
  cases a; cases b
  simp only [nz, State.mk.injEq] at h
  obtain ⟨_, h2, h3, h4, h5, h6, _, h8, h9, h10, h11, h12, h13, h14⟩ := h
  subst h2 h4 h6 h10
  cases c <;> simpa [Just] using hp

theorem JustB_nz {txs : List Tx} (a b : State) (c : Change) (h : nz a = nz b)
    (hp : JustB txs a c) : JustB txs b c := by
  obtain ⟨tx, hm, hj⟩ := hp
  exact ⟨tx, hm, Just_nz a b c h hj⟩

/-- `cs` extends `cs0` by changes justified along the forward run from `t0`, which ends in `t` -/
def JTr (txs0 : List Tx) (t0 : State) (cs0 : List Change) (t : State) (cs : List Change) : Prop :=
  ∃ new a r, cs = cs0 ++ new ∧ applyAll applyForward t0 new = some (t, a, r) ∧
    Along (JustB txs0) t0 new

theorem JTr.refl (txs0 : List Tx) (t0 : State) (cs0 : List Change) : JTr txs0 t0 cs0 t0 cs0 :=
  ⟨[], [], [], by simp, rfl, trivial⟩

theorem JTr.addChange {txs0 : List Tx} {t0 : State} {cs0 : List Change} {d d' : Scratch}
    {ch : Change}
    (q : JTr txs0 t0 cs0 d.t d.changes) (hp : JustB txs0 d.t ch) (h : d.addChange ch = some d') :
    JTr txs0 t0 cs0 d'.t d'.changes := by
  obtain ⟨new, a, r, q1, q2, q3⟩ := q
  obtain ⟨x, hx, rfl⟩ := Option.map_eq_some_iff.mp h
  obtain ⟨t', a', r'⟩ := x
  refine ⟨new ++ [ch], a ++ (a' ++ []), r ++ (r' ++ []), by simp [q1], ?_, Along_snoc q3 q2 hp⟩
  simp only [applyAll_append, q2, applyAll_single, hx, Option.map_some]

theorem JTr.add {txs0 : List Tx} {t0 : State} {cs0 : List Change} {d d' : Scratch}
    {ch : Change} (q : JTr txs0 t0 cs0 d.t d.changes) (h : d.addChange ch = some d')
    (tx : Tx) (hmt : tx ∈ txs0) (hj : Just tx d.t ch) :
    JTr txs0 t0 cs0 d'.t d'.changes :=
  q.addChange ⟨tx, hmt, hj⟩ h

/-! ### the txid of the recorded closing transaction never changes (except by `unilateral`) -/

theorem core_txid {c c' : Closing} (h : c'.core = c.core) : c'.txid = c.txid := by
  simp only [Closing.core, Prod.mk.injEq] at h
  exact h.1

theorem closing_txid_kept {t t' : State} {ch : Change} {a r : List OutPoint}
    (h : applyForward t ch = some (t', a, r))
    (hne : ∀ x fo o hs, ch ≠ .unilateral x fo o hs) :
    ∀ c', t'.closing = some c' → ∃ c, t.closing = some c ∧ c'.txid = c.txid := by
  cases ch with
  | fundingConfirmed op =>
    simp only [applyForward, Option.some.injEq, Prod.mk.injEq] at h
    obtain ⟨rfl, _, _⟩ := h
    exact fun c' hc' => ⟨c', hc', rfl⟩
  | fundingInputSpent op =>
    simp only [applyForward, Option.some.injEq, Prod.mk.injEq] at h
    obtain ⟨rfl, _, _⟩ := h
    exact fun c' hc' => ⟨c', hc', rfl⟩
  | «mutual» txid fo =>
    simp only [applyForward, Option.some.injEq, Prod.mk.injEq] at h
    obtain ⟨rfl, _, _⟩ := h
    exact fun c' hc' => ⟨c', hc', rfl⟩
  | unilateral x fo o hs => exact absurd rfl (hne x fo o hs)
  | ourSpent v =>
    simp only [applyForward] at h
    cases hc : t.closing with
    | none => simp [hc] at h
    | some ct =>
      simp only [hc] at h
      obtain ⟨ct', hct', hh⟩ := Option.map_eq_some_iff.mp h
      simp only [Prod.mk.injEq] at hh
      obtain ⟨rfl, _, _⟩ := hh
      intro c' hc'
      simp only [Option.some.injEq] at hc'
      subst hc'
      exact ⟨ct, rfl, core_txid (setOurSpent_some hct').2⟩
  | secondSpent op =>
    simp only [applyForward] at h
    cases hc : t.closing with
    | none => simp [hc] at h
    | some ct =>
      simp only [hc] at h
      obtain ⟨ct', hct', hh⟩ := Option.map_eq_some_iff.mp h
      simp only [Prod.mk.injEq] at hh
      obtain ⟨rfl, _, _⟩ := hh
      intro c' hc'
      simp only [Option.some.injEq] at hc'
      subst hc'
      exact ⟨ct, rfl, core_txid (setSecondSpent_some hct').2⟩
  | htlcSpent v sl =>
    simp only [applyForward] at h
    cases hc : t.closing with
    | none => simp [hc] at h
    | some ct =>
      simp only [hc] at h
      obtain ⟨ct', hct', hh⟩ := Option.map_eq_some_iff.mp h
      simp only [Prod.mk.injEq] at hh
      obtain ⟨rfl, _, _⟩ := hh
      intro c' hc'
      simp only [Option.some.injEq] at hc'
      subst hc'
      exact ⟨ct, rfl, (core_txid (setHtlcSpent_some hct').2 : ct'.txid = ct.txid)⟩

/-- the pending HTLC spends refer to inputs of `tx` -/
def ShOk (tx : Tx) (d : Scratch) : Prop :=
  ∀ p ∈ d.spentHtlc, ∀ c, d.t.closing = some c → (c.txid, p.1) ∈ tx.inputs

theorem ShOk.addChange {tx : Tx} {d d' : Scratch} {ch : Change} (q : ShOk tx d)
    (hne : ∀ x fo o hs, ch ≠ .unilateral x fo o hs) (h : d.addChange ch = some d') :
    ShOk tx d' := by
  obtain ⟨a, r, hap, _, _, _, hsh⟩ := addChange_some h
  intro p hp c' hc'
  rw [hsh] at hp
  obtain ⟨c, hc, e⟩ := closing_txid_kept hap hne c' hc'
  rw [e]
  exact q p hp c hc

/-! ### the listener invariant while the inputs of a transaction are processed -/

structure JI (txs0 : List Tx) (t0 : State) (cs0 : List Change) (t : State) (tx : Tx)
    (d : Scratch) : Prop where
  tr : JTr txs0 t0 cs0 d.t d.changes
  core : d.t.core = t.core
  cin : ∀ fo, d.closingIn = some fo → fo ∈ tx.inputs ∧ some fo = t.fundingOutpoint
  ne : t.closing = none → d.spentHtlc = []
  sh : ShOk tx d

theorem simple_not_uni {ch : Change} (hs : ch.simple) : ∀ x fo o h, ch ≠ .unilateral x fo o h := by
  intro x fo o h e
  subst e
  exact hs

theorem JI.step {txs0 : List Tx} {t0 : State} {cs0 : List Change} {t : State} {tx : Tx}
    {d d' : Scratch} {ch : Change} (q : JI txs0 t0 cs0 t tx d) (hmt : tx ∈ txs0)
    (hs : ch.simple) (hj : Just tx d.t ch) (h : d.addChange ch = some d') :
    JI txs0 t0 cs0 t tx d' := by
  obtain ⟨a, r, hap, _, _, hci, hsh⟩ := addChange_some h
  exact ⟨q.tr.addChange ⟨tx, hmt, hj⟩ h, (addChange_simple_core hs h).trans q.core,
    fun fo hfo => q.cin fo (hci ▸ hfo), fun hn => hsh.trans (q.ne hn),
    q.sh.addChange (simple_not_uni hs) h⟩

theorem core_fo {a b : State} (h : a.core = b.core) : a.fundingOutpoint = b.fundingOutpoint := by
  simp only [State.core, Prod.mk.injEq] at h
  exact h.2.2.2.1

theorem core_ft {a b : State} (h : a.core = b.core) : a.fundingTxids = b.fundingTxids := by
  simp only [State.core, Prod.mk.injEq] at h
  exact h.2.1

theorem JI.onInput {txs0 : List Tx} {t0 : State} {cs0 : List Change} {t : State} {tx : Tx}
    {d d' : Scratch} {inp : OutPoint} (q : JI txs0 t0 cs0 t tx d) (hmt : tx ∈ txs0)
    (hm : inp ∈ tx.inputs) (h : onInput d inp = some d') : JI txs0 t0 cs0 t tx d' := by
  rw [onInput_eq] at h
  obtain ⟨d1, e1, h⟩ := Option.bind_eq_some_iff.mp h
  obtain ⟨d3, e3, e4⟩ := Option.bind_eq_some_iff.mp h
  have q1 : JI txs0 t0 cs0 t tx d1 := by
    simp only [in1] at e1
    split at e1
    · rename_i hc
      exact q.step hmt (ch := .fundingInputSpent inp) trivial ⟨hm, by simpa using hc⟩ e1
    · cases e1; exact q
  have q2 : JI txs0 t0 cs0 t tx (in2 inp d1) := by
    simp only [in2]
    split
    · rename_i hh
      refine ⟨q1.tr, q1.core, ?_, q1.ne, q1.sh⟩
      intro fo hfo
      simp only [Option.some.injEq] at hfo
      subst hfo
      exact ⟨hm, (core_fo q1.core) ▸ hh⟩
    · exact q1
  generalize in2 inp d1 = d2 at q2 e3
  have q3 : JI txs0 t0 cs0 t tx d3 := by
    simp only [in3] at e3
    split at e3
    · rename_i c hc
      split at e3
      · rename_i hi
        obtain ⟨h1, _⟩ := (includesOur_iff c inp).mp hi
        refine q2.step hmt (ch := .ourSpent inp.2) trivial ?_ e3
        intro c' hc'
        rw [hc] at hc'; cases hc'
        rw [h1]; exact hm
      · split at e3
        · rename_i hi
          cases e3
          have htx := includesHtlc_txid hi
          refine ⟨q2.tr, q2.core, q2.cin, ?_, ?_⟩
          · intro hnone
            exfalso
            rcases closing_core_cases q2.core with ⟨e, _⟩ | ⟨_, _, _, e', _⟩
            · rw [hc] at e; cases e
            · rw [hnone] at e'; cases e'
          · intro p hp c' hc'
            simp only at hc'
            rw [hc] at hc'; cases hc'
            simp only [List.mem_append, List.mem_singleton] at hp
            rcases hp with hp | hp
            · exact q2.sh p hp c hc
            · subst hp
              simp only
              rw [htx]; exact hm
        · split at e3
          · exact q2.step hmt (ch := .secondSpent inp) trivial hm e3
          · cases e3; exact q2
    · cases e3; exact q2
  simp only [in4] at e4
  split at e4
  · cases e4
  · cases e4
    exact ⟨q3.tr, q3.core, q3.cin, q3.ne, q3.sh⟩

theorem JI.onInputs {txs0 : List Tx} {t0 : State} {cs0 : List Change} {t : State} {tx : Tx}
    {is : List OutPoint} {d d' : Scratch} (q : JI txs0 t0 cs0 t tx d) (hmt : tx ∈ txs0)
    (hm : ∀ inp ∈ is, inp ∈ tx.inputs) (h : onInputs d is = some d') :
    JI txs0 t0 cs0 t tx d' := by
  induction is generalizing d with
  | nil => simp only [Monitor.onInputs, Option.some.injEq] at h; subst h; exact q
  | cons i is ih =>
    simp only [Monitor.onInputs] at h
    cases e1 : Monitor.onInput d i with
    | none => simp [e1] at h
    | some d1 =>
      simp only [e1] at h
      exact ih (q.onInput hmt (hm i (by simp)) e1) (fun inp h' => hm inp (by simp [h'])) h

theorem j_tx4_loop {txs0 : List Tx} {t0 : State} {cs0 : List Change} {tx : Tx}
    (hmt : tx ∈ txs0) (pend : List (Nat × Nat)) {d d' : Scratch}
    (jt : JTr txs0 t0 cs0 d.t d.changes)
    (sh : ∀ p ∈ pend, ∀ c, d.t.closing = some c → (c.txid, p.1) ∈ tx.inputs)
    (h : addChanges d (pend.map fun p => Change.htlcSpent p.1 (tx.txid, p.2)) = some d') :
    JTr txs0 t0 cs0 d'.t d'.changes := by
  induction pend generalizing d with
  | nil =>
    simp only [List.map_nil, addChanges, Option.some.injEq] at h
    subst h
    exact jt
  | cons p pend ih =>
    obtain ⟨v, idx⟩ := p
    simp only [List.map_cons, addChanges] at h
    cases e1 : d.addChange (Change.htlcSpent v (tx.txid, idx)) with
    | none => simp [e1] at h
    | some d1 =>
      simp only [e1] at h
      obtain ⟨a, r, hap, _, _, _, _⟩ := addChange_some e1
      refine ih (jt.add e1 tx hmt ⟨rfl, sh (v, idx) (by simp)⟩) ?_ h
      intro p' hp' c' hc'
      obtain ⟨c, hc, e⟩ := closing_txid_kept hap (by intro x fo o hs hh; cases hh) c' hc'
      rw [e]
      exact sh p' (by simp [hp']) c hc

/-- **one transaction**: the changes emitted for `tx` are justified by `tx` -/
theorem just_onTx {txs0 : List Tx} {t0 : State} {cs0 : List Change} {t t' : State}
    {cs cs' : List Change} {tx : Tx} {rest : List Tx}
    (ok : Ok t (tx :: rest)) (hmt : tx ∈ txs0)
    (jt : JTr txs0 t0 cs0 t cs) (h : onTx t cs tx = some (t', cs')) :
    JTr txs0 t0 cs0 t' cs' := by
  rw [onTx_eq] at h
  obtain ⟨dE, hE, hh⟩ := Option.map_eq_some_iff.mp h
  simp only [Prod.mk.injEq] at hh
  obtain ⟨rfl, rfl⟩ := hh
  obtain ⟨d, hd, hE⟩ := Option.bind_eq_some_iff.mp hE
  have q0 : JI txs0 t0 cs0 t tx
      { t := t, changes := cs, inputNum := 0, closingIn := none, spentHtlc := [] } :=
    ⟨jt, rfl, fun fo hfo => (by cases hfo), fun _ => rfl, fun p hp => (by cases hp)⟩
  have qd := q0.onInputs hmt (fun _ h => h) hd
  unfold txEnd at hE
  obtain ⟨d1, e1, hE⟩ := Option.bind_eq_some_iff.mp hE
  obtain ⟨d2, e2, hE⟩ := Option.bind_eq_some_iff.mp hE
  obtain ⟨d3, e3, e4⟩ := Option.bind_eq_some_iff.mp hE
  have x1 : d1 = d := by
    simp only [tx1] at e1
    split at e1
    · cases e1
    · cases e1; rfl
  subst x1
  have hft : d1.t.fundingTxids = t.fundingTxids := core_ft qd.core
  have hfo : d1.t.fundingOutpoint = t.fundingOutpoint := core_fo qd.core
  -- tx2
  have a2 : JTr txs0 t0 cs0 d2.t d2.changes ∧ ShOk tx d2 ∧ d2.closingIn = d1.closingIn ∧
      d2.spentHtlc = d1.spentHtlc ∧
      (t.fundingOutpoint.isSome → d2.t.fundingOutpoint = t.fundingOutpoint) := by
    simp only [tx2] at e2
    split at e2
    · rename_i ind hp
      split at e2
      · cases e2
      · split at e2
        · have hnone : t.fundingOutpoint = none := by
            cases hfo' : t.fundingOutpoint with
            | none => rfl
            | some o =>
              exact absurd (hft ▸ position_some_mem hp) (ok.c1 (by simp [hfo']) tx (by simp))
          obtain ⟨a, r, hap, _, _, hci, hsh⟩ := addChange_some e2
          exact ⟨qd.tr.add e2 tx hmt ⟨rfl, position_some_mem hp⟩,
            qd.sh.addChange (by intro x fo o hs hh; cases hh) e2, hci, hsh,
            fun h => by rw [hnone] at h; cases h⟩
        · cases e2
    · cases e2
      exact ⟨qd.tr, qd.sh, rfl, rfl, fun _ => hfo⟩
  obtain ⟨jt2, sh2, ci2, sp2, fo2⟩ := a2
  -- tx3
  simp only [tx3] at e3
  split at e3
  · rename_i fo hci
    obtain ⟨hm0, h0⟩ := qd.cin fo (by rw [← ci2, hci])
    have hsome : t.fundingOutpoint.isSome := by rw [← h0]; rfl
    have h0' : some fo = d2.t.fundingOutpoint := by rw [fo2 hsome]; exact h0
    have htcl : t.closing = none := by
      cases hh : t.closing with
      | none => rfl
      | some c => exact absurd h0 (ok.c2 (by simp [hh]) tx (by simp) fo hm0)
    have hsh0 : d2.spentHtlc = [] := sp2.trans (qd.ne htcl)
    split at e3
    · obtain ⟨a, r, hap, _, _, _, hsh⟩ := addChange_some e3
      have : d3.spentHtlc = [] := hsh.trans hsh0
      simp only [tx4, this, List.map_nil, addChanges, Option.some.injEq] at e4
      subst e4
      exact jt2.add e3 tx hmt ⟨hm0, h0'⟩
    · obtain ⟨a, r, hap, _, _, _, hsh⟩ := addChange_some e3
      have : d3.spentHtlc = [] := hsh.trans hsh0
      simp only [tx4, this, List.map_nil, addChanges, Option.some.injEq] at e4
      subst e4
      exact jt2.add e3 tx hmt ⟨hm0, h0'⟩
  · cases e3
    have fe : (fun (p : Nat × Nat) => match p with
        | (v, idx) => Change.htlcSpent v (tx.txid, idx)) =
        fun p => Change.htlcSpent p.1 (tx.txid, p.2) := by
      funext p; obtain ⟨v, idx⟩ := p; rfl
    unfold tx4 at e4
    rw [fe] at e4
    exact j_tx4_loop hmt d2.spentHtlc jt2 sh2 e4

theorem just_run {txs0 : List Tx} {t0 : State} {cs0 : List Change} {txs : List Tx} {t n : State}
    {cs csn : List Change} (ok : Ok t txs) (sub : ∀ tx ∈ txs, tx ∈ txs0)
    (jt : JTr txs0 t0 cs0 t cs) (h : detectFrom t cs txs = some (n, csn)) :
    JTr txs0 t0 cs0 n csn := by
  induction txs generalizing t cs with
  | nil =>
    simp only [Monitor.detectFrom, Option.some.injEq, Prod.mk.injEq] at h
    obtain ⟨rfl, rfl⟩ := h
    exact jt
  | cons tx rest ih =>
    simp only [Monitor.detectFrom] at h
    cases e : Monitor.onTx t cs tx with
    | none => simp [e] at h
    | some x =>
      obtain ⟨t', cs'⟩ := x
      simp only [e] at h
      exact ih (ok.step (onTx_eff e)) (fun tx' h' => sub tx' (by simp [h']))
        (just_onTx ok (sub tx (by simp)) jt e) h

/-- **every detected change is justified by a transaction of the block**, at the state where
`on_add_block_end` applies it -/
theorem justAll_of_ok {s : State} {txs : List Tx} {cs : List Change}
    (ok : Ok { s with sawBlock := true } txs)
    (hdet : detect { s with sawBlock := true } txs = some cs) :
    Along (JustB txs) { s with sawBlock := true, height := s.height + 1 } cs := by
  obtain ⟨x, hx, hx2⟩ := Option.map_eq_some_iff.mp hdet
  obtain ⟨n, csn⟩ := x
  simp only at hx2
  subst hx2
  obtain ⟨new, a, r, e, _, hp⟩ := just_run ok (fun _ h => h) (JTr.refl txs _ []) hx
  simp only [List.nil_append] at e
  subst e
  exact Along_nz JustB_nz (a := { s with sawBlock := true })
    (b := { s with sawBlock := true, height := s.height + 1 }) rfl hp

/-! ### the representation invariant -/

/-- Every fact recorded in the monitor state is about a txid in `X` / an input in `I` (the txids
and the inputs of the chain prefix the monitor has seen).  `ftx`: the funding txid the channel
waits for, `fins`: the inputs of the funding transaction. -/
structure Rep (ftx : Nat) (fins : List OutPoint) (X : List Nat) (I : List OutPoint) (s : State) :
    Prop where
  ft : s.fundingTxids = [ftx]
  fi : s.fundingInputs = fins
  fo : s.fundingOutpoint.isSome → ftx ∈ X
  fh : s.fundingHeight.isSome → s.fundingOutpoint.isSome
  uh : s.uniHeight.isSome → s.closing.isSome
  cf : s.closing.isSome → ∃ op, s.fundingOutpoint = some op ∧ op ∈ I
  mh : s.mutualHeight.isSome → ∃ op, s.fundingOutpoint = some op ∧ op ∈ I
  ds : s.dsHeight.isSome → ∃ inp ∈ fins, inp ∈ I
  our : ∀ c i, s.closing = some c → c.our = some (i, true) → (c.txid, i) ∈ I
  htlc : ∀ c v i, s.closing = some c → position v c.htlcOutputs = some i →
    c.htlcSpents[i]? = some true → (c.txid, v) ∈ I
  sec : ∀ c e, s.closing = some c → e ∈ c.second → e.2 = true → e.1 ∈ I
  secx : ∀ c e, s.closing = some c → e ∈ c.second → e.1.1 ∈ X

/-- the part of the state `Rep` talks about -/
def rproj (s : State) :=
  (s.fundingTxids, s.fundingInputs, s.fundingOutpoint, s.fundingHeight.isSome, s.uniHeight.isSome,
    s.mutualHeight.isSome, s.dsHeight.isSome, s.closing)

theorem Rep.congr {ftx : Nat} {fins : List OutPoint} {X : List Nat} {I : List OutPoint}
    {s s' : State} (rp : Rep ftx fins X I s) (h : rproj s' = rproj s) : Rep ftx fins X I s' := by
  simp only [rproj, Prod.mk.injEq] at h
  obtain ⟨h1, h2, h3, h4, h5, h6, h7, h8⟩ := h
  exact ⟨h1 ▸ rp.ft, h2 ▸ rp.fi, by rw [h3]; exact rp.fo, by rw [h4, h3]; exact rp.fh,
    by rw [h5, h8]; exact rp.uh, by rw [h8, h3]; exact rp.cf, by rw [h6, h3]; exact rp.mh,
    by rw [h7]; exact rp.ds, by rw [h8]; exact rp.our, by rw [h8]; exact rp.htlc,
    by rw [h8]; exact rp.sec, by rw [h8]; exact rp.secx⟩

theorem Rep.mono {ftx : Nat} {fins : List OutPoint} {X X' : List Nat} {I I' : List OutPoint}
    {s : State} (rp : Rep ftx fins X I s) (hX : ∀ x ∈ X, x ∈ X') (hI : ∀ x ∈ I, x ∈ I') :
    Rep ftx fins X' I' s :=
  ⟨rp.ft, rp.fi, fun h => hX _ (rp.fo h), rp.fh, rp.uh,
    fun h => (rp.cf h).imp fun _ hh => ⟨hh.1, hI _ hh.2⟩,
    fun h => (rp.mh h).imp fun _ hh => ⟨hh.1, hI _ hh.2⟩,
    fun h => (rp.ds h).imp fun _ hh => ⟨hh.1, hI _ hh.2⟩,
    fun c i h1 h2 => hI _ (rp.our c i h1 h2),
    fun c v i h1 h2 h3 => hI _ (rp.htlc c v i h1 h2 h3),
    fun c e h1 h2 h3 => hI _ (rp.sec c e h1 h2 h3),
    fun c e h1 h2 => hX _ (rp.secx c e h1 h2)⟩

/-- **one change**: an applicable change justified by a transaction whose txid is in `X` and whose
inputs are in `I` preserves `Rep` -/
theorem Rep.step {ftx : Nat} {fins : List OutPoint} {X : List Nat} {I : List OutPoint}
    {s s1 : State} {tx : Tx} {ch : Change} {a r : List OutPoint}
    (rp : Rep ftx fins X I s) (hX : tx.txid ∈ X) (hI : ∀ inp ∈ tx.inputs, inp ∈ I)
    (hp : Pre s ch) (hj : Just tx s ch) (h : applyForward s ch = some (s1, a, r)) :
    Rep ftx fins X I s1 := by
  cases ch with
  | fundingConfirmed op =>
    simp only [applyForward, Option.some.injEq, Prod.mk.injEq] at h
    obtain ⟨rfl, _, _⟩ := h
    obtain ⟨_, hfo⟩ := hp
    obtain ⟨_, hm⟩ := hj
    have hx : tx.txid = ftx := by rw [rp.ft] at hm; simpa using hm
    have ncl : ¬ s.closing.isSome := by
      intro hc; obtain ⟨op', h1, _⟩ := rp.cf hc; rw [hfo] at h1; cases h1
    have nmh : ¬ s.mutualHeight.isSome := by
      intro hc; obtain ⟨op', h1, _⟩ := rp.mh hc; rw [hfo] at h1; cases h1
    exact ⟨rp.ft, rp.fi, fun _ => hx ▸ hX, fun _ => rfl, rp.uh, fun hc => absurd hc ncl,
      fun hc => absurd hc nmh, fun hc => (by cases hc), rp.our, rp.htlc, rp.sec, rp.secx⟩
  | fundingInputSpent op =>
    simp only [applyForward, Option.some.injEq, Prod.mk.injEq] at h
    obtain ⟨rfl, _, _⟩ := h
    exact ⟨rp.ft, rp.fi, rp.fo, rp.fh, rp.uh, rp.cf, rp.mh,
      fun _ => ⟨op, rp.fi ▸ hj.2, hI op hj.1⟩, rp.our, rp.htlc, rp.sec, rp.secx⟩
  | «mutual» txid fo =>
    simp only [applyForward, Option.some.injEq, Prod.mk.injEq] at h
    obtain ⟨rfl, _, _⟩ := h
    exact ⟨rp.ft, rp.fi, rp.fo, rp.fh, rp.uh, rp.cf, fun _ => ⟨fo, hj.2.symm, hI fo hj.1⟩,
      rp.ds, rp.our, rp.htlc, rp.sec, rp.secx⟩
  | unilateral txid fo our htlcs =>
    simp only [applyForward, Option.some.injEq, Prod.mk.injEq] at h
    obtain ⟨rfl, _, _⟩ := h
    refine ⟨rp.ft, rp.fi, rp.fo, rp.fh, fun _ => rfl, fun _ => ⟨fo, hj.2.symm, hI fo hj.1⟩,
      rp.mh, rp.ds, ?_, ?_, ?_, ?_⟩
    · intro c i hc ho
      simp only [Option.some.injEq] at hc
      subst hc
      cases our <;> simp [Closing.new] at ho
    · intro c v i hc _ hs
      simp only [Option.some.injEq] at hc
      subst hc
      exact absurd hs (getElem?_map_false _ _)
    · intro c e hc he
      simp only [Option.some.injEq] at hc
      subst hc
      simp [Closing.new] at he
    · intro c e hc he
      simp only [Option.some.injEq] at hc
      subst hc
      simp [Closing.new] at he
  | ourSpent v =>
    obtain ⟨cl, hcl, hour⟩ := hp
    simp only [applyForward, hcl, Closing.setOurSpent, hour, if_true, Option.map_some,
      Option.some.injEq, Prod.mk.injEq] at h
    obtain ⟨rfl, _, _⟩ := h
    have hcs : s.closing.isSome := by rw [hcl]; rfl
    refine ⟨rp.ft, rp.fi, rp.fo, rp.fh, fun _ => rfl, fun _ => rp.cf hcs, rp.mh, rp.ds,
      ?_, ?_, ?_, ?_⟩
    · intro c i hc ho
      simp only [Option.some.injEq] at hc
      subst hc
      simp only [Option.some.injEq, Prod.mk.injEq, and_true] at ho
      subst ho
      exact hI _ (hj cl hcl)
    · intro c v' i hc hp' hs
      simp only [Option.some.injEq] at hc
      subst hc
      exact rp.htlc cl v' i hcl hp' hs
    · intro c e hc he hf
      simp only [Option.some.injEq] at hc
      subst hc
      exact rp.sec cl e hcl he hf
    · intro c e hc he
      simp only [Option.some.injEq] at hc
      subst hc
      exact rp.secx cl e hcl he
  | htlcSpent v sl =>
    obtain ⟨cl, i, hcl, hpos, hget, _⟩ := hp
    have hlt : i < cl.htlcSpents.length := by
      rcases List.getElem?_eq_some_iff.mp hget with ⟨hh, _⟩; exact hh
    simp only [applyForward, hcl, Closing.setHtlcSpent, hpos, hlt, if_true, Option.map_some,
      Option.some.injEq, Prod.mk.injEq] at h
    obtain ⟨rfl, _, _⟩ := h
    have hcs : s.closing.isSome := by rw [hcl]; rfl
    refine ⟨rp.ft, rp.fi, rp.fo, rp.fh, fun _ => rfl, fun _ => rp.cf hcs, rp.mh, rp.ds,
      ?_, ?_, ?_, ?_⟩
    · intro c i' hc ho
      simp only [Closing.addSecond, Option.some.injEq] at hc
      subst hc
      exact rp.our cl i' hcl ho
    · intro c v' i' hc hp' hs
      simp only [Closing.addSecond, Option.some.injEq] at hc
      subst hc
      simp only at hp' hs
      by_cases hii : i = i'
      · subst hii
        have := position_inj hpos hp'
        subst this
        exact hI _ (hj.2 cl hcl)
      · rw [List.getElem?_set_ne hii] at hs
        exact rp.htlc cl v' i' hcl hp' hs
    · intro c e hc he hf
      simp only [Closing.addSecond, Option.some.injEq] at hc
      subst hc
      simp only [List.mem_append, List.mem_singleton] at he
      rcases he with he | he
      · exact rp.sec cl e hcl he hf
      · subst he; cases hf
    · intro c e hc he
      simp only [Closing.addSecond, Option.some.injEq] at hc
      subst hc
      simp only [List.mem_append, List.mem_singleton] at he
      rcases he with he | he
      · exact rp.secx cl e hcl he
      · subst he; rw [hj.1]; exact hX
  | secondSpent op =>
    obtain ⟨cl, hcl, _⟩ := hp
    simp only [applyForward, hcl, Closing.setSecondSpent, Option.map_map] at h
    obtain ⟨l', hl', hh⟩ := Option.map_eq_some_iff.mp h
    simp only [Function.comp, Prod.mk.injEq] at hh
    obtain ⟨rfl, _, _⟩ := hh
    have hcs : s.closing.isSome := by rw [hcl]; rfl
    have hmem := setFirst_mem hl'
    have hkey : op ∈ cl.second.map (·.1) :=
      (setSecondSpent_some (c := cl) (c' := { cl with second := l' }) (b := true)
        (by simp [Closing.setSecondSpent, hl'])).1
    refine ⟨rp.ft, rp.fi, rp.fo, rp.fh, fun _ => rfl, fun _ => rp.cf hcs, rp.mh, rp.ds,
      ?_, ?_, ?_, ?_⟩
    · intro c i hc ho
      simp only [Option.some.injEq] at hc
      subst hc
      exact rp.our cl i hcl ho
    · intro c v' i hc hp' hs
      simp only [Option.some.injEq] at hc
      subst hc
      exact rp.htlc cl v' i hcl hp' hs
    · intro c e hc he hf
      simp only [Option.some.injEq] at hc
      subst hc
      rcases hmem e he with h1 | h1
      · exact rp.sec cl e hcl h1 hf
      · rw [h1]; exact hI _ hj
    · intro c e hc he
      simp only [Option.some.injEq] at hc
      subst hc
      rcases hmem e he with h1 | h1
      · exact rp.secx cl e hcl h1
      · obtain ⟨e0, he0, h0⟩ := List.mem_map.mp hkey
        rw [h1]
        have := rp.secx cl e0 hcl he0
        rw [h0] at this
        exact this

theorem Rep.applyAll {ftx : Nat} {fins : List OutPoint} {X : List Nat} {I : List OutPoint}
    {txs : List Tx} {s s1 : State} {cs : List Change} {a r : List OutPoint}
    (rp : Rep ftx fins X I s)
    (hsub : ∀ tx ∈ txs, tx.txid ∈ X ∧ ∀ inp ∈ tx.inputs, inp ∈ I)
    (hp : PreAll s cs) (hj : Along (JustB txs) s cs)
    (h : applyAll applyForward s cs = some (s1, a, r)) : Rep ftx fins X I s1 := by
  induction cs generalizing s a r with
  | nil =>
    simp only [Monitor.applyAll, Option.some.injEq, Prod.mk.injEq] at h
    obtain ⟨rfl, _, _⟩ := h; exact rp
  | cons c cs ih =>
    simp only [Monitor.applyAll] at h
    cases hf : applyForward s c with
    | none => simp [hf] at h
    | some d =>
      obtain ⟨sa, a1, r1⟩ := d
      simp only [hf] at h
      cases hrest : Monitor.applyAll applyForward sa cs with
      | none => simp [hrest] at h
      | some d2 =>
        obtain ⟨sx, a2, r2⟩ := d2
        simp only [hrest, Option.some.injEq, Prod.mk.injEq] at h
        obtain ⟨rfl, _, _⟩ := h
        obtain ⟨tx, hm, hjt⟩ := hj.1
        obtain ⟨hX, hI⟩ := hsub tx hm
        exact ih (rp.step hX hI hp.1 hjt hf) (hp.2 sa a1 r1 hf) (hj.2 sa a1 r1 hf) hrest

/-- **`Rep` is preserved by `addBlock`**: after connecting the block `txs`, every recorded fact is
about a txid / an input of the prefix extended by `txs` -/
theorem Rep.addBlock {ftx : Nat} {fins : List OutPoint} {X : List Nat} {I : List OutPoint}
    {s s1 : State} {txs : List Tx} {a r : List OutPoint}
    (rp : Rep ftx fins X I s)
    (ok : Ok { s with sawBlock := true } txs)
    (j : JInv (txs.flatMap (·.inputs)) (txs.map (·.txid)) { s with sawBlock := true })
    (nd : (txs.flatMap (·.inputs)).Nodup) (nx : (txs.map (·.txid)).Nodup)
    (hadd : Monitor.addBlock s txs = some (s1, a, r)) :
    Rep ftx fins (X ++ txs.map (·.txid)) (I ++ txs.flatMap (·.inputs)) s1 := by
  cases hdet : detect { s with sawBlock := true } txs with
  | none => simp [Monitor.addBlock, hdet] at hadd
  | some cs =>
    have hpre := preAll_of_ok ok j nd nx hdet
    have hjust := justAll_of_ok ok hdet
    simp only [Monitor.addBlock, hdet] at hadd
    rw [addEnd_eq] at hadd
    obtain ⟨d, hd, hh⟩ := Option.map_eq_some_iff.mp hadd
    obtain ⟨s2, a2, r2⟩ := d
    simp only [Prod.mk.injEq] at hh
    obtain ⟨rfl, _, _⟩ := hh
    have rp0 : Rep ftx fins (X ++ txs.map (·.txid)) (I ++ txs.flatMap (·.inputs))
        { s with sawBlock := true, height := s.height + 1 } :=
      (rp.mono (fun x hx => List.mem_append_left _ hx)
        (fun x hx => List.mem_append_left _ hx)).congr rfl
    have rp2 := rp0.applyAll (txs := txs) (fun tx hm =>
      ⟨List.mem_append_right _ (List.mem_map.mpr ⟨tx, hm, rfl⟩),
       fun inp hi => List.mem_append_right _ (List.mem_flatMap.mpr ⟨tx, hm, hi⟩)⟩) hpre hjust hd
    exact rp2.congr rfl

/-- `Rep` of the initial state of a channel stub -/
theorem Rep.init (h ftx fvout : Nat) (inputs : List OutPoint) :
    Rep ftx inputs [] [] (State.init h ftx fvout inputs) :=
  ⟨rfl, rfl, fun h => (by cases h), fun h => (by cases h), fun h => (by cases h),
    fun h => (by cases h), fun h => (by cases h), fun h => (by cases h),
    fun c i h => (by cases h), fun c v i h => (by cases h), fun c e h => (by cases h),
    fun c e h => (by cases h)⟩

/-! ### list facts: from the whole chain to one block -/

theorem Topo.suffix {l1 l2 : List Tx} (h : Topo (l1 ++ l2)) : Topo l2 := by
  induction l1 with
  | nil => exact h
  | cons x xs ih => exact ih h.2

theorem noDoubleSpend_of_nodup {txs : List Tx} (h : (txs.flatMap (·.inputs)).Nodup) :
    NoDoubleSpend txs := by
  induction txs with
  | nil => trivial
  | cons tx rest ih =>
    simp only [List.flatMap_cons] at h
    obtain ⟨_, h2, h3⟩ := List.nodup_append.mp h
    refine ⟨?_, ih h2⟩
    intro inp hi t ht hc
    exact h3 inp hi inp (List.mem_flatMap.mpr ⟨t, ht, hc⟩) rfl

theorem fundOnce_of_nodup {ftx : Nat} {txs : List Tx} (h : (txs.map (·.txid)).Nodup) :
    FundOnce [ftx] txs := by
  induction txs with
  | nil => trivial
  | cons tx rest ih =>
    simp only [List.map_cons, List.nodup_cons] at h
    refine ⟨?_, ih h.2⟩
    intro hx t ht hc
    simp only [List.mem_singleton] at hx hc
    exact h.1 (List.mem_map.mpr ⟨t, ht, hc.trans hx.symm⟩)

end VlsModel.Monitor
