import VlsModel.Model.Enforcement
import VlsModel.Gen.FnEnforce
import VlsModel.Gen.FnSimpleState
import VlsModel.Lemmas.FnGen
/-
Shared by `Props/C01Fn.lean`, `Props/C02Fn.lean`, `Props/C03Fn.lean`: how a channel of the hand-written model
`Model/Enforcement.lean` is read as the `EnforcementState` structure that `translate/rs2lean.py` generates from
`vls-core/src/policy/validator.rs` (`Gen/FnEnforce.lean`), and how outcomes of generated bodies are read as the
result classes of the model.

`toES` reads a model channel as the nine translated fields of `EnforcementState`; the opaque Rust types
(`PublicKey`, `CommitmentInfo2`, `CommitmentSignatures`) are instantiated with the model's identifiers (`Nat`).
The model keeps one field `cur` for `current_holder_commit_info` + `current_counterparty_signatures` (they are
always written together), so `toES` copies it into both.
-/
namespace VlsModel.Lemmas.EnforcementFn
open VlsModel VlsModel.Enforcement
open VlsModel.Gen.FnEnforce (EnforcementState)

abbrev ES := EnforcementState Nat Nat Nat

def toES (c : Chan) : ES :=
  { next_holder_commit_num := c.next, next_counterparty_commit_num := c.cpCommit,
    next_counterparty_revoke_num := c.cpRevoke, current_counterparty_point := c.curPt,
    previous_counterparty_point := c.prevPt, current_holder_commit_info := c.cur,
    current_counterparty_signatures := c.cur, current_counterparty_commit_info := c.curInfo,
    previous_counterparty_commit_info := c.prevInfo }

/-- the external of `policy_err!` for the default (non-permissive) policy filter of the model: every tag stays an
    error -/
def strict : String → Bool := fun _ => true

/-- result class of an outcome of a generated body, as the model reports it: a policy error is `err:policy`,
    a panic and a debug-build overflow are both `panic` -/
def cls {α : Type} : Rs.M α → Res
  | .ok _ => .ok
  | .error (.err _) => .errPolicy
  | .error _ => .panic

@[simp] theorem cls_ok {α : Type} (a : α) : cls (Except.ok a : Rs.M α) = .ok := rfl
@[simp] theorem cls_err {α : Type} (t : String) : cls (Except.error (.err t) : Rs.M α) = .errPolicy := rfl
@[simp] theorem cls_panic {α : Type} : cls (Except.error .panic : Rs.M α) = .panic := rfl
@[simp] theorem cls_overflow {α : Type} : cls (Except.error .overflow : Rs.M α) = .panic := rfl

theorem policyErr_strict (t : String) : Rs.policyErr strict t = Except.error (.err t) := by
  simp [Rs.policyErr, strict, Rs.fail]

theorem policyErr_keep (f : String → Bool) (t : String) (h : f t = true) :
    Rs.policyErr f t = Except.error (.err t) := by
  simp [Rs.policyErr, h, Rs.fail]

theorem policyErr_demoted (f : String → Bool) (t : String) (h : f t = false) :
    Rs.policyErr f t = Except.ok () := by
  simp [Rs.policyErr, h]

/-- a model channel read as the `EnforcementState` fields that the translated state checks of
    `SimpleValidator` (`Gen/FnSimpleState.lean`) touch -/
def toSV (c : Chan) : Gen.FnSimpleState.EnforcementState Nat Nat :=
  { next_holder_commit_num := c.next, next_counterparty_commit_num := c.cpCommit,
    next_counterparty_revoke_num := c.cpRevoke, current_counterparty_point := c.curPt,
    current_holder_commit_info := c.cur, current_counterparty_commit_info := c.curInfo,
    channel_closed := c.closed }

/-- the content rules `validate_commitment_tx` as the model sees them: one Boolean (`policyOk`), some tag on refusal -/
def contentRules (pk : Bool) (tag : String) : Rs.M Unit := if pk then .ok () else .error (.err tag)

theorem cls_bind_errPolicy {α β : Type} (x : Rs.M α) (k : α → Rs.M β) (h : cls x = .errPolicy) :
    cls (x >>= k) = .errPolicy := by
  cases x with
  | ok a => simp [cls] at h
  | error e => cases e <;> simp_all [cls, bind, Except.bind]

theorem cls_ok_iff {α : Type} (x : Rs.M α) : cls x = .ok ↔ ∃ a, x = .ok a := by
  cases x with
  | ok a => simp [cls]
  | error e => cases e <;> simp [cls]

end VlsModel.Lemmas.EnforcementFn
