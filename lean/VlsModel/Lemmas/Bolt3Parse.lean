import VlsModel.Model.Bolt3Parse
/-
Lemmas about the witness-script parsers (`Model/Bolt3Parse.lean`): `expect_number ∘ push_int = id` on the script
numbers the canonical scripts contain, every canonical script is recognised by the generated template of its own
kind and by none that `handle_output` tries earlier.
-/
namespace VlsModel.Bolt3
open Gen.Bolt3 (Tok Tpl)

theorem magBytes_1 (a : Nat) (h : 0 < a) (h' : a < 256) : magBytes 9 a = [UInt8.ofNat a] := by
  have h1 : a ≠ 0 := by omega
  have h2 : a / 256 = 0 := by omega
  have h3 : a % 256 = a := by omega
  simp [magBytes, h1, h2, h3]

theorem magBytes_2 (a : Nat) (h : 256 ≤ a) (h' : a < 65536) :
    magBytes 9 a = [UInt8.ofNat (a % 256), UInt8.ofNat (a / 256)] := by
  have h1 : a ≠ 0 := by omega
  have h2 : a / 256 ≠ 0 := by omega
  have h3 : a / 256 / 256 = 0 := by omega
  have h4 : a / 256 % 256 = a / 256 := by omega
  simp [magBytes, h1, h2, h3, h4]

theorem magBytes_3 (a : Nat) (h : 65536 ≤ a) (h' : a < 16777216) :
    magBytes 9 a = [UInt8.ofNat (a % 256), UInt8.ofNat (a / 256 % 256), UInt8.ofNat (a / 256 / 256)] := by
  have h1 : a ≠ 0 := by omega
  have h2 : a / 256 ≠ 0 := by omega
  have h3 : a / 256 / 256 ≠ 0 := by omega
  have h4 : a / 256 / 256 / 256 = 0 := by omega
  have h5 : a / 256 / 256 % 256 = a / 256 / 256 := by omega
  simp [magBytes, h1, h2, h3, h4, h5]

theorem magBytes_4 (a : Nat) (h : 16777216 ≤ a) (h' : a < 4294967296) :
    magBytes 9 a = [UInt8.ofNat (a % 256), UInt8.ofNat (a / 256 % 256), UInt8.ofNat (a / 256 / 256 % 256),
      UInt8.ofNat (a / 256 / 256 / 256)] := by
  have h1 : a ≠ 0 := by omega
  have h2 : a / 256 ≠ 0 := by omega
  have h3 : a / 256 / 256 ≠ 0 := by omega
  have h4 : a / 256 / 256 / 256 ≠ 0 := by omega
  have h5 : a / 256 / 256 / 256 / 256 = 0 := by omega
  have h6 : a / 256 / 256 / 256 % 256 = a / 256 / 256 / 256 := by omega
  simp [magBytes, h1, h2, h3, h4, h5, h6]

/-- `expect_number` reads back what `Builder::push_int` wrote, for every non-negative script number below 2^31
    (`to_self_delay : u16`, the literal 32, and the CLTV expiries admitted by `wf`). -/
theorem expectNumber_numInstr (n : Int) (h0 : 0 ≤ n) (h1 : n < 2 ^ 31) : expectNumber (numInstr n) = some n := by
  obtain ⟨a, rfl⟩ := Int.eq_ofNat_of_zero_le h0
  have ha : a < 2147483648 := by omega
  by_cases hz : a = 0
  · subst hz; simp [numInstr, expectNumber, readScriptInt]
  by_cases h16 : a ≤ 16
  · have e1 : ¬ ((a : Int) = 0) := by omega
    have e2 : ¬ ((a : Int) = -1) := by omega
    have e3 : (1 ≤ (a : Int) ∧ (a : Int) ≤ 16) := by omega
    simp only [numInstr, e1, e2, e3, if_false, if_true, and_self, expectNumber, classPushNum, Int.toNat_natCast]
    have c1 : ¬ (0x50 + a = 0x4f) := by omega
    have c2 : 0x51 ≤ 0x50 + a ∧ 0x50 + a ≤ 0x60 := by omega
    simp only [c1, c2, if_false, if_true, and_self]
    congr 1; omega
  have e1 : ¬ ((a : Int) = 0) := by omega
  have e2 : ¬ ((a : Int) = -1) := by omega
  have e3 : ¬ (1 ≤ (a : Int) ∧ (a : Int) ≤ 16) := by omega
  have e4 : ¬ ((a : Int) < 0) := by omega
  simp only [numInstr, e1, e2, e3, e4, if_false, Int.natAbs_natCast, decide_false]
  by_cases r1 : a < 128
  · rw [magBytes_1 a (by omega) (by omega)]
    have t : a % 256 = a := by omega
    have u : ¬ (128 ≤ a) := by omega
    have v : ¬ (a % 128 = 0) := by omega
    simp [expectNumber, readScriptInt, leNat, UInt8.toNat_ofNat', t, u, v]
  by_cases r2 : a < 256
  · rw [magBytes_1 a (by omega) (by omega)]
    have t : a % 256 = a := by omega
    have u : 128 ≤ a := by omega
    have v : ¬ (a < 128) := by omega
    simp [expectNumber, readScriptInt, leNat, UInt8.toNat_ofNat', t, u, v]
  by_cases r3 : a < 32768
  · rw [magBytes_2 a (by omega) (by omega)]
    have t : a / 256 % 256 = a / 256 := by omega
    have u : ¬ (128 ≤ a / 256) := by omega
    have v : ¬ (a / 256 % 128 = 0) := by omega
    simp [expectNumber, readScriptInt, leNat, UInt8.toNat_ofNat', t, u, v]
    omega
  by_cases r4 : a < 65536
  · rw [magBytes_2 a (by omega) (by omega)]
    have t : a / 256 % 256 = a / 256 := by omega
    have u : 128 ≤ a / 256 := by omega
    have v : ¬ (a / 256 < 128) := by omega
    simp [expectNumber, readScriptInt, leNat, UInt8.toNat_ofNat', t, u, v]
    omega
  by_cases r5 : a < 8388608
  · rw [magBytes_3 a (by omega) (by omega)]
    have t : a / 256 / 256 % 256 = a / 256 / 256 := by omega
    have u : ¬ (128 ≤ a / 256 / 256) := by omega
    have v : ¬ (a / 256 / 256 % 128 = 0) := by omega
    simp [expectNumber, readScriptInt, leNat, UInt8.toNat_ofNat', t, u, v]
    omega
  by_cases r6 : a < 16777216
  · rw [magBytes_3 a (by omega) (by omega)]
    have t : a / 256 / 256 % 256 = a / 256 / 256 := by omega
    have u : 128 ≤ a / 256 / 256 := by omega
    have v : ¬ (a / 256 / 256 < 128) := by omega
    simp [expectNumber, readScriptInt, leNat, UInt8.toNat_ofNat', t, u, v]
    omega
  · rw [magBytes_4 a (by omega) (by omega)]
    have t : a / 256 / 256 / 256 % 256 = a / 256 / 256 / 256 := by omega
    have u : ¬ (128 ≤ a / 256 / 256 / 256) := by omega
    have v : ¬ (a / 256 / 256 / 256 % 128 = 0) := by omega
    simp [expectNumber, readScriptInt, leNat, UInt8.toNat_ofNat', t, u, v]
    omega

theorem expectNumber_32 : expectNumber (numInstr 32) = some 32 :=
  expectNumber_numInstr 32 (by decide) (by decide)

theorem leBytes_length (n x : Nat) : (leBytes n x).length = n := by
  induction n generalizing x with
  | zero => rfl
  | succ n ih => simp [leBytes, ih]

theorem hashPush_length (env : BEnv) (h l : Nat) : (hashPush env h l).length = l := by
  simp only [hashPush, beBytes, List.length_append, List.length_take, List.length_reverse, leBytes_length,
    List.length_replicate]
  omega

/-- **Every canonical witness script is recognised by the generated template of its own kind, by none that
    `handle_output` tries before it, and the captures are the script's parameters** (HTLC scripts only when their
    `1 CSV DROP` suffix agrees with the channel type, to_remote-delayed only with anchors: otherwise every parser
    refuses — "unknown p2wsh script"). -/
theorem parseWsh_canon (env : BEnv) (a : Bool) (sc : Script) (hn : numsOk sc) :
    parseWsh a (scriptInstrs env sc) = expectedParse env a sc := by
  cases sc with
  | toLocal rev delay delayed =>
    obtain ⟨h0, h1⟩ := hn
    cases a <;>
    simp [parseWsh, Gen.Bolt3.handleOrder, parseOrder, tryTpl, runTpl, pick, Gen.Bolt3.tplToBroadcaster, scriptInstrs, runToks,
      opI, Op.OP_IF, Op.OP_ELSE, Op.OP_CSV, Op.OP_DROP, Op.OP_ENDIF, Op.OP_CHECKSIG, expectedParse,
      expectNumber_numInstr delay h0 h1]
  | htlcOffered csv rev k1 k2 hash hashLen =>
    cases a <;> cases csv <;>
    simp [parseWsh, Gen.Bolt3.handleOrder, parseOrder, tryTpl, runTpl, pick, Gen.Bolt3.tplToBroadcaster, Gen.Bolt3.tplReceivedHtlc,
      Gen.Bolt3.tplOfferedHtlc, Gen.Bolt3.tplAnchor, Gen.Bolt3.tplToCountersignerDelayed, scriptInstrs, runToks,
      opI, Op.OP_IF, Op.OP_NOTIF, Op.OP_ELSE, Op.OP_CSV, Op.OP_DROP, Op.OP_ENDIF, Op.OP_CHECKSIG, Op.OP_DUP, Op.OP_HASH160,
      Op.OP_EQUAL, Op.OP_SWAP, Op.OP_SIZE, Op.OP_1, Op.OP_2, Op.OP_CHECKMULTISIG, Op.OP_EQUALVERIFY, expectedParse, expectNumber_32]
  | htlcReceived csv rev k1 hash hashLen k2 cltv =>
    obtain ⟨h0, h1⟩ := hn
    cases a <;> cases csv <;>
    simp [parseWsh, Gen.Bolt3.handleOrder, parseOrder, tryTpl, runTpl, pick, Gen.Bolt3.tplToBroadcaster, Gen.Bolt3.tplReceivedHtlc,
      scriptInstrs, runToks,
      opI, Op.OP_IF, Op.OP_ELSE, Op.OP_CSV, Op.OP_DROP, Op.OP_ENDIF, Op.OP_CHECKSIG, Op.OP_DUP, Op.OP_HASH160,
      Op.OP_EQUAL, Op.OP_SWAP, Op.OP_SIZE, Op.OP_1, Op.OP_2, Op.OP_CHECKMULTISIG, Op.OP_EQUALVERIFY, Op.OP_CLTV, expectedParse,
      expectNumber_32, expectNumber_numInstr cltv h0 h1,
      Gen.Bolt3.tplOfferedHtlc, Gen.Bolt3.tplAnchor, Gen.Bolt3.tplToCountersignerDelayed]
  | anchor key =>
    cases a <;>
    simp [parseWsh, Gen.Bolt3.handleOrder, parseOrder, tryTpl, runTpl, pick, Gen.Bolt3.tplToBroadcaster, Gen.Bolt3.tplReceivedHtlc,
      Gen.Bolt3.tplOfferedHtlc, Gen.Bolt3.tplAnchor, scriptInstrs, runToks,
      opI, Op.OP_CHECKSIG, Op.OP_IFDUP, Op.OP_NOTIF, Op.OP_16, Op.OP_CSV, Op.OP_ENDIF, expectedParse]
  | toRemoteDelayed key =>
    cases a <;>
    simp [parseWsh, Gen.Bolt3.handleOrder, parseOrder, tryTpl, runTpl, pick, Gen.Bolt3.tplToBroadcaster, Gen.Bolt3.tplReceivedHtlc,
      Gen.Bolt3.tplOfferedHtlc, Gen.Bolt3.tplAnchor, Gen.Bolt3.tplToCountersignerDelayed, scriptInstrs, runToks,
      opI, Op.OP_CHECKSIGVERIFY, Op.OP_1, Op.OP_CSV, expectedParse]
  | unknown n =>
    cases a <;>
    simp [parseWsh, Gen.Bolt3.handleOrder, parseOrder, tryTpl, runTpl, Gen.Bolt3.tplToBroadcaster, Gen.Bolt3.tplReceivedHtlc,
      Gen.Bolt3.tplOfferedHtlc, Gen.Bolt3.tplAnchor, Gen.Bolt3.tplToCountersignerDelayed, scriptInstrs, runToks,
      opI, Op.OP_RETURN, expectedParse]

/-- `parse_revokeable_redeemscript` (the output script of a second-level HTLC transaction) reads back the to_local
    script: the same template as `parse_to_broadcaster_script`. -/
theorem runTpl_revokeable (env : BEnv) (a : Bool) (rev delayed : Key) (delay : Int) (h0 : 0 ≤ delay) (h1 : delay < 2 ^ 31) :
    runTpl a Gen.Bolt3.tplRevokeable (scriptInstrs env (.toLocal rev delay delayed)) =
      some [.data (env.keyBytes rev), .num delay, .data (env.keyBytes delayed)] := by
  simp [runTpl, pick, Gen.Bolt3.tplRevokeable, scriptInstrs, runToks,
    opI, Op.OP_IF, Op.OP_ELSE, Op.OP_CSV, Op.OP_DROP, Op.OP_ENDIF, Op.OP_CHECKSIG, expectNumber_numInstr delay h0 h1]

section Classify
variable (env : BEnv) (parseKey : Bytes → Option Key)

/-- **The model's `classify` on a P2WSH output that commits to a canonical script is the code's pipeline**: the
    generated templates in the generated order (`parseWsh`), then the `handle_*_output` checks with the generated
    constants.  Hypothesis: on the keys the environment knows, `parseKey` (`PublicKey::from_slice`) inverts the
    encoding for curve points and fails for id 0 ("33 bytes that are not a point"). -/
theorem classify_eq_parse (hk : ∀ a, a < env.nKeys → parseKey (env.keyBytes a) = if Key.ok a then some a else none)
    (s : Setup) (k : Keys) (o : TxOut Nat) (sc : Script) (hn : numsOk sc) (hkn : keysKnown env k sc)
    (hw : o.spk = .p2wsh (wshB env sc)) :
    classify (wshB env) s k o (some sc) =
      (parseWsh s.ctype.isAnchors (scriptInstrs env sc)).bind
        (handleParsed parseKey k.bFunding k.cFunding o.value) := by
  rw [parseWsh_canon env _ sc hn]
  cases sc with
  | toLocal rev delay delayed =>
    obtain ⟨b1, b2⟩ := hkn
    cases h1 : rev.ok <;> cases h2 : delayed.ok <;>
    simp [classify, hw, expectedParse, handleParsed, hk _ b1, hk _ b2, h1, h2, MAX_DELAY, Gen.Bolt3.maxDelay]
  | htlcOffered csv rev k1 k2 hash hashLen =>
    by_cases hc : csv = s.ctype.isAnchors <;>
    simp [classify, hw, expectedParse, handleParsed, hc, hashPush_length, Gen.Bolt3.paymentHashHashLen]
  | htlcReceived csv rev k1 hash hashLen k2 cltv =>
    obtain ⟨h0, h1⟩ := hn
    have h2 : ¬ (cltv ≥ SCRIPT_INT_LIMIT) := by simp only [SCRIPT_INT_LIMIT]; omega
    by_cases hc : csv = s.ctype.isAnchors <;>
    simp [classify, hw, expectedParse, handleParsed, hc, hashPush_length, Gen.Bolt3.paymentHashHashLen, h2]
  | anchor key =>
    obtain ⟨b1, _, _⟩ := hkn
    cases h1 : key.ok <;> by_cases hv : o.value = 330 <;>
    simp [classify, hw, expectedParse, handleParsed, hk _ b1, h1, ANCHOR_SAT, Gen.Bolt3.anchorSat, hv]
  | toRemoteDelayed key =>
    have b1 : key < env.nKeys := hkn
    cases hA : s.ctype.isAnchors <;> cases h1 : key.ok <;>
    simp [classify, hw, expectedParse, handleParsed, hk _ b1, h1, hA]
  | unknown n =>
    simp [classify, hw, expectedParse]

end Classify

end VlsModel.Bolt3
