import VlsModel.Lemmas.Policy
import VlsModel.Model.MutualClose
/- Helper lemmas about the mutual-close model. -/
namespace VlsModel.MutualClose
open VlsModel VlsModel.Policy

theorem closeWeight_pos (a : Args) : 0 < closeWeight a := by
  simp only [closeWeight]; omega

theorem htlcsEmpty_iff (i : Info) (h : i.htlcsEmpty = true) : i.offered = [] ∧ i.received = [] := by
  unfold Info.htlcsEmpty at h
  simp at h
  exact h

/-- the reading that phase 1 signs is one of the two candidate readings and passed `validate_mutual_close_tx` -/
theorem chooseAssignment_ok (p : Policy) (s : Setup) (e : EState) (outs : List Out) (a : Args)
    (h : chooseAssignment p s e outs = .ok a) :
    validateMutualClose p s e a = .ok () ∧ ∃ l u, candidates p e outs = some (l, u) ∧ (a = l ∨ a = u) := by
  unfold chooseAssignment at h
  cases hc : candidates p e outs with
  | none => simp [hc] at h
  | some pr =>
    obtain ⟨l, u⟩ := pr
    simp only [hc] at h
    cases hl : validateMutualClose p s e l with
    | ok v =>
      cases v
      simp only [hl] at h
      cases h
      exact ⟨hl, _, _, rfl, Or.inl rfl⟩
    | error k =>
      simp only [hl] at h
      cases hu : validateMutualClose p s e u with
      | ok v =>
        cases v
        simp only [hu] at h
        cases h
        exact ⟨hu, _, _, rfl, Or.inr rfl⟩
      | error k2 =>
        simp only [hu] at h
        cases h

end VlsModel.MutualClose
