import VlsModel.Lemmas.Bolt3Parse
/-
Byte level of the witness-script parsers: the instruction iterator (`instrs`, rust-bitcoin's `Script::instructions`)
on the real opcodes of the canonical scripts (`scriptBytes`, the bytes whose SHA-256 the harness compares with LDK's
script_pubkeys on every run) yields exactly `scriptInstrs`.
-/
namespace VlsModel.Bolt3

theorem takePush_length (n : Nat) (rest : Bytes) : (takePush n rest).2.length ≤ rest.length := by
  unfold takePush; split <;> simp

theorem pushDataLen_length (w : Nat) (rest : Bytes) : (pushDataLen w rest).2.length ≤ rest.length := by
  unfold pushDataLen
  split
  · simp
  · have := takePush_length (leNat ((rest.take w).map UInt8.toNat)) (rest.drop w)
    simp only [List.length_drop] at this
    omega

theorem nextInstr_length (b : Bytes) (i : Instr) (r : Bytes) (h : nextInstr b = some (i, r)) : r.length < b.length := by
  cases b with
  | nil => simp [nextInstr] at h
  | cons c rest =>
    simp only [nextInstr] at h
    have h1 := takePush_length c.toNat rest
    have h2 := pushDataLen_length 1 rest
    have h3 := pushDataLen_length 2 rest
    have h4 := pushDataLen_length 4 rest
    simp only [List.length_cons]
    split at h
    · simp only [Option.some.injEq] at h; rw [h] at h1; simp at h1; omega
    · split at h
      · simp only [Option.some.injEq] at h; rw [h] at h2; simp at h2; omega
      · split at h
        · simp only [Option.some.injEq] at h; rw [h] at h3; simp at h3; omega
        · split at h
          · simp only [Option.some.injEq] at h; rw [h] at h4; simp at h4; omega
          · simp only [Option.some.injEq, Prod.mk.injEq] at h; obtain ⟨_, rfl⟩ := h; omega

theorem instrsAux_fuel : ∀ (f g : Nat) (b : Bytes), b.length ≤ f → b.length ≤ g → instrsAux f b = instrsAux g b := by
  intro f
  induction f with
  | zero =>
    intro g b hf hg
    have : b = [] := List.eq_nil_of_length_eq_zero (by omega)
    subst this
    cases g <;> simp [instrsAux, nextInstr]
  | succ f ih =>
    intro g b hf hg
    cases g with
    | zero =>
      have : b = [] := List.eq_nil_of_length_eq_zero (by omega)
      subst this
      simp [instrsAux, nextInstr]
    | succ g =>
      simp only [instrsAux]
      cases hn : nextInstr b with
      | none => rfl
      | some p =>
        obtain ⟨i, r⟩ := p
        have := nextInstr_length b i r hn
        simp only []
        rw [ih g r (by omega) (by omega)]

theorem instrs_nil : instrs [] = [] := rfl

theorem instrs_op (c : UInt8) (rest : Bytes) (h : 0x4e < c.toNat) : instrs (c :: rest) = .op c.toNat :: instrs rest := by
  have h1 : ¬ (c.toNat ≤ 0x4b) := by omega
  have h2 : ¬ (c.toNat = 0x4c) := by omega
  have h3 : ¬ (c.toNat = 0x4d) := by omega
  have h4 : ¬ (c.toNat = 0x4e) := by omega
  simp only [instrs, List.length_cons, instrsAux, nextInstr, h1, h2, h3, h4, if_false]

theorem instrs_push (d rest : Bytes) (h : d.length ≤ 0x4b) :
    instrs (pushData d ++ rest) = .push d :: instrs rest := by
  have e : (UInt8.ofNat d.length).toNat = d.length := by
    simp only [UInt8.toNat_ofNat']; omega
  have h1 : ¬ ((d ++ rest).length < d.length) := by simp
  simp only [instrs, pushData, List.cons_append, List.length_cons, instrsAux, nextInstr, takePush, e, h, if_true, h1, if_false,
    List.take_left', List.drop_left']
  rw [instrsAux_fuel _ rest.length rest (by simp) (by omega)]

theorem magBytes_length_le : ∀ (f a : Nat), (magBytes f a).length ≤ f := by
  intro f
  induction f with
  | zero => intro a; simp [magBytes]
  | succ f ih =>
    intro a
    simp only [magBytes]
    split
    · simp
    · simp only [List.length_cons]; have := ih (a / 256); omega

/-- the bytes `Builder::push_int` writes are the serialisation of the instruction `numInstr` -/
theorem instrs_pushInt (n : Int) (h0 : 0 ≤ n) (rest : Bytes) :
    instrs (pushInt n ++ rest) = numInstr n :: instrs rest := by
  obtain ⟨a, rfl⟩ := Int.eq_ofNat_of_zero_le h0
  by_cases hz : a = 0
  · subst hz
    have : pushInt ((0 : Nat) : Int) = pushData [] := by simp [pushInt, pushData, Op.OP_0]
    rw [this, instrs_push [] rest (by simp)]
    simp [numInstr]
  have e1 : ¬ ((a : Int) = 0) := by omega
  have e2 : ¬ ((a : Int) = -1) := by omega
  by_cases h16 : a ≤ 16
  · have e3 : (1 ≤ (a : Int) ∧ (a : Int) ≤ 16) := by omega
    have et : (UInt8.ofNat (0x50 + a)).toNat = 0x50 + a := by simp only [UInt8.toNat_ofNat']; omega
    simp only [pushInt, numInstr, e1, e2, e3, if_false, if_true, and_self, Int.toNat_natCast, List.cons_append, List.nil_append]
    rw [instrs_op _ rest (by rw [et]; omega), et]
  have e3 : ¬ (1 ≤ (a : Int) ∧ (a : Int) ≤ 16) := by omega
  have e4 : ¬ ((a : Int) < 0) := by omega
  have hl := magBytes_length_le 9 a
  simp only [pushInt, numInstr, e1, e2, e3, e4, if_false, Int.natAbs_natCast, decide_false]
  cases hd : (magBytes 9 a).getLast? with
  | none =>
    have : ([Op.OP_0] : Bytes) = pushData [] := by simp [pushData, Op.OP_0]
    simp only [this]
    rw [instrs_push [] rest (by simp)]
  | some top =>
    simp only []
    split
    · rw [instrs_push _ rest (by simp; omega)]
    · simp only [Bool.false_eq_true, if_false]
      rw [instrs_push _ rest (by omega)]

theorem beBytes_length (n x : Nat) : (beBytes n x).length = n := by
  simp [beBytes, leBytes_length]

/-- the pushed payment-hash field fits a direct push (canonical scripts: 20 bytes; the mutations 19 / 21) -/
def hashLenOk : Script → Prop
  | .htlcOffered _ _ _ _ _ hashLen => hashLen ≤ 0x4b
  | .htlcReceived _ _ _ _ hashLen _ _ => hashLen ≤ 0x4b
  | _ => True

/-- **The instruction iterator on the real bytes of a canonical witness script yields `scriptInstrs`** (key
    encodings are 33 bytes).  With `parseWsh_canon` / `classify_eq_parse`: bytes → instructions → generated
    templates → `classify`. -/
theorem instrs_scriptBytes (env : BEnv) (hk : ∀ k, (env.keyBytes k).length = 33) (sc : Script)
    (hn : numsOk sc) (hh : hashLenOk sc) : instrs (scriptBytes env sc) = scriptInstrs env sc := by
  cases sc with
  | toLocal rev delay delayed =>
    obtain ⟨h0, _⟩ := hn
    simp only [scriptBytes, scriptInstrs, List.append_assoc, List.cons_append, List.nil_append, opI]
    repeat (first
      | rw [instrs_op _ _ (by decide)]
      | rw [instrs_push _ _ (by rw [hk]; decide)]
      | rw [instrs_pushInt _ h0])
    rfl
  | htlcOffered csv rev k1 k2 hash hashLen =>
    have hh' : (hashPush env hash hashLen).length ≤ 0x4b := by rw [hashPush_length]; exact hh
    cases csv <;>
    · simp only [scriptBytes, scriptInstrs, List.append_assoc, List.cons_append, List.nil_append, opI, if_true,
        Bool.false_eq_true, if_false, List.append_nil]
      repeat (first
        | rw [instrs_op _ _ (by decide)]
        | rw [instrs_push _ _ (by rw [hk]; decide)]
        | rw [instrs_push _ _ (by rw [beBytes_length]; decide)]
        | rw [instrs_push _ _ hh']
        | rw [instrs_pushInt 32 (by decide)])
      rfl
  | htlcReceived csv rev k1 hash hashLen k2 cltv =>
    obtain ⟨h0, _⟩ := hn
    have hh' : (hashPush env hash hashLen).length ≤ 0x4b := by rw [hashPush_length]; exact hh
    cases csv <;>
    · simp only [scriptBytes, scriptInstrs, List.append_assoc, List.cons_append, List.nil_append, opI, if_true,
        Bool.false_eq_true, if_false, List.append_nil]
      repeat (first
        | rw [instrs_op _ _ (by decide)]
        | rw [instrs_push _ _ (by rw [hk]; decide)]
        | rw [instrs_push _ _ (by rw [beBytes_length]; decide)]
        | rw [instrs_push _ _ hh']
        | rw [instrs_pushInt 32 (by decide)]
        | rw [instrs_pushInt cltv h0])
      rfl
  | anchor key =>
    simp only [scriptBytes, scriptInstrs, List.append_assoc, List.cons_append, List.nil_append, opI]
    repeat (first
      | rw [instrs_op _ _ (by decide)]
      | rw [instrs_push _ _ (by rw [hk]; decide)])
    rfl
  | toRemoteDelayed key =>
    simp only [scriptBytes, scriptInstrs, List.append_assoc, List.cons_append, List.nil_append, opI]
    repeat (first
      | rw [instrs_op _ _ (by decide)]
      | rw [instrs_push _ _ (by rw [hk]; decide)])
    rfl
  | unknown n =>
    simp only [scriptBytes, scriptInstrs, List.append_assoc, List.cons_append, List.nil_append, opI]
    rw [instrs_op _ _ (by decide)]
    have := instrs_push (leBytes 8 n) [] (by rw [leBytes_length]; decide)
    rw [List.append_nil] at this
    rw [this]
    rfl

end VlsModel.Bolt3
