import VlsModel.Model.Monitor
import VlsModel.Gen.FnMonitorC14
import VlsModel.Lemmas.FnGen
/-
Field-renaming maps between the hand-written monitor model (`Model/Monitor.lean`) and the structures that
`translate/rs2lean.py` regenerates from `vls-core/src/monitor.rs` (`Gen/FnMonitorC14.lean`; target list
`translate/fn_targets/MonitorC14.b1315.json`), plus the list lemmas the ties of `Props/C14Fn.lean` need.

The generated structures carry the Rust field names and list only the fields the translated functions touch; the
opaque Rust type `Txid` is instantiated with `Nat`, the model's `OutPoint = Nat × Nat` is the generated
`OutPoint Nat = { txid, vout }`.  A changed field set on the Rust side changes the generated structure and these maps
stop type-checking: `bin/check C14` reports it.
-/
namespace VlsModel.MonitorFn
open VlsModel VlsModel.Monitor

abbrev GOp := Gen.FnMonitorC14.OutPoint Nat
abbrev GSecond := Gen.FnMonitorC14.SecondLevelHTLCOutput Nat
abbrev GClosing := Gen.FnMonitorC14.ClosingOutpoints Nat
/-- `Set<OutPoint>` (the funding inputs) is the model's list of outpoints -/
abbrev GSet := List (Nat × Nat)
abbrev GState := Gen.FnMonitorC14.State Nat GSet
abbrev GChange := Gen.FnMonitorC14.StateChange Nat

def toGenOp (o : OutPoint) : GOp := { txid := o.1, vout := o.2 }

theorem toGenOp_inj {a b : OutPoint} (h : toGenOp a = toGenOp b) : a = b := by
  cases a; cases b
  simp only [toGenOp, Gen.FnMonitorC14.OutPoint.mk.injEq] at h
  simp [h.1, h.2]

theorem toGenOp_beq (a b : OutPoint) : (toGenOp a == toGenOp b) = (a == b) := by
  rw [Bool.eq_iff_iff]
  simp only [beq_iff_eq]
  exact ⟨toGenOp_inj, fun h => by rw [h]⟩

/-- `SecondLevelHTLCOutput { outpoint, spent }` = an entry of `Closing.second` -/
def toGenSecond (h : OutPoint × Bool) : GSecond := { outpoint := toGenOp h.1, spent := h.2 }

/-- all five fields of `ClosingOutpoints` -/
def toGenClosing (c : Closing) : GClosing :=
  { txid := c.txid, our_output := c.our, htlc_outputs := c.htlcOutputs, htlc_spents := c.htlcSpents,
    second_level_htlc_outputs := c.second.map toGenSecond }

/-- the fourteen fields of `monitor::State` that the translated functions read or write -/
def toGen (s : Monitor.State) : GState :=
  { height := s.height, funding_txids := s.fundingTxids, funding_vouts := s.fundingVouts, funding_inputs := s.fundingInputs, funding_height := s.fundingHeight, funding_outpoint := s.fundingOutpoint.map toGenOp,
    funding_double_spent_height := s.dsHeight, mutual_closing_height := s.mutualHeight,
    unilateral_closing_height := s.uniHeight, closing_outpoints := s.closing.map toGenClosing,
    closing_swept_height := s.closingSweptHeight, our_output_swept_height := s.ourSweptHeight,
    saw_block := s.sawBlock, saw_forget_channel := s.sawForget }

/-- `enum StateChange` (positional components, in the declaration order of the Rust enum) -/
def toGenChange : Change → GChange
  | .fundingConfirmed op => .FundingConfirmed (toGenOp op)
  | .fundingInputSpent op => .FundingInputSpent (toGenOp op)
  | .unilateral txid fo our htlcs => .UnilateralCloseConfirmed txid (toGenOp fo) our htlcs
  | .mutual txid fo => .MutualCloseConfirmed txid (toGenOp fo)
  | .ourSpent vout => .OurOutputSpent vout
  | .htlcSpent vout sl => .HTLCOutputSpent vout (toGenOp sl)
  | .secondSpent op => .SecondLevelHTLCOutputSpent (toGenOp op)

/-- how a model outcome (`none` = an `unwrap`/`assert`/index failure) reads in the translator's outcome monad -/
def ofOpt {α β : Type} (f : α → β) : Option α → Rs.M β
  | some x => .ok (f x)
  | none => .error .panic

@[simp] theorem ofOpt_some {α β : Type} (f : α → β) (x : α) : ofOpt f (some x) = .ok (f x) := rfl
@[simp] theorem ofOpt_none {α β : Type} (f : α → β) : ofOpt f (none : Option α) = .error .panic := rfl

/-! ### list lemmas -/

/-- the model's `position` is `iter().position(|&x| x == v)` -/
theorem position_eq_findIdx (v : Nat) (l : List Nat) : position v l = l.findIdx? (fun x => x == v) := by
  induction l with
  | nil => rfl
  | cons x xs ih =>
    simp only [position, List.findIdx?_cons]
    by_cases h : x = v
    · simp [h]
    · simp only [h, if_false, beq_iff_eq, ih]

theorem map_const_false (l : List Nat) : l.map (fun _ => false) = List.replicate l.length false := by
  induction l with
  | nil => rfl
  | cons x xs ih => simp only [List.map_cons, List.length_cons, List.replicate_succ, ih]

/-- the `for i in htlcs_indices { adds.push(OutPoint { txid, vout: i }) }` loop -/
theorem foldl_adds (txid : Nat) : ∀ (hs : List Nat) (acc : List GOp),
    List.foldl (fun adds i => adds ++ [({ txid := txid, vout := i } : GOp)]) acc hs
      = acc ++ (hs.map (fun i => ((txid, i) : OutPoint))).map toGenOp := by
  intro hs
  induction hs with
  | nil => intro acc; simp
  | cons x xs ih => intro acc; simp [List.foldl_cons, ih, List.map_cons, toGenOp]

/-- the same loop in `simp` normal form -/
theorem flatten_adds (txid : Nat) (hs : List Nat) :
    (hs.map (fun x2 => [({ txid := txid, vout := x2 } : GOp)])).flatten
      = hs.map (toGenOp ∘ fun i => ((txid, i) : OutPoint)) := by
  induction hs with
  | nil => rfl
  | cons x xs ih => simp [ih, toGenOp]

end VlsModel.MonitorFn
