import VlsModel.Model.Enforcement
/-
Helper lemmas for C01/C02/C03: ghost history, per-request facts about `chanStep`, invariants and
their preservation.  No Mathlib.
-/
namespace VlsModel.Enforcement
open VlsModel VlsModel.Secrets

/-- ghost history: `(request, reply)` events, newest first -/
abbrev Hist := List (Op × Out)

/-- run a request list from `(s, h)`, pushing every event on the history -/
def runH (F : Nat → Bytes → Bytes) : Sys → Hist → List Op → Sys × Hist
  | s, h, [] => (s, h)
  | s, h, op :: rest => runH F (step F s op).1 ((op, (step F s op).2) :: h) rest

/-- a `validate` of holder commitment `m` with verifying counterparty signatures and passing
    policy was accepted somewhere in `h` -/
def Accepted (h : Hist) (m : Nat) : Prop := ∃ e ∈ h, e.2.validated = some m

theorem Accepted.mono {h : Hist} {m : Nat} (e : Op × Out) (a : Accepted h m) : Accepted (e :: h) m := by
  obtain ⟨x, hx, hv⟩ := a
  exact ⟨x, List.mem_cons_of_mem _ hx, hv⟩

theorem accepted_cons {h : Hist} {m : Nat} {e : Op × Out} :
    Accepted (e :: h) m ↔ (e.2.validated = some m ∨ Accepted h m) := by
  constructor
  · rintro ⟨x, hx, hv⟩
    rcases List.mem_cons.mp hx with rfl | hx
    · exact Or.inl hv
    · exact Or.inr ⟨x, hx, hv⟩
  · rintro (hv | a)
    · exact ⟨e, List.mem_cons_self, hv⟩
    · exact a.mono e

/-! ### C01: holder invariant -/

/-- every number below `next` was accepted; a stored `next_holder_commit_info` was accepted -/
def HI (A : Nat → Prop) (c : Chan) : Prop :=
  (∀ m, m < c.next → A m) ∧ (c.nextInfo ≠ none → A c.next)

theorem HI.mono {A B : Nat → Prop} {c : Chan} (hab : ∀ m, A m → B m) (h : HI A c) : HI B c :=
  ⟨fun m hm => hab m (h.1 m hm), fun hn => hab _ (h.2 hn)⟩

/-- what one channel method guarantees, given the invariant before it: the invariant afterwards
    (with the request's own validation added) and: a disclosed secret `k` has `k+1` accepted -/
def Good (A : Nat → Prop) (r : R) : Prop :=
  HI (fun m => A m ∨ r.out.validated = some m) r.c ∧
  ∀ k, r.out.secret = some k → (A (k + 1) ∨ r.out.validated = some (k + 1))

theorem good_fail {A : Nat → Prop} {c : Chan} (h : HI A c) (x : Res) : Good A (fail c x) :=
  ⟨h.mono fun _ a => Or.inl a, by intro k hk; simp [fail] at hk⟩

theorem getSecret_good {A : Nat → Prop} {c : Chan} (h : HI A c) (n : Nat) :
    Good A { c := c, out := getSecret c n } := by
  refine ⟨h.mono fun _ a => Or.inl a, ?_⟩
  intro k hk
  unfold getSecret at hk
  split at hk
  · simp at hk
  · split at hk
    · simp at hk
    · split at hk
      · simp at hk
      · simp at hk; subst hk; exact Or.inl (h.1 _ (by omega))

theorem getSecretOrNone_good {A : Nat → Prop} {c : Chan} (h : HI A c) (n : Nat) :
    Good A { c := c, out := getSecretOrNone c n } := by
  refine ⟨h.mono fun _ a => Or.inl a, ?_⟩
  intro k hk
  unfold getSecretOrNone at hk
  split at hk
  · simp at hk
  · split at hk
    · simp at hk
    · split at hk
      · simp at hk
      · simp at hk; subst hk; exact Or.inl (h.1 _ (by omega))

theorem release_secret {c : Chan} {n k : Nat} (hk : (release c n).secret = some k) :
    k + 2 ≤ c.next ∧ k + 1 = n := by
  unfold release getSecret at hk
  repeat' split at hk
  all_goals simp at hk
  omega

theorem release_validated (c : Chan) (n : Nat) : (release c n).validated = none := by
  unfold release getSecret
  repeat' split
  all_goals rfl

theorem validate_good {A : Nat → Prop} {c : Chan} (h : HI A c) (n info : Nat) (sv : SigFact) (pk : Bool) :
    Good A (validate c n info sv pk) := by
  unfold validate
  split
  · exact good_fail h _
  · split
    · split
      · exact good_fail h _
      · split
        · exact good_fail h _
        · split
          · next hn =>
            subst hn
            exact ⟨⟨fun m hm => Or.inl (h.1 m hm), fun _ => Or.inr rfl⟩, by intro k hk; simp at hk⟩
          · exact ⟨⟨fun m hm => Or.inl (h.1 m hm), fun hn => Or.inl (h.2 hn)⟩, by intro k hk; simp at hk⟩
    · exact good_fail h _

theorem revoke_good {A : Nat → Prop} {c : Chan} (h : HI A c) (n : Nat) : Good A (revoke c n) := by
  unfold revoke
  split
  · refine ⟨?_, ?_⟩
    · simp only [release_validated]; exact h.mono fun _ a => Or.inl a
    · intro k hk
      have := release_secret hk
      exact Or.inl (h.1 _ (by omega))
  · rename_i hne
    have hn : n = c.next := by simpa using hne
    split
    · exact good_fail h _
    · split
      · exact good_fail h _
      · rename_i info hinfo
        have hacc : A c.next := h.2 (by simp [hinfo])
        split
        · exact ⟨⟨fun m hm => Or.inl (h.1 m hm), fun hx => by simp at hx⟩, by intro k hk; simp at hk⟩
        · dsimp only
          split
          · refine ⟨?_, ?_⟩
            · simp only [release_validated]
              refine ⟨fun m hm => ?_, fun hx => by simp at hx⟩
              simp at hm
              by_cases hm' : m < c.next
              · exact Or.inl (h.1 m hm')
              · have : m = c.next := by omega
                subst this; exact Or.inl hacc
            · intro k hk
              have := release_secret hk
              simp at this
              have hk1 : k + 1 = c.next := by omega
              rw [hk1]; exact Or.inl hacc
          · refine ⟨?_, ?_⟩
            · simp only [release_validated]
              exact ⟨fun m hm => Or.inl (h.1 m hm), fun hx => by simp at hx⟩
            · intro k hk
              have := release_secret hk
              simp at this
              have hk1 : k + 1 = c.next := by omega
              rw [hk1]; exact Or.inl hacc

theorem revokeP_cases (c : Chan) (n : Nat) (po : Bool) :
    revokeP c n po = revoke c n ∨ revokeP c n po = fail c .errPolicy := by
  unfold revokeP
  split
  · right; rfl
  · left; rfl

theorem revokeP_good {A : Nat → Prop} {c : Chan} (h : HI A c) (n : Nat) (po : Bool) : Good A (revokeP c n po) := by
  rcases revokeP_cases c n po with e | e <;> rw [e]
  · exact revoke_good h n
  · exact good_fail h _

theorem activate_good {A : Nat → Prop} {c : Chan} (h : HI A c) : Good A (activate c) := by
  unfold activate
  split
  · exact good_fail h _
  · next hz =>
    have hz : c.next = 0 := by simpa using hz
    split
    · next info hinfo =>
      refine ⟨⟨fun m hm => ?_, fun hx => by simp at hx⟩, by intro k hk; simp at hk⟩
      simp at hm
      subst hm
      have := h.2 (by simp [hinfo])
      rw [hz] at this
      exact Or.inl this
    · exact good_fail h _

/-- methods that only set `closed` keep the holder invariant and disclose nothing -/
theorem closed_good {A : Nat → Prop} {c : Chan} (h : HI A c) (o : Out) (ho : o.secret = none)
    (p : Bool) : Good A { c := { c with closed := true }, out := o, persisted := p } :=
  ⟨⟨fun m hm => Or.inl (h.1 m hm), fun hn => Or.inl (h.2 hn)⟩, by intro k hk; simp [ho] at hk⟩

theorem signHolder_good {A : Nat → Prop} {c : Chan} (h : HI A c) (n : Nat) : Good A (signHolder c n) := by
  unfold signHolder
  split
  · exact good_fail h _
  · split
    · exact good_fail h _
    · split
      · exact good_fail h _
      · exact closed_good h _ rfl _

theorem signRecovery_good {A : Nat → Prop} {c : Chan} (h : HI A c) : Good A (signRecovery c) := by
  unfold signRecovery
  split
  · exact good_fail h _
  · split
    · exact good_fail h _
    · exact closed_good h _ rfl _

theorem signRedundant_good {A : Nat → Prop} {c : Chan} (h : HI A c) (n info : Nat) (pk : Bool) :
    Good A (signRedundant c n info pk) := by
  unfold signRedundant
  split
  · exact good_fail h _
  · split
    · exact closed_good h _ rfl _
    · exact good_fail h _

theorem signMutualClose_good {A : Nat → Prop} {c : Chan} (h : HI A c) (pk : Bool) :
    Good A (signMutualClose c pk) := by
  unfold signMutualClose
  split
  · exact good_fail h _
  · split
    · exact good_fail h _
    · split
      · exact good_fail h _
      · exact closed_good h _ rfl _

/-- counterparty-side methods do not touch the holder side -/
theorem good_of_frame {A : Nat → Prop} {c : Chan} (h : HI A c) (r : R) (hn : r.c.next = c.next)
    (hi : r.c.nextInfo = c.nextInfo) (ho : r.out.secret = none) : Good A r :=
  ⟨⟨fun m hm => Or.inl (h.1 m (by simpa [hn] using hm)), fun hx => by
      simp only [hi] at hx; have := h.2 hx; rw [← hn] at this; exact Or.inl this⟩,
   by intro k hk; simp [ho] at hk⟩

theorem signCp_frame (c : Chan) (n pt info : Nat) (pk : Bool) :
    (signCp c n pt info pk).c.next = c.next ∧ (signCp c n pt info pk).c.nextInfo = c.nextInfo ∧
    (signCp c n pt info pk).c.closed = c.closed ∧ (signCp c n pt info pk).c.slot = c.slot ∧
    (signCp c n pt info pk).c.cur = c.cur ∧
    (signCp c n pt info pk).out.secret = none ∧ (signCp c n pt info pk).out.signed = none ∧
    (signCp c n pt info pk).out.validated = none := by
  unfold signCp fail
  dsimp only
  repeat' split
  all_goals simp

theorem revokeCp_frame (F : Nat → Bytes → Bytes) (c : Chan) (n : Nat) (s : Bytes) (pt : Nat) :
    (revokeCp F c n s pt).c.next = c.next ∧ (revokeCp F c n s pt).c.nextInfo = c.nextInfo ∧
    (revokeCp F c n s pt).c.closed = c.closed ∧ (revokeCp F c n s pt).c.slot = c.slot ∧
    (revokeCp F c n s pt).c.cur = c.cur ∧
    (revokeCp F c n s pt).out.secret = none ∧ (revokeCp F c n s pt).out.signed = none ∧
    (revokeCp F c n s pt).out.validated = none := by
  unfold revokeCp fail
  dsimp only
  repeat' split
  all_goals simp

theorem signCp_good {A : Nat → Prop} {c : Chan} (h : HI A c) (n pt info : Nat) (pk : Bool) :
    Good A (signCp c n pt info pk) :=
  have f := signCp_frame c n pt info pk
  good_of_frame h _ f.1 f.2.1 f.2.2.2.2.2.1

theorem revokeCp_good {A : Nat → Prop} (F : Nat → Bytes → Bytes) {c : Chan} (h : HI A c)
    (n : Nat) (s : Bytes) (pt : Nat) : Good A (revokeCp F c n s pt) :=
  have f := revokeCp_frame F c n s pt
  good_of_frame h _ f.1 f.2.1 f.2.2.2.2.2.1

theorem needReady_good {A : Nat → Prop} {c : Chan} (h : HI A c) (f : Chan → R)
    (hf : Good A (f c)) : Good A (needReady c f) := by
  unfold needReady
  split
  · exact good_fail h _
  · exact hf

theorem getSecret_validated (c : Chan) (n : Nat) : (getSecret c n).validated = none := by
  unfold getSecret; repeat' split
  all_goals rfl

theorem revoke_validated (c : Chan) (n : Nat) : (revoke c n).out.validated = none := by
  unfold revoke fail
  dsimp only
  repeat' split
  all_goals simp [release_validated]

theorem revokeP_validated (c : Chan) (n : Nat) (po : Bool) : (revokeP c n po).out.validated = none := by
  rcases revokeP_cases c n po with e | e <;> rw [e]
  · exact revoke_validated c n
  · rfl

theorem activate_validated (c : Chan) : (activate c).out.validated = none := by
  unfold activate fail; repeat' split
  all_goals rfl

theorem andThen_good {A : Nat → Prop} {r : R} (g : Chan → R) (hr : Good A r)
    (hg : ∀ B : Nat → Prop, HI B r.c → Good B (g r.c)) (hv : (g r.c).out.validated = none) :
    Good A (andThen r g) := by
  unfold andThen
  split
  · have h2 := hg _ hr.1
    refine ⟨?_, ?_⟩
    · refine h2.1.mono ?_
      intro m hm
      simp only [hv] at hm
      simpa using hm
    · intro k hk
      have := h2.2 k hk
      simp only [hv] at this
      simpa using this
  · exact hr

theorem chanStep_good {A : Nat → Prop} (F : Nat → Bytes → Bytes) {c : Chan} (h : HI A c) (op : Op) :
    Good A (chanStep F c op) := by
  cases op with
  | setup =>
    simp only [chanStep]
    split
    · exact ⟨⟨fun m hm => by simp at hm, fun hx => by simp at hx⟩, by intro k hk; simp at hk⟩
    · exact good_fail h _
  | getPoint n => exact good_fail h _
  | getSecret n => exact getSecret_good h n
  | getSecretOrNone n => exact getSecretOrNone_good h n
  | validate n info sv pk => exact needReady_good h _ (validate_good h n info sv pk)
  | revoke n po => exact needReady_good h _ (revokeP_good h n po)
  | activate => exact needReady_good h _ (activate_good h)
  | signHolder n => exact needReady_good h _ (signHolder_good h n)
  | signRecovery => exact needReady_good h _ (signRecovery_good h)
  | signRedundant n info pk => exact needReady_good h _ (signRedundant_good h n info pk)
  | signMutualClose pk => exact needReady_good h _ (signMutualClose_good h pk)
  | signCp n pt info pk => exact needReady_good h _ (signCp_good h n pt info pk)
  | revokeCp n s pt => exact needReady_good h _ (revokeCp_good F h n s pt)
  | restart => exact good_fail h _
  | hValidate ver n info sv pk =>
    refine needReady_good h _ ?_
    refine andThen_good _ (validate_good h n info sv pk) ?_ ?_
    · intro B hB
      split
      · exact revoke_good hB n
      · split
        · split
          · exact good_fail hB _
          · exact good_fail hB _
        · exact activate_good hB
    · split
      · exact revoke_validated _ _
      · split
        · split <;> rfl
        · exact activate_validated _
  | hRevoke ver n po =>
    simp only [chanStep]
    split
    · exact good_fail h _
    · refine needReady_good h _ ?_
      split
      · exact good_fail h _
      · have hg := revokeP_good h (n + 1) po
        split
        · refine ⟨?_, by intro k hk; simp at hk⟩
          refine hg.1.mono ?_
          intro m hm
          rcases hm with hm | hm
          · exact Or.inl hm
          · rw [revokeP_validated] at hm; simp at hm
        · exact hg
  | hGetPoint ver n =>
    simp only [chanStep]
    split
    · exact good_fail h _
    · split
      · exact getSecret_good h _
      · exact good_fail h _
  | hGetPoint2 n => exact good_fail h _

/-! ### the process: memory and disk -/

/-- C01 invariant of the whole signer: the holder invariant for the in-memory channel and for its
    persisted copy, relative to the accepted validations in the history -/
def I (s : Sys) (h : Hist) : Prop := HI (Accepted h) s.mem ∧ HI (Accepted h) s.disk

theorem I_init : I init [] :=
  ⟨⟨fun m hm => by simp [init] at hm, fun hx => by simp [init] at hx⟩,
   ⟨fun m hm => by simp [init] at hm, fun hx => by simp [init] at hx⟩⟩

/-- the state after a non-restart request -/
def sysAfter (s : Sys) (r : R) : Sys := ⟨r.c, if r.persisted then r.c else s.disk⟩

theorem step_eq (F : Nat → Bytes → Bytes) (s : Sys) {op : Op} (hr : op ≠ .restart) :
    step F s op = (sysAfter s (chanStep F s.mem op), (chanStep F s.mem op).out) := by
  cases op <;> first | rfl | exact absurd rfl hr

/-- **step lemma of C01** -/
theorem I_step (F : Nat → Bytes → Bytes) {s : Sys} {h : Hist} (inv : I s h) (op : Op) :
    I (step F s op).1 ((op, (step F s op).2) :: h) ∧
    ∀ k, (step F s op).2.secret = some k → Accepted ((op, (step F s op).2) :: h) (k + 1) := by
  by_cases hr : op = .restart
  · subst hr
    refine ⟨⟨?_, ?_⟩, by intro k hk; simp [step] at hk⟩
    · exact inv.2.mono fun m a => a.mono _
    · exact inv.2.mono fun m a => a.mono _
  · have hstep := step_eq F s hr
    have g := chanStep_good F inv.1 op
    rw [hstep]
    dsimp only [sysAfter]
    have conv : ∀ m, (Accepted h m ∨ (chanStep F s.mem op).out.validated = some m) →
        Accepted ((op, (chanStep F s.mem op).out) :: h) m := by
      intro m hm
      rw [accepted_cons]
      rcases hm with a | v
      · exact Or.inr a
      · exact Or.inl v
    refine ⟨⟨g.1.mono conv, ?_⟩, fun k hk => conv _ (g.2 k hk)⟩
    split
    · exact g.1.mono conv
    · exact inv.2.mono fun m a => a.mono _

/-- every disclosed secret in the history is justified by an accepted validation of its successor
    at the time of the disclosure (the disclosing request included: the old-protocol
    `ValidateCommitmentTx` validates `n` and releases `n-1` in one request) -/
def SecretsJustified : Hist → Prop
  | [] => True
  | e :: pre => (∀ k, e.2.secret = some k → Accepted (e :: pre) (k + 1)) ∧ SecretsJustified pre

theorem run_inv (F : Nat → Bytes → Bytes) (ops : List Op) (s : Sys) (h : Hist)
    (inv : I s h) (sj : SecretsJustified h) :
    I (runH F s h ops).1 (runH F s h ops).2 ∧ SecretsJustified (runH F s h ops).2 := by
  induction ops generalizing s h with
  | nil => exact ⟨inv, sj⟩
  | cons op rest ih =>
    have st := I_step F inv op
    exact ih _ _ st.1 ⟨st.2, sj⟩

end VlsModel.Enforcement
