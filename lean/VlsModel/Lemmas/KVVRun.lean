import VlsModel.Lemmas.KVVRedb
/- Helper lemmas for property C16: single steps of the three backends, runs, the ledger, the cloud store. -/
namespace VlsModel.KVV

/-- an invariant `P` and a reflexive-transitive relation `R` established by every step hold along runs -/
theorem run_induct {σ : Type} (step : σ → Op → σ × Out) (P : σ → Prop) (R : σ → σ → Prop)
    (hrefl : ∀ s, R s s) (htrans : ∀ a b c, R a b → R b c → R a c)
    (hstep : ∀ s op, P s → P (step s op).1 ∧ R s (step s op).1) :
    ∀ ops s, P s → P (runWith step s ops).1 ∧ R s (runWith step s ops).1 := by
  intro ops
  induction ops with
  | nil => intro s hs; exact ⟨hs, hrefl s⟩
  | cons op ops ih =>
    intro s hs
    obtain ⟨h1, h2⟩ := hstep s op hs
    obtain ⟨h3, h4⟩ := ih _ h1
    simp only [runWith]
    exact ⟨h3, htrans _ _ _ h2 h4⟩

/-- lock-step simulation of two step functions along a run -/
theorem run_sim {σ τ : Type} (f : σ → Op → σ × Out) (g : τ → Op → τ × Out) (Rel : σ → τ → Prop)
    (Ok : Op → Prop)
    (hstep : ∀ s t op, Rel s t → Ok op → Rel (f s op).1 (g t op).1 ∧ (f s op).2 = (g t op).2) :
    ∀ ops s t, Rel s t → (∀ op ∈ ops, Ok op) →
      Rel (runWith f s ops).1 (runWith g t ops).1 ∧ (runWith f s ops).2 = (runWith g t ops).2 := by
  intro ops
  induction ops with
  | nil => intro s t h _; exact ⟨h, rfl⟩
  | cons op ops ih =>
    intro s t h hok
    obtain ⟨h1, h2⟩ := hstep s t op h (hok op (by simp))
    obtain ⟨h3, h4⟩ := ih _ _ h1 (fun o ho => hok o (by simp [ho]))
    simp only [runWith]
    exact ⟨h3, by rw [h2, h4]⟩

/-- with pairwise distinct keys every entry of an applied list is found afterwards -/
theorem lookup_insertAll_distinct {α : Type} (es : List (Key × α)) (t : AL α)
    (hd : (es.map (·.1)).Nodup) (e : Key × α) (he : e ∈ es) : lookup (insertAll t es) e.1 = some e.2 := by
  induction es generalizing t with
  | nil => cases he
  | cons e0 es ih =>
    simp only [List.map_cons, List.nodup_cons] at hd
    rw [insertAll_cons]
    rcases List.mem_cons.1 he with rfl | he'
    · rw [lookup_insertAll_not_mem]
      · exact lookup_insert_self _ _ _
      · intro e' he' heq
        exact hd.1 (List.mem_map.2 ⟨e', he', heq⟩)
    · exact ih _ hd.2 he'

/-! ### redb steps -/
namespace Redb

theorem step_inv_le {s : Redb} (h : Inv s) (op : Op) : Inv (step s op).1 ∧ Le s.tab (step s op).1.tab := by
  cases op with
  | put k x =>
    obtain ⟨h1, _, h3⟩ := put_sim h k x
    simp only [step]; exact ⟨h3, by rw [h1]; exact Mem.put_le _ _ _⟩
  | putV k v x =>
    obtain ⟨h1, _, h3⟩ := putV_sim h k v x
    simp only [step]; exact ⟨h3, by rw [h1]; exact Mem.putV_le _ _ _ _⟩
  | del k =>
    obtain ⟨h1, _, h3⟩ := put_sim h k []
    simp only [step]; exact ⟨h3, by rw [h1]; exact Mem.put_le _ _ _⟩
  | batch es =>
    simp only [step]
    rcases batch_spec h es with ⟨_, h2⟩ | ⟨T, hT, _, h2, h3⟩
    · rw [h2]; exact ⟨h, Le.refl _⟩
    · refine ⟨h3, ?_⟩
      rw [h2]
      exact Mem.le_congr_right (fun k => (Mem.seqRun_lookup (fun _ => rfl) hT k).symm) (Mem.seqRun_le hT)
  | reopen => exact ⟨inv_reopen h.sorted, Le.refl _⟩
  | get k => exact ⟨h, Le.refl _⟩
  | getVer k => exact ⟨h, Le.refl _⟩
  | getPrefix p => exact ⟨h, Le.refl _⟩
  | enter => exact ⟨h, Le.refl _⟩
  | prepare => exact ⟨h, Le.refl _⟩
  | commit => exact ⟨h, Le.refl _⟩

/-- one step: same output and same table as the memory store -/
theorem step_sim {s : Redb} (h : Inv s) (op : Op) :
    (step s op).1.tab = (Mem.step s.tab op).1 ∧ (step s op).2 = (Mem.step s.tab op).2 := by
  cases op with
  | put k x => obtain ⟨h1, h2, _⟩ := put_sim h k x; simp [step, Mem.step, h1, h2]
  | putV k v x => obtain ⟨h1, h2, _⟩ := putV_sim h k v x; simp [step, Mem.step, h1, h2]
  | del k => obtain ⟨h1, h2, _⟩ := put_sim h k []; simp [step, Mem.step, h1, h2]
  | batch es => obtain ⟨h1, h2⟩ := batch_sim h es; simp [step, Mem.step, h1, h2]
  | reopen => exact ⟨rfl, rfl⟩
  | get k => exact ⟨rfl, rfl⟩
  | getVer k => simp [step, Mem.step, h.cache k]
  | getPrefix p => exact ⟨rfl, rfl⟩
  | enter => exact ⟨rfl, rfl⟩
  | prepare => exact ⟨rfl, rfl⟩
  | commit => exact ⟨rfl, rfl⟩

/-- two handles on the same table whose caches answer every lookup alike -/
def CacheEq (s s' : Redb) : Prop := s.tab = s'.tab ∧ ∀ k, lookup s.cache k = lookup s'.cache k

theorem insertAll_lookup_congr {α : Type} (c c' : AL α) (es : List (Key × α))
    (h : ∀ k, lookup c k = lookup c' k) : ∀ k, lookup (insertAll c es) k = lookup (insertAll c' es) k := by
  induction es generalizing c c' with
  | nil => exact h
  | cons e es ih =>
    apply ih
    intro k; simp only [lookup_insert, h k]

theorem batchStep_congr {c c' : AL Nat} (h : ∀ k, lookup c k = lookup c' k) (a : Acc) (e : Key × Rec) :
    batchStep c a e = batchStep c' a e := by
  unfold batchStep olookup; rw [h e.1]

theorem step_cacheEq {s s' : Redb} (h : CacheEq s s') (op : Op) :
    CacheEq (step s op).1 (step s' op).1 ∧ (step s op).2 = (step s' op).2 := by
  obtain ⟨ht, hc⟩ := h
  have hputV : ∀ k v x, CacheEq (putV s k v x).1 (putV s' k v x).1 ∧ (putV s k v x).2 = (putV s' k v x).2 := by
    intro k v x
    unfold putV
    rw [hc k, ht]
    split
    · exact ⟨⟨rfl, fun j => by simp only [lookup_insert, hc j]⟩, rfl⟩
    · split
      · exact ⟨⟨ht, hc⟩, rfl⟩
      · split
        · split
          · exact ⟨⟨ht, hc⟩, rfl⟩
          · split <;> exact ⟨⟨ht, hc⟩, rfl⟩
        · exact ⟨⟨rfl, fun j => by simp only [lookup_insert, hc j]⟩, rfl⟩
  have hput : ∀ k x, CacheEq (put s k x).1 (put s' k x).1 ∧ (put s k x).2 = (put s' k x).2 := by
    intro k x
    unfold put
    rw [hc k]
    split
    · exact ⟨⟨ht, hc⟩, rfl⟩
    · exact hputV _ _ _
  cases op with
  | put k x => obtain ⟨a, b⟩ := hput k x; exact ⟨a, congrArg Out.res b⟩
  | putV k v x => obtain ⟨a, b⟩ := hputV k v x; exact ⟨a, congrArg Out.res b⟩
  | del k => obtain ⟨a, b⟩ := hput k []; exact ⟨a, congrArg Out.res b⟩
  | batch es =>
    simp only [step]
    have hloop : batchLoop s es = batchLoop s' es := by
      unfold batchLoop
      rw [ht]
      congr 1
      funext a e
      exact batchStep_congr hc a e
    unfold batch
    simp only [hloop]
    split
    · exact ⟨⟨ht, hc⟩, rfl⟩
    · split
      · exact ⟨⟨ht, hc⟩, rfl⟩
      · exact ⟨⟨rfl, insertAll_lookup_congr _ _ _ hc⟩, rfl⟩
  | reopen => exact ⟨⟨ht, by intro k; simp only [step, reopen, ht]⟩, rfl⟩
  | get k => exact ⟨⟨ht, hc⟩, by simp [step, ht]⟩
  | getVer k => exact ⟨⟨ht, hc⟩, by simp [step, hc k]⟩
  | getPrefix p => exact ⟨⟨ht, hc⟩, by simp [step, ht]⟩
  | enter => exact ⟨⟨ht, hc⟩, rfl⟩
  | prepare => exact ⟨⟨ht, hc⟩, rfl⟩
  | commit => exact ⟨⟨ht, hc⟩, rfl⟩

end Redb

/-! ### the ledger of accepted writes -/

/-- the table answers every `get` as the ledger does -/
def Agree (t : Tab) (s : KVSpec) : Prop := ∀ k, lookup t k = s k

theorem agree_insert {t : Tab} {s : KVSpec} (h : Agree t s) (k : Key) (r : Rec) :
    Agree (insert t k r) (s.set k r) := by
  intro j
  simp only [lookup_insert, KVSpec.set, h j]
  by_cases hj : k = j
  · subst hj; simp
  · have : ¬ j = k := fun e => hj e.symm
    simp [hj, this]

theorem agree_insertAll {t : Tab} {s : KVSpec} (h : Agree t s) (es : List (Key × Rec)) :
    Agree (insertAll t es) (s.setAll es) := by
  induction es generalizing t s with
  | nil => exact h
  | cons e es ih => exact ih (agree_insert h e.1 e.2)

theorem agree_set_same {t : Tab} {s : KVSpec} (h : Agree t s) {k : Key} {r : Rec}
    (hr : lookup t k = some r) : Agree t (s.set k r) := by
  intro j
  simp only [KVSpec.set]
  split
  · subst_vars; exact hr
  · exact h j

namespace Mem

theorem putV_agree {t : Tab} {s : KVSpec} (h : Agree t s) (k : Key) (v : Nat) (x : Val) :
    Agree (putV t k v x).1 (KVSpec.step s (.putV k v x) (.res (putV t k v x).2)) := by
  unfold putV
  split
  · exact agree_insert h _ _
  · rename_i v0 x0 hl
    split
    · exact h
    · split
      · split
        · rename_i heq hx
          subst heq; subst hx
          exact agree_set_same h hl
        · exact h
      · exact agree_insert h _ _

theorem put_agree_aux {t : Tab} {s : KVSpec} (h : Agree t s) (k : Key) (x : Val) :
    Agree (put t k x).1
      (match (put t k x).2 with
       | .ok => s.set k (((s k).map (·.1 + 1)).getD 0, x)
       | _ => s) := by
  unfold put
  have hk := h k
  cases hl : lookup t k with
  | none =>
    rw [hl] at hk
    simp only [Option.map_none, nextVer, putV, hl, ← hk, Option.getD_none]
    exact agree_insert h _ _
  | some r0 =>
    obtain ⟨v0, x0⟩ := r0
    rw [hl] at hk
    by_cases hlt : v0 < U64MAX
    · have h1 : ¬ (v0 + 1 < v0) := by omega
      have h2 : ¬ (v0 + 1 = v0) := by omega
      simp only [Option.map_some, nextVer, hlt, if_true, putV, hl, h1, h2, if_false, ← hk, Option.getD_some]
      exact agree_insert h _ _
    · simp only [Option.map_some, nextVer, hlt, if_false]
      exact h

theorem put_agree {t : Tab} {s : KVSpec} (h : Agree t s) (k : Key) (x : Val) :
    Agree (put t k x).1 (KVSpec.step s (.put k x) (.res (put t k x).2)) := by
  have := put_agree_aux h k x
  cases hr : (put t k x).2 <;> simp only [hr, KVSpec.step] at this ⊢ <;> exact this

theorem del_agree {t : Tab} {s : KVSpec} (h : Agree t s) (k : Key) :
    Agree (put t k []).1 (KVSpec.step s (.del k) (.res (put t k []).2)) := by
  have := put_agree_aux h k []
  cases hr : (put t k []).2 <;> simp only [hr, KVSpec.step] at this ⊢ <;> exact this

theorem batch_agree {t : Tab} {s : KVSpec} (h : Agree t s) (es : List (Key × Rec)) :
    Agree (batch t es).1 (KVSpec.step s (.batch es) (.res (batch t es).2)) := by
  rcases batch_spec t es with ⟨_, h2⟩ | ⟨_, _, h2, _⟩
  · rw [h2]; exact h
  · rw [h2]; exact agree_insertAll h es

/-- the memory store and the ledger of its own accepted writes stay in agreement -/
theorem step_agree {t : Tab} {s : KVSpec} (h : Agree t s) (op : Op) :
    Agree (step t op).1 (KVSpec.step s op (step t op).2) := by
  cases op with
  | put k x => exact put_agree h k x
  | putV k v x => exact putV_agree h k v x
  | del k => exact del_agree h k
  | batch es => exact batch_agree h es
  | get k => exact h
  | getVer k => exact h
  | getPrefix p => exact h
  | reopen => exact h
  | enter => exact h
  | prepare => exact h
  | commit => exact h

end Mem

/-! ### cloud store -/
namespace Cloud

theorem putV_loc (c : Cloud) (k : Key) (v : Nat) (x : Val) : (putV c k v x).1.loc = c.loc := by
  unfold putV
  repeat' split
  all_goals rfl

theorem put_loc (c : Cloud) (k : Key) (x : Val) : (put c k x).1.loc = c.loc := by
  unfold put; split
  · rfl
  · exact putV_loc _ _ _ _

theorem batch_loc (c : Cloud) (es : List (Key × Rec)) : (batch c es).1.loc = c.loc := by
  induction es generalizing c with
  | nil => rfl
  | cons e es ih =>
    simp only [batch]
    have := putV_loc c e.1 e.2.1 e.2.2
    generalize putV c e.1 e.2.1 e.2.2 = p at this ⊢
    obtain ⟨c', r⟩ := p
    cases r <;> simp only [] <;> first | (rw [ih c']; exact this) | exact this

theorem get_loc (c : Cloud) (k : Key) : (get c k).1.loc = c.loc := by
  unfold get
  repeat' split
  all_goals rfl

theorem enter_loc (c : Cloud) : (enter c).1.loc = c.loc := by
  unfold enter
  repeat' split
  all_goals rfl

theorem prepare_loc (c : Cloud) : (prepare c).1.loc = c.loc := by
  unfold prepare
  repeat' split
  all_goals rfl

/-- every request except `commit` leaves the local store alone -/
theorem step_loc (c : Cloud) (op : Op) (h : op ≠ .commit) : (step c op).1.loc = c.loc := by
  cases op with
  | put k x => simp only [step]; exact put_loc _ _ _
  | putV k v x => simp only [step]; exact putV_loc _ _ _ _
  | del k => simp only [step]; exact put_loc _ _ _
  | batch es => simp only [step]; exact batch_loc _ _
  | get k =>
    simp only [step]
    have := get_loc c k
    split <;> (rename_i heq; rw [heq] at this; exact this)
  | getVer k =>
    simp only [step]
    have := get_loc c k
    split <;> (rename_i heq; rw [heq] at this; exact this)
  | getPrefix p => rfl
  | reopen => rfl
  | enter => simp only [step]; exact enter_loc _
  | prepare =>
    simp only [step]
    have := prepare_loc c
    split <;> (rename_i heq; rw [heq] at this; exact this)
  | commit => exact absurd rfl h

theorem commit_le (c : Cloud) : Le c.loc (commit c).1.loc := by
  unfold commit
  split
  · exact Le.refl _
  · split
    · exact Le.refl _
    · exact Mem.batch_le _ _

theorem commit_sorted {c : Cloud} (h : Sorted c.loc) : Sorted (commit c).1.loc := by
  unfold commit
  split
  · exact h
  · split
    · exact h
    · exact Mem.batch_sorted _ h

theorem step_le (c : Cloud) (op : Op) : Le c.loc (step c op).1.loc := by
  by_cases h : op = .commit
  · subst h; simp only [step]; exact commit_le c
  · rw [step_loc c op h]; exact Le.refl _

end Cloud
end VlsModel.KVV
