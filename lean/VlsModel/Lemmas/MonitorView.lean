import VlsModel.Model.Monitor
/-
Lemmas about the views other components read off a monitor (`State.fundingDepth`, `dsDepth`, `closingDepth`,
`chainState` = `ChainMonitor::{funding_depth, funding_double_spent_depth, closing_depth}`,
`ChainMonitorBase::as_chain_state`): the invariant "no recorded event height lies above the monitor's height",
its preservation by block connection, and what it buys: `as_chain_state`'s plain `u32` subtraction cannot underflow
and agrees with the saturating `depth_of`.
-/
namespace VlsModel.Monitor

/-- an optional recorded height is not above the monitor's height -/
def okH (s : State) (o : Option Nat) : Prop := ∀ h, o = some h → h ≤ s.height

/-- no recorded event height lies above the monitor's height -/
structure HeightsOk (s : State) : Prop where
  hFunding : okH s s.fundingHeight
  hDs : okH s s.dsHeight
  hMutual : okH s s.mutualHeight
  hUni : okH s s.uniHeight

theorem okH_none (s : State) : okH s none := fun _ e => by cases e

theorem okH_self (s : State) : okH s (some s.height) := fun _ e => by cases e; exact Nat.le_refl _

theorem HeightsOk.congr {s t : State} (h : HeightsOk s) (e1 : s.height ≤ t.height)
    (e2 : t.fundingHeight = s.fundingHeight) (e3 : t.dsHeight = s.dsHeight)
    (e4 : t.mutualHeight = s.mutualHeight) (e5 : t.uniHeight = s.uniHeight) : HeightsOk t :=
  ⟨fun x e => Nat.le_trans (h.hFunding x (e2 ▸ e)) e1, fun x e => Nat.le_trans (h.hDs x (e3 ▸ e)) e1,
   fun x e => Nat.le_trans (h.hMutual x (e4 ▸ e)) e1, fun x e => Nat.le_trans (h.hUni x (e5 ▸ e)) e1⟩

theorem heightsOk_init (height t v : Nat) (ins : List OutPoint) : HeightsOk (State.init height t v ins) :=
  ⟨okH_none _, okH_none _, okH_none _, okH_none _⟩

/-- `apply_forward_change` records events at the current height only and leaves the height alone -/
theorem applyForward_heightsOk {s s' : State} {a r : List OutPoint} {c : Change} (h : HeightsOk s)
    (e : applyForward s c = some (s', a, r)) : HeightsOk s' ∧ s'.height = s.height := by
  cases c with
  | fundingConfirmed op =>
    simp only [applyForward, Option.some.injEq, Prod.mk.injEq] at e
    obtain ⟨rfl, _, _⟩ := e
    exact ⟨⟨okH_self s, okH_none _, h.hMutual, h.hUni⟩, rfl⟩
  | fundingInputSpent op =>
    simp only [applyForward, Option.some.injEq, Prod.mk.injEq] at e
    obtain ⟨rfl, _, _⟩ := e
    refine ⟨⟨h.hFunding, ?_, h.hMutual, h.hUni⟩, rfl⟩
    intro x ex
    simp only [Option.some.injEq] at ex
    cases hd : s.dsHeight with
    | none => rw [hd] at ex; simp only [Option.getD_none] at ex; subst ex; exact Nat.le_refl _
    | some y => rw [hd] at ex; simp only [Option.getD_some] at ex; subst ex; exact h.hDs _ hd
  | unilateral txid fo our htlcs =>
    simp only [applyForward, Option.some.injEq, Prod.mk.injEq] at e
    obtain ⟨rfl, _, _⟩ := e
    exact ⟨⟨h.hFunding, h.hDs, h.hMutual, okH_self s⟩, rfl⟩
  | «mutual» txid fo =>
    simp only [applyForward, Option.some.injEq, Prod.mk.injEq] at e
    obtain ⟨rfl, _, _⟩ := e
    exact ⟨⟨h.hFunding, h.hDs, okH_self s, h.hUni⟩, rfl⟩
  | ourSpent vout =>
    simp only [applyForward] at e
    cases hc : s.closing with
    | none => simp [hc] at e
    | some c =>
      simp only [hc] at e
      obtain ⟨c', _, he⟩ := Option.map_eq_some_iff.mp e
      simp only [Prod.mk.injEq] at he
      obtain ⟨rfl, _, _⟩ := he
      exact ⟨h.congr (Nat.le_refl _) rfl rfl rfl rfl, rfl⟩
  | htlcSpent vout sl =>
    simp only [applyForward] at e
    cases hc : s.closing with
    | none => simp [hc] at e
    | some c =>
      simp only [hc] at e
      obtain ⟨c', _, he⟩ := Option.map_eq_some_iff.mp e
      simp only [Prod.mk.injEq] at he
      obtain ⟨rfl, _, _⟩ := he
      exact ⟨h.congr (Nat.le_refl _) rfl rfl rfl rfl, rfl⟩
  | secondSpent op =>
    simp only [applyForward] at e
    cases hc : s.closing with
    | none => simp [hc] at e
    | some c =>
      simp only [hc] at e
      obtain ⟨c', _, he⟩ := Option.map_eq_some_iff.mp e
      simp only [Prod.mk.injEq] at he
      obtain ⟨rfl, _, _⟩ := he
      exact ⟨h.congr (Nat.le_refl _) rfl rfl rfl rfl, rfl⟩

/-- neither change function touches the height -/
theorem applyForward_height {s s' : State} {a r : List OutPoint} {c : Change}
    (e : applyForward s c = some (s', a, r)) : s'.height = s.height := by
  cases c <;> simp only [applyForward] at e
  case fundingConfirmed | fundingInputSpent | unilateral | «mutual» =>
    simp only [Option.some.injEq, Prod.mk.injEq] at e; obtain ⟨rfl, _, _⟩ := e; rfl
  all_goals
    cases hc : s.closing with
    | none => simp [hc] at e
    | some c =>
      simp only [hc] at e
      obtain ⟨c', _, he⟩ := Option.map_eq_some_iff.mp e
      simp only [Prod.mk.injEq] at he
      obtain ⟨rfl, _, _⟩ := he
      rfl

theorem applyBackward_height {s s' : State} {a r : List OutPoint} {c : Change}
    (e : applyBackward s c = some (s', a, r)) : s'.height = s.height := by
  cases c <;> simp only [applyBackward] at e
  case fundingConfirmed =>
    split at e
    · simp only [Option.some.injEq, Prod.mk.injEq] at e; obtain ⟨rfl, _, _⟩ := e; rfl
    · split at e
      · simp only [Option.some.injEq, Prod.mk.injEq] at e; obtain ⟨rfl, _, _⟩ := e; rfl
      · cases e
  case unilateral =>
    split at e
    · simp only [Option.some.injEq, Prod.mk.injEq] at e; obtain ⟨rfl, _, _⟩ := e; rfl
    · cases e
  case fundingInputSpent | «mutual» =>
    simp only [Option.some.injEq, Prod.mk.injEq] at e; obtain ⟨rfl, _, _⟩ := e; rfl
  all_goals
    cases hc : s.closing with
    | none => simp [hc] at e
    | some c =>
      simp only [hc] at e
      obtain ⟨c', _, he⟩ := Option.map_eq_some_iff.mp e
      simp only [Prod.mk.injEq] at he
      obtain ⟨rfl, _, _⟩ := he
      rfl

theorem applyAll_height (f : State → Change → Option Delta)
    (hf : ∀ {s s' : State} {a r : List OutPoint} {c : Change}, f s c = some (s', a, r) → s'.height = s.height)
    (cs : List Change) : ∀ {s s' : State} {a r : List OutPoint},
      applyAll f s cs = some (s', a, r) → s'.height = s.height := by
  induction cs with
  | nil =>
    intro s s' a r e
    simp only [applyAll, Option.some.injEq, Prod.mk.injEq] at e
    obtain ⟨rfl, _, _⟩ := e; rfl
  | cons c cs ih =>
    intro s s' a r e
    simp only [applyAll] at e
    cases h1 : f s c with
    | none => simp [h1] at e
    | some d =>
      obtain ⟨s1, a1, r1⟩ := d
      simp only [h1] at e
      cases h2 : applyAll f s1 cs with
      | none => simp [h2] at e
      | some d2 =>
        obtain ⟨s2, a2, r2⟩ := d2
        simp only [h2, Option.some.injEq, Prod.mk.injEq] at e
        obtain ⟨rfl, _, _⟩ := e
        rw [ih h2, hf h1]

theorem applyAll_forward_heightsOk (cs : List Change) :
    ∀ {s s' : State} {a r : List OutPoint}, HeightsOk s → applyAll applyForward s cs = some (s', a, r) →
      HeightsOk s' ∧ s'.height = s.height := by
  induction cs with
  | nil =>
    intro s s' a r h e
    simp only [applyAll, Option.some.injEq, Prod.mk.injEq] at e
    obtain ⟨rfl, _, _⟩ := e
    exact ⟨h, rfl⟩
  | cons c cs ih =>
    intro s s' a r h e
    simp only [applyAll] at e
    cases hf : applyForward s c with
    | none => simp [hf] at e
    | some d =>
      obtain ⟨s1, a1, r1⟩ := d
      simp only [hf] at e
      cases hr : applyAll applyForward s1 cs with
      | none => simp [hr] at e
      | some d2 =>
        obtain ⟨s2, a2, r2⟩ := d2
        simp only [hr, Option.some.injEq, Prod.mk.injEq] at e
        obtain ⟨rfl, _, _⟩ := e
        obtain ⟨h1, e1⟩ := applyForward_heightsOk h hf
        obtain ⟨h2, e2⟩ := ih h1 hr
        exact ⟨h2, by rw [e2, e1]⟩

/-- `on_add_block_end`: the height grows by one, every event of the block is recorded at the new height -/
theorem addEnd_heightsOk {s s' : State} {cs : List Change} {a r : List OutPoint} (h : HeightsOk s)
    (e : addEnd s cs = some (s', a, r)) : HeightsOk s' ∧ s'.height = s.height + 1 := by
  unfold addEnd at e
  simp only at e
  cases hr : applyAll applyForward { s with sawBlock := true, height := s.height + 1 } cs with
  | none => simp [hr] at e
  | some d =>
    obtain ⟨s2, a2, r2⟩ := d
    simp only [hr, Option.some.injEq, Prod.mk.injEq] at e
    obtain ⟨rfl, _, _⟩ := e
    have h1 : HeightsOk { s with sawBlock := true, height := s.height + 1 } :=
      h.congr (Nat.le_succ _) rfl rfl rfl rfl
    obtain ⟨h2, e2⟩ := applyAll_forward_heightsOk cs h1 hr
    constructor
    · split <;> split <;> exact h2.congr (Nat.le_refl _) rfl rfl rfl rfl
    · split <;> split <;> exact e2

/-- connecting a block preserves `HeightsOk` and raises the height by exactly one -/
theorem addBlock_heightsOk {s s' : State} {txs : List Tx} {a r : List OutPoint} (h : HeightsOk s)
    (e : addBlock s txs = some (s', a, r)) : HeightsOk s' ∧ s'.height = s.height + 1 := by
  unfold addBlock at e
  simp only at e
  cases hd : detect { s with sawBlock := true } txs with
  | none => simp [hd] at e
  | some cs =>
    simp only [hd] at e
    exact addEnd_heightsOk (s := { s with sawBlock := true }) (h.congr (Nat.le_refl _) rfl rfl rfl rfl) e

/-! ### what the invariant buys -/

theorem plainDepth_of_okH {s : State} {o : Option Nat} (h : okH s o) : s.plainDepth o = some (s.depthOf o) := by
  cases o with
  | none => simp [State.plainDepth, State.depthOf]
  | some x =>
    have := h x rfl
    simp only [State.plainDepth, State.depthOf, Option.getD_some]
    rw [if_pos (by omega)]

/-- under `HeightsOk`, `as_chain_state` does not panic and reports the saturating depths -/
theorem chainState_of_heightsOk {s : State} (h : HeightsOk s) :
    s.chainState = some ⟨s.height, s.fundingDepth, s.dsDepth,
      s.depthOf (orOpt s.mutualHeight s.uniHeight)⟩ := by
  have hc : okH s (orOpt s.mutualHeight s.uniHeight) := by
    unfold orOpt
    cases hm : s.mutualHeight with
    | none => exact h.hUni
    | some x => intro y ey; cases ey; exact h.hMutual x hm
  unfold State.chainState
  simp only [plainDepth_of_okH h.hFunding, plainDepth_of_okH h.hDs, plainDepth_of_okH hc]
  rfl

/-- the two preferences (`unilateral.or(mutual)` in `closing_depth`, `mutual.or(unilateral)` in `as_chain_state`)
    agree unless both closing heights are recorded -/
theorem closingDepth_pref {s : State} (h : s.uniHeight = none ∨ s.mutualHeight = none) :
    s.depthOf (orOpt s.mutualHeight s.uniHeight) = s.closingDepth := by
  unfold State.closingDepth orOpt
  rcases h with h | h
  · rw [h]; cases s.mutualHeight <;> rfl
  · rw [h]; cases s.uniHeight <;> rfl

/-- an event recorded at the monitor's height has depth 1 (the tip block counts) -/
theorem depthOf_self (s : State) : s.depthOf (some s.height) = 1 := by
  simp [State.depthOf]

/-- an unrecorded event has depth 0 -/
theorem depthOf_none (s : State) : s.depthOf none = 0 := by
  simp [State.depthOf]

/-- one more block on top: the depth of a recorded event grows by exactly one -/
theorem depthOf_succ {s s' : State} {x : Nat} (hx : x ≤ s.height) (e : s'.height = s.height + 1) :
    s'.depthOf (some x) = s.depthOf (some x) + 1 := by
  simp only [State.depthOf, Option.getD_some, e]; omega

end VlsModel.Monitor
