import VlsModel.Lemmas.MonitorSim
/-
Applicability (`PreAll`) of the detected changes from structural validity of the block (C14).
-/
namespace VlsModel.Monitor

/-! ### `Pre` does not depend on the block height -/

/-- forget the height and the values (not the presence) of the recorded heights -/
def nz (s : State) : State :=
  { s with height := 0, fundingHeight := s.fundingHeight.map (fun _ => 0), dsHeight := none,
           mutualHeight := s.mutualHeight.map (fun _ => 0), uniHeight := s.uniHeight.map (fun _ => 0) }

theorem map_const_eq {x y : Option Nat} (h : x.map (fun _ => 0) = y.map (fun _ => 0)) :
    x = none ↔ y = none := by
  cases x <;> cases y <;> simp_all

theorem Pre_nz {a b : State} (h : nz a = nz b) {c : Change} (hp : Pre a c) : Pre b c := by
  cases a; cases b
  simp only [nz, State.mk.injEq] at h
  obtain ⟨_, h2, h3, h4, h5, h6, _, h8, h9, h10, h11, h12, h13, h14⟩ := h
  have e5 := map_const_eq h5
  have e8 := map_const_eq h8
  have e9 := map_const_eq h9
  subst h6 h10
  cases c <;> simp_all [Pre]

theorem applyForward_nz {a b : State} (h : nz a = nz b) (c : Change) :
    (applyForward a c).map (fun d => nz d.1) = (applyForward b c).map (fun d => nz d.1) := by
  simp only [nz, State.mk.injEq] at h
  obtain ⟨_, h2, h3, h4, h5, h6, _, h8, h9, h10, h11, h12, h13, h14⟩ := h
  cases c <;> simp only [applyForward, ← h10]
  case fundingConfirmed | fundingInputSpent => simp [nz, *]
  case unilateral | «mutual» => simp [nz, *]
  all_goals
    cases a.closing <;> simp [nz, Function.comp_def, *]

theorem PreAll_nz {a b : State} (h : nz a = nz b) {cs : List Change} (hp : PreAll a cs) :
    PreAll b cs := by
  induction cs generalizing a b with
  | nil => trivial
  | cons c cs ih =>
    refine ⟨Pre_nz h hp.1, ?_⟩
    intro b1 ab rb hb
    have k := applyForward_nz h c
    rw [hb] at k
    cases ha : applyForward a c with
    | none => rw [ha] at k; simp at k
    | some d =>
      obtain ⟨a1, aa, ra⟩ := d
      rw [ha] at k
      simp only [Option.map_some, Option.some.injEq] at k
      exact ih k (hp.2 a1 aa ra ha)

/-! ### trace with applicability -/

theorem PreAll_snoc {t0 t : State} {new : List Change} {a r : List OutPoint} {ch : Change}
    (hp : PreAll t0 new) (h : applyAll applyForward t0 new = some (t, a, r)) (hc : Pre t ch) :
    PreAll t0 (new ++ [ch]) := by
  induction new generalizing t0 a r with
  | nil =>
    simp only [applyAll, Option.some.injEq, Prod.mk.injEq] at h
    obtain ⟨rfl, _, _⟩ := h
    exact ⟨hc, fun _ _ _ _ => trivial⟩
  | cons c cs ih =>
    refine ⟨hp.1, ?_⟩
    intro s1 a1 r1 h1
    simp only [applyAll, h1] at h
    cases hrest : applyAll applyForward s1 cs with
    | none => simp [hrest] at h
    | some d2 =>
      obtain ⟨sx, a2, r2⟩ := d2
      simp only [hrest, Option.some.injEq, Prod.mk.injEq] at h
      obtain ⟨rfl, _, _⟩ := h
      exact ih (hp.2 s1 a1 r1 h1) hrest

/-- `cs` extends `cs0` by changes that are applicable along the forward run from `t0`, which ends
in `t` -/
def PTr (t0 : State) (cs0 : List Change) (t : State) (cs : List Change) : Prop :=
  ∃ new a r, cs = cs0 ++ new ∧ applyAll applyForward t0 new = some (t, a, r) ∧ PreAll t0 new

theorem PTr.refl (t0 : State) (cs0 : List Change) : PTr t0 cs0 t0 cs0 :=
  ⟨[], [], [], by simp, rfl, trivial⟩

theorem PTr.addChange {t0 : State} {cs0 : List Change} {d d' : Scratch} {ch : Change}
    (q : PTr t0 cs0 d.t d.changes) (hp : Pre d.t ch) (h : d.addChange ch = some d') :
    PTr t0 cs0 d'.t d'.changes := by
  obtain ⟨new, a, r, q1, q2, q3⟩ := q
  obtain ⟨x, hx, rfl⟩ := Option.map_eq_some_iff.mp h
  obtain ⟨t', a', r'⟩ := x
  refine ⟨new ++ [ch], a ++ (a' ++ []), r ++ (r' ++ []), by simp [q1], ?_, PreAll_snoc q3 q2 hp⟩
  simp only [applyAll_append, q2, applyAll_single, hx, Option.map_some]

/-! ### the structural invariant on the temporary state -/

/-- `R`: outpoints still to be spent by the rest of the block; `X`: txids of the current and the
later transactions of the block -/
structure JInv (R : List OutPoint) (X : List Nat) (t : State) : Prop where
  our : ∀ c i, t.closing = some c → c.our = some (i, true) → (c.txid, i) ∉ R
  htlc : ∀ c v i, t.closing = some c → position v c.htlcOutputs = some i →
    c.htlcSpents[i]? = some true → (c.txid, v) ∉ R
  sec : ∀ c e, t.closing = some c → e ∈ c.second → e.2 = true → e.1 ∉ R
  fresh : ∀ c e, t.closing = some c → e ∈ c.second → e.1.1 ∉ X
  hf : t.fundingHeight.isSome → t.fundingOutpoint.isSome
  hu : t.uniHeight.isSome → t.closing.isSome
  hm : t.mutualHeight.isSome → t.fundingOutpoint.isSome ∧ ∀ inp ∈ R, some inp ≠ t.fundingOutpoint

theorem JInv.mono {R R' : List OutPoint} {X X' : List Nat} {t : State} (j : JInv R X t)
    (hR : ∀ x ∈ R', x ∈ R) (hX : ∀ x ∈ X', x ∈ X) : JInv R' X' t :=
  ⟨fun c i h1 h2 h3 => j.our c i h1 h2 (hR _ h3),
   fun c v i h1 h2 h3 h4 => j.htlc c v i h1 h2 h3 (hR _ h4),
   fun c e h1 h2 h3 h4 => j.sec c e h1 h2 h3 (hR _ h4),
   fun c e h1 h2 h3 => j.fresh c e h1 h2 (hX _ h3),
   j.hf, j.hu, fun h => ⟨(j.hm h).1, fun inp hi => (j.hm h).2 inp (hR _ hi)⟩⟩

theorem JInv.fis {R : List OutPoint} {X : List Nat} {t t' : State} {op : OutPoint}
    {a r : List OutPoint} (j : JInv R X t)
    (h : applyForward t (.fundingInputSpent op) = some (t', a, r)) : JInv R X t' := by
  simp only [applyForward, Option.some.injEq, Prod.mk.injEq] at h
  obtain ⟨rfl, _, _⟩ := h
  exact ⟨j.our, j.htlc, j.sec, j.fresh, j.hf, j.hu, j.hm⟩

theorem includesOur_iff (c : Closing) (inp : OutPoint) :
    c.includesOur inp = true ↔ c.txid = inp.1 ∧ c.our.map (·.1) = some inp.2 := by
  simp [Closing.includesOur]

theorem JInv.ourSpent {R' : List OutPoint} {X : List Nat} {t t' : State} {inp : OutPoint}
    {c : Closing} {a r : List OutPoint} (j : JInv (inp :: R') X t) (hn : inp ∉ R')
    (hc : t.closing = some c) (hi : c.includesOur inp = true)
    (h : applyForward t (.ourSpent inp.2) = some (t', a, r)) :
    Pre t (.ourSpent inp.2) ∧ JInv R' X t' ∧
      ∃ c', t'.closing = some c' ∧ c'.txid = c.txid ∧ c'.htlcOutputs = c.htlcOutputs ∧
        c'.htlcSpents = c.htlcSpents := by
  obtain ⟨h1, h2⟩ := (includesOur_iff c inp).mp hi
  have hour : c.our = some (inp.2, false) := by
    cases ho : c.our with
    | none => rw [ho] at h2; simp at h2
    | some p =>
      obtain ⟨i, b⟩ := p
      rw [ho] at h2
      simp only [Option.map_some, Option.some.injEq] at h2
      subst h2
      cases b with
      | false => rfl
      | true =>
        exfalso
        apply j.our c _ hc ho
        rw [h1]; simp
  refine ⟨⟨c, hc, hour⟩, ?_⟩
  simp only [applyForward, hc, Closing.setOurSpent, hour, if_true, Option.map_some,
    Option.some.injEq, Prod.mk.injEq] at h
  obtain ⟨rfl, _, _⟩ := h
  have jm := j.mono (R' := R') (X' := X) (fun x hx => by simp [hx]) (fun x hx => hx)
  refine ⟨⟨?_, ?_, ?_, ?_, j.hf, fun _ => rfl, jm.hm⟩, ⟨_, rfl, rfl, rfl, rfl⟩⟩
  · intro c' i hc' ho'
    simp only [Option.some.injEq] at hc'
    subst hc'
    simp only [Option.some.injEq, Prod.mk.injEq] at ho'
    obtain ⟨rfl, _⟩ := ho'
    rw [h1]; exact hn
  · intro c' v i hc' hp hs
    simp only [Option.some.injEq] at hc'
    subst hc'
    exact jm.htlc c v i hc hp hs
  · intro c' e hc' he hf
    simp only [Option.some.injEq] at hc'
    subst hc'
    exact jm.sec c e hc he hf
  · intro c' e hc' he
    simp only [Option.some.injEq] at hc'
    subst hc'
    exact jm.fresh c e hc he

theorem firstFlag_false {op : OutPoint} {l : List (OutPoint × Bool)} (hm : op ∈ l.map (·.1))
    (hf : ∀ e ∈ l, e.1 = op → e.2 = false) : firstFlag op l = some false := by
  induction l with
  | nil => simp at hm
  | cons x xs ih =>
    simp only [firstFlag]
    by_cases hx : x.1 = op
    · simp [hx, hf x (by simp) hx]
    · simp only [hx, if_false]
      apply ih
      · simp only [List.map_cons, List.mem_cons] at hm
        rcases hm with hm | hm
        · exact absurd hm.symm hx
        · exact hm
      · intro e he; exact hf e (by simp [he])

theorem setFirst_mem {op : OutPoint} {b : Bool} {l l' : List (OutPoint × Bool)}
    (h : setFirst op b l = some l') : ∀ e ∈ l', e ∈ l ∨ e = (op, b) := by
  induction l generalizing l' with
  | nil => simp [setFirst] at h
  | cons x xs ih =>
    simp only [setFirst] at h
    split at h
    · rename_i hx
      simp only [Option.some.injEq] at h
      subst h
      intro e he
      simp only [List.mem_cons] at he
      rcases he with he | he
      · exact Or.inr (by rw [he, hx])
      · exact Or.inl (by simp [he])
    · obtain ⟨t, ht, rfl⟩ := Option.map_eq_some_iff.mp h
      intro e he
      simp only [List.mem_cons] at he
      rcases he with he | he
      · exact Or.inl (by simp [he])
      · rcases ih ht e he with h1 | h1
        · exact Or.inl (by simp [h1])
        · exact Or.inr h1

theorem JInv.secondSpent {R' : List OutPoint} {X : List Nat} {t t' : State} {inp : OutPoint}
    {c : Closing} {a r : List OutPoint} (j : JInv (inp :: R') X t) (hn : inp ∉ R')
    (hc : t.closing = some c) (hi : c.includesSecond inp = true)
    (h : applyForward t (.secondSpent inp) = some (t', a, r)) :
    Pre t (.secondSpent inp) ∧ JInv R' X t' ∧
      ∃ c', t'.closing = some c' ∧ c'.txid = c.txid ∧ c'.htlcOutputs = c.htlcOutputs ∧
        c'.htlcSpents = c.htlcSpents := by
  have hk : inp ∈ c.second.map (·.1) := (includesSecond_iff c inp).mp hi
  have hff : firstFlag inp c.second = some false := by
    apply firstFlag_false hk
    intro e he h1
    cases hb : e.2 with
    | false => rfl
    | true =>
      exfalso
      exact j.sec c e hc he hb (by rw [h1]; simp)
  refine ⟨⟨c, hc, hff⟩, ?_⟩
  simp only [applyForward, hc, Closing.setSecondSpent, Option.map_map] at h
  obtain ⟨l', hl', hh⟩ := Option.map_eq_some_iff.mp h
  simp only [Function.comp, Prod.mk.injEq] at hh
  obtain ⟨rfl, _, _⟩ := hh
  have jm := j.mono (R' := R') (X' := X) (fun x hx => by simp [hx]) (fun x hx => hx)
  have hmem := setFirst_mem hl'
  refine ⟨⟨?_, ?_, ?_, ?_, j.hf, fun _ => rfl, jm.hm⟩, ⟨_, rfl, rfl, rfl, rfl⟩⟩
  · intro c' i hc' ho'
    simp only [Option.some.injEq] at hc'
    subst hc'
    exact jm.our c i hc ho'
  · intro c' v i hc' hp hs
    simp only [Option.some.injEq] at hc'
    subst hc'
    exact jm.htlc c v i hc hp hs
  · intro c' e hc' he hf
    simp only [Option.some.injEq] at hc'
    subst hc'
    rcases hmem e he with h1 | h1
    · exact jm.sec c e hc h1 hf
    · rw [h1]; exact hn
  · intro c' e hc' he
    simp only [Option.some.injEq] at hc'
    subst hc'
    rcases hmem e he with h1 | h1
    · exact j.fresh c e hc h1
    · obtain ⟨e0, he0, h0⟩ := List.mem_map.mp hk
      rw [h1]
      have := j.fresh c e0 hc he0
      rw [h0] at this
      exact this

theorem JInv.fundingConfirmed {R : List OutPoint} {X : List Nat} {t t' : State} {op : OutPoint}
    {a r : List OutPoint} (j : JInv R X t) (hfo : t.fundingOutpoint = none)
    (h : applyForward t (.fundingConfirmed op) = some (t', a, r)) :
    Pre t (.fundingConfirmed op) ∧ JInv R X t' ∧ t'.closing = t.closing ∧
      t'.mutualHeight = t.mutualHeight := by
  have hfh : t.fundingHeight = none := by
    cases hh : t.fundingHeight with
    | none => rfl
    | some x => have := j.hf (by simp [hh]); rw [hfo] at this; cases this
  have hmh : ¬ t.mutualHeight.isSome := by
    intro hh; have := (j.hm hh).1; rw [hfo] at this; cases this
  simp only [applyForward, Option.some.injEq, Prod.mk.injEq] at h
  obtain ⟨rfl, _, _⟩ := h
  exact ⟨⟨hfh, hfo⟩, ⟨j.our, j.htlc, j.sec, j.fresh, fun _ => rfl, j.hu,
    fun hh => absurd hh hmh⟩, rfl, rfl⟩

theorem getElem?_map_false (l : List Nat) (i : Nat) :
    (l.map (fun _ => false))[i]? ≠ some true := by
  simp only [List.getElem?_map]
  cases l[i]? <;> simp

theorem JInv.unilateral {R : List OutPoint} {X : List Nat} {t t' : State} {x : Nat} {fo : OutPoint}
    {our : Option Nat} {htlcs : List Nat} {a r : List OutPoint} (j : JInv R X t)
    (hcl : t.closing = none)
    (h : applyForward t (.unilateral x fo our htlcs) = some (t', a, r)) :
    Pre t (.unilateral x fo our htlcs) ∧ JInv R X t' := by
  have huh : t.uniHeight = none := by
    cases hh : t.uniHeight with
    | none => rfl
    | some y => have := j.hu (by simp [hh]); rw [hcl] at this; cases this
  simp only [applyForward, Option.some.injEq, Prod.mk.injEq] at h
  obtain ⟨rfl, _, _⟩ := h
  refine ⟨⟨huh, hcl⟩, ⟨?_, ?_, ?_, ?_, j.hf, fun _ => rfl, j.hm⟩⟩
  · intro c i hc ho
    simp only [Option.some.injEq] at hc
    subst hc
    cases our <;> simp [Closing.new] at ho
  · intro c v i hc _ hs
    simp only [Option.some.injEq] at hc
    subst hc
    exact absurd hs (getElem?_map_false _ _)
  · intro c e hc he
    simp only [Option.some.injEq] at hc
    subst hc
    simp [Closing.new] at he
  · intro c e hc he
    simp only [Option.some.injEq] at hc
    subst hc
    simp [Closing.new] at he

theorem JInv.mutual {R R' : List OutPoint} {X : List Nat} {t t' : State} {x : Nat}
    {fo inp0 : OutPoint} {a r : List OutPoint} (j : JInv R' X t)
    (hmh : t.mutualHeight = none) (h0 : some inp0 = t.fundingOutpoint)
    (hR : ∀ y ∈ R, y ∈ R') (hn : inp0 ∉ R)
    (h : applyForward t (.mutual x fo) = some (t', a, r)) :
    Pre t (.mutual x fo) ∧ JInv R X t' := by
  simp only [applyForward, Option.some.injEq, Prod.mk.injEq] at h
  obtain ⟨rfl, _, _⟩ := h
  have jm := j.mono (R' := R) (X' := X) hR (fun x hx => hx)
  refine ⟨hmh, ⟨jm.our, jm.htlc, jm.sec, jm.fresh, j.hf, j.hu, fun _ => ⟨?_, ?_⟩⟩⟩
  · show t.fundingOutpoint.isSome
    rw [← h0]; rfl
  · intro inp hi
    show some inp ≠ t.fundingOutpoint
    rw [← h0]
    intro e; cases e; exact hn hi

/-! ### HTLC spends (applied at the end of the transaction) -/

theorem position_getElem {v : Nat} {l : List Nat} {i : Nat} (h : position v l = some i) :
    l[i]? = some v := by
  induction l generalizing i with
  | nil => simp [position] at h
  | cons x xs ih =>
    simp only [position] at h
    split at h
    · rename_i hx; cases h; simp [hx]
    · obtain ⟨j, hj, rfl⟩ := Option.map_eq_some_iff.mp h
      simpa using ih hj

theorem position_inj {v v' : Nat} {l : List Nat} {i : Nat} (h : position v l = some i)
    (h' : position v' l = some i) : v = v' := by
  have a := position_getElem h
  have b := position_getElem h'
  rw [a] at b
  exact Option.some.inj b

theorem JInv.htlcSpent {R : List OutPoint} {X : List Nat} {t t' : State} {v : Nat} {sl : OutPoint}
    {c : Closing} {a r : List OutPoint} (j : JInv R X t) (hc : t.closing = some c)
    (hflag : ∀ i, position v c.htlcOutputs = some i → c.htlcSpents[i]? ≠ some true)
    (hfresh : ∀ e ∈ c.second, e.1 ≠ sl) (hR : (c.txid, v) ∉ R) (hX : sl.1 ∉ X)
    (h : applyForward t (.htlcSpent v sl) = some (t', a, r)) :
    Pre t (.htlcSpent v sl) ∧ JInv R X t' ∧
      ∃ i, position v c.htlcOutputs = some i ∧
        t'.closing = some { c with htlcSpents := c.htlcSpents.set i true,
                                   second := c.second ++ [(sl, false)] } := by
  simp only [applyForward, hc] at h
  obtain ⟨c1, hc1, hh⟩ := Option.map_eq_some_iff.mp h
  simp only [Prod.mk.injEq] at hh
  obtain ⟨rfl, _, _⟩ := hh
  simp only [Closing.setHtlcSpent] at hc1
  cases hp : position v c.htlcOutputs with
  | none => simp [hp] at hc1
  | some i =>
    simp only [hp] at hc1
    split at hc1
    · rename_i hlt
      simp only [Option.some.injEq] at hc1
      subst hc1
      have hfl : c.htlcSpents[i]? = some false := by
        have := hflag i hp
        rw [List.getElem?_eq_getElem hlt] at this ⊢
        cases hb : c.htlcSpents[i] with
        | false => rfl
        | true => rw [hb] at this; exact absurd rfl this
      refine ⟨⟨c, i, hc, hp, hfl, hfresh⟩, ⟨?_, ?_, ?_, ?_, j.hf, fun _ => rfl, j.hm⟩, i, rfl, rfl⟩
      · intro c' i' hc' ho'
        simp only [Closing.addSecond, Option.some.injEq] at hc'
        subst hc'
        exact j.our c i' hc ho'
      · intro c' v' i' hc' hp' hs
        simp only [Closing.addSecond, Option.some.injEq] at hc'
        subst hc'
        simp only at hp' hs
        by_cases hii : i = i'
        · subst hii
          have := position_inj hp hp'
          subst this
          exact hR
        · rw [List.getElem?_set_ne hii] at hs
          exact j.htlc c v' i' hc hp' hs
      · intro c' e hc' he hf
        simp only [Closing.addSecond, Option.some.injEq] at hc'
        subst hc'
        simp only [List.mem_append, List.mem_singleton] at he
        rcases he with he | he
        · exact j.sec c e hc he hf
        · subst he; cases hf
      · intro c' e hc' he
        simp only [Closing.addSecond, Option.some.injEq] at hc'
        subst hc'
        simp only [List.mem_append, List.mem_singleton] at he
        rcases he with he | he
        · exact j.fresh c e hc he
        · subst he; exact hX
    · cases hc1

theorem addChange_some {d d' : Scratch} {ch : Change} (h : d.addChange ch = some d') :
    ∃ a r, applyForward d.t ch = some (d'.t, a, r) ∧ d'.changes = d.changes ++ [ch] ∧
      d'.inputNum = d.inputNum ∧ d'.closingIn = d.closingIn ∧ d'.spentHtlc = d.spentHtlc := by
  obtain ⟨x, hx, rfl⟩ := Option.map_eq_some_iff.mp h
  obtain ⟨t', a, r⟩ := x
  exact ⟨a, r, hx, rfl, rfl, rfl, rfl⟩

theorem tx4_loop {t0 : State} {cs0 : List Change} {x : Nat} {XL : List Nat} {RL : List OutPoint}
    (hx : x ∉ XL) (pend : List (Nat × Nat)) {d d' : Scratch}
    (pt : PTr t0 cs0 d.t d.changes) (j : JInv RL XL d.t)
    (li1 : ∀ p ∈ pend, ∀ c i, d.t.closing = some c → position p.1 c.htlcOutputs = some i →
      c.htlcSpents[i]? ≠ some true)
    (li2 : ∀ p ∈ pend, ∀ c, d.t.closing = some c → ∀ e ∈ c.second, e.1 ≠ (x, p.2))
    (li3 : ∀ p ∈ pend, ∀ c, d.t.closing = some c → (c.txid, p.1) ∉ RL)
    (pn : (pend.map (·.1)).Nodup) (px : (pend.map (·.2)).Nodup)
    (h : addChanges d (pend.map fun p => Change.htlcSpent p.1 (x, p.2)) = some d') :
    PTr t0 cs0 d'.t d'.changes ∧ JInv RL XL d'.t := by
  induction pend generalizing d with
  | nil =>
    simp only [List.map_nil, addChanges, Option.some.injEq] at h
    subst h
    exact ⟨pt, j⟩
  | cons p pend ih =>
    obtain ⟨v, idx⟩ := p
    simp only [List.map_cons, addChanges] at h
    cases e1 : d.addChange (Change.htlcSpent v (x, idx)) with
    | none => simp [e1] at h
    | some d1 =>
      simp only [e1] at h
      obtain ⟨a, r, hap, _, _, _, _⟩ := addChange_some e1
      cases hc : d.t.closing with
      | none => simp [applyForward, hc] at hap
      | some c =>
        obtain ⟨hpre, j1, i, hpi, hc1⟩ := j.htlcSpent hc
          (fun i hp => li1 (v, idx) (by simp) c i hc hp)
          (li2 (v, idx) (by simp) c hc) (li3 (v, idx) (by simp) c hc) hx hap
        simp only [List.map_cons, List.nodup_cons] at pn px
        refine ih (PTr.addChange pt hpre e1) j1 ?_ ?_ ?_ pn.2 px.2 h
        · intro p' hp' c' i' hc' hpos
          rw [hc1] at hc'
          simp only [Option.some.injEq] at hc'
          subst hc'
          simp only at hpos ⊢
          have hne : i ≠ i' := by
            intro hii
            subst hii
            have this : v = p'.1 := position_inj hpi hpos
            exact pn.1 (by rw [this]; exact List.mem_map.mpr ⟨p', hp', rfl⟩)
          rw [List.getElem?_set_ne hne]
          exact li1 p' (by simp [hp']) c i' hc hpos
        · intro p' hp' c' hc' e he
          rw [hc1] at hc'
          simp only [Option.some.injEq] at hc'
          subst hc'
          simp only [List.mem_append, List.mem_singleton] at he
          rcases he with he | he
          · exact li2 p' (by simp [hp']) c hc e he
          · subst he
            intro heq
            have heq' : idx = p'.2 := by
              have := congrArg Prod.snd heq
              exact this
            exact px.1 (by rw [heq']; exact List.mem_map.mpr ⟨p', hp', rfl⟩)
        · intro p' hp' c' hc'
          rw [hc1] at hc'
          simp only [Option.some.injEq] at hc'
          subst hc'
          exact li3 p' (by simp [hp']) c hc

/-! ### the listener invariant while the inputs of a transaction are processed -/

theorem applyForward_mh {t t' : State} {ch : Change} {a r : List OutPoint}
    (hne : ∀ x fo, ch ≠ .mutual x fo) (h : applyForward t ch = some (t', a, r)) :
    t'.mutualHeight = t.mutualHeight := by
  cases ch <;> simp only [applyForward] at h
  case «mutual» x fo => exact absurd rfl (hne x fo)
  case fundingConfirmed | fundingInputSpent | unilateral =>
    simp only [Option.some.injEq, Prod.mk.injEq] at h
    obtain ⟨rfl, _, _⟩ := h
    rfl
  all_goals
    split at h
    · cases h
    · obtain ⟨c', _, hc'⟩ := Option.map_eq_some_iff.mp h
      simp only [Prod.mk.injEq] at hc'
      obtain ⟨rfl, _, _⟩ := hc'
      rfl

structure PIn (t0 : State) (cs0 : List Change) (t : State) (tx : Tx) (R : List OutPoint)
    (X : List Nat) (N : Nat) (d : Scratch) : Prop where
  pt : PTr t0 cs0 d.t d.changes
  j : JInv R X d.t
  core : d.t.core = t.core
  mh : d.t.mutualHeight = t.mutualHeight
  ne : t.closing = none → d.spentHtlc = []
  pd : ∀ p ∈ d.spentHtlc, ∀ c i, d.t.closing = some c → position p.1 c.htlcOutputs = some i →
    c.htlcSpents[i]? ≠ some true
  pe : ∀ p ∈ d.spentHtlc, ∀ c, d.t.closing = some c → (c.txid, p.1) ∈ tx.inputs ∧ (c.txid, p.1) ∉ R
  pn : (d.spentHtlc.map (·.1)).Nodup
  px : (d.spentHtlc.map (·.2)).Nodup ∧ ∀ p ∈ d.spentHtlc, p.2 < N

theorem PIn.frame {t0 : State} {cs0 : List Change} {t : State} {tx : Tx} {R R' : List OutPoint}
    {X : List Nat} {N N' : Nat} {d d' : Scratch} (q : PIn t0 cs0 t tx R X N d)
    (pt : PTr t0 cs0 d'.t d'.changes) (j : JInv R' X d'.t) (hR : ∀ x ∈ R', x ∈ R) (hN : N ≤ N')
    (hcore : d'.t.core = d.t.core) (hmh : d'.t.mutualHeight = d.t.mutualHeight)
    (hsh : d'.spentHtlc = d.spentHtlc)
    (hcl : ∀ c', d'.t.closing = some c' → ∃ c, d.t.closing = some c ∧ c'.txid = c.txid ∧
      c'.htlcOutputs = c.htlcOutputs ∧ c'.htlcSpents = c.htlcSpents) :
    PIn t0 cs0 t tx R' X N' d' := by
  refine ⟨pt, j, hcore.trans q.core, hmh.trans q.mh, fun h => hsh ▸ q.ne h, ?_, ?_, hsh ▸ q.pn,
    hsh ▸ q.px.1, ?_⟩
  · intro p hp c' i hc' hpos
    rw [hsh] at hp
    obtain ⟨c, hc, _, e2, e3⟩ := hcl c' hc'
    rw [e3]; rw [e2] at hpos
    exact q.pd p hp c i hc hpos
  · intro p hp c' hc'
    rw [hsh] at hp
    obtain ⟨c, hc, e1, _, _⟩ := hcl c' hc'
    rw [e1]
    exact ⟨(q.pe p hp c hc).1, fun h => (q.pe p hp c hc).2 (hR _ h)⟩
  · intro p hp
    rw [hsh] at hp
    exact Nat.lt_of_lt_of_le (q.px.2 p hp) hN

theorem PIn.congr {t0 : State} {cs0 : List Change} {t : State} {tx : Tx} {R : List OutPoint}
    {X : List Nat} {N : Nat} {d d' : Scratch} (q : PIn t0 cs0 t tx R X N d)
    (ht : d'.t = d.t) (hc : d'.changes = d.changes) (hs : d'.spentHtlc = d.spentHtlc) :
    PIn t0 cs0 t tx R X N d' := by
  refine q.frame (by rw [ht, hc]; exact q.pt) (by rw [ht]; exact q.j) (fun _ h => h)
    (Nat.le_refl _) (by rw [ht]) (by rw [ht]) hs ?_
  intro c' hc'
  rw [ht] at hc'
  exact ⟨c', hc', rfl, rfl, rfl⟩

theorem includesHtlc_txid {c : Closing} {inp : OutPoint} (h : c.includesHtlc inp = true) :
    c.txid = inp.1 := by
  simp only [Closing.includesHtlc, Bool.and_eq_true, beq_iff_eq] at h
  exact h.1

theorem PIn.onInput {t0 : State} {cs0 : List Change} {t : State} {tx : Tx} {R' : List OutPoint}
    {X : List Nat} {d d' : Scratch} {inp : OutPoint}
    (q : PIn t0 cs0 t tx (inp :: R') X d.inputNum d) (hn : inp ∉ R') (hm : inp ∈ tx.inputs)
    (h : onInput d inp = some d') : PIn t0 cs0 t tx R' X d'.inputNum d' := by
  rw [onInput_eq] at h
  obtain ⟨d1, e1, h⟩ := Option.bind_eq_some_iff.mp h
  obtain ⟨d3, e3, e4⟩ := Option.bind_eq_some_iff.mp h
  -- in1
  have q1 : PIn t0 cs0 t tx (inp :: R') X d.inputNum d1 ∧ d1.inputNum = d.inputNum := by
    simp only [in1] at e1
    split at e1
    · obtain ⟨a, r, hap, _, hin, _, hsh⟩ := addChange_some e1
      refine ⟨q.frame (PTr.addChange (ch := .fundingInputSpent inp) q.pt trivial e1) (q.j.fis hap) (fun _ h => h) (Nat.le_refl _)
        (addChange_simple_core (ch := .fundingInputSpent inp) trivial e1)
        (applyForward_mh (by intro x fo hh; cases hh) hap) hsh ?_, hin⟩
      intro c' hc'
      simp only [applyForward, Option.some.injEq, Prod.mk.injEq] at hap
      obtain ⟨ht', _, _⟩ := hap
      rw [← ht'] at hc'
      exact ⟨c', hc', rfl, rfl, rfl⟩
    · cases e1; exact ⟨q, rfl⟩
  obtain ⟨q1, n1⟩ := q1
  -- in2
  have q2 : PIn t0 cs0 t tx (inp :: R') X d.inputNum (in2 inp d1) :=
    q1.congr (by simp only [in2]; split <;> rfl) (by simp only [in2]; split <;> rfl)
      (by simp only [in2]; split <;> rfl)
  have n2 : (in2 inp d1).inputNum = d.inputNum := by
    rw [← n1]; simp only [in2]; split <;> rfl
  generalize in2 inp d1 = d2 at q2 n2 e3
  -- in3
  have mono : ∀ x ∈ R', x ∈ inp :: R' := fun x hx => by simp [hx]
  have q3 : PIn t0 cs0 t tx R' X (d.inputNum + 1) d3 ∧ d3.inputNum = d.inputNum := by
    have keep : PIn t0 cs0 t tx R' X (d.inputNum + 1) d2 :=
      q2.frame q2.pt (q2.j.mono mono (fun _ h => h)) mono (Nat.le_succ _) rfl rfl rfl
        (fun c' hc' => ⟨c', hc', rfl, rfl, rfl⟩)
    simp only [in3] at e3
    split at e3
    · rename_i c hc
      split at e3
      · rename_i hi
        obtain ⟨a, r, hap, _, hin, _, hsh⟩ := addChange_some e3
        obtain ⟨hpre, j', c', hc', f1, f2, f3⟩ := q2.j.ourSpent hn hc hi hap
        refine ⟨q2.frame (PTr.addChange q2.pt hpre e3) j' mono (Nat.le_succ _)
          (addChange_simple_core (ch := .ourSpent inp.2) trivial e3)
          (applyForward_mh (by intro x fo hh; cases hh) hap) hsh ?_, hin.trans n2⟩
        intro c'' hc''
        rw [hc'] at hc''; cases hc''
        exact ⟨c, hc, f1, f2, f3⟩
      · split at e3
        · rename_i hi
          cases e3
          refine ⟨?_, n2⟩
          have htx := includesHtlc_txid hi
          have hinp : (c.txid, inp.2) = inp := by rw [htx]
          refine ⟨q2.pt, q2.j.mono mono (fun _ h => h), q2.core, q2.mh, ?_, ?_, ?_, ?_, ?_, ?_⟩
          · intro hnone
            exfalso
            rcases closing_core_cases q2.core with ⟨e, _⟩ | ⟨_, _, _, e', _⟩
            · rw [hc] at e; cases e
            · rw [hnone] at e'; cases e'
          · intro p hp c' i hc' hpos
            simp only at hc'
            rw [hc] at hc'; cases hc'
            simp only [List.mem_append, List.mem_singleton] at hp
            rcases hp with hp | hp
            · exact q2.pd p hp c i hc hpos
            · subst hp
              intro hs
              have := q2.j.htlc c inp.2 i hc hpos hs
              rw [hinp] at this
              exact this (by simp)
          · intro p hp c' hc'
            simp only at hc'
            rw [hc] at hc'; cases hc'
            simp only [List.mem_append, List.mem_singleton] at hp
            rcases hp with hp | hp
            · exact ⟨(q2.pe p hp c hc).1, fun h => (q2.pe p hp c hc).2 (mono _ h)⟩
            · subst hp
              simp only
              rw [hinp]
              exact ⟨hm, hn⟩
          · simp only [List.map_append, List.map_cons, List.map_nil]
            rw [List.nodup_append]
            refine ⟨q2.pn, by simp, ?_⟩
            intro a ha b hb
            simp only [List.mem_singleton] at hb
            subst hb
            obtain ⟨p, hp, rfl⟩ := List.mem_map.mp ha
            intro heq
            have := (q2.pe p hp c hc).2
            rw [heq, hinp] at this
            exact this (by simp)
          · simp only [List.map_append, List.map_cons, List.map_nil]
            rw [List.nodup_append]
            refine ⟨q2.px.1, by simp, ?_⟩
            intro a ha b hb
            simp only [List.mem_singleton] at hb
            subst hb
            obtain ⟨p, hp, rfl⟩ := List.mem_map.mp ha
            have := q2.px.2 p hp
            rw [n2]
            exact Nat.ne_of_lt this
          · intro p hp
            simp only [List.mem_append, List.mem_singleton] at hp
            rcases hp with hp | hp
            · exact Nat.lt_succ_of_lt (q2.px.2 p hp)
            · subst hp
              simp only
              rw [n2]; exact Nat.lt_succ_self _
        · split at e3
          · rename_i hi
            obtain ⟨a, r, hap, _, hin, _, hsh⟩ := addChange_some e3
            obtain ⟨hpre, j', c', hc', f1, f2, f3⟩ := q2.j.secondSpent hn hc hi hap
            refine ⟨q2.frame (PTr.addChange q2.pt hpre e3) j' mono (Nat.le_succ _)
              (addChange_simple_core (ch := .secondSpent inp) trivial e3)
              (applyForward_mh (by intro x fo hh; cases hh) hap) hsh ?_, hin.trans n2⟩
            intro c'' hc''
            rw [hc'] at hc''; cases hc''
            exact ⟨c, hc, f1, f2, f3⟩
          · cases e3; exact ⟨keep, n2⟩
    · cases e3; exact ⟨keep, n2⟩
  obtain ⟨q3, n3⟩ := q3
  -- in4
  simp only [in4] at e4
  split at e4
  · cases e4
  · cases e4
    simp only
    rw [n3]
    exact q3.congr rfl rfl rfl

theorem PIn.onInputs {t0 : State} {cs0 : List Change} {t : State} {tx : Tx} {RL : List OutPoint}
    {X : List Nat} {is : List OutPoint} {d d' : Scratch}
    (q : PIn t0 cs0 t tx (is ++ RL) X d.inputNum d) (nd : (is ++ RL).Nodup)
    (hm : ∀ inp ∈ is, inp ∈ tx.inputs)
    (h : onInputs d is = some d') : PIn t0 cs0 t tx RL X d'.inputNum d' := by
  induction is generalizing d with
  | nil => simp only [Monitor.onInputs, Option.some.injEq] at h; subst h; exact q
  | cons i is ih =>
    simp only [Monitor.onInputs] at h
    cases e1 : Monitor.onInput d i with
    | none => simp [e1] at h
    | some d1 =>
      simp only [e1] at h
      simp only [List.cons_append, List.nodup_cons] at nd
      exact ih (q.onInput nd.1 (hm i (by simp)) e1) nd.2 (fun inp h' => hm inp (by simp [h'])) h

/-! ### one transaction, the whole block -/

theorem pre_onTx {t0 : State} {cs0 : List Change} {t t' : State} {cs cs' : List Change} {tx : Tx}
    {rest : List Tx} {RL : List OutPoint} {XL : List Nat}
    (ok : Ok t (tx :: rest)) (j : JInv (tx.inputs ++ RL) (tx.txid :: XL) t)
    (nd : (tx.inputs ++ RL).Nodup) (hx : tx.txid ∉ XL)
    (pt : PTr t0 cs0 t cs) (h : onTx t cs tx = some (t', cs')) :
    PTr t0 cs0 t' cs' ∧ JInv RL XL t' := by
  rw [onTx_eq] at h
  obtain ⟨dE, hE, hh⟩ := Option.map_eq_some_iff.mp h
  simp only [Prod.mk.injEq] at hh
  obtain ⟨rfl, rfl⟩ := hh
  obtain ⟨d, hd, hE⟩ := Option.bind_eq_some_iff.mp hE
  have q0 : PIn t0 cs0 t tx (tx.inputs ++ RL) (tx.txid :: XL)
      ({ t := t, changes := cs, inputNum := 0, closingIn := none, spentHtlc := [] } : Scratch).inputNum
      { t := t, changes := cs, inputNum := 0, closingIn := none, spentHtlc := [] } :=
    ⟨pt, j, rfl, rfl, fun _ => rfl, fun p hp => (by cases hp), fun p hp => (by cases hp),
      List.nodup_nil, ⟨List.nodup_nil, fun p hp => (by cases hp)⟩⟩
  have qd := q0.onInputs nd (fun _ h => h) hd
  have ti0 : TI t cs tx { t := t, changes := cs, inputNum := 0, closingIn := none, spentHtlc := [] } :=
    ⟨⟨[], [], [], by simp, rfl, by simp⟩, by simp⟩
  obtain ⟨ti, _⟩ := ti0.onInputs rfl (fun _ h => h) hd
  have mX : ∀ y ∈ XL, y ∈ tx.txid :: XL := fun y hy => by simp [hy]
  unfold txEnd at hE
  obtain ⟨d1, e1, hE⟩ := Option.bind_eq_some_iff.mp hE
  obtain ⟨d2, e2, hE⟩ := Option.bind_eq_some_iff.mp hE
  obtain ⟨d3, e3, e4⟩ := Option.bind_eq_some_iff.mp hE
  have x1 : d1 = d := by
    simp only [tx1] at e1
    split at e1
    · cases e1
    · cases e1; rfl
  subst x1
  have hcore := qd.core
  have hft : d1.t.fundingTxids = t.fundingTxids := by
    have := hcore
    simp only [State.core, Prod.mk.injEq] at this
    exact this.2.1
  have hfo : d1.t.fundingOutpoint = t.fundingOutpoint := by
    have := hcore
    simp only [State.core, Prod.mk.injEq] at this
    exact this.2.2.2.1
  -- tx2
  have a2 : PTr t0 cs0 d2.t d2.changes ∧ JInv RL (tx.txid :: XL) d2.t ∧
      d2.t.closing = d1.t.closing ∧ d2.t.mutualHeight = t.mutualHeight ∧
      d2.spentHtlc = d1.spentHtlc ∧ d2.closingIn = d1.closingIn ∧
      (t.fundingOutpoint.isSome → d2.t.fundingOutpoint = t.fundingOutpoint) := by
    simp only [tx2] at e2
    split at e2
    · rename_i ind hp
      split at e2
      · cases e2
      · split at e2
        · have hnone : t.fundingOutpoint = none := by
            cases hfo' : t.fundingOutpoint with
            | none => rfl
            | some o =>
              exact absurd (hft ▸ position_some_mem hp) (ok.c1 (by simp [hfo']) tx (by simp))
          obtain ⟨a, r, hap, _, _, hci, hsh⟩ := addChange_some e2
          obtain ⟨hpre, j', hcl', hmh'⟩ := qd.j.fundingConfirmed (hfo.trans hnone) hap
          exact ⟨PTr.addChange qd.pt hpre e2, j', hcl', hmh'.trans qd.mh, hsh, hci,
            fun h => by rw [hnone] at h; cases h⟩
        · cases e2
    · cases e2
      exact ⟨qd.pt, qd.j, rfl, qd.mh, rfl, rfl, fun _ => hfo⟩
  obtain ⟨pt2, j2, cl2, mh2, sh2, ci2, fo2⟩ := a2
  -- tx3
  simp only [tx3] at e3
  split at e3
  · rename_i fo hci
    obtain ⟨inp0, hm0, h0⟩ := ti.cin (by rw [← ci2, hci]; rfl)
    have htcl : t.closing = none := by
      cases hh : t.closing with
      | none => rfl
      | some c => exact absurd h0 (ok.c2 (by simp [hh]) tx (by simp) inp0 hm0)
    have hd1cl : d1.t.closing = none := by
      rcases closing_core_cases hcore with ⟨e, _⟩ | ⟨_, _, _, e', _⟩
      · exact e
      · rw [htcl] at e'; cases e'
    have hsh0 : d2.spentHtlc = [] := sh2.trans (qd.ne htcl)
    split at e3
    · obtain ⟨a, r, hap, _, _, _, hsh⟩ := addChange_some e3
      obtain ⟨hpre, j3⟩ := j2.unilateral (cl2.trans hd1cl) hap
      have : d3.spentHtlc = [] := hsh.trans hsh0
      simp only [tx4, this, List.map_nil, addChanges, Option.some.injEq] at e4
      subst e4
      exact ⟨PTr.addChange pt2 hpre e3, j3.mono (fun _ h => h) mX⟩
    · obtain ⟨a, r, hap, _, _, _, hsh⟩ := addChange_some e3
      have hmh : t.mutualHeight = none := by
        cases hh : t.mutualHeight with
        | none => rfl
        | some y =>
          exact absurd h0 ((j.hm (by simp [hh])).2 inp0 (by simp [hm0]))
      have hsome : t.fundingOutpoint.isSome := by rw [← h0]; rfl
      have h0' : some inp0 = d2.t.fundingOutpoint := by rw [fo2 hsome]; exact h0
      have hn0 : inp0 ∉ RL := fun hmem => (List.nodup_append.mp nd).2.2 inp0 hm0 inp0 hmem rfl
      obtain ⟨hpre, j3⟩ := JInv.mutual (R := RL) j2 (mh2.trans hmh) h0' (fun _ h => h) hn0 hap
      have : d3.spentHtlc = [] := hsh.trans hsh0
      simp only [tx4, this, List.map_nil, addChanges, Option.some.injEq] at e4
      subst e4
      exact ⟨PTr.addChange pt2 hpre e3, j3.mono (fun _ h => h) mX⟩
  · cases e3
    have fe : (fun (p : Nat × Nat) => match p with
        | (v, idx) => Change.htlcSpent v (tx.txid, idx)) =
        fun p => Change.htlcSpent p.1 (tx.txid, p.2) := by
      funext p; obtain ⟨v, idx⟩ := p; rfl
    unfold tx4 at e4
    rw [fe] at e4
    refine tx4_loop hx d2.spentHtlc pt2 (j2.mono (fun _ h => h) mX) ?_ ?_ ?_
      (sh2 ▸ qd.pn) (sh2 ▸ qd.px.1) e4
    · intro p hp c i hc hpos
      rw [sh2] at hp; rw [cl2] at hc
      exact qd.pd p hp c i hc hpos
    · intro p hp c hc e he heq
      have := j2.fresh c e hc he
      rw [heq] at this
      exact this (by simp)
    · intro p hp c hc
      rw [sh2] at hp; rw [cl2] at hc
      exact (qd.pe p hp c hc).2

theorem pre_run {t0 : State} {cs0 : List Change} {txs : List Tx} {t n : State}
    {cs csn : List Change} (ok : Ok t txs)
    (j : JInv (txs.flatMap (·.inputs)) (txs.map (·.txid)) t)
    (nd : (txs.flatMap (·.inputs)).Nodup) (nx : (txs.map (·.txid)).Nodup)
    (pt : PTr t0 cs0 t cs) (h : detectFrom t cs txs = some (n, csn)) : PTr t0 cs0 n csn := by
  induction txs generalizing t cs with
  | nil =>
    simp only [Monitor.detectFrom, Option.some.injEq, Prod.mk.injEq] at h
    obtain ⟨rfl, rfl⟩ := h
    exact pt
  | cons tx rest ih =>
    simp only [Monitor.detectFrom] at h
    cases e : Monitor.onTx t cs tx with
    | none => simp [e] at h
    | some x =>
      obtain ⟨t', cs'⟩ := x
      simp only [e] at h
      simp only [List.flatMap_cons, List.map_cons] at j nd nx
      obtain ⟨pt', j'⟩ := pre_onTx ok j nd (List.nodup_cons.mp nx).1 pt e
      exact ih (ok.step (onTx_eff e)) j' (List.nodup_append.mp nd).2.1 (List.nodup_cons.mp nx).2 pt' h

/-- **applicability of the detected changes** from the structural invariant on the pre-state -/
theorem preAll_of_ok {s : State} {txs : List Tx} {cs : List Change}
    (ok : Ok { s with sawBlock := true } txs)
    (j : JInv (txs.flatMap (·.inputs)) (txs.map (·.txid)) { s with sawBlock := true })
    (nd : (txs.flatMap (·.inputs)).Nodup) (nx : (txs.map (·.txid)).Nodup)
    (hdet : detect { s with sawBlock := true } txs = some cs) :
    PreAll { s with sawBlock := true, height := s.height + 1 } cs := by
  obtain ⟨x, hx, hx2⟩ := Option.map_eq_some_iff.mp hdet
  obtain ⟨n, csn⟩ := x
  simp only at hx2
  subst hx2
  obtain ⟨new, a, r, e, _, hp⟩ := pre_run ok j nd nx (PTr.refl _ []) hx
  simp only [List.nil_append] at e
  subst e
  exact PreAll_nz (a := { s with sawBlock := true })
    (b := { s with sawBlock := true, height := s.height + 1 }) rfl hp

end VlsModel.Monitor
