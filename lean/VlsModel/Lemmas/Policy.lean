import VlsModel.Model.Policy
/-
Helper lemmas about the policy model: inversion of the `Except` binds, of `check`/`hard`, the
arithmetic of `estimate_feerate_per_kw`, and the HTLC loops.
-/
namespace VlsModel.Policy
open VlsModel
open VlsModel.Gen.Policy (Action Rule CType RawPolicy)

theorem bind_ok {α β : Type} {x : Except Kind α} {g : α → Except Kind β} {b : β}
    (h : (x >>= g) = .ok b) : ∃ a, x = .ok a ∧ g a = .ok b := by
  cases x with
  | error k => simp [bind, Except.bind] at h
  | ok a => exact ⟨a, rfl, by simpa [bind, Except.bind] using h⟩

theorem policyErr_ok {p : Policy} {t : Tag} (h : policyErr p t = .ok ()) (he : errs p t = true) : False := by
  simp [policyErr, he] at h

theorem check_ok {p : Policy} {t : Tag} {bad : Bool} (h : check p t bad = .ok ()) (he : errs p t = true) :
    bad = false := by
  cases bad with
  | false => rfl
  | true => simp [check, policyErr, he] at h

theorem hard_ok {k : Kind} {bad : Bool} (h : hard k bad = .ok ()) : bad = false := by
  cases bad with
  | false => rfl
  | true => simp [hard] at h

theorem whenE_true {x : Except Kind Unit} : whenE true x = x := rfl
theorem whenE_false {x : Except Kind Unit} : whenE false x = .ok () := rfl

theorem whenE_ok {b : Bool} {x : Except Kind Unit} (h : whenE b x = .ok ()) (hb : b = true) : x = .ok () := by
  subst hb; exact h

theorem addU32_ok {a b r : Nat} (h : addU32 a b = .ok r) : r = a + b ∧ a + b ≤ U32.MAX := by
  unfold addU32 at h
  split at h
  · simp at h; omega
  · simp at h

theorem addU64_ok {a b r : Nat} (h : addU64 a b = .ok r) : r = a + b ∧ a + b ≤ U64.MAX := by
  unfold addU64 at h
  split at h
  · simp at h; omega
  · simp at h

/-- An expiry the policy allows (unbounded arithmetic). -/
def ExpiryOK (p : Policy) (c : ChainState) (e : Nat) : Prop :=
  e < Gen.Policy.maxCltvExpiry ∧ (p.useChainState = true → c.height + p.minDelay ≤ e ∧ e ≤ c.height + p.maxDelay)

theorem validateExpiry_ok {p : Policy} {c : ChainState} {e : Nat}
    (h : validateExpiry p c e = .ok ()) (he : errs p .htlcCltvRange = true) : ExpiryOK p c e := by
  unfold validateExpiry at h
  obtain ⟨_, h1, h⟩ := bind_ok h
  have h1 := check_ok h1 he
  refine ⟨by simpa using h1, ?_⟩
  intro hu
  simp only [hu, if_true] at h
  obtain ⟨lo, hlo, h⟩ := bind_ok h
  obtain ⟨_, h2, h⟩ := bind_ok h
  obtain ⟨hi, hhi, h⟩ := bind_ok h
  have h2 := check_ok h2 he
  have h3 := check_ok h he
  obtain ⟨rfl, _⟩ := addU32_ok hlo
  obtain ⟨rfl, _⟩ := addU32_ok hhi
  simp at h2 h3
  omega

/-- the loop: result is the running sum; with the relevant tags kept as errors every HTLC is above the
    trim limit and has an allowed expiry -/
theorem checkHtlcs_ok {p : Policy} {c : ChainState} {limit : Nat} :
    ∀ (l : List Htlc) (acc acc' : Nat), checkHtlcs p c limit l acc = .ok acc' →
      acc' = acc + sumValues l ∧ acc' ≤ max acc U64.MAX ∧
      (errs p .outputsTrimmed = true → ∀ h ∈ l, limit ≤ h.value) ∧
      (errs p .htlcCltvRange = true → ∀ h ∈ l, ExpiryOK p c h.expiry) := by
  intro l
  induction l with
  | nil =>
    intro acc acc' h
    simp [checkHtlcs] at h
    subst h
    simp [sumValues]
    omega
  | cons x xs ih =>
    intro acc acc' h
    unfold checkHtlcs at h
    obtain ⟨_, h1, h⟩ := bind_ok h
    obtain ⟨_, h2, h⟩ := bind_ok h
    obtain ⟨_, h3, h⟩ := bind_ok h
    obtain ⟨hs, hm, hd, he⟩ := ih _ _ h
    have h2 := hard_ok h2
    simp at h2
    refine ⟨?_, ?_, ?_, ?_⟩
    · simp [sumValues] at hs ⊢; omega
    · omega
    · intro hte y hy
      rcases List.mem_cons.mp hy with rfl | hy
      · have := check_ok h3 hte; simpa using this
      · exact hd hte y hy
    · intro hte y hy
      rcases List.mem_cons.mp hy with rfl | hy
      · exact validateExpiry_ok h1 hte
      · exact he hte y hy

/-- the saturating numerator of `estimate_feerate_per_kw` -/
def satNum (fee : Nat) : Nat := U64.satAdd (U64.satMul fee 1000) 999

theorem satNum_exact {fee : Nat} (h : fee * 1000 + 999 ≤ U64.MAX) : satNum fee = fee * 1000 + 999 := by
  unfold satNum U64.satAdd U64.satMul
  simp only [Nat.min_def]
  repeat' split
  all_goals omega

theorem satNum_sat {fee : Nat} (h : ¬ fee * 1000 + 999 ≤ U64.MAX) : satNum fee = U64.MAX := by
  unfold satNum U64.satAdd U64.satMul
  simp only [Nat.min_def]
  repeat' split
  all_goals omega

theorem satNum_le (fee : Nat) : satNum fee ≤ fee * 1000 + 999 := by
  by_cases h : fee * 1000 + 999 ≤ U64.MAX
  · rw [satNum_exact h]; exact Nat.le_refl _
  · rw [satNum_sat h]; omega

theorem estimateFeerate_eq (fee w : Nat) : estimateFeerate fee w = min (satNum fee / w) U32.MAX := rfl

/-- `estimate_feerate_per_kw` against an upper bound below the clamp: no saturation happened and the
    exact (unbounded) inequality holds. -/
theorem estimateFeerate_le {fee w maxF : Nat} (hw0 : 0 < w) (hw : w ≤ 268435456) (hmax : maxF < U32.MAX)
    (h : estimateFeerate fee w ≤ maxF) : fee * 1000 + 999 < (maxF + 1) * w := by
  rw [estimateFeerate_eq] at h
  have h2 : satNum fee / w ≤ maxF := by
    simp only [Nat.min_def] at h; split at h <;> omega
  by_cases hs : fee * 1000 + 999 ≤ U64.MAX
  · rw [satNum_exact hs] at h2
    have : (fee * 1000 + 999) / w < maxF + 1 := by omega
    exact (Nat.div_lt_iff_lt_mul hw0).mp this
  · exfalso
    rw [satNum_sat hs] at h2
    have hq : 68719476735 ≤ U64.MAX / w := by
      apply (Nat.le_div_iff_mul_le hw0).mpr
      calc 68719476735 * w ≤ 68719476735 * 268435456 := Nat.mul_le_mul_left _ hw
        _ ≤ U64.MAX := by decide
    simp only [U32.MAX] at hmax
    omega

/-- lower bound: the estimate is at least `minF` only if the exact inequality holds -/
theorem estimateFeerate_ge {fee w minF : Nat} (hw0 : 0 < w) (h : minF ≤ estimateFeerate fee w) :
    minF * w ≤ fee * 1000 + 999 := by
  rw [estimateFeerate_eq] at h
  have h2 : minF ≤ satNum fee / w := by
    simp only [Nat.min_def] at h; split at h <;> omega
  have h3 := (Nat.le_div_iff_mul_le hw0).mp h2
  have := satNum_le fee
  omega

/-- the fee-range conjunct of the reference predicates -/
def FeeInRange (p : Policy) (sumIn sumOut w : Nat) : Prop :=
  sumOut ≤ sumIn ∧ p.minFeerate * w ≤ (sumIn - sumOut) * 1000 + 999 ∧
    (sumIn - sumOut) * 1000 + 999 < (p.maxFeerate + 1) * w

theorem validateFee_ok {p : Policy} {t : Tag} {sumIn sumOut w : Nat}
    (h : validateFee p t sumIn sumOut w = .ok ()) (he : errs p t = true)
    (hw0 : 0 < w) (hw : w ≤ 268435456) (hmax : p.maxFeerate < U32.MAX) : FeeInRange p sumIn sumOut w := by
  unfold validateFee at h
  obtain ⟨_, h1, h⟩ := bind_ok h
  obtain ⟨_, h2, h3⟩ := bind_ok h
  have h1 := hard_ok h1
  have h2 := check_ok h2 he
  have h3 := check_ok h3 he
  simp at h1 h2 h3
  exact ⟨h1, estimateFeerate_ge hw0 h2, estimateFeerate_le hw0 hw hmax h3⟩

theorem commitmentWeight_pos (a : Bool) (k : Nat) : 0 < commitmentWeight a k := by
  unfold commitmentWeight
  cases a <;> simp [Gen.Policy.commitmentBaseAnchorWeight, Gen.Policy.commitmentBaseWeight] <;> omega

theorem commitmentWeight_le (a : Bool) (k : Nat) (hk : k ≤ 1048576) : commitmentWeight a k ≤ 268435456 := by
  unfold commitmentWeight
  cases a <;> simp [Gen.Policy.commitmentBaseAnchorWeight, Gen.Policy.commitmentBaseWeight,
    Gen.Policy.commitmentWeightPerHtlc] <;> omega

/-- the verdict of either validator on a commitment passes through the common checks -/
theorem validateCommitment_tx (p : Policy) (s : Setup) (c : ChainState) (e : EState) (n : Nat) (i : Info)
    (point : Nat) (h : validateCommitment p s c e n i point = .ok ()) : validateCommitmentTx p s c n i = .ok () := by
  unfold validateCommitment at h
  split at h
  · unfold validateCounterparty at h
    obtain ⟨_, _, h⟩ := bind_ok h
    obtain ⟨⟨⟩, h1, _⟩ := bind_ok h
    exact h1
  · unfold validateHolder at h
    obtain ⟨_, _, h⟩ := bind_ok h
    obtain ⟨⟨⟩, h1, _⟩ := bind_ok h
    exact h1

end VlsModel.Policy
