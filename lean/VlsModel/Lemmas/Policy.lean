import VlsModel.Model.Policy
/-
Helper lemmas about the policy model: inversion of the `Except` binds, of `check`/`hard`, the
arithmetic of `estimate_feerate_per_kw`, and the HTLC loops.
-/
namespace VlsModel.Policy
open VlsModel
open VlsModel.Gen.Policy (Action Rule CType RawPolicy)

theorem bind_ok {α β : Type} {x : Except Kind α} {g : α → Except Kind β} {b : β}
    (h : (x >>= g) = .ok b) : ∃ a, x = .ok a ∧ g a = .ok b := by
  cases x with
  | error k => simp [bind, Except.bind] at h
  | ok a => exact ⟨a, rfl, by simpa [bind, Except.bind] using h⟩

theorem policyErr_ok {p : Policy} {t : Tag} (h : policyErr p t = .ok ()) (he : errs p t = true) : False := by
  simp [policyErr, he] at h

theorem check_ok {p : Policy} {t : Tag} {bad : Bool} (h : check p t bad = .ok ()) (he : errs p t = true) :
    bad = false := by
  cases bad with
  | false => rfl
  | true => simp [check, policyErr, he] at h

theorem hard_ok {k : Kind} {bad : Bool} (h : hard k bad = .ok ()) : bad = false := by
  cases bad with
  | false => rfl
  | true => simp [hard] at h

theorem whenE_true {x : Except Kind Unit} : whenE true x = x := rfl
theorem whenE_false {x : Except Kind Unit} : whenE false x = .ok () := rfl

theorem whenE_ok {b : Bool} {x : Except Kind Unit} (h : whenE b x = .ok ()) (hb : b = true) : x = .ok () := by
  subst hb; exact h

theorem addU32_ok {a b r : Nat} (h : addU32 a b = .ok r) : r = a + b ∧ a + b ≤ U32.MAX := by
  unfold addU32 at h
  split at h
  · simp at h; omega
  · simp at h

theorem addU64_ok {a b r : Nat} (h : addU64 a b = .ok r) : r = a + b ∧ a + b ≤ U64.MAX := by
  unfold addU64 at h
  split at h
  · simp at h; omega
  · simp at h

/-- An expiry the policy allows (unbounded arithmetic). -/
def ExpiryOK (p : Policy) (c : ChainState) (e : Nat) : Prop :=
  e < Gen.Policy.maxCltvExpiry ∧ (p.useChainState = true → c.height + p.minDelay ≤ e ∧ e ≤ c.height + p.maxDelay)

theorem validateExpiry_ok {p : Policy} {c : ChainState} {e : Nat}
    (h : validateExpiry p c e = .ok ()) (he : errs p .htlcCltvRange = true) : ExpiryOK p c e := by
  unfold validateExpiry at h
  obtain ⟨_, h1, h⟩ := bind_ok h
  have h1 := check_ok h1 he
  refine ⟨by simpa using h1, ?_⟩
  intro hu
  simp only [hu, if_true] at h
  obtain ⟨lo, hlo, h⟩ := bind_ok h
  obtain ⟨_, h2, h⟩ := bind_ok h
  obtain ⟨hi, hhi, h⟩ := bind_ok h
  have h2 := check_ok h2 he
  have h3 := check_ok h he
  obtain ⟨rfl, _⟩ := addU32_ok hlo
  obtain ⟨rfl, _⟩ := addU32_ok hhi
  simp at h2 h3
  omega

/-- the loop: result is the running sum; with the relevant tags kept as errors every HTLC is above the
    trim limit and has an allowed expiry -/
theorem checkHtlcs_ok {p : Policy} {c : ChainState} {limit : Nat} :
    ∀ (l : List Htlc) (acc acc' : Nat), checkHtlcs p c limit l acc = .ok acc' →
      acc' = acc + sumValues l ∧ acc' ≤ max acc U64.MAX ∧
      (errs p .outputsTrimmed = true → ∀ h ∈ l, limit ≤ h.value) ∧
      (errs p .htlcCltvRange = true → ∀ h ∈ l, ExpiryOK p c h.expiry) := by
  intro l
  induction l with
  | nil =>
    intro acc acc' h
    simp [checkHtlcs] at h
    subst h
    simp [sumValues]
    omega
  | cons x xs ih =>
    intro acc acc' h
    unfold checkHtlcs at h
    obtain ⟨_, h1, h⟩ := bind_ok h
    obtain ⟨_, h2, h⟩ := bind_ok h
    obtain ⟨_, h3, h⟩ := bind_ok h
    obtain ⟨hs, hm, hd, he⟩ := ih _ _ h
    have h2 := hard_ok h2
    simp at h2
    refine ⟨?_, ?_, ?_, ?_⟩
    · simp [sumValues] at hs ⊢; omega
    · omega
    · intro hte y hy
      rcases List.mem_cons.mp hy with rfl | hy
      · have := check_ok h3 hte; simpa using this
      · exact hd hte y hy
    · intro hte y hy
      rcases List.mem_cons.mp hy with rfl | hy
      · exact validateExpiry_ok h1 hte
      · exact he hte y hy

/-- `validate_fee`'s exact rate against an upper bound: the exact (unbounded) inequality -/
theorem exactFeerate_le {fee w maxF : Nat} (hw0 : 0 < w) (h : exactFeerate fee w ≤ maxF) :
    fee * 1000 + 999 < (maxF + 1) * w := by
  unfold exactFeerate at h
  have : (fee * 1000 + 999) / w < maxF + 1 := by omega
  exact (Nat.div_lt_iff_lt_mul hw0).mp this

/-- lower bound -/
theorem exactFeerate_ge {fee w minF : Nat} (hw0 : 0 < w) (h : minF ≤ exactFeerate fee w) :
    minF * w ≤ fee * 1000 + 999 := by
  unfold exactFeerate at h
  exact (Nat.le_div_iff_mul_le hw0).mp h

/-- the fee-range conjunct of the reference predicates -/
def FeeInRange (p : Policy) (sumIn sumOut w : Nat) : Prop :=
  sumOut ≤ sumIn ∧ p.minFeerate * w ≤ (sumIn - sumOut) * 1000 + 999 ∧
    (sumIn - sumOut) * 1000 + 999 < (p.maxFeerate + 1) * w

theorem validateFee_ok {p : Policy} {t : Tag} {sumIn sumOut w : Nat}
    (h : validateFee p t sumIn sumOut w = .ok ()) (he : errs p t = true)
    (hw0 : 0 < w) : FeeInRange p sumIn sumOut w := by
  unfold validateFee at h
  obtain ⟨_, h1, h⟩ := bind_ok h
  obtain ⟨_, h2, h3⟩ := bind_ok h
  have h1 := hard_ok h1
  have h2 := check_ok h2 he
  have h3 := check_ok h3 he
  simp at h1 h2 h3
  exact ⟨h1, exactFeerate_ge hw0 h2, exactFeerate_le hw0 h3⟩

theorem commitmentWeight_pos (a : Bool) (k : Nat) : 0 < commitmentWeight a k := by
  unfold commitmentWeight
  cases a <;> simp [Gen.Policy.commitmentBaseAnchorWeight, Gen.Policy.commitmentBaseWeight] <;> omega

/-- the verdict of either validator on a commitment passes through the common checks -/
theorem validateCommitment_tx (p : Policy) (s : Setup) (c : ChainState) (e : EState) (n : Nat) (i : Info)
    (point : Nat) (h : validateCommitment p s c e n i point = .ok ()) : validateCommitmentTx p s c n i = .ok () := by
  unfold validateCommitment at h
  split at h
  · unfold validateCounterparty at h
    obtain ⟨_, _, h⟩ := bind_ok h
    obtain ⟨⟨⟩, h1, _⟩ := bind_ok h
    exact h1
  · unfold validateHolder at h
    obtain ⟨_, _, h⟩ := bind_ok h
    obtain ⟨⟨⟩, h1, _⟩ := bind_ok h
    exact h1

end VlsModel.Policy
