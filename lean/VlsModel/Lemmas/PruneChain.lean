import VlsModel.Lemmas.Prune
import VlsModel.Props.C14
/-
Helper lemmas for `C15_prune_best_chain` (composition of C15 with C14).

* `setF b` / `eraseForget`: the monitor never reads or writes the forget flag:
  `addBlock`/`removeBlock` (detection, forward/backward application, swept-height bookkeeping)
  commute with setting `sawForget` (`addBlock_setF`, `removeBlock_setF`), hence so do C14's `step`,
  `run` and `replay` (`run_setF`, `replay_setF`).
* `proj`: projection of a node history onto the block history of one monitor; `WellStacked`,
  `NoPanic`, `NoRekey`: the side conditions under which the projection is faithful.
* `proj_run`: the monitor state of listener `k` after a node history, forget flag erased, is the C14
  `run` of the projected history (restarts included, through `Inv`).
-/
namespace VlsModel.Monitor

/-- set the forget flag -/
def setF (b : Bool) (s : State) : State := { s with sawForget := b }

/-- the monitor state with the forget flag ignored -/
def eraseForget (s : State) : State := setF false s

def liftF (b : Bool) (d : Delta) : Delta := (setF b d.1, d.2.1, d.2.2)

theorem setF_setF (b b' : Bool) (s : State) : setF b (setF b' s) = setF b s := rfl

theorem eraseForget_setF (b : Bool) (s : State) : eraseForget (setF b s) = eraseForget s := rfl

theorem setF_self (s : State) : setF s.sawForget s = s := rfl

theorem setF_core (b : Bool) (s : State) : (setF b s).core = s.core := rfl

/-- nothing the pruning condition reads besides the flag itself depends on the flag -/
theorem depthOf_setF (b : Bool) (s : State) (h : Option Nat) : (setF b s).depthOf h = s.depthOf h :=
  rfl

theorem applyForward_setF (b : Bool) (s : State) (c : Change) :
    applyForward (setF b s) c = (applyForward s c).map (liftF b) := by
  cases c <;> simp only [applyForward, setF, liftF, Option.map_some] <;>
    (cases s.closing <;> simp only [Option.map_map, Option.map_none] <;> rfl)

theorem applyBackward_setF (b : Bool) (s : State) (c : Change) :
    applyBackward (setF b s) c = (applyBackward s c).map (liftF b) := by
  cases c with
  | fundingConfirmed op =>
    simp only [applyBackward]
    by_cases h : s.fundingHeight = some s.height
    · rw [if_pos h, if_pos (show (setF b s).fundingHeight = some (setF b s).height from h)]; rfl
    · rw [if_neg h, if_neg (show ¬ (setF b s).fundingHeight = some (setF b s).height from h)]
      have e : (setF b s).fundingHeight = s.fundingHeight := rfl
      rw [e]
      split <;> rfl
  | unilateral txid fo our htlcs =>
    simp only [applyBackward]
    by_cases h : s.uniHeight = some s.height
    · rw [if_pos h, if_pos (show (setF b s).uniHeight = some (setF b s).height from h)]; rfl
    · rw [if_neg h, if_neg (show ¬ (setF b s).uniHeight = some (setF b s).height from h)]; rfl
  | _ =>
    first
      | rfl
      | (simp only [applyBackward, setF]
         cases s.closing <;> simp only [Option.map_map, Option.map_none] <;> rfl)

theorem applyAll_setF {f : State → Change → Option Delta} (b : Bool)
    (hf : ∀ s c, f (setF b s) c = (f s c).map (liftF b)) (s : State) (cs : List Change) :
    applyAll f (setF b s) cs = (applyAll f s cs).map (liftF b) := by
  induction cs generalizing s with
  | nil => rfl
  | cons c cs ih =>
    simp only [applyAll, hf]
    cases f s c with
    | none => rfl
    | some d =>
      obtain ⟨s1, a1, r1⟩ := d
      simp only [Option.map_some, liftF, ih]
      cases applyAll f s1 cs with
      | none => rfl
      | some d2 => rfl

theorem addEnd_setF (b : Bool) (s : State) (cs : List Change) :
    addEnd (setF b s) cs = (addEnd s cs).map (liftF b) := by
  rw [addEnd_eq, addEnd_eq]
  have e : ({ setF b s with sawBlock := true, height := (setF b s).height + 1 } : State) =
      setF b { s with sawBlock := true, height := s.height + 1 } := rfl
  rw [e, applyAll_setF b (applyForward_setF b)]
  cases applyAll applyForward { s with sawBlock := true, height := s.height + 1 } cs with
  | none => rfl
  | some d => rfl

theorem removeEnd_setF (b : Bool) (s : State) (cs : List Change) :
    removeEnd (setF b s) cs = (removeEnd s cs).map (liftF b) := by
  unfold removeEnd
  simp only [applyAll_setF b (applyBackward_setF b)]
  cases applyAll applyBackward s cs.reverse with
  | none => rfl
  | some d =>
    obtain ⟨s2, a, r⟩ := d
    simp only [Option.map_some, liftF]
    rw [removeEnd_shape, removeEnd_shape]
    by_cases h : ({ s2 with
        closingSweptHeight := if s.isClosingSwept && !s2.isClosingSwept then none else s2.closingSweptHeight,
        ourSweptHeight := if s.isOurSwept && !s2.isOurSwept then none else s2.ourSweptHeight } : State).height = 0
    · rw [if_pos h, if_pos (by exact h)]; rfl
    · rw [if_neg h, if_neg (by exact h)]; rfl
/-- **the monitor never reads or writes the forget flag (connection)** -/
theorem addBlock_setF (b : Bool) (s : State) (txs : List Tx) :
    addBlock (setF b s) txs = (addBlock s txs).map (liftF b) := by
  unfold addBlock
  have e : ({ setF b s with sawBlock := true } : State) = setF b { s with sawBlock := true } := rfl
  simp only [e, detect_core (setF_core b _)]
  cases detect { s with sawBlock := true } txs with
  | none => rfl
  | some cs => exact addEnd_setF b _ cs

/-- **the monitor never reads or writes the forget flag (disconnection)** -/
theorem removeBlock_setF (b : Bool) (s : State) (txs : List Tx) :
    removeBlock (setF b s) txs = (removeBlock s txs).map (liftF b) := by
  unfold removeBlock
  have e : ({ setF b s with sawBlock := true } : State) = setF b { s with sawBlock := true } := rfl
  simp only [e, detect_core (setF_core b _)]
  cases detect { s with sawBlock := true } txs with
  | none => rfl
  | some cs => exact removeEnd_setF b _ cs

/-! ### C14's `step` / `run` / `replay` commute with setting the flag -/

open VlsModel.Props in
theorem step_setF (b : Bool) (s : State) (st : List (List Tx)) (op : C14.Op) :
    C14.step (setF b s, st) op = (C14.step (s, st) op).map (fun p => (setF b p.1, p.2)) := by
  cases op with
  | add txs =>
    simp only [C14.step, addBlock_setF, Option.map_map]
    rfl
  | remove =>
    cases st with
    | nil => rfl
    | cons t st =>
      simp only [C14.step, removeBlock_setF, Option.map_map]
      rfl

open VlsModel.Props in
theorem run_setF (b : Bool) (s : State) (st : List (List Tx)) (ops : List C14.Op) :
    C14.run (setF b s, st) ops = (C14.run (s, st) ops).map (fun p => (setF b p.1, p.2)) := by
  induction ops generalizing s st with
  | nil => rfl
  | cons op ops ih =>
    simp only [C14.run, step_setF]
    cases C14.step (s, st) op with
    | none => rfl
    | some p =>
      obtain ⟨s1, st1⟩ := p
      simp only [Option.map_some]
      exact ih s1 st1

open VlsModel.Props in
theorem replay_setF (b : Bool) (s0 : State) (st : List (List Tx)) :
    C14.replay (setF b s0) st = (C14.replay s0 st).map (setF b) := by
  induction st with
  | nil => rfl
  | cons txs st ih =>
    simp only [C14.replay, ih]
    cases C14.replay s0 st with
    | none => rfl
    | some s =>
      simp only [Option.map_some, Option.bind_some, addBlock_setF, Option.map_map]
      rfl

end VlsModel.Monitor

namespace VlsModel.Prune
open VlsModel.Monitor VlsModel.Gen.Chain VlsModel.Props

/-! ### projection of a node history onto the block history of one monitor -/

/-- node operations ↦ monitor operations: block connections and disconnections are kept (C14's
`remove` pops its own stack), everything else is dropped -/
def proj : List Op → List C14.Op
  | [] => []
  | op :: r =>
    match op with
    | .addBlock txs => .add txs :: proj r
    | .removeBlock _ => .remove :: proj r
    | _ => proj r

/-- the history is a well-bracketed connect/disconnect sequence over the stack `st` (tip first):
every `removeBlock txs` disconnects exactly the block on top of the stack -/
def WellStacked : List (List Tx) → List Op → Prop
  | _, [] => True
  | st, op :: r =>
    match op with
    | .addBlock txs => WellStacked (txs :: st) r
    | .removeBlock txs =>
      match st with
      | [] => False
      | t :: st' => txs = t ∧ WellStacked st' r
    | _ => WellStacked st r

/-- no operation of the history panics (a panicking block operation leaves the node unchanged, so
the node and the projected monitor history would diverge) -/
def NoPanic : Node → List Op → Prop
  | _, [] => True
  | n, op :: r => (step n op).2 ≠ .panic ∧ NoPanic (step n op).1 r

instance NoPanic.dec : ∀ (n : Node) (ops : List Op), Decidable (NoPanic n ops)
  | _, [] => isTrue trivial
  | n, op :: r => by
    unfold NoPanic
    exact @instDecidableAnd _ _ _ (NoPanic.dec (step n op).1 r)

/-- the operation registers a (new) monitor under key `k` -/
def Op.rekeys (k : Nat) : Op → Prop
  | .setup _ key _ _ _ => key = k
  | _ => False

/-- no `setup` of the history (re)uses the monitor key `k` -/
def NoRekey (k : Nat) (ops : List Op) : Prop := ∀ op ∈ ops, ¬ op.rekeys k

/-! ### what each operation does to the listener under a key -/

theorem lookup_mapL {f : Listener → Option Listener} {ls ls' : List (Nat × Listener)}
    (h : mapL f ls = some ls') (k : Nat) : lookup k ls' = (lookup k ls).bind f := by
  induction ls generalizing ls' with
  | nil => simp only [mapL, Option.some.injEq] at h; subst h; rfl
  | cons e r ih =>
    obtain ⟨k', l⟩ := e
    simp only [mapL] at h
    cases hf : f l with
    | none => simp [hf] at h
    | some l' =>
      simp only [hf] at h
      obtain ⟨r', hr, rfl⟩ := Option.map_eq_some_iff.mp h
      simp only [lookup]
      by_cases hk : k' = k
      · simp only [hk, if_true, Option.bind_some, hf]
      · simp only [hk, if_false]; exact ih hr

theorem listeners_newChannel (n : Node) (d : Nat) : (newChannel n d).1.listeners = n.listeners := by
  unfold newChannel
  split
  · rfl
  · split
    · rfl
    · split <;> rfl

theorem lookup_listeners_setup {n : Node} {d key t v k : Nat} {ins : List OutPoint} (hk : key ≠ k) :
    lookup k (setup n d key t v ins).1.listeners = lookup k n.listeners := by
  unfold setup
  split
  · rfl
  · rfl
  · simp only
    rw [lookup_insert, if_neg (Ne.symm hk)]

theorem lookup_listeners_forget (n : Node) (d k : Nat) :
    lookup k (forget n d).1.listeners = lookup k n.listeners ∨
    lookup k (forget n d).1.listeners = (lookup k n.listeners).map setForget := by
  unfold forget
  split
  · exact Or.inl rfl
  · rename_i slot _
    cases slot with
    | stub bh => exact Or.inl rfl
    | ready key =>
      simp only
      rw [lookup_update]
      split
      · exact Or.inr rfl
      · exact Or.inl rfl

theorem lookup_listeners_heartbeat (n : Node) (k : Nat) :
    lookup k (heartbeat n).1.listeners = lookup k n.listeners ∨
    lookup k (heartbeat n).1.listeners = none := by
  unfold heartbeat
  simp only
  generalize List.filterMap _ (List.filter (fun e => prunable n e.snd) n.channels) = gk
  rw [lookup_filter_key (fun x => !gk.contains x)]
  split
  · exact Or.inl rfl
  · exact Or.inr rfl

theorem lookup_listeners_addBlock (n : Node) (txs : List Tx) (k : Nat) :
    ((addBlock n txs).2 = .panic ∧ (addBlock n txs).1 = n) ∨
    lookup k (addBlock n txs).1.listeners = (lookup k n.listeners).bind (·.add txs) := by
  unfold addBlock
  cases hm : mapL (·.add txs) n.listeners with
  | none => exact Or.inl ⟨rfl, rfl⟩
  | some ls => exact Or.inr (lookup_mapL hm k)

theorem lookup_listeners_removeBlock (n : Node) (txs : List Tx) (k : Nat) :
    ((removeBlock n txs).2 = .panic ∧ (removeBlock n txs).1 = n) ∨
    lookup k (removeBlock n txs).1.listeners = (lookup k n.listeners).bind (·.remove txs) := by
  unfold removeBlock
  split
  · exact Or.inl ⟨rfl, rfl⟩
  · cases hm : mapL (·.remove txs) n.listeners with
    | none => exact Or.inl ⟨rfl, rfl⟩
    | some ls => exact Or.inr (lookup_mapL hm k)

/-- the persisted and the in-memory copy of a listener carry the same monitor state up to the
forget flag -/
theorem Weaker.eraseForget {a b : Listener} (h : Weaker a b) :
    eraseForget a.st = eraseForget b.st := by
  rcases h with rfl | rfl <;> rfl

/-- a monitor key that is not registered stays unregistered (no `setup` with that key; a restart
cannot bring it back because the store agrees with memory, `Inv`) -/
theorem absent_step {n : Node} (i : Inv n) {k : Nat} (h : lookup k n.listeners = none) (op : Op)
    (hop : ¬ op.rekeys k) : lookup k (step n op).1.listeners = none := by
  cases op with
  | newChannel d => simp only [step]; rw [listeners_newChannel]; exact h
  | setup d key t v ins =>
    simp only [step]
    rw [lookup_listeners_setup (fun e => hop e)]; exact h
  | forget d =>
    simp only [step]
    rcases lookup_listeners_forget n d k with e | e <;> rw [e, h] <;> rfl
  | heartbeat =>
    simp only [step]
    rcases lookup_listeners_heartbeat n k with e | e
    · rw [e, h]
    · exact e
  | addBlock txs =>
    simp only [step]
    rcases lookup_listeners_addBlock n txs k with ⟨_, e⟩ | e
    · rw [e]; exact h
    · rw [e, h]; rfl
  | removeBlock txs =>
    simp only [step]
    rcases lookup_listeners_removeBlock n txs k with ⟨_, e⟩ | e
    · rw [e]; exact h
    · rw [e, h]; rfl
  | restart =>
    simp only [step, restart]
    have hr := i.lrel k
    rw [h] at hr
    cases hs : lookup k n.store.listeners with
    | none => rfl
    | some a => rw [hs] at hr; exact hr.elim

theorem absent_run {n : Node} (i : Inv n) {k : Nat} (h : lookup k n.listeners = none)
    (ops : List Op) (hk : NoRekey k ops) : lookup k (run n ops).listeners = none := by
  induction ops generalizing n with
  | nil => exact h
  | cons op ops ih =>
    exact ih (inv_step i op) (absent_step i h op (hk op List.mem_cons_self))
      (fun o ho => hk o (List.mem_cons_of_mem _ ho))

/-- an operation that is not a block operation (and does not re-register the key) leaves the
monitor state of a surviving listener unchanged up to the forget flag -/
theorem frame_step {n : Node} (i : Inv n) {k : Nat} {l0 l1 : Listener}
    (h0 : lookup k n.listeners = some l0) (op : Op) (hop : ¬ op.rekeys k)
    (hb : ∀ txs, op ≠ .addBlock txs ∧ op ≠ .removeBlock txs)
    (h1 : lookup k (step n op).1.listeners = some l1) :
    eraseForget l1.st = eraseForget l0.st := by
  cases op with
  | newChannel d =>
    simp only [step] at h1
    rw [listeners_newChannel, h0] at h1
    cases h1; rfl
  | setup d key t v ins =>
    simp only [step] at h1
    rw [lookup_listeners_setup (fun e => hop e), h0] at h1
    cases h1; rfl
  | forget d =>
    simp only [step] at h1
    rcases lookup_listeners_forget n d k with e | e <;> rw [e, h0] at h1 <;> cases h1 <;> rfl
  | heartbeat =>
    simp only [step] at h1
    rcases lookup_listeners_heartbeat n k with e | e <;> rw [e] at h1
    · rw [h0] at h1; cases h1; rfl
    · cases h1
  | addBlock txs => exact absurd rfl (hb txs).1
  | removeBlock txs => exact absurd rfl (hb txs).2
  | restart =>
    simp only [step, restart] at h1
    have hr := i.lrel k
    rw [h0, h1] at hr
    exact Weaker.eraseForget hr

/-! ### the projection lemma -/

/-- **Projection.** Let listener `k` be registered in `n` with monitor state `l0.st`, and let `ops`
be a node history from `n` in which no `setup` re-registers key `k`, no operation panics, and the
block operations are well-bracketed over the stack `st0`.  If listener `k` is still registered at
the end, with monitor state `l.st`, then `l.st` with the forget flag erased is the state C14's `run`
reaches from `l0.st` (flag erased) on the projected block history; `st` is the surviving stack. -/
theorem proj_run {k : Nat} (ops : List Op) : ∀ (n : Node) (l0 l : Listener) (st0 : List (List Tx)),
    Inv n → lookup k n.listeners = some l0 → NoRekey k ops → NoPanic n ops → WellStacked st0 ops →
    lookup k (run n ops).listeners = some l →
    ∃ st, C14.run (eraseForget l0.st, st0) (proj ops) = some (eraseForget l.st, st) := by
  induction ops with
  | nil =>
    intro n l0 l st0 _ h0 _ _ _ h
    simp only [run] at h
    rw [h0] at h; cases h
    exact ⟨st0, rfl⟩
  | cons op ops ih =>
    intro n l0 l st0 i h0 hk hp hw h
    simp only [run] at h
    have hk' : NoRekey k ops := fun o ho => hk o (List.mem_cons_of_mem _ ho)
    have hop : ¬ op.rekeys k := hk op List.mem_cons_self
    obtain ⟨hp1, hp2⟩ := hp
    cases h1 : lookup k (step n op).1.listeners with
    | none => rw [absent_run (inv_step i op) h1 ops hk'] at h; cases h
    | some l1 =>
      have ih' := fun st1 hw' => ih (step n op).1 l1 l st1 (inv_step i op) h1 hk' hp2 hw' h
      have hframe := fun hb => frame_step (l1 := l1) i h0 op hop hb h1
      cases op with
      | addBlock txs =>
        simp only [step] at h1 hp1
        rcases lookup_listeners_addBlock n txs k with ⟨e, _⟩ | e
        · exact absurd e hp1
        · rw [e, h0] at h1
          simp only [Option.bind_some, Listener.add] at h1
          obtain ⟨d, hd, rfl⟩ := Option.map_eq_some_iff.mp h1
          obtain ⟨st, hst⟩ := ih' (txs :: st0) hw
          refine ⟨st, ?_⟩
          simp only [proj, C14.run, C14.step]
          rw [show eraseForget l0.st = setF false l0.st from rfl, addBlock_setF, hd]
          exact hst
      | removeBlock txs =>
        simp only [step] at h1 hp1
        rcases lookup_listeners_removeBlock n txs k with ⟨e, _⟩ | e
        · exact absurd e hp1
        · rw [e, h0] at h1
          simp only [Option.bind_some, Listener.remove] at h1
          obtain ⟨d, hd, rfl⟩ := Option.map_eq_some_iff.mp h1
          cases st0 with
          | nil => exact hw.elim
          | cons t st0 =>
            obtain ⟨rfl, hw'⟩ := hw
            obtain ⟨st, hst⟩ := ih' st0 hw'
            refine ⟨st, ?_⟩
            simp only [proj, C14.run, C14.step]
            rw [show eraseForget l0.st = setF false l0.st from rfl, removeBlock_setF, hd]
            exact hst
      | newChannel d =>
        obtain ⟨st, hst⟩ := ih' st0 hw
        rw [hframe (fun _ => ⟨nofun, nofun⟩)] at hst
        exact ⟨st, hst⟩
      | setup d key t v ins =>
        obtain ⟨st, hst⟩ := ih' st0 hw
        rw [hframe (fun _ => ⟨nofun, nofun⟩)] at hst
        exact ⟨st, hst⟩
      | forget d =>
        obtain ⟨st, hst⟩ := ih' st0 hw
        rw [hframe (fun _ => ⟨nofun, nofun⟩)] at hst
        exact ⟨st, hst⟩
      | heartbeat =>
        obtain ⟨st, hst⟩ := ih' st0 hw
        rw [hframe (fun _ => ⟨nofun, nofun⟩)] at hst
        exact ⟨st, hst⟩
      | restart =>
        obtain ⟨st, hst⟩ := ih' st0 hw
        rw [hframe (fun _ => ⟨nofun, nofun⟩)] at hst
        exact ⟨st, hst⟩

/-- the same, started from `l0.st` itself: the run of the projected history from `l0.st` succeeds
and ends in a state that differs from the live monitor state at most in the forget flag -/
theorem proj_run' {k : Nat} {ops : List Op} {n : Node} {l0 l : Listener} {st0 : List (List Tx)}
    (i : Inv n) (h0 : lookup k n.listeners = some l0) (hk : NoRekey k ops) (hp : NoPanic n ops)
    (hw : WellStacked st0 ops) (h : lookup k (run n ops).listeners = some l) :
    ∃ s st, C14.run (l0.st, st0) (proj ops) = some (s, st) ∧ eraseForget s = eraseForget l.st := by
  obtain ⟨st, hst⟩ := proj_run ops n l0 l st0 i h0 hk hp hw h
  rw [show eraseForget l0.st = setF false l0.st from rfl, run_setF] at hst
  obtain ⟨p, hp, he⟩ := Option.map_eq_some_iff.mp hst
  obtain ⟨s, st'⟩ := p
  simp only [Prod.mk.injEq] at he
  obtain ⟨he1, rfl⟩ := he
  exact ⟨s, st', hp, he1⟩

/-! ### prefixes of a history -/

theorem proj_append (a b : List Op) : proj (a ++ b) = proj a ++ proj b := by
  induction a with
  | nil => rfl
  | cons op a ih => cases op <;> simp only [List.cons_append, proj, ih]

theorem NoPanic.prefix {n : Node} {a b : List Op} (h : NoPanic n (a ++ b)) : NoPanic n a := by
  induction a generalizing n with
  | nil => trivial
  | cons op a ih => exact ⟨h.1, ih h.2⟩

theorem WellStacked.prefix {st : List (List Tx)} {a b : List Op} (h : WellStacked st (a ++ b)) :
    WellStacked st a := by
  induction a generalizing st with
  | nil => trivial
  | cons op a ih =>
    cases op with
    | addBlock txs => exact ih (st := txs :: st) h
    | removeBlock txs =>
      cases st with
      | nil => exact h.elim
      | cons t st => exact ⟨h.1, ih h.2⟩
    | newChannel d => exact ih (st := st) h
    | setup d key t v ins => exact ih (st := st) h
    | forget d => exact ih (st := st) h
    | heartbeat => exact ih (st := st) h
    | restart => exact ih (st := st) h

theorem NoRekey.prefix {k : Nat} {a b : List Op} (h : NoRekey k (a ++ b)) : NoRekey k a :=
  fun o ho => h o (List.mem_append_left _ ho)

theorem validRun_prefix {p : C14.Cfg} {a b : List C14.Op} (h : C14.ValidRun p (a ++ b)) :
    C14.ValidRun p a := by
  induction a generalizing p with
  | nil => trivial
  | cons op a ih => exact ⟨h.1, fun p' hp' => ih (h.2 p' hp')⟩

end VlsModel.Prune
