import VlsModel.Model.Bolt3Bytes
import VlsModel.Lemmas.Bolt3
/-
Injectivity of the transaction serialiser `ser` on well-formed structured transactions, by
self-delimiting encodings: `f a ++ r = f b ++ r' → a = b ∧ r = r'`.
-/
set_option linter.unusedSimpArgs false
namespace VlsModel.Bolt3
open List

theorem leBytes_length (n x : Nat) : (leBytes n x).length = n := by
  induction n generalizing x with
  | zero => rfl
  | succ n ih => simp [leBytes, ih]

theorem u8_ofNat_inj {a b : Nat} (ha : a < 256) (hb : b < 256) (h : UInt8.ofNat a = UInt8.ofNat b) : a = b := by
  have := congrArg UInt8.toNat h
  simp only [UInt8.toNat_ofNat'] at this
  omega

theorem leBytes_inj (n x y : Nat) (hx : x < 256 ^ n) (hy : y < 256 ^ n) (h : leBytes n x = leBytes n y) : x = y := by
  induction n generalizing x y with
  | zero => simp at hx hy; omega
  | succ n ih =>
    simp only [leBytes, cons.injEq] at h
    have h1 := u8_ofNat_inj (Nat.mod_lt _ (by decide)) (Nat.mod_lt _ (by decide)) h.1
    have hx' : x / 256 < 256 ^ n := by
      rw [Nat.div_lt_iff_lt_mul (by decide)]; rw [Nat.pow_succ] at hx; exact hx
    have hy' : y / 256 < 256 ^ n := by
      rw [Nat.div_lt_iff_lt_mul (by decide)]; rw [Nat.pow_succ] at hy; exact hy
    have h2 := ih _ _ hx' hy' h.2
    have ex := Nat.div_add_mod x 256
    have ey := Nat.div_add_mod y 256
    omega

theorem beBytes_length (n x : Nat) : (beBytes n x).length = n := by
  simp [beBytes, leBytes_length]

theorem beBytes_inj (n x y : Nat) (hx : x < 256 ^ n) (hy : y < 256 ^ n) (h : beBytes n x = beBytes n y) : x = y :=
  leBytes_inj n x y hx hy (reverse_inj.mp h)

/-- self-delimiting on the domain `P` -/
def SD {α : Type} (P : α → Prop) (f : α → Bytes) : Prop :=
  ∀ a b r r', P a → P b → f a ++ r = f b ++ r' → a = b ∧ r = r'

theorem SD_fixed {α : Type} (P : α → Prop) (f : α → Bytes) (n : Nat)
    (hlen : ∀ a, P a → (f a).length = n) (hinj : ∀ a b, P a → P b → f a = f b → a = b) : SD P f := by
  intro a b r r' pa pb h
  have := append_inj h ((hlen a pa).trans (hlen b pb).symm)
  exact ⟨hinj a b pa pb this.1, this.2⟩

theorem SD_le (n : Nat) : SD (fun x => x < 256 ^ n) (leBytes n) :=
  SD_fixed _ _ n (fun a _ => leBytes_length n a) (fun a b pa pb h => leBytes_inj n a b pa pb h)

theorem SD_be (n : Nat) : SD (fun x => x < 256 ^ n) (beBytes n) :=
  SD_fixed _ _ n (fun a _ => beBytes_length n a) (fun a b pa pb h => beBytes_inj n a b pa pb h)

theorem SD_varint : SD (fun n => n ≤ 0xffff) varint := by
  intro a b r r' pa pb h
  have ha4 : ¬ (0xffff < a) := by omega
  have hb4 : ¬ (0xffff < b) := by omega
  by_cases ha : a < 0xfd <;> by_cases hb : b < 0xfd
  · simp only [varint, ha, hb, ↓reduceIte, cons_append, nil_append, cons.injEq] at h
    exact ⟨u8_ofNat_inj (by omega) (by omega) h.1, h.2⟩
  · simp only [varint, ha, hb, pb, ↓reduceIte, cons_append, nil_append, cons.injEq] at h
    have := congrArg UInt8.toNat h.1
    simp only [UInt8.toNat_ofNat'] at this
    have e : (0xfd : UInt8).toNat = 253 := by decide
    omega
  · simp only [varint, ha, hb, pa, ↓reduceIte, cons_append, nil_append, cons.injEq] at h
    have := congrArg UInt8.toNat h.1
    simp only [UInt8.toNat_ofNat'] at this
    have e : (0xfd : UInt8).toNat = 253 := by decide
    omega
  · simp only [varint, ha, hb, pa, pb, ↓reduceIte, cons_append, cons.injEq, true_and] at h
    exact SD_le 2 a b r r' (by omega) (by omega) h

theorem SD_flatMap {α : Type} (P : α → Prop) (f : α → Bytes) (hf : SD P f) :
    ∀ (l₁ l₂ : List α) (r r' : Bytes), l₁.length = l₂.length → (∀ x ∈ l₁, P x) → (∀ x ∈ l₂, P x) →
      l₁.flatMap f ++ r = l₂.flatMap f ++ r' → l₁ = l₂ ∧ r = r' := by
  intro l₁
  induction l₁ with
  | nil =>
    intro l₂ r r' hl _ _ h
    cases l₂ with
    | nil => simpa using h
    | cons _ _ => simp at hl
  | cons a l₁ ih =>
    intro l₂ r r' hl p1 p2 h
    cases l₂ with
    | nil => simp at hl
    | cons b l₂ =>
      simp only [flatMap_cons, append_assoc] at h
      have := hf a b _ _ (p1 a mem_cons_self) (p2 b mem_cons_self) h
      have t := ih l₂ r r' (by simpa using hl) (fun x hx => p1 x (mem_cons_of_mem _ hx))
        (fun x hx => p2 x (mem_cons_of_mem _ hx)) this.2
      exact ⟨by rw [this.1, t.1], t.2⟩

/-! ## inputs -/

def WfIn (i : TxIn) : Prop :=
  i.txid < 2 ^ 256 ∧ i.vout < 2 ^ 32 ∧ i.sequence < 2 ^ 32 ∧ i.scriptSig ≤ 1 ∧ i.witness = 0

theorem SD_serIn : SD WfIn serIn := by
  intro a b r r' pa pb h
  obtain ⟨a1, a2, a3, a4, a5⟩ := pa
  obtain ⟨b1, b2, b3, b4, b5⟩ := pb
  simp only [serIn, append_assoc] at h
  have h1 := SD_le 32 a.txid b.txid _ _ (by simpa using a1) (by simpa using b1) h
  have h2 := SD_le 4 a.vout b.vout _ _ (by simpa using a2) (by simpa using b2) h1.2
  have h3 : a.scriptSig = b.scriptSig ∧
      leBytes 4 a.sequence ++ r = leBytes 4 b.sequence ++ r' := by
    have := h2.2
    by_cases ea : a.scriptSig = 0 <;> by_cases eb : b.scriptSig = 0 <;>
      simp only [ea, eb, ↓reduceIte, cons_append, nil_append, cons.injEq] at this
    · exact ⟨by omega, this.2⟩
    · exact absurd this.1 (by decide)
    · exact absurd this.1 (by decide)
    · exact ⟨by omega, this.2.2⟩
  have h4 := SD_le 4 a.sequence b.sequence _ _ (by simpa using a3) (by simpa using b3) h3.2
  refine ⟨?_, h4.2⟩
  cases a; cases b
  simp_all

/-! ## outputs -/

/-- the environment's HASH160 table is in range and injective on the known keys (collision freedom) -/
def WfEnv (env : BEnv) : Prop :=
  (∀ k, k < env.nKeys → env.keyHash160 k < 2 ^ 160) ∧
  (∀ k₁ k₂, k₁ < env.nKeys → k₂ < env.nKeys → env.keyHash160 k₁ = env.keyHash160 k₂ → k₁ = k₂)

theorem wfEnv_iff (env : BEnv) (h : wfEnv env = true) : WfEnv env := by
  simp only [wfEnv, all_eq_true, mem_range, Bool.and_eq_true, decide_eq_true_eq] at h
  exact ⟨fun k hk => (h k hk).1, fun k₁ k₂ h1 h2 => (h k₁ h1).2 k₂ h2⟩

def WfSpk (env : BEnv) : Spk Nat → Prop
  | .p2wpkh k => k < env.nKeys
  | .p2wsh h => h < 2 ^ 256
  | .other n => n < 2 ^ 64

theorem SD_spkSer (env : BEnv) (henv : WfEnv env) : SD (WfSpk env) (spkSer env) := by
  intro a b r r' pa pb h
  cases a <;> cases b <;> simp only [spkSer, cons_append, cons.injEq] at h
  all_goals first
    | exact absurd h.1 (by decide)
    | skip
  · rename_i k1 k2
    have q1 : k1 < env.nKeys := pa
    have q2 : k2 < env.nKeys := pb
    have := SD_be 20 _ _ _ _ (by simpa using henv.1 k1 q1) (by simpa using henv.1 k2 q2) h.2.2.2
    exact ⟨by rw [henv.2 k1 k2 q1 q2 this.1], this.2⟩
  · rename_i h1 h2
    have := SD_be 32 _ _ _ _ (by simpa [WfSpk] using pa) (by simpa [WfSpk] using pb) h.2.2.2
    exact ⟨by rw [this.1], this.2⟩
  · rename_i n1 n2
    have := SD_le 8 _ _ _ _ (by simpa [WfSpk] using pa) (by simpa [WfSpk] using pb) h.2.2.2
    exact ⟨by rw [this.1], this.2⟩

def WfOut (env : BEnv) (o : TxOut Nat) : Prop := o.value < 2 ^ 64 ∧ WfSpk env o.spk

theorem SD_serOut (env : BEnv) (henv : WfEnv env) : SD (WfOut env) (serOut env) := by
  intro a b r r' pa pb h
  simp only [serOut, append_assoc] at h
  have h1 := SD_le 8 a.value b.value _ _ (by simpa using pa.1) (by simpa using pb.1) h
  have h2 := SD_spkSer env henv a.spk b.spk _ _ pa.2 pb.2 h1.2
  refine ⟨?_, h2.2⟩
  cases a; cases b
  simp_all

/-! ## transactions -/

theorem wfTx_parts {env : BEnv} {tx : CTx Nat} (h : wfTx env tx = true) :
    tx.version < 2 ^ 32 ∧ tx.locktime < 2 ^ 32 ∧ tx.inputs.length ≤ 0xffff ∧ tx.outputs.length ≤ 0xffff ∧
    (∀ i ∈ tx.inputs, WfIn i) ∧ (∀ o ∈ tx.outputs, WfOut env o) := by
  simp only [wfTx, Bool.and_eq_true, decide_eq_true_eq, all_eq_true] at h
  obtain ⟨⟨⟨⟨⟨h1, h2⟩, h3⟩, h4⟩, h5⟩, h6⟩ := h
  refine ⟨h1, h2, h3, h4, ?_, ?_⟩
  · intro i hi
    have := h5 i hi
    exact ⟨this.1.1.1.1, this.1.1.1.2, this.1.1.2, this.1.2, this.2⟩
  · intro o ho
    have := h6 o ho
    refine ⟨this.1, ?_⟩
    cases hs : o.spk <;> simp only [hs, decide_eq_true_eq] at this <;> simp [WfSpk, this.2]

/-- **`ser` is injective on well-formed structured transactions**: byte-for-byte equality and
    structural equality coincide. -/
theorem ser_injective (env : BEnv) (henv : WfEnv env) (a b : CTx Nat)
    (wa : wfTx env a = true) (wb : wfTx env b = true) (h : ser env a = ser env b) : a = b := by
  obtain ⟨a1, a2, a3, a4, a5, a6⟩ := wfTx_parts wa
  obtain ⟨b1, b2, b3, b4, b5, b6⟩ := wfTx_parts wb
  simp only [ser] at h
  have h1 := SD_le 4 a.version b.version _ _ (by simpa using a1) (by simpa using b1) h
  have h2 := SD_varint _ _ _ _ a3 b3 h1.2
  have h3 := SD_flatMap WfIn serIn SD_serIn _ _ _ _ h2.1 a5 b5 h2.2
  have h4 := SD_varint _ _ _ _ a4 b4 h3.2
  have h5 := SD_flatMap (WfOut env) (serOut env) (SD_serOut env henv) _ _ _ _ h4.1 a6 b6 h4.2
  have h6 : a.locktime = b.locktime := by
    have := h5.2
    have := SD_le 4 a.locktime b.locktime [] [] (by simpa using a2) (by simpa using b2) (by simpa using this)
    exact this.1
  cases a; cases b
  simp_all

/-! ## the byte-order key is injective -/

private theorem ax1 (x k P : Nat) (hx : x < P) (h : 3 * x = 3 * (P + k)) : False := by omega
private theorem ax2 (a b : Nat) (h : 3 * a = 3 * b + 1) : False := by omega
private theorem ax3 (a b : Nat) (h : 3 * a = 3 * b + 2) : False := by omega
private theorem ax4 (a b : Nat) (h : 3 * a + 1 = 3 * b + 2) : False := by omega
private theorem ax5 (P a b : Nat) (h : 3 * (P + a) = 3 * (P + b)) : a = b := by omega
private theorem ax6 (P a b : Nat) (h : 3 * (P + a) + 1 = 3 * (P + b) + 1) : a = b := by omega
private theorem ax7 (P a b : Nat) (h : 3 * (P + a) + 2 = 3 * (P + b) + 2) : a = b := by omega
private theorem ax8 (a b : Nat) (h : 3 * a = 3 * b) : a = b := by omega

theorem okeyB_injective (env : BEnv) (henv : WfEnv env) : Function.Injective (okeyB env) := by
  intro a b h
  have m1 : ∀ k, env.keyHash160 k % 2 ^ 160 < 2 ^ 160 := fun k => Nat.mod_lt _ (by decide)
  cases a <;> cases b <;> simp only [okeyB] at h
  · rename_i k1 k2
    by_cases q1 : k1 < env.nKeys <;> by_cases q2 : k2 < env.nKeys <;> simp only [q1, q2, ↓reduceIte] at h
    · have e1 := henv.1 k1 q1
      have e2 := henv.1 k2 q2
      rw [Nat.mod_eq_of_lt e1, Nat.mod_eq_of_lt e2] at h
      rw [henv.2 k1 k2 q1 q2 (ax8 _ _ h)]
    · exact (ax1 _ _ _ (m1 k1) h).elim
    · exact (ax1 _ _ _ (m1 k2) h.symm).elim
    · rw [ax5 _ _ _ h]
  · split at h <;> exact (ax2 _ _ h).elim
  · split at h <;> exact (ax3 _ _ h).elim
  · split at h <;> exact (ax2 _ _ h.symm).elim
  · rw [ax6 _ _ _ h]
  · exact (ax4 _ _ h).elim
  · split at h <;> exact (ax3 _ _ h.symm).elim
  · exact (ax4 _ _ h.symm).elim
  · rw [ax7 _ _ _ h]

/-! ## the canonical transaction is a well-formed structured transaction -/

/-- the content fits the wire widths (decidable) -/
def fits (env : BEnv) (s : Setup) (k : Keys) (c : Content) : Bool :=
  decide (s.fundingTxid < 2 ^ 256) && decide (c.toCs < 2 ^ 64) && decide (c.toBc < 2 ^ 64) &&
  decide (c.offered.length + c.received.length + 4 ≤ 0xffff) && decide (k.cPayment < env.nKeys)

theorem rawElems_length_le {H : Type} (wsh : Script → H) (s : Setup) (k : Keys) (c : Content) :
    (rawElems wsh s k c).length ≤ c.offered.length + c.received.length + 4 := by
  simp only [rawElems, length_append, length_map]
  have h1 : ∀ (p : Prop) [Decidable p] (e : Elem H), (if p then [e] else []).length ≤ 1 := by
    intro p _ e; split <;> simp
  have a := h1 (c.toCs > 0) (toRemoteElem wsh s k c.toCs)
  have b := h1 (c.toBc > 0) (toLocalElem wsh s k c.toBc)
  by_cases hA : s.ctype.ldkAnchors = true
  · have c1 := h1 (c.toBc > 0 ∨ ¬ (c.offered ++ c.received) = []) (anchorElem wsh k.bFunding)
    have c2 := h1 (c.toCs > 0 ∨ ¬ (c.offered ++ c.received) = []) (anchorElem wsh k.cFunding)
    simp only [hA, ↓reduceIte, length_append]
    omega
  · simp only [hA, Bool.false_eq_true, ↓reduceIte, length_nil]
    omega

theorem canon_wfTx (env : BEnv) (s : Setup) (k : Keys) (c : Content) (tx : CTx Nat)
    (hf : fits env s k c = true) (hc : canon (wshB env) (okeyB env) s k c = some tx) :
    wfTx env tx = true := by
  simp only [fits, Bool.and_eq_true, decide_eq_true_eq] at hf
  obtain ⟨⟨⟨⟨f1, f2⟩, f3⟩, f4⟩, f5⟩ := hf
  unfold canon at hc
  split at hc
  · cases hc
  rename_i hp
  injection hc with hc
  subst hc
  have hval : ∀ h ∈ c.offered ++ c.received, h.value < 2 ^ 64 := by
    intro h hh
    refine Decidable.byContradiction fun hn => hp ?_
    simp only [buildPanics, Bool.or_eq_true, any_eq_true, decide_eq_true_eq]
    exact Or.inr ⟨h, hh, by unfold U64_LIMIT; omega⟩
  have hw : ∀ sc, wshB env sc < 2 ^ 256 := fun sc => Nat.mod_lt _ (by decide)
  have hlock : canonLocktime s c < 2 ^ 32 := by
    unfold canonLocktime
    exact Nat.or_lt_two_pow (by decide) (Nat.lt_of_lt_of_le (Nat.and_lt_two_pow _ (show 0xffffff < 2 ^ 24 by decide)) (by decide))
  have hseq : canonSequence s c < 2 ^ 32 := by
    unfold canonSequence
    exact Nat.or_lt_two_pow (by decide) (Nat.mod_lt _ (by decide))
  have hlen : (canonElems (wshB env) (okeyB env) s k c).length ≤ 0xffff := by
    unfold canonElems
    rw [(isort_perm _ _).length_eq]
    have := rawElems_length_le (wshB env) s k c
    omega
  have houts : ∀ e ∈ canonElems (wshB env) (okeyB env) s k c, WfOut env e.out := by
    intro e he
    have he : e ∈ rawElems (wshB env) s k c := (isort_perm _ _).subset he
    simp only [rawElems, mem_append, mem_map] at he
    rcases he with ((he | he) | he) | (⟨h, hm, rfl⟩ | ⟨h, hm, rfl⟩)
    · split at he
      · simp only [mem_singleton] at he; subst he
        simp only [toRemoteElem]; split
        · exact ⟨f2, hw _⟩
        · exact ⟨f2, f5⟩
      · cases he
    · split at he
      · simp only [mem_singleton] at he; subst he
        exact ⟨f3, hw _⟩
      · cases he
    · split at he
      · simp only [mem_append] at he
        rcases he with he | he <;> split at he <;>
          first
          | (simp only [mem_singleton] at he; subst he; exact ⟨show (330 : Nat) < 2 ^ 64 by decide, hw _⟩)
          | cases he
      · cases he
    · exact ⟨hval h (mem_append_left _ hm), hw _⟩
    · exact ⟨hval h (mem_append_right _ hm), hw _⟩
  simp only [wfTx, Bool.and_eq_true, decide_eq_true_eq, all_eq_true, length_map, mem_map,
    forall_exists_index, and_imp, forall_apply_eq_imp_iff₂]
  refine ⟨⟨⟨⟨⟨by decide, hlock⟩, by simp⟩, hlen⟩, ?_⟩, ?_⟩
  · intro i hi
    simp only [mem_singleton] at hi
    subst hi
    refine ⟨⟨⟨⟨f1, ?_⟩, hseq⟩, Nat.zero_le 1⟩, rfl⟩
    exact Nat.lt_of_lt_of_le (Nat.mod_lt _ (by decide)) (by decide)
  · intro e he
    have := houts e he
    refine ⟨this.1, ?_⟩
    have w := this.2
    cases hs : e.out.spk <;> simp only [hs, WfSpk] at w <;> simpa using w

end VlsModel.Bolt3
