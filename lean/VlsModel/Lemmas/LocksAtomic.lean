import VlsModel.Lemmas.Locks2pl
/-
Atomicity of a lock-held interval in the lock model with data (`Model/Locks2pl.lean`), for ARBITRARY
requests (no two-phase hypothesis): while a thread holds `l`, the cell guarded by `l` changes only through
that thread's own `upd l` events, whatever the other threads do in between.
-/
namespace VlsModel.Locks2pl

variable {L D : Type} [DecidableEq L]

/-- no lock is held by two different threads -/
def Excl (ts : List (DThread L D)) : Prop :=
  ∀ (i j : Nat) (ti tj : DThread L D), ts[i]? = some ti → ts[j]? = some tj → i ≠ j →
    ∀ l, l ∈ ti.held → l ∉ tj.held

/-- mutual exclusion is preserved by every step (any requests) -/
theorem excl_step {s s' : DState L D} (he : Excl s.threads) (h : Step s s') : Excl s'.threads := by
  obtain ⟨i, hi⟩ := h
  obtain ⟨t, hti, hc⟩ := stepAt_cases hi
  rcases hc with ⟨l, r, _, hfree, rfl⟩ | ⟨l, f, r, _, _, rfl⟩ | ⟨l, r, _, rfl⟩
  · refine excl_set hti he ?_
    intro l' hl'
    simp only [List.mem_cons] at hl'
    rcases hl' with rfl | hl'
    · exact Or.inr (isFree_spec hfree)
    · exact Or.inl hl'
  · exact excl_set hti he (fun l' hl' => Or.inl hl')
  · exact excl_set hti he (fun l' hl' => Or.inl (List.mem_of_mem_erase hl'))

theorem excl_steps {n : Nat} {s s' : DState L D} (he : Excl s.threads) (h : Steps n s s') :
    Excl s'.threads := by
  induction h with
  | refl => exact he
  | tail _ hstep ih => exact excl_step (ih he) hstep

omit [DecidableEq L] in
theorem excl_init (mem0 : L → D) (reqs : List (List (DEv L D))) :
    Excl (mkState mem0 reqs).threads := by
  intro i j ti tj hi _ _ l hl
  have hmem := List.mem_of_getElem? hi
  simp only [mkState, List.mem_map] at hmem
  obtain ⟨r, _, rfl⟩ := hmem
  simp at hl

/-- thread `i` is inside (or just past) a lock-held interval on `l` that started with value `d0` in the cell:
it still holds `l`, has executed a prefix `pre` of the interval's events `evs` and the cell holds `d0` transformed
by ITS OWN updates in `pre` — or it has already gone beyond the end of the interval (`rest`) -/
def SecInv (i : Nat) (l : L) (d0 : D) (evs rest : List (DEv L D)) (s : DState L D) : Prop :=
  ∃ t, s.threads[i]? = some t ∧
    ((∃ pre post, evs = pre ++ post ∧ t.todo = post ++ rest ∧ l ∈ t.held ∧
        s.mem l = app d0 (updsOn l pre)) ∨
     t.todo.length < rest.length)

/-- **One step preserves the interval invariant**, whoever steps. -/
theorem secInv_step {i : Nat} {l : L} {d0 : D} {evs rest : List (DEv L D)}
    (hnorel : ∀ x, DEv.rel x ∈ evs → x ≠ l)
    {s s' : DState L D} (he : Excl s.threads) (inv : SecInv i l d0 evs rest s) (h : Step s s') :
    SecInv i l d0 evs rest s' := by
  obtain ⟨t, hti, hdisj⟩ := inv
  obtain ⟨j, hj⟩ := h
  obtain ⟨tj, htj, hc⟩ := stepAt_cases hj
  by_cases hji : j = i
  · -- thread `i` itself steps
    subst hji
    rw [hti] at htj
    cases htj
    rcases hdisj with ⟨pre, post, hevs, htodo, hheld, hmem⟩ | hlt
    · cases post with
      | nil =>
        -- the interval is over: the next event comes from `rest`
        simp only [List.nil_append] at htodo
        rcases hc with ⟨l', r, hd, _, rfl⟩ | ⟨l', f, r, hd, _, rfl⟩ | ⟨l', r, hd, rfl⟩ <;>
          exact ⟨_, get_set_self hti, Or.inr (by rw [← htodo, hd]; simp)⟩
      | cons e post' =>
        have hevs' : evs = (pre ++ [e]) ++ post' := by rw [hevs]; simp
        rcases hc with ⟨l', r, hd, _, rfl⟩ | ⟨l', f, r, hd, _, rfl⟩ | ⟨l', r, hd, rfl⟩
        · rw [htodo] at hd
          simp only [List.cons_append, List.cons.injEq] at hd
          obtain ⟨rfl, rfl⟩ := hd
          refine ⟨_, get_set_self hti, Or.inl ⟨pre ++ [.acq l'], post', hevs', rfl, ?_, ?_⟩⟩
          · exact List.mem_cons_of_mem _ hheld
          · rw [updsOn_append]; simpa [updsOn] using hmem
        · rw [htodo] at hd
          simp only [List.cons_append, List.cons.injEq] at hd
          obtain ⟨rfl, rfl⟩ := hd
          refine ⟨_, get_set_self hti, Or.inl ⟨pre ++ [.upd l' f], post', hevs', rfl, hheld, ?_⟩⟩
          rw [updsOn_append, app_append]
          by_cases hll : l' = l
          · subst hll
            show setMem s.mem l' (f (s.mem l')) l' = _
            rw [hmem]
            simp [updsOn, setMem, app]
          · have : ¬ l = l' := fun e => hll e.symm
            simp [updsOn, hll, setMem, this, app, hmem]
        · rw [htodo] at hd
          simp only [List.cons_append, List.cons.injEq] at hd
          obtain ⟨rfl, rfl⟩ := hd
          have hne : l' ≠ l := hnorel l' (by rw [hevs]; simp)
          refine ⟨_, get_set_self hti, Or.inl ⟨pre ++ [.rel l'], post', hevs', rfl, ?_, ?_⟩⟩
          · exact (List.mem_erase_of_ne (fun e => hne e.symm)).mpr hheld
          · rw [updsOn_append]; simpa [updsOn] using hmem
    · rcases hc with ⟨l', r, hd, _, rfl⟩ | ⟨l', f, r, hd, _, rfl⟩ | ⟨l', r, hd, rfl⟩ <;>
        exact ⟨_, get_set_self hti, Or.inr (by rw [hd] at hlt; simp at hlt ⊢; omega)⟩
  · -- another thread steps: thread `i` is untouched, and the cell of `l` cannot change while `i` holds `l`
    have hsame : ∀ x : DThread L D, (s.threads.set j x)[i]? = some t := by
      intro x; rw [get_set_ne (fun e => hji e.symm)]; exact hti
    rcases hc with ⟨l', r, _, _, rfl⟩ | ⟨l', f, r, _, hheldj, rfl⟩ | ⟨l', r, _, rfl⟩
    · exact ⟨t, hsame _, hdisj⟩
    · refine ⟨t, hsame _, ?_⟩
      rcases hdisj with ⟨pre, post, hevs, htodo, hheld, hmem⟩ | hlt
      · refine Or.inl ⟨pre, post, hevs, htodo, hheld, ?_⟩
        have hne : l' ≠ l := by
          intro e
          subst e
          have hl'j : l' ∈ tj.held := by simpa using hheldj
          exact he i j t tj hti htj (fun e => hji e.symm) l' hheld hl'j
        have : ¬ l = l' := fun e => hne e.symm
        simp only [setMem, this, if_false]
        exact hmem
      · exact Or.inr hlt
    · exact ⟨t, hsame _, hdisj⟩

theorem secInv_steps {i : Nat} {l : L} {d0 : D} {evs rest : List (DEv L D)}
    (hnorel : ∀ x, DEv.rel x ∈ evs → x ≠ l)
    {n : Nat} {s s' : DState L D} (he : Excl s.threads) (inv : SecInv i l d0 evs rest s)
    (h : Steps n s s') : SecInv i l d0 evs rest s' := by
  induction h with
  | refl => exact inv
  | tail hs hstep ih => exact secInv_step hnorel (excl_steps he hs) (ih he inv) hstep

end VlsModel.Locks2pl
