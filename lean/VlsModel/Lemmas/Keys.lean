/-
Helper lemmas for C18 (`Props/C18.lean`): state-independence of `channelKeys`, the invariant of the
node history model, bit lemmas for the BOLT-3 derivation walk, HMAC key zero-padding.
-/
import VlsModel.Model.Keys

namespace VlsModel.Keys
open VlsModel.Sha256 (Bytes)
open VlsModel.Gen.KeyDeriveUse

/-! ## channelKeys does not see the counters when the table says so -/

theorem channelKeysFromKeysId_indep (P : Prims) (style : Style) (h : (useOf style).basepointIndex = false)
    (seed : Bytes) (net : Net) (keysId : Bytes) (st st' : KMState) :
    channelKeysFromKeysId P style seed net keysId st = channelKeysFromKeysId P style seed net keysId st' := by
  simp only [channelKeysFromKeysId, maskIn, h]
  rfl

theorem channelKeys_indep (P : Prims) (style : Style) (h : (useOf style).basepointIndex = false)
    (seed : Bytes) (net : Net) (id : Bytes) (st st' : KMState) :
    channelKeys P style seed net id st = channelKeys P style seed net id st' :=
  channelKeysFromKeysId_indep P style h seed net _ st st'

/-- the keys id recorded in the key material is the one it was derived from -/
theorem channelKeysFromKeysId_keysId (P : Prims) (style : Style) (seed : Bytes) (net : Net)
    (keysId : Bytes) (st : KMState) :
    (channelKeysFromKeysId P style seed net keysId st).keysId = keysId := rfl

/-- re-deriving from the keys id that a derivation recorded gives the same key material -/
theorem rederive_from_recorded_keysId (P : Prims) (style : Style)
    (h : (useOf style).basepointIndex = false) (seed : Bytes) (net : Net) (id : Bytes) (st st' : KMState) :
    channelKeysFromKeysId P style seed net (channelKeys P style seed net id st).keysId st'
      = channelKeys P style seed net id st :=
  channelKeysFromKeysId_indep P style h seed net _ st' st

theorem channelKeys_eq_keysOf (P : Prims) (style : Style) (h : (useOf style).basepointIndex = false)
    (seed : Bytes) (net : Net) (id : Bytes) (st : KMState) :
    channelKeys P style seed net id st = keysOf P style seed net id :=
  channelKeys_indep P style h seed net id st KMState.fresh

/-! ## history invariant -/

/-- every channel of the node holds exactly the keys the stateless reference gives for its id -/
def KeysInv (P : Prims) (style : Style) (seed : Bytes) (net : Net) (s : NodeSt) : Prop :=
  ∀ c ∈ s.chans, c.keys = keysOf P style seed net c.id

theorem mem_updChan {cs : List Chan} {id : Bytes} {f : Chan → Chan} {c : Chan}
    (h : c ∈ updChan cs id f) : ∃ c0 ∈ cs, c = c0 ∨ c = f c0 := by
  simp only [updChan, List.mem_map] at h
  obtain ⟨c0, hc0, rfl⟩ := h
  refine ⟨c0, hc0, ?_⟩
  split
  · exact Or.inr rfl
  · exact Or.inl rfl

theorem keysInv_updChan {P : Prims} {style : Style} {seed : Bytes} {net : Net} {s : NodeSt}
    (hs : KeysInv P style seed net s) (id : Bytes) (f : Chan → Chan)
    (hf : ∀ c, (f c).id = c.id ∧ (f c).keys = c.keys) (km : KMState) :
    KeysInv P style seed net ⟨km, updChan s.chans id f⟩ := by
  intro c hc
  obtain ⟨c0, hc0, h | h⟩ := mem_updChan hc
  · rw [h]; exact hs c0 hc0
  · rw [h, (hf c0).1, (hf c0).2]; exact hs c0 hc0

theorem keysInv_createChan {P : Prims} {style : Style} (h : (useOf style).basepointIndex = false)
    {seed : Bytes} {net : Net} {s : NodeSt} (hs : KeysInv P style seed net s) (id : Bytes) :
    KeysInv P style seed net (createChan P style seed net s id) := by
  unfold createChan
  split
  · exact hs
  · intro c hc
    simp only [List.mem_append, List.mem_singleton] at hc
    rcases hc with hc | hc
    · exact hs c hc
    · subst hc; exact channelKeys_eq_keysOf P style h seed net id s.km

theorem restoreChans_keys {P : Prims} {style : Style} (h : (useOf style).basepointIndex = false)
    (seed : Bytes) (net : Net) :
    ∀ (cs : List Chan) (km : KMState), ∀ c ∈ (restoreChans P style seed net km cs).2,
      c.keys = keysOf P style seed net c.id := by
  intro cs
  induction cs with
  | nil => intro km c hc; simp [restoreChans] at hc
  | cons c0 cs ih =>
    intro km c hc
    simp only [restoreChans, List.mem_cons] at hc
    rcases hc with hc | hc
    · subst hc; exact channelKeys_eq_keysOf P style h seed net c0.id km
    · exact ih _ c hc

/-- restoring neither loses nor invents channels, and keeps id, readiness, value and counters -/
theorem restoreChans_shape (P : Prims) (style : Style) (seed : Bytes) (net : Net) :
    ∀ (cs : List Chan) (km : KMState),
      (restoreChans P style seed net km cs).2.map (fun c => (c.id, c.ready, c.value, c.nextHolder))
        = cs.map (fun c => (c.id, c.ready, c.value, c.nextHolder)) := by
  intro cs
  induction cs with
  | nil => intro km; simp [restoreChans]
  | cons c0 cs ih => intro km; simp [restoreChans, ih]

theorem keysInv_step {P : Prims} {style : Style} (h : (useOf style).basepointIndex = false)
    {seed : Bytes} {net : Net} {s : NodeSt} (hs : KeysInv P style seed net s) (op : Op) :
    KeysInv P style seed net (step P style seed net s op) := by
  cases op with
  | newChan id => exact keysInv_createChan h hs id
  | newRandom =>
    simp only [step]
    exact keysInv_createChan h
      (s := ⟨{ s.km with channelIdChildIndex := s.km.channelIdChildIndex + 1 }, s.chans⟩)
      (fun c hc => hs c hc) _
  | setup id value =>
    simp only [step]
    refine keysInv_updChan hs id _ ?_ s.km
    intro c; split <;> simp
  | advance id =>
    simp only [step]
    refine keysInv_updChan hs id _ ?_ s.km
    intro c; split <;> simp
  | entropy => exact hs
  | sweep => exact hs
  | restart =>
    simp only [step]
    intro c hc
    exact restoreChans_keys h seed net s.chans KMState.fresh c hc
  | wipe => intro c hc; simp [step, NodeSt.fresh] at hc

theorem keysInv_foldl {P : Prims} {style : Style} (h : (useOf style).basepointIndex = false)
    {seed : Bytes} {net : Net} (ops : List Op) :
    ∀ s, KeysInv P style seed net s → KeysInv P style seed net (ops.foldl (step P style seed net) s) := by
  induction ops with
  | nil => intro s hs; exact hs
  | cons op ops ih => intro s hs; exact ih _ (keysInv_step h hs op)

/-! ## the BOLT-3 walk -/

theorem testBit_zeroLow (idx b j : Nat) :
    (zeroLow idx b).testBit j = (decide (b ≤ j) && idx.testBit j) := by
  unfold zeroLow
  rw [Nat.testBit_shiftLeft, Nat.testBit_shiftRight]
  by_cases hj : b ≤ j
  · have : b + (j - b) = j := by omega
    simp [hj, this]
  · simp [hj]

/-- bits that are all clear below `b`: the walk over `b` bits does nothing -/
theorem deriveWith_low_clear (step : Bytes → Nat → Bytes) :
    ∀ (b : Nat) (s : Bytes) (idx : Nat), (∀ j, j < b → idx.testBit j = false) →
      deriveWith step s b idx = s := by
  intro b
  induction b with
  | zero => intro s idx _; rfl
  | succ b ih =>
    intro s idx h
    have hb : idx.testBit b = false := h b (Nat.lt_succ_self b)
    simp only [deriveWith, hb]
    exact ih s idx (fun j hj => h j (Nat.lt_succ_of_lt hj))

/-- the walk only looks at the bits below `bits` -/
theorem deriveWith_congr (step : Bytes → Nat → Bytes) :
    ∀ (b : Nat) (s : Bytes) (i j : Nat), (∀ k, k < b → i.testBit k = j.testBit k) →
      deriveWith step s b i = deriveWith step s b j := by
  intro b
  induction b with
  | zero => intro s i j _; rfl
  | succ b ih =>
    intro s i j h
    simp only [deriveWith, h b (Nat.lt_succ_self b)]
    exact ih _ i j (fun k hk => h k (Nat.lt_succ_of_lt hk))

/-- walking `b + k` bits of `idx` = walking the upper `k` bits (i.e. all `b + k` bits of `idx` with
its low `b` bits cleared) and then the low `b` bits from there -/
theorem deriveWith_split (step : Bytes → Nat → Bytes) (b : Nat) :
    ∀ (k : Nat) (s : Bytes) (idx : Nat),
      deriveWith step s (b + k) idx
        = deriveWith step (deriveWith step s (b + k) (zeroLow idx b)) b idx := by
  intro k
  induction k with
  | zero =>
    intro s idx
    have : deriveWith step s b (zeroLow idx b) = s :=
      deriveWith_low_clear step b s _ (fun j hj => by
        rw [testBit_zeroLow]; simp [Nat.not_le.mpr hj])
    simp only [Nat.add_zero, this]
  | succ k ih =>
    intro s idx
    have hbit : (zeroLow idx b).testBit (b + k) = idx.testBit (b + k) := by
      rw [testBit_zeroLow]; simp
    show deriveWith step s (b + k + 1) idx = deriveWith step (deriveWith step s (b + k + 1) (zeroLow idx b)) b idx
    simp only [deriveWith, hbit]
    exact ih _ idx

/-! ## HMAC pads its key with zeros -/

theorem hmac_key_zero_pad (key msg : Bytes) (h : key.length < 64) :
    Sha256.hmac (key ++ [0]) msg = Sha256.hmac key msg := by
  have h1 : ¬ (key ++ [0]).length > 64 := by simp; omega
  have h2 : ¬ key.length > 64 := by omega
  have hpad : (key ++ [0]) ++ List.replicate (64 - (key ++ [0]).length) (0 : UInt8)
      = key ++ List.replicate (64 - key.length) 0 := by
    have : 64 - key.length = (64 - (key.length + 1)) + 1 := by omega
    rw [List.length_append, List.length_singleton, List.append_assoc, this, List.replicate_succ]
    rfl
  simp only [Sha256.hmac, h1, h2, if_false, hpad]

/-- HMAC depends on its key only through the 64-byte block -/
theorem hmac_of_block (a b msg : Bytes) (h : hmacKeyBlock a = hmacKeyBlock b) :
    Sha256.hmac a msg = Sha256.hmac b msg := by
  unfold hmacKeyBlock at h
  unfold Sha256.hmac
  dsimp only at h ⊢
  rw [h]

/-- keys of one length not above the block size have different blocks -/
theorem hmacKeyBlock_inj_same_len (a b : Bytes) (hl : a.length = b.length) (h64 : a.length ≤ 64)
    (h : hmacKeyBlock a = hmacKeyBlock b) : a = b := by
  have ha : ¬ a.length > 64 := by omega
  have hb : ¬ b.length > 64 := by omega
  simp only [hmacKeyBlock, ha, hb, if_false] at h
  exact (List.append_inj h hl).1

theorem hmacKeyBlock_short (a : Bytes) (h64 : a.length ≤ 64) :
    hmacKeyBlock a = a ++ List.replicate (64 - a.length) 0 := by
  have ha : ¬ a.length > 64 := by omega
  simp only [hmacKeyBlock, ha, if_false]

/-! ## `u64` little-endian bytes, `ChannelId` constructors -/

theorem le64_eq (n : Nat) : le64 n =
    [UInt8.ofNat (n % 256), UInt8.ofNat ((n >>> 8) % 256), UInt8.ofNat ((n >>> 16) % 256),
     UInt8.ofNat ((n >>> 24) % 256), UInt8.ofNat ((n >>> 32) % 256), UInt8.ofNat ((n >>> 40) % 256),
     UInt8.ofNat ((n >>> 48) % 256), UInt8.ofNat ((n >>> 56) % 256)] := by
  have : List.range 8 = [0, 1, 2, 3, 4, 5, 6, 7] := by decide
  simp [le64, this]

theorem le64_length (n : Nat) : (le64 n).length = 8 := by simp [le64]

theorem le64Val_le64 (n : Nat) (h : n < 2 ^ 64) : le64Val (le64 n) = n := by
  have hb : ∀ x : Nat, (UInt8.ofNat (x % 256)).toNat = x % 256 := by
    intro x
    simp [UInt8.toNat_ofNat']
  rw [le64_eq]
  simp only [le64Val, List.foldr, hb, Nat.shiftRight_eq_div_pow]
  omega

theorem le64_inj (a b : Nat) (ha : a < 2 ^ 64) (hb : b < 2 ^ 64) (h : le64 a = le64 b) : a = b := by
  rw [← le64Val_le64 a ha, ← le64Val_le64 b hb, h]

theorem le64_zero : le64 0 = List.replicate 8 0 := by decide

theorem chanIdOid_of_suffix (pre : Bytes) (o : Nat) (ho : o < 2 ^ 64) :
    chanIdOid (pre ++ le64 o) = some o := by
  have hlen : (pre ++ le64 o).length = pre.length + 8 := by simp [le64_length]
  have h8 : ¬ (pre ++ le64 o).length < 8 := by omega
  have hd : (pre ++ le64 o).drop ((pre ++ le64 o).length - 8) = le64 o := by
    rw [hlen, Nat.add_sub_cancel]
    exact List.drop_left
  simp only [chanIdOid, h8, if_false, hd, le64Val_le64 o ho]

end VlsModel.Keys
