import VlsModel.Model.Payments
import VlsModel.Gen.FnEnforcePay
import VlsModel.Lemmas.PaymentsFn
/-
Lemmas for the ties of `EnforcementState::{summarize_payments, payments_summary, incoming_payments_summary}`
(generated: `Gen/FnEnforcePay.lean`) to the payments model (`sumFor`, `sumsOkL`, `outVal`, `inVal`, `keys`); the
theorems are restated in `Props/C06Fn.lean`.  The generated maps are association lists over the payment hash (order not
represented); everything is stated through `Rs.omapGet`.
-/
namespace VlsModel.Payments.FnS
open VlsModel VlsModel.Payments VlsModel.Payments.Fn
open VlsModel.Gen.FnEnforcePay

abbrev GH := HTLCInfo2 (PaymentHash := Nat)

/-- the generated HTLC record of a model HTLC (the payment hash is the hash index; `cltv_expiry` is not read) -/
def gh (x : Htlc) : GH := { value_sat := x.value, payment_hash := x.hash }
def gl (l : List Htlc) : List GH := l.map gh

/-- value of a summary map at `h`, 0 when absent -/
def mval (m : List (Nat × Nat)) (h : Nat) : Nat := (Rs.omapGet m h).getD 0

/-- one iteration of `summarize_payments`: `entry(hash).and_modify(|e| *e += value).or_insert(value)` -/
def stepS (m : List (Nat × Nat)) (x : GH) : Rs.M (List (Nat × Nat)) :=
  match Rs.omapGet m x.payment_hash with
  | some e => Rs.uadd Rs.U64_MAX e x.value_sat >>= fun t => pure (Rs.omapInsert m x.payment_hash t)
  | none => pure (Rs.omapInsert m x.payment_hash x.value_sat)

theorem mem_hashes_cons (x : Htlc) (xs : List Htlc) (h : Hash) :
    h ∈ hashes (x :: xs) ↔ h = x.hash ∨ h ∈ hashes xs := by
  simp [hashes]

/-- all totals `old + Σ` of the hashes of `l` fit into `u64` -/
def fits (m : List (Nat × Nat)) (l : List Htlc) : Prop := ∀ h, h ∈ hashes l → mval m h + sumFor l h ≤ U64.MAX

theorem mval_insert (m : List (Nat × Nat)) (k v h : Nat) :
    mval (Rs.omapInsert m k v) h = if h = k then v else mval m h := by
  unfold mval
  rw [omapGet_insert]
  by_cases hk : h = k <;> simp [hk]

theorem sumFor_cons (x : Htlc) (xs : List Htlc) (h : Hash) :
    sumFor (x :: xs) h = (if h = x.hash then x.value else 0) + sumFor xs h := by
  simp only [sumFor]
  by_cases hk : h = x.hash
  · simp [hk]
  · have : ¬ x.hash = h := fun e => hk e.symm
    simp [hk, this]

theorem fold_summarize : ∀ (l : List Htlc) (m0 : List (Nat × Nat)), (∀ y ∈ l, y.value ≤ U64.MAX) →
    (fits m0 l → ∃ m, List.foldlM stepS m0 (gl l) = Except.ok m ∧
        ∀ h, Rs.omapGet m h = if h ∈ hashes l then some (mval m0 h + sumFor l h) else Rs.omapGet m0 h) ∧
    (¬ fits m0 l → List.foldlM stepS m0 (gl l) = Except.error .overflow) := by
  intro l
  induction l with
  | nil =>
    intro m0 _
    refine ⟨fun _ => ⟨m0, rfl, fun h => by simp [hashes]⟩, fun hn => ?_⟩
    exact absurd (fun h hm => by simp [hashes] at hm) hn
  | cons x xs ih =>
    intro m0 hv
    have e : Rs.U64_MAX = U64.MAX := rfl
    have hvx : x.value ≤ U64.MAX := hv x (List.mem_cons_self ..)
    have hvxs : ∀ y ∈ xs, y.value ≤ U64.MAX := fun y hy => hv y (List.mem_cons_of_mem _ hy)
    have hfold : List.foldlM stepS m0 (gl (x :: xs)) = stepS m0 (gh x) >>= fun m => List.foldlM stepS m (gl xs) := by
      simp [gl, List.foldlM_cons]
    by_cases c1 : mval m0 x.hash + x.value ≤ U64.MAX
    · -- the first step succeeds
      have hstep : stepS m0 (gh x) = Except.ok (Rs.omapInsert m0 x.hash (mval m0 x.hash + x.value)) := by
        unfold stepS
        simp only [gh]
        unfold mval at c1 ⊢
        cases hg : Rs.omapGet m0 x.hash with
        | none => simp
        | some v =>
          simp only [hg, Option.getD_some] at c1 ⊢
          have : v + x.value ≤ Rs.U64_MAX := by rw [e]; exact c1
          simp [uadd_ok this]
      have hB : ∀ h, mval (Rs.omapInsert m0 x.hash (mval m0 x.hash + x.value)) h + sumFor xs h
                  = mval m0 h + sumFor (x :: xs) h := by
        intro h
        rw [mval_insert, sumFor_cons]
        by_cases hk : h = x.hash
        · simp [hk]; omega
        · simp [hk]
      obtain ⟨ih1, ih2⟩ := ih (Rs.omapInsert m0 x.hash (mval m0 x.hash + x.value)) hvxs
      rw [hfold, hstep, Rs.bind_ok]
      constructor
      · intro hf
        have hf1 : fits (Rs.omapInsert m0 x.hash (mval m0 x.hash + x.value)) xs := by
          intro h hm
          rw [hB]
          exact hf h ((mem_hashes_cons x xs h).mpr (Or.inr hm))
        obtain ⟨m, hm1, hm2⟩ := ih1 hf1
        refine ⟨m, hm1, fun h => ?_⟩
        rw [hm2 h]
        by_cases hx : h ∈ hashes xs
        · have : h ∈ hashes (x :: xs) := (mem_hashes_cons x xs h).mpr (Or.inr hx)
          simp [hx, this, hB]
        · by_cases hk : h = x.hash
          · subst hk
            have hin : x.hash ∈ hashes (x :: xs) := (mem_hashes_cons x xs x.hash).mpr (Or.inl rfl)
            have hz : sumFor xs x.hash = 0 := sumFor_of_not_mem hx
            simp [hx, hin, omapGet_insert, sumFor_cons, hz]
          · have : h ∉ hashes (x :: xs) := fun hm => by
              rcases (mem_hashes_cons x xs h).mp hm with h1 | h1
              · exact hk h1
              · exact hx h1
            simp [hx, this, omapGet_insert, hk]
      · intro hnf
        apply ih2
        intro hf1
        apply hnf
        intro h hm
        rcases (mem_hashes_cons x xs h).mp hm with h1 | h1
        · by_cases hx : h ∈ hashes xs
          · rw [← hB]; exact hf1 h hx
          · have hz : sumFor xs h = 0 := sumFor_of_not_mem hx
            rw [sumFor_cons, hz, h1]
            simp
            exact c1
        · rw [← hB]; exact hf1 h h1
    · -- the first `+=` overflows
      have hstep : stepS m0 (gh x) = Except.error .overflow := by
        unfold stepS
        simp only [gh]
        unfold mval at c1
        cases hg : Rs.omapGet m0 x.hash with
        | none =>
          simp only [hg, Option.getD_none, Nat.zero_add] at c1
          exact absurd hvx c1
        | some v =>
          simp only [hg, Option.getD_some] at c1 ⊢
          have : ¬ v + x.value ≤ Rs.U64_MAX := by rw [e]; exact c1
          simp [uadd_ov this]
      rw [hfold, hstep, Rs.bind_err]
      constructor
      · intro hf
        exfalso
        have := hf x.hash ((mem_hashes_cons x xs x.hash).mpr (Or.inl rfl))
        rw [sumFor_cons] at this
        simp at this
        omega
      · intro _; rfl

theorem foldlM_congr {σ β : Type} (F G : σ → β → Rs.M σ) (h : ∀ a x, F a x = G a x) :
    ∀ (l : List β) (a : σ), List.foldlM F a l = List.foldlM G a l := by
  intro l
  induction l with
  | nil => intro a; rfl
  | cons x xs ih => intro a; simp only [List.foldlM_cons, h, ih]

theorem summarize_eq (l : List GH) : EnforcementState.summarize_payments l = List.foldlM stepS [] l := by
  unfold EnforcementState.summarize_payments
  rw [foldlM_congr _ stepS (by
    intro a x
    unfold stepS
    cases Rs.omapGet a x.payment_hash <;> simp)]

theorem fits_nil_iff (l : List Htlc) : fits [] l ↔ sumsOkL l = true := by
  unfold fits sumsOkL mval
  simp [Rs.omapGet, List.all_eq_true]

/-- `summarize_payments` = `sumFor` per hash (absent for a hash that does not occur), overflow exactly when the model's
    `sumsOkL` fails; `hv`: the values are `u64` -/
theorem summarize_payments_main (l : List Htlc) (hv : ∀ y ∈ l, y.value ≤ U64.MAX) :
    (sumsOkL l = true → ∃ m, EnforcementState.summarize_payments (gl l) = Except.ok m ∧
        ∀ h, Rs.omapGet m h = if h ∈ hashes l then some (sumFor l h) else none) ∧
    (sumsOkL l = false → EnforcementState.summarize_payments (gl l) = Except.error .overflow) := by
  rw [summarize_eq]
  obtain ⟨h1, h2⟩ := fold_summarize l [] hv
  constructor
  · intro hs
    obtain ⟨m, hm1, hm2⟩ := h1 ((fits_nil_iff l).mpr hs)
    refine ⟨m, hm1, fun h => ?_⟩
    rw [hm2 h]
    simp [mval, Rs.omapGet]
  · intro hs
    apply h2
    intro hf
    rw [(fits_nil_iff l).mp hf] at hs
    cases hs

/-! ### `payments_summary` -/

/-- distinct keys -/
def NoDupK : List (Nat × Nat) → Prop
  | [] => True
  | (k, _) :: r => Rs.omapGet r k = none ∧ NoDupK r

theorem NoDupK_insert (m : List (Nat × Nat)) (k v : Nat) (h : NoDupK m) : NoDupK (Rs.omapInsert m k v) := by
  induction m with
  | nil => exact ⟨rfl, trivial⟩
  | cons e m ih =>
    obtain ⟨k0, v0⟩ := e
    obtain ⟨h2, h3⟩ := h
    simp only [Rs.omapInsert]
    by_cases hk0 : k0 = k
    · simp only [hk0, if_true]
      subst hk0
      exact ⟨h2, h3⟩
    · simp only [hk0, if_false]
      refine ⟨?_, ih h3⟩
      rw [omapGet_insert]
      simp [hk0, h2]

theorem stepS_nodup (m : List (Nat × Nat)) (x : GH) (m' : List (Nat × Nat)) (h : NoDupK m)
    (hs : stepS m x = Except.ok m') : NoDupK m' := by
  unfold stepS at hs
  cases hg : Rs.omapGet m x.payment_hash with
  | none =>
    simp only [hg] at hs
    cases hs
    exact NoDupK_insert _ _ _ h
  | some e =>
    simp only [hg] at hs
    by_cases c : e + x.value_sat ≤ Rs.U64_MAX
    · rw [uadd_ok c] at hs
      cases hs
      exact NoDupK_insert _ _ _ h
    · rw [uadd_ov c] at hs
      cases hs

theorem fold_nodup : ∀ (l : List GH) (m0 m : List (Nat × Nat)), NoDupK m0 →
    List.foldlM stepS m0 l = Except.ok m → NoDupK m := by
  intro l
  induction l with
  | nil => intro m0 m h hs; cases hs; exact h
  | cons x xs ih =>
    intro m0 m h hs
    rw [List.foldlM_cons] at hs
    cases h1 : stepS m0 x with
    | error e => rw [h1] at hs; cases hs
    | ok m1 =>
      rw [h1, Rs.bind_ok] at hs
      exact ih m1 m (stepS_nodup m0 x m1 h h1) hs

/-- `summary.entry(k).and_modify(|e| *e = f(*e, v)).or_insert(v)` -/
def upsert (f : Nat → Nat → Nat) (m : List (Nat × Nat)) (kv : Nat × Nat) : List (Nat × Nat) :=
  match Rs.omapGet m kv.1 with
  | some e => Rs.omapInsert m kv.1 (f e kv.2)
  | none => Rs.omapInsert m kv.1 kv.2

theorem fold_upsert (f : Nat → Nat → Nat) : ∀ (cs : List (Nat × Nat)) (m0 : List (Nat × Nat)), NoDupK cs →
    ∀ h, Rs.omapGet (List.foldl (upsert f) m0 cs) h =
      match Rs.omapGet cs h with
      | some v => some (match Rs.omapGet m0 h with | some e => f e v | none => v)
      | none => Rs.omapGet m0 h := by
  intro cs
  induction cs with
  | nil => intro m0 _ h; rfl
  | cons kv rest ih =>
    intro m0 hnd h
    obtain ⟨k, v⟩ := kv
    obtain ⟨hk0, hrest⟩ := hnd
    rw [List.foldl_cons, ih _ hrest h]
    have hm1 : Rs.omapGet (upsert f m0 (k, v)) h
        = if h = k then some (match Rs.omapGet m0 k with | some e => f e v | none => v) else Rs.omapGet m0 h := by
      unfold upsert
      cases hg : Rs.omapGet m0 k <;> simp [omapGet_insert]
    simp only [Rs.omapGet]
    by_cases hh : k = h
    · subst hh
      simp [hk0, hm1]
    · have hh' : ¬ h = k := fun e => hh e.symm
      simp [hh, hh', hm1]

/-- `summary.entry(hash).or_insert(0)` for every HTLC of a list -/
def zeroIns (m : List (Nat × Nat)) (x : GH) : List (Nat × Nat) :=
  match Rs.omapGet m x.payment_hash with
  | some _ => m
  | none => Rs.omapInsert m x.payment_hash 0

theorem fold_zero : ∀ (l : List Htlc) (m0 : List (Nat × Nat)) (h : Nat),
    Rs.omapGet (List.foldl zeroIns m0 (gl l)) h =
      match Rs.omapGet m0 h with
      | some v => some v
      | none => if h ∈ hashes l then some 0 else none := by
  intro l
  induction l with
  | nil => intro m0 h; simp [gl, hashes]; cases Rs.omapGet m0 h <;> rfl
  | cons x xs ih =>
    intro m0 h
    have : gl (x :: xs) = gh x :: gl xs := rfl
    rw [this, List.foldl_cons, ih]
    have hm1 : Rs.omapGet (zeroIns m0 (gh x)) h
        = match Rs.omapGet m0 h with | some v => some v | none => if h = x.hash then some 0 else none := by
      unfold zeroIns
      simp only [gh]
      cases hg : Rs.omapGet m0 x.hash with
      | some v0 =>
        simp only []
        cases hg2 : Rs.omapGet m0 h with
        | some v => rfl
        | none =>
          by_cases hk : h = x.hash
          · rw [hk, hg] at hg2; cases hg2
          · simp [hk]
      | none =>
        simp only [omapGet_insert]
        by_cases hk : h = x.hash
        · simp [hk, hg]
        · simp [hk]; cases Rs.omapGet m0 h <;> rfl
    rw [hm1]
    cases hg : Rs.omapGet m0 h with
    | some v => rfl
    | none =>
      simp only [mem_hashes_cons]
      by_cases hk : h = x.hash
      · simp [hk]
      · simp [hk]

abbrev GCI := CommitmentInfo2 (PaymentHash := Nat)
abbrev GES := EnforcementState (PaymentHash := Nat)

theorem foldlM_pure' {σ β : Type} (F : σ → β → Rs.M σ) (g : σ → β → σ) (h : ∀ a x, F a x = pure (g a x)) :
    ∀ (l : List β) (a : σ), List.foldlM F a l = pure (List.foldl g a l) := by
  intro l
  induction l with
  | nil => intro a; rfl
  | cons x xs ih => intro a; simp only [List.foldlM_cons, List.foldl_cons, h, Rs.pure_eq, Rs.bind_ok]; exact ih _

/-- a commitment info with the given offered / received HTLC lists (only these two fields are read) -/
def mkCI (off rcv : List Htlc) : GCI := { offered_htlcs := gl off, received_htlcs := gl rcv }

/-- value of `payments_summary` at `h` for effective lists `ho` (holder offered), `cr` (counterparty received) and the
    current lists `hco`, `ccr` -/
def outSpec (ho cr hco ccr : List Htlc) (h : Nat) : Option Nat :=
  if h ∈ hashes ho ∨ h ∈ hashes cr ∨ h ∈ hashes hco ∨ h ∈ hashes ccr then some (max (sumFor ho h) (sumFor cr h)) else none

theorem out_core (ho cr hco ccr : List Htlc) (hs cs : List (Nat × Nat)) (hcs : NoDupK cs)
    (h1 : ∀ h, Rs.omapGet hs h = if h ∈ hashes ho then some (sumFor ho h) else none)
    (h2 : ∀ h, Rs.omapGet cs h = if h ∈ hashes cr then some (sumFor cr h) else none) (h : Nat) :
    Rs.omapGet (List.foldl zeroIns (List.foldl zeroIns (List.foldl (upsert max) hs cs) (gl hco)) (gl ccr)) h
      = outSpec ho cr hco ccr h := by
  rw [fold_zero, fold_zero, fold_upsert max cs hs hcs h, h1, h2]
  unfold outSpec
  by_cases a1 : h ∈ hashes ho <;> by_cases a2 : h ∈ hashes cr <;> by_cases a3 : h ∈ hashes hco <;>
    by_cases a4 : h ∈ hashes ccr <;>
    simp [a1, a2, a3, a4, sumFor_of_not_mem]

theorem or_map {α β : Type} (f : α → β) (o : Option α) (c : α) :
    (o.map f).or (some (f c)) = some (f (o.getD c)) := by cases o <;> rfl

def ciOf (p : List Htlc × List Htlc) : GCI := mkCI p.1 p.2

/-- the enforcement state of a channel whose current holder / counterparty commitments list `curH` / `curC`
    (offered, received) -/
def esOf (curH curC : List Htlc × List Htlc) : GES :=
  { current_holder_commit_info := some (ciOf curH), current_counterparty_commit_info := some (ciOf curC) }

theorem summarize_spec (l : List Htlc) (hv : ∀ y ∈ l, y.value ≤ U64.MAX) (hs : sumsOkL l = true) :
    ∃ m, EnforcementState.summarize_payments (gl l) = Except.ok m ∧ NoDupK m ∧
      ∀ h, Rs.omapGet m h = if h ∈ hashes l then some (sumFor l h) else none := by
  obtain ⟨m, e, sp⟩ := (summarize_payments_main l hv).1 hs
  refine ⟨m, e, ?_, sp⟩
  rw [summarize_eq] at e
  exact fold_nodup (gl l) [] m trivial e

/-- `payments_summary(new_holder_tx, new_counterparty_tx)`: per hash the max of the two effective views
    (`outVal`), keys = the hashes of the effective views and of the current commitments; overflow exactly when one of
    the two summaries overflows -/
theorem payments_summary_main (curH curC : List Htlc × List Htlc) (newH newC : Option (List Htlc × List Htlc))
    (hv1 : ∀ y ∈ (newH.getD curH).1, y.value ≤ U64.MAX) (hv2 : ∀ y ∈ (newC.getD curC).2, y.value ≤ U64.MAX) :
    (sumsOkL (newH.getD curH).1 = true → sumsOkL (newC.getD curC).2 = true →
      ∃ m, (esOf curH curC).payments_summary (newH.map ciOf) (newC.map ciOf) = Except.ok m ∧
        ∀ h, Rs.omapGet m h = outSpec (newH.getD curH).1 (newC.getD curC).2 curH.1 curC.2 h) ∧
    (sumsOkL (newH.getD curH).1 = false ∨ sumsOkL (newC.getD curC).2 = false →
      (esOf curH curC).payments_summary (newH.map ciOf) (newC.map ciOf) = Except.error .overflow) := by
  unfold EnforcementState.payments_summary esOf
  simp only [or_map]
  constructor
  · intro s1 s2
    obtain ⟨hs, e1, _, sp1⟩ := summarize_spec _ hv1 s1
    obtain ⟨cs, e2, nd2, sp2⟩ := summarize_spec _ hv2 s2
    simp only [ciOf, mkCI, Option.map_some, e1, e2, Rs.bind_ok, Rs.pure_eq, Option.getD_some]
    rw [foldlM_pure' _ (upsert max) (by
      intro a x
      obtain ⟨k, v⟩ := x
      unfold upsert
      cases hg : Rs.omapGet a k <;> simp [hg])]
    simp only [Rs.pure_eq, Rs.bind_ok]
    rw [foldlM_pure' _ zeroIns (by
      intro a x
      unfold zeroIns
      cases hg : Rs.omapGet a x.payment_hash <;> simp [hg])]
    simp only [Rs.pure_eq, Rs.bind_ok]
    rw [foldlM_pure' _ zeroIns (by
      intro a x
      unfold zeroIns
      cases hg : Rs.omapGet a x.payment_hash <;> simp [hg])]
    exact ⟨_, rfl, fun h => out_core _ _ _ _ hs cs nd2 sp1 sp2 h⟩
  · intro hor
    cases s1 : sumsOkL (newH.getD curH).1 with
    | false =>
      have e1 := (summarize_payments_main _ hv1).2 s1
      simp only [ciOf, mkCI, Option.map_some, e1, Rs.bind_err]
    | true =>
      have s2 : sumsOkL (newC.getD curC).2 = false := by
        rcases hor with h | h
        · rw [s1] at h; cases h
        · exact h
      obtain ⟨hs, e1, _, _⟩ := summarize_spec _ hv1 s1
      have e2 := (summarize_payments_main _ hv2).2 s2
      simp only [ciOf, mkCI, Option.map_some, e1, e2, Rs.bind_ok, Rs.bind_err, Rs.pure_eq]

/-! ### `incoming_payments_summary` -/

theorem omapGet_filter (p : Nat → Bool) : ∀ (m : List (Nat × Nat)) (h : Nat),
    Rs.omapGet (m.filter (fun kv => p kv.1)) h = if p h then Rs.omapGet m h else none := by
  intro m
  induction m with
  | nil => intro h; simp [Rs.omapGet]
  | cons kv rest ih =>
    intro h
    obtain ⟨k, v⟩ := kv
    by_cases hp : p k = true
    · simp only [List.filter_cons, hp, if_true, Rs.omapGet, ih]
      by_cases hk : k = h
      · subst hk; simp [hp]
      · simp [hk]
    · have hp' : p k = false := by simpa using hp
      simp only [List.filter_cons, hp', Bool.false_eq_true, if_false, ih, Rs.omapGet]
      by_cases hk : k = h
      · subst hk; simp [hp']
      · simp [hk]

/-- `summary.entry(k).and_modify(|e| *e = f(*e, v))` (no insertion) -/
def modify (f : Nat → Nat → Nat) (m : List (Nat × Nat)) (kv : Nat × Nat) : List (Nat × Nat) :=
  match Rs.omapGet m kv.1 with
  | some e => Rs.omapInsert m kv.1 (f e kv.2)
  | none => m

theorem fold_modify (f : Nat → Nat → Nat) : ∀ (cs : List (Nat × Nat)) (m0 : List (Nat × Nat)), NoDupK cs →
    ∀ h, Rs.omapGet (List.foldl (modify f) m0 cs) h =
      match Rs.omapGet m0 h with
      | some e => some (match Rs.omapGet cs h with | some v => f e v | none => e)
      | none => none := by
  intro cs
  induction cs with
  | nil => intro m0 _ h; simp [Rs.omapGet]; cases Rs.omapGet m0 h <;> rfl
  | cons kv rest ih =>
    intro m0 hnd h
    obtain ⟨k, v⟩ := kv
    obtain ⟨hk0, hrest⟩ := hnd
    rw [List.foldl_cons, ih _ hrest h]
    have hm1 : Rs.omapGet (modify f m0 (k, v)) h
        = if h = k then (match Rs.omapGet m0 k with | some e => some (f e v) | none => none) else Rs.omapGet m0 h := by
      unfold modify
      cases hg : Rs.omapGet m0 k with
      | none =>
        by_cases hh : h = k
        · simp [hh, hg]
        · simp [hh]
      | some e => simp [omapGet_insert]
    rw [hm1]
    simp only [Rs.omapGet]
    by_cases hh : k = h
    · subst hh
      simp only [if_true, hk0]
      cases Rs.omapGet m0 k <;> rfl
    · have hh' : ¬ h = k := fun e => hh e.symm
      simp [hh, hh']

def inSpec (hr co hcr cco : List Htlc) (h : Nat) : Option Nat :=
  if (h ∈ hashes hr ∧ h ∈ hashes co) ∨ h ∈ hashes hcr ∨ h ∈ hashes cco then some (min (sumFor hr h) (sumFor co h)) else none

theorem in_core (hr co hcr cco : List Htlc) (hs cs : List (Nat × Nat)) (hcs : NoDupK cs)
    (h1 : ∀ h, Rs.omapGet hs h = if h ∈ hashes hr then some (sumFor hr h) else none)
    (h2 : ∀ h, Rs.omapGet cs h = if h ∈ hashes co then some (sumFor co h) else none) (h : Nat) :
    Rs.omapGet (List.foldl zeroIns (List.foldl zeroIns
        (List.foldl (modify min) (hs.filter (fun kv => (Rs.omapGet cs kv.1).isSome)) cs) (gl hcr)) (gl cco)) h
      = inSpec hr co hcr cco h := by
  rw [fold_zero, fold_zero, fold_modify min cs _ hcs h, omapGet_filter (fun k => (Rs.omapGet cs k).isSome), h1, h2]
  unfold inSpec
  by_cases a1 : h ∈ hashes hr <;> by_cases a2 : h ∈ hashes co <;> by_cases a3 : h ∈ hashes hcr <;>
    by_cases a4 : h ∈ hashes cco <;>
    simp [a1, a2, a3, a4, sumFor_of_not_mem]

/-- `incoming_payments_summary(new_holder_tx, new_counterparty_tx)`: per hash the min of the two effective views
    (`inVal`), keys = the hashes present in BOTH effective views plus the hashes of the current commitments -/
theorem incoming_payments_summary_main (curH curC : List Htlc × List Htlc)
    (newH newC : Option (List Htlc × List Htlc))
    (hv1 : ∀ y ∈ (newH.getD curH).2, y.value ≤ U64.MAX) (hv2 : ∀ y ∈ (newC.getD curC).1, y.value ≤ U64.MAX) :
    (sumsOkL (newH.getD curH).2 = true → sumsOkL (newC.getD curC).1 = true →
      ∃ m, (esOf curH curC).incoming_payments_summary (newH.map ciOf) (newC.map ciOf) = Except.ok m ∧
        ∀ h, Rs.omapGet m h = inSpec (newH.getD curH).2 (newC.getD curC).1 curH.2 curC.1 h) ∧
    (sumsOkL (newH.getD curH).2 = false ∨ sumsOkL (newC.getD curC).1 = false →
      (esOf curH curC).incoming_payments_summary (newH.map ciOf) (newC.map ciOf) = Except.error .overflow) := by
  unfold EnforcementState.incoming_payments_summary esOf
  simp only [or_map]
  constructor
  · intro s1 s2
    obtain ⟨hs, e1, _, sp1⟩ := summarize_spec _ hv1 s1
    obtain ⟨cs, e2, nd2, sp2⟩ := summarize_spec _ hv2 s2
    simp only [ciOf, mkCI, Option.map_some, e1, e2, Rs.bind_ok, Rs.pure_eq, Option.getD_some]
    rw [foldlM_pure' _ (modify min) (by
      intro a x
      obtain ⟨k, v⟩ := x
      unfold modify
      cases hg : Rs.omapGet a k <;> simp [hg])]
    simp only [Rs.pure_eq, Rs.bind_ok]
    rw [foldlM_pure' _ zeroIns (by
      intro a x
      unfold zeroIns
      cases hg : Rs.omapGet a x.payment_hash <;> simp [hg])]
    simp only [Rs.pure_eq, Rs.bind_ok]
    rw [foldlM_pure' _ zeroIns (by
      intro a x
      unfold zeroIns
      cases hg : Rs.omapGet a x.payment_hash <;> simp [hg])]
    exact ⟨_, rfl, fun h => in_core _ _ _ _ hs cs nd2 sp1 sp2 h⟩
  · intro hor
    cases s1 : sumsOkL (newH.getD curH).2 with
    | false =>
      have e1 := (summarize_payments_main _ hv1).2 s1
      simp only [ciOf, mkCI, Option.map_some, e1, Rs.bind_err]
    | true =>
      have s2 : sumsOkL (newC.getD curC).1 = false := by
        rcases hor with h | h
        · rw [s1] at h; cases h
        · exact h
      obtain ⟨hs, e1, _, _⟩ := summarize_spec _ hv1 s1
      have e2 := (summarize_payments_main _ hv2).2 s2
      simp only [ciOf, mkCI, Option.map_some, e1, e2, Rs.bind_ok, Rs.bind_err, Rs.pure_eq]

end VlsModel.Payments.FnS
