import VlsModel.Model.Wallet
import VlsModel.Gen.FnNodeWallet
import VlsModel.Lemmas.FnGen
/-
`impl Wallet for Node` (vls-core/src/node.rs) as regenerated into `Gen/FnNodeWallet.lean`, proved equal to
`Model/Wallet.lean`.  Shared by Props/C08Fn.lean (which restates the two main theorems under the names the target
list asks for) and Props/C09Fn.lean (composition with the generated sweep validators).
-/
namespace VlsModel.Wallet.Fn
open VlsModel VlsModel.Wallet
open VlsModel.Gen.FnNodeWallet (Node)

abbrev GAllowable := Gen.FnNodeWallet.Allowable Script Nat Nat

def toGenAllow : Wallet.Allowable → GAllowable
  | .script s => .Script s
  | .xpub j => .XPub j
  | .payee n => .Payee n

def toNode (style : Style) (allow : List Wallet.Allowable) : Node Style Script Nat Nat :=
  { node_config := { key_derivation_style := style }, state := { allowlist := allow.map toGenAllow } }

def xpubChildE : Nat → List Nat → Option Key := fun j p => if p.any hardened then none else some (xpubKey j p)

/-- **`Node::can_spend` = `Wallet.canSpend`** (`Err` = the `invalid_argument` of `get_wallet_privkey`) -/
theorem can_spend_eq (style : Style) (allow : List Wallet.Allowable) (path : List Nat) (s : Script) :
    Node.can_spend (ext_len := List.length) (ext_get_key_path_len := Style.keyPathLen)
        (ext_account_privkey_at := fun p => Key.account p) (ext_pubkey_of := fun k => k)
        (ext_addr_p2wpkh := fun k => Script.addr .p2wpkh k) (ext_addr_p2shwpkh := fun k => Script.addr .p2shwpkh k)
        (ext_addr_p2tr := fun k => Script.addr .p2tr k) (ext_script_pubkey := fun a => a)
        (toNode style allow) path s
      = match canSpend style path s with
        | some b => .ok b
        | none => .error (.err "invalid-argument") := by
  unfold Node.can_spend Gen.FnNodeWallet.Node.get_wallet_pubkey Gen.FnNodeWallet.Node.get_wallet_privkey canSpend walletKey?
  by_cases hp : path.length = 0
  · simp [hp]
  · simp only [hp, beq_iff_eq, if_false, toNode]
    cases hk : style.keyPathLen with
    | none => simp [hk, Rs.unwrap, bind, Except.bind, pure, Except.pure]
    | some n =>
      by_cases hl : path.length = n
      · simp [hk, hl, Rs.unwrap, bind, Except.bind, pure, Except.pure]
      · simp [hk, hl, Rs.unwrap, Rs.fail, bind, Except.bind, pure, Except.pure]

theorem contains_toGen (allow : List Wallet.Allowable) (s : Script) :
    (allow.map toGenAllow).contains (Gen.FnNodeWallet.Allowable.Script s) = allow.contains (.script s) := by
  induction allow with
  | nil => rfl
  | cons a rest ih =>
    have ha : (Gen.FnNodeWallet.Allowable.Script s == toGenAllow a) = (Wallet.Allowable.script s == a) := by
      cases a <;> simp only [toGenAllow] <;> rw [Bool.eq_iff_iff] <;> simp [beq_iff_eq]
    simp only [List.map_cons, List.contains_cons, ha, ih]

/-- one iteration of the xpub loop, written out -/
def stepA (path : List Nat) (s : Script) : Wallet.Allowable → Rs.M (Rs.Flow Unit Bool)
  | .xpub j =>
    if path.any hardened then Rs.panic
    else if s = .addr .p2wpkh (xpubKey j path) ∨ s = .addr .p2pkh (xpubKey j path) ∨ s = .addr .p2tr (xpubKey j path)
      then pure (.ret true)
    else pure (.next ())
  | _ => pure (.next ())

/-- the xpub loop of `allowlist_contains` (with its early `return true`) = `Wallet.xpubLoop`, for every list -/
theorem loop_toGen (path : List Nat) (s : Script) (f : Unit → GAllowable → Rs.M (Rs.Flow Unit Bool))
    (hf : ∀ a, f () (toGenAllow a) = stepA path s a) (allow : List Wallet.Allowable) :
    Rs.loopM (ρ := Bool) (allow.map toGenAllow) () f
      = match xpubLoop path s allow with
        | .yes => pure (.inr true)
        | .no => pure (.inl ())
        | .panic => Rs.panic := by
  induction allow with
  | nil => simp [Rs.loopM, xpubLoop]
  | cons a rest ih =>
    simp only [List.map_cons, Rs.loopM, hf]
    cases a with
    | script t => simpa [stepA, xpubLoop] using ih
    | payee n => simpa [stepA, xpubLoop] using ih
    | xpub j =>
      unfold stepA xpubLoop
      by_cases hh : path.any hardened = true
      · simp [hh, Rs.panic, bind, Except.bind]
      · have hh' : path.any hardened = false := by simpa using hh
        simp only [hh', Bool.false_eq_true, if_false]
        by_cases hm : s = .addr .p2wpkh (xpubKey j path) ∨ s = .addr .p2pkh (xpubKey j path) ∨ s = .addr .p2tr (xpubKey j path)
        · have : (s == Script.addr .p2wpkh (xpubKey j path) || s == Script.addr .p2pkh (xpubKey j path) ||
              s == Script.addr .p2tr (xpubKey j path)) = true := by
            simpa [Bool.or_eq_true, beq_iff_eq, or_assoc] using hm
          simp [hm, this, bind, Except.bind, pure, Except.pure]
        · have hm' := hm
          simp only [not_or] at hm'
          have : (s == Script.addr .p2wpkh (xpubKey j path) || s == Script.addr .p2pkh (xpubKey j path) ||
              s == Script.addr .p2tr (xpubKey j path)) = false := by
            simp [Bool.or_eq_false_iff, hm'.1, hm'.2.1, hm'.2.2]
          simp only [hm, if_false, this, Bool.false_eq_true, Rs.pure_eq, Rs.bind_ok]
          exact ih

/-- **`Node::allowlist_contains` = `Wallet.allowlistContains`**, for every allowlist in every order -/
theorem allowlist_contains_eq (style : Style) (allow : List Wallet.Allowable) (path : List Nat) (s : Script) :
    Node.allowlist_contains (ext_is_empty := List.isEmpty) (ext_xpub_child := xpubChildE)
        (ext_addr_p2wpkh := fun k => Script.addr .p2wpkh k) (ext_script_pubkey := fun a => a)
        (ext_addr_p2pkh := fun k => Script.addr .p2pkh k) (ext_addr_p2tr := fun k => Script.addr .p2tr k)
        (toNode style allow) s path
      = match allowlistContains allow s path with
        | .yes => .ok true
        | .no => .ok false
        | .panic => .error .panic := by
  unfold Node.allowlist_contains allowlistContains
  simp only [toNode, contains_toGen]
  cases hc : allow.contains (Wallet.Allowable.script s) with
  | true => simp
  | false =>
    simp only [Bool.false_eq_true, if_false]
    cases hp : path.isEmpty with
    | true => simp
    | false =>
      simp only [Bool.false_eq_true, if_false]
      rw [loop_toGen path s _ ?hf]
      case hf =>
        intro a
        cases a with
        | script t => simp [toGenAllow, stepA]
        | payee n => simp [toGenAllow, stepA]
        | xpub j =>
          simp only [toGenAllow, stepA, xpubChildE]
          by_cases hh : path.any hardened = true
          · simp [hh, Rs.unwrap, Rs.panic, bind, Except.bind]
          · have hh' : path.any hardened = false := by simpa using hh
            simp only [hh', Bool.false_eq_true, if_false, Rs.unwrap, Rs.pure_eq, Rs.bind_ok, beq_iff_eq]
            by_cases h1 : s = Script.addr .p2wpkh (xpubKey j path)
            · simp [h1]
            · by_cases h2 : s = Script.addr .p2pkh (xpubKey j path)
              · simp [h1, h2]
              · by_cases h3 : s = Script.addr .p2tr (xpubKey j path) <;> simp [h1, h2, h3]
      cases hx : xpubLoop path s allow <;> simp [Rs.panic, bind, Except.bind, pure, Except.pure]


end VlsModel.Wallet.Fn
