import VlsModel.Model.Bolt3
/-
Helper lemmas for property C04 (structured BOLT-3 model).
-/
set_option linter.unusedSectionVars false
set_option linter.unusedSimpArgs false
namespace VlsModel.Bolt3
open List

/-! ## insertion sort -/

theorem insertSorted_perm {α} (le : α → α → Bool) (a : α) (l : List α) :
    insertSorted le a l ~ a :: l := by
  induction l with
  | nil => simp [insertSorted]
  | cons b l ih =>
    simp only [insertSorted]
    split
    · exact Perm.refl _
    · exact (Perm.cons b ih).trans (Perm.swap a b l)

theorem isort_perm {α} (le : α → α → Bool) (l : List α) : isort le l ~ l := by
  induction l with
  | nil => simp [isort]
  | cons a l ih => exact (insertSorted_perm le a _).trans (Perm.cons a ih)

theorem insertSorted_pairwise {α} (le : α → α → Bool)
    (trans : ∀ a b c, le a b → le b c → le a c) (total : ∀ a b, le a b || le b a)
    (a : α) (l : List α) (h : l.Pairwise (fun x y => le x y)) :
    (insertSorted le a l).Pairwise (fun x y => le x y) := by
  induction l with
  | nil => simp [insertSorted]
  | cons b l ih =>
    simp only [insertSorted]
    rw [pairwise_cons] at h
    split
    · rename_i hab
      rw [pairwise_cons]
      refine ⟨?_, pairwise_cons.mpr h⟩
      intro x hx
      rcases mem_cons.mp hx with rfl | hx
      · exact hab
      · exact trans _ _ _ hab (h.1 x hx)
    · rename_i hab
      rw [pairwise_cons]
      refine ⟨?_, ih h.2⟩
      intro x hx
      have := (insertSorted_perm le a l).subset hx
      rcases mem_cons.mp this with rfl | hx
      · have t := total x b
        simp only [Bool.or_eq_true] at t
        rcases t with t | t
        · exact absurd t hab
        · exact t
      · exact h.1 x hx

theorem isort_pairwise {α} (le : α → α → Bool)
    (trans : ∀ a b c, le a b → le b c → le a c) (total : ∀ a b, le a b || le b a)
    (l : List α) : (isort le l).Pairwise (fun x y => le x y) := by
  induction l with
  | nil => simp [isort]
  | cons a l ih => exact insertSorted_pairwise le trans total a _ ih

/-- Sorting two permutations of each other gives the same list when ties are identical elements. -/
theorem isort_eq_of_perm {α} (le : α → α → Bool)
    (trans : ∀ a b c, le a b → le b c → le a c) (total : ∀ a b, le a b || le b a)
    {l₁ l₂ : List α} (p : l₁ ~ l₂)
    (antisymm : ∀ a b, a ∈ l₁ → b ∈ l₁ → le a b → le b a → a = b) :
    isort le l₁ = isort le l₂ := by
  apply Perm.eq_of_pairwise (le := fun x y => le x y)
  · intro a b ha hb hab hba
    have ha' := (isort_perm le l₁).subset ha
    have hb' := p.symm.subset ((isort_perm le l₂).subset hb)
    exact antisymm a b ha' hb' hab hba
  · exact isort_pairwise le trans total l₁
  · exact isort_pairwise le trans total l₂
  · exact (isort_perm le l₁).trans (p.trans (isort_perm le l₂).symm)

/-! ## the output comparator -/

theorem Elem.le_trans {H} (okey : Spk H → Nat) (a b c : Elem H) :
    Elem.le okey a b → Elem.le okey b c → Elem.le okey a c := by
  simp only [Elem.le, decide_eq_true_eq]
  omega

theorem Elem.le_total {H} (okey : Spk H → Nat) (a b : Elem H) :
    (Elem.le okey a b || Elem.le okey b a) = true := by
  simp only [Elem.le, Bool.or_eq_true, decide_eq_true_eq]
  omega

theorem Htlc.le_trans (a b c : Htlc) : Htlc.le a b → Htlc.le b c → Htlc.le a c := by
  simp only [Htlc.le, decide_eq_true_eq]
  omega

theorem Htlc.le_total (a b : Htlc) : (Htlc.le a b || Htlc.le b a) = true := by
  simp only [Htlc.le, Bool.or_eq_true, decide_eq_true_eq]
  omega

/-! ## decoder: the per-output step commutes, so decoding is invariant under permutation -/

theorem Info.apply_comm (d : Info) (a b : Role) :
    (d.apply a).bind (fun d' => d'.apply b) = (d.apply b).bind (fun d' => d'.apply a) := by
  cases a <;> cases b <;> simp only [Info.apply] <;>
    (repeat' split) <;> simp_all [Option.bind]

theorem handleOutput_comm {H} [DecidableEq H] (wsh : Script → H) (s : Setup) (k : Keys)
    (z : Option Info) (x y : TxOut H × Option Script) :
    handleOutput wsh s k (handleOutput wsh s k z x) y = handleOutput wsh s k (handleOutput wsh s k z y) x := by
  cases z with
  | none => simp [handleOutput]
  | some d =>
    simp only [handleOutput, Option.bind_some]
    cases hx : classify wsh s k x.1 x.2 with
    | none =>
      simp only [Option.bind_none]
      cases hy : classify wsh s k y.1 y.2 with
      | none => simp
      | some ry =>
        simp only [Option.bind_some]
        cases d.apply ry <;> simp
    | some rx =>
      cases hy : classify wsh s k y.1 y.2 with
      | none =>
        simp only [Option.bind_none, Option.bind_some]
        cases d.apply rx <;> simp
      | some ry =>
        simp only [Option.bind_some]
        exact Info.apply_comm d rx ry

theorem decodeOuts_perm {H} [DecidableEq H] (wsh : Script → H) (s : Setup) (k : Keys)
    {l₁ l₂ : List (TxOut H × Option Script)} (p : l₁ ~ l₂) :
    decodeOuts wsh s k l₁ = decodeOuts wsh s k l₂ := by
  unfold decodeOuts
  exact Perm.foldl_eq' p (fun x _ y _ z => handleOutput_comm wsh s k z x y) _

/-- once an output is not recognised the whole decode fails -/
theorem foldl_handleOutput_none {H} [DecidableEq H] (wsh : Script → H) (s : Setup) (k : Keys)
    (l : List (TxOut H × Option Script)) : l.foldl (handleOutput wsh s k) none = none := by
  induction l with
  | nil => rfl
  | cons a l ih => simpa [handleOutput] using ih

theorem decodeOuts_none_of_mem {H} [DecidableEq H] (wsh : Script → H) (s : Setup) (k : Keys)
    (l : List (TxOut H × Option Script)) (p : TxOut H × Option Script) (hp : p ∈ l)
    (hc : classify wsh s k p.1 p.2 = none) : decodeOuts wsh s k l = none := by
  unfold decodeOuts
  generalize some Info.init = acc
  induction l generalizing acc with
  | nil => cases hp
  | cons a l ih =>
    simp only [foldl_cons]
    rcases mem_cons.mp hp with rfl | hp
    · have : handleOutput wsh s k acc p = none := by
        cases acc <;> simp [handleOutput, hc]
      rw [this]; exact foldl_handleOutput_none wsh s k l
    · exact ih hp _


/-! ## well-formedness and the decoded info of a canonical transaction -/

/-- Decidable well-formedness of (setup, keys, content) under which the decoder recognises every
    canonical output:
    * the decoder's and LDK's notion of "anchors" agree (every type except the deprecated `Anchors`);
    * the negotiated to_self_delay is within the decoder's `MAX_DELAY`;
    * the keys that the decoder parses are curve points, the two funding keys differ;
    * received-HTLC expiries are script numbers (< 2^31; the validator enforces < 500 000 000). -/
def wf (s : Setup) (k : Keys) (c : Content) : Bool :=
  (s.ctype.isAnchors == s.ctype.ldkAnchors) && decide (s.holderDelay ≤ 2016) &&
  k.revocation.ok && k.bDelayed.ok && k.cPayment.ok && k.bFunding.ok && k.cFunding.ok &&
  (k.bFunding != k.cFunding) && c.received.all (fun h => decide (h.cltv < 2 ^ 31))

/-- what `decode_commitment_tx` extracts from the canonical transaction of `c` -/
def canonInfo (s : Setup) (c : Content) : Info :=
  { hasCs := decide (c.toCs > 0), csVal := c.toCs, hasBc := decide (c.toBc > 0), bcVal := c.toBc,
    anchorsB := if s.ctype.ldkAnchors = true ∧ (c.toBc > 0 ∨ ¬ (c.offered ++ c.received) = []) then 1 else 0,
    anchorsC := if s.ctype.ldkAnchors = true ∧ (c.toCs > 0 ∨ ¬ (c.offered ++ c.received) = []) then 1 else 0,
    nOffered := c.offered.length, nReceived := c.received.length }

section
variable {H : Type} [DecidableEq H] (wsh : Script → H)

def pairOf (e : Elem H) : TxOut H × Option Script := (e.out, e.ws)

theorem fold_offered (s : Setup) (k : Keys) (hty : s.ctype.isAnchors = s.ctype.ldkAnchors)
    (hs : List Htlc) (d : Info) :
    (hs.map (fun h => pairOf (htlcElem wsh s k true h))).foldl (handleOutput wsh s k) (some d)
      = some { d with nOffered := d.nOffered + hs.length } := by
  induction hs generalizing d with
  | nil => simp
  | cons h hs ih =>
    simp only [map_cons, foldl_cons, length_cons]
    have : handleOutput wsh s k (some d) (pairOf (htlcElem wsh s k true h))
        = some { d with nOffered := d.nOffered + 1 } := by
      simp [handleOutput, pairOf, htlcElem, htlcScript, classify, hty, Info.apply]
    rw [this, ih]
    simp only [Option.some.injEq, Info.mk.injEq, true_and, and_true]
    omega

theorem fold_received (s : Setup) (k : Keys) (hty : s.ctype.isAnchors = s.ctype.ldkAnchors)
    (hs : List Htlc) (hc : ∀ h ∈ hs, h.cltv < 2 ^ 31) (d : Info) :
    (hs.map (fun h => pairOf (htlcElem wsh s k false h))).foldl (handleOutput wsh s k) (some d)
      = some { d with nReceived := d.nReceived + hs.length } := by
  induction hs generalizing d with
  | nil => simp
  | cons h hs ih =>
    simp only [map_cons, foldl_cons, length_cons]
    have h1 : ¬ ((h.cltv : Int) ≥ SCRIPT_INT_LIMIT) := by
      have := hc h mem_cons_self
      unfold SCRIPT_INT_LIMIT; omega
    have h2 : ¬ ((h.cltv : Int) < 0) := by omega
    have : handleOutput wsh s k (some d) (pairOf (htlcElem wsh s k false h))
        = some { d with nReceived := d.nReceived + 1 } := by
      simp [handleOutput, pairOf, htlcElem, htlcScript, classify, hty, Info.apply, h1, h2]
    rw [this, ih (fun x hx => hc x (mem_cons_of_mem _ hx))]
    simp only [Option.some.injEq, Info.mk.injEq, true_and]
    omega


theorem fold_offered' (s : Setup) (k : Keys) (hty : s.ctype.isAnchors = s.ctype.ldkAnchors)
    (hs : List Htlc) (d : Info) :
    (hs.map (fun h => ((htlcElem wsh s k true h).out, (htlcElem wsh s k true h).ws))).foldl (handleOutput wsh s k) (some d)
      = some { d with nOffered := d.nOffered + hs.length } := fold_offered wsh s k hty hs d

theorem fold_received' (s : Setup) (k : Keys) (hty : s.ctype.isAnchors = s.ctype.ldkAnchors)
    (hs : List Htlc) (hc : ∀ h ∈ hs, h.cltv < 2 ^ 31) (d : Info) :
    (hs.map (fun h => ((htlcElem wsh s k false h).out, (htlcElem wsh s k false h).ws))).foldl (handleOutput wsh s k) (some d)
      = some { d with nReceived := d.nReceived + hs.length } := fold_received wsh s k hty hs hc d

theorem wf_parts {s : Setup} {k : Keys} {c : Content} (h : wf s k c = true) :
    s.ctype.isAnchors = s.ctype.ldkAnchors ∧ s.holderDelay ≤ 2016 ∧
    k.revocation.ok = true ∧ k.bDelayed.ok = true ∧ k.cPayment.ok = true ∧ k.bFunding.ok = true ∧
    k.cFunding.ok = true ∧ k.bFunding ≠ k.cFunding ∧ ∀ h ∈ c.received, h.cltv < 2 ^ 31 := by
  simp only [wf, Bool.and_eq_true, beq_iff_eq, decide_eq_true_eq, bne_iff_ne, ne_eq, all_eq_true] at h
  obtain ⟨⟨⟨⟨⟨⟨⟨⟨h1, h2⟩, h3⟩, h4⟩, h5⟩, h6⟩, h7⟩, h8⟩, h9⟩ := h
  exact ⟨h1, h2, h3, h4, h5, h6, h7, h8, h9⟩

theorem decodeOuts_raw (s : Setup) (k : Keys) (c : Content) (hwf : wf s k c = true) :
    decodeOuts wsh s k ((rawElems wsh s k c).map pairOf) = some (canonInfo s c) := by
  obtain ⟨hty, hd, k1, k2, k3, k4, k5, k6, hc⟩ := wf_parts hwf
  have d1 : ¬ ((s.holderDelay : Int) < 0) := by omega
  have d2 : ¬ ((s.holderDelay : Int) > MAX_DELAY) := by unfold MAX_DELAY; omega
  have k6' : ¬ k.cFunding = k.bFunding := fun h => k6 h.symm
  unfold decodeOuts rawElems
  simp only [map_append, foldl_append]
  by_cases h1 : c.toCs > 0 <;> by_cases h2 : c.toBc > 0 <;> by_cases h3 : s.ctype.ldkAnchors = true <;>
    by_cases h4 : (c.offered ++ c.received) = [] <;>
    simp [h1, h2, h3, h4, handleOutput, classify, toRemoteElem, toLocalElem, toLocalScript, anchorElem, pairOf,
      Info.apply, Info.init, hty, d1, d2, k1, k2, k3, k4, k5, k6', ANCHOR_SAT, map_map, Function.comp_def] <;>
    rw [fold_offered' wsh s k hty, fold_received' wsh s k hty _ hc] <;>
    simp [canonInfo, h1, h2, h3, h4] <;> omega

variable (okey : Spk H → Nat)

theorem decodeOuts_canon (s : Setup) (k : Keys) (c : Content) (hwf : wf s k c = true) :
    decodeOuts wsh s k ((canonElems wsh okey s k c).map pairOf) = some (canonInfo s c) :=
  (decodeOuts_perm wsh s k ((isort_perm _ _).map pairOf)).trans (decodeOuts_raw wsh s k c hwf)

theorem zip_canon (s : Setup) (k : Keys) (c : Content) :
    ((canonElems wsh okey s k c).map (·.out)).zip (canonWs wsh okey s k c)
      = (canonElems wsh okey s k c).map pairOf := by
  unfold canonWs
  rw [zip_map']
  rfl

/-! ## the canonical transaction does not depend on the order in which HTLCs are handed in -/

def spkOf (k : Keys) : Option Script → Spk H
  | some sc => .p2wsh (wsh sc)
  | none => .p2wpkh k.cPayment

def htlcOf (ws : Option Script) (v c h : Nat) : Option (Bool × Htlc) :=
  match ws with
  | some (.htlcOffered ..) => some (true, ⟨v, h, c⟩)
  | some (.htlcReceived ..) => some (false, ⟨v, h, c⟩)
  | _ => none

/-- every element the builder creates is determined by its sort key (given injective `wsh`) -/
def Shaped (k : Keys) (e : Elem H) : Prop :=
  e.out.spk = spkOf wsh k e.ws ∧ e.htlc = htlcOf e.ws e.out.value e.cltv e.hash

theorem rawElems_shaped (s : Setup) (k : Keys) (c : Content) :
    ∀ e ∈ rawElems wsh s k c, Shaped wsh k e := by
  intro e he
  simp only [rawElems, mem_append, mem_map] at he
  rcases he with ((he | he) | he) | (⟨h, _, rfl⟩ | ⟨h, _, rfl⟩)
  · split at he
    · simp only [mem_singleton] at he; subst he
      simp only [toRemoteElem]; split <;> simp [Shaped, spkOf, htlcOf]
    · cases he
  · split at he
    · simp only [mem_singleton] at he; subst he
      simp [Shaped, spkOf, htlcOf, toLocalElem, toLocalScript]
    · cases he
  · split at he
    · simp only [mem_append] at he
      rcases he with he | he <;> split at he <;>
        first
        | (simp only [mem_singleton] at he; subst he; simp [Shaped, spkOf, htlcOf, anchorElem])
        | cases he
    · cases he
  · simp [Shaped, spkOf, htlcOf, htlcElem, htlcScript, Elem.cltv, Elem.hash]
  · simp [Shaped, spkOf, htlcOf, htlcElem, htlcScript, Elem.cltv, Elem.hash]

theorem shaped_antisymm (hw : Function.Injective wsh) (hk : Function.Injective okey) (k : Keys)
    (a b : Elem H) (ha : Shaped wsh k a) (hb : Shaped wsh k b)
    (hab : Elem.le okey a b = true) (hba : Elem.le okey b a = true) : a = b := by
  simp only [Elem.le, decide_eq_true_eq] at hab hba
  have hv : a.out.value = b.out.value := by omega
  have ho : okey a.out.spk = okey b.out.spk := by omega
  have hc : a.cltv = b.cltv := by omega
  have hh : a.hash = b.hash := by omega
  have hs : a.out.spk = b.out.spk := hk ho
  have hws : a.ws = b.ws := by
    have := ha.1.symm.trans (hs.trans hb.1)
    cases h1 : a.ws <;> cases h2 : b.ws <;> simp only [h1, h2, spkOf] at this
    · rfl
    · cases this
    · cases this
    · injection this with this
      rw [hw this]
  have hht : a.htlc = b.htlc := by rw [ha.2, hb.2, hws, hv, hc, hh]
  have hout : a.out = b.out := by
    cases ha' : a.out; cases hb' : b.out
    simp only [ha', hb'] at hv hs
    simp [hv, hs]
  cases a; cases b
  simp_all

theorem nil_iff_of_perm {α} {l₁ l₂ : List α} (p : l₁ ~ l₂) : l₁ = [] ↔ l₂ = [] := by
  constructor
  · intro h; subst h; exact p.nil_eq.symm
  · intro h; subst h; exact p.eq_nil

theorem rawElems_perm (s : Setup) (k : Keys) (c c' : Content)
    (hcs : c'.toCs = c.toCs) (hbc : c'.toBc = c.toBc)
    (ho : c'.offered ~ c.offered) (hr : c'.received ~ c.received) :
    rawElems wsh s k c' ~ rawElems wsh s k c := by
  have hnil : (c'.offered ++ c'.received = []) ↔ (c.offered ++ c.received = []) :=
    nil_iff_of_perm (ho.append hr)
  unfold rawElems
  simp only [hcs, hbc, hnil]
  exact Perm.append_left _ ((ho.map _).append (hr.map _))

theorem canonElems_congr (hw : Function.Injective wsh) (hk : Function.Injective okey)
    (s : Setup) (k : Keys) (c c' : Content)
    (hcs : c'.toCs = c.toCs) (hbc : c'.toBc = c.toBc)
    (ho : c'.offered ~ c.offered) (hr : c'.received ~ c.received) :
    canonElems wsh okey s k c' = canonElems wsh okey s k c := by
  unfold canonElems
  apply isort_eq_of_perm _ (Elem.le_trans okey) (Elem.le_total okey) (rawElems_perm wsh s k c c' hcs hbc ho hr)
  intro a b ha hb
  exact shaped_antisymm wsh okey hw hk k a b (rawElems_shaped wsh s k c' a ha) (rawElems_shaped wsh s k c' b hb)

theorem buildPanics_congr (c c' : Content) (hn : c'.commitNum = c.commitNum)
    (ho : c'.offered ~ c.offered) (hr : c'.received ~ c.received) :
    buildPanics c' = buildPanics c := by
  unfold buildPanics
  rw [hn, (ho.append hr).any_eq]

theorem canon_congr (hw : Function.Injective wsh) (hk : Function.Injective okey)
    (s : Setup) (k : Keys) (c c' : Content) (hn : c'.commitNum = c.commitNum)
    (hcs : c'.toCs = c.toCs) (hbc : c'.toBc = c.toBc)
    (ho : c'.offered ~ c.offered) (hr : c'.received ~ c.received) :
    canon wsh okey s k c' = canon wsh okey s k c ∧ canonWs wsh okey s k c' = canonWs wsh okey s k c := by
  unfold canon canonWs canonLocktime canonSequence obscured
  rw [buildPanics_congr c c' hn ho hr, canonElems_congr wsh okey hw hk s k c c' hcs hbc ho hr, hn]
  exact ⟨rfl, rfl⟩

/-! ## HTLC transactions of the canonical commitment -/

theorem rawElems_htlc (s : Setup) (k : Keys) (c : Content) (e : Elem H) (he : e ∈ rawElems wsh s k c)
    (off : Bool) (h : Htlc) (hh : e.htlc = some (off, h)) :
    e = htlcElem wsh s k off h ∧ h ∈ (if off then c.offered else c.received) := by
  simp only [rawElems, mem_append, mem_map] at he
  rcases he with ((he | he) | he) | (⟨h', hm, rfl⟩ | ⟨h', hm, rfl⟩)
  · split at he
    · simp only [mem_singleton] at he; subst he
      simp only [toRemoteElem] at hh; split at hh <;> cases hh
    · cases he
  · split at he
    · simp only [mem_singleton] at he; subst he; cases hh
    · cases he
  · split at he
    · simp only [mem_append] at he
      rcases he with he | he <;> split at he <;>
        first
        | (simp only [mem_singleton] at he; subst he; cases hh)
        | cases he
    · cases he
  · simp only [htlcElem, Option.some.injEq, Prod.mk.injEq] at hh
    obtain ⟨rfl, rfl⟩ := hh
    exact ⟨rfl, by simpa using hm⟩
  · simp only [htlcElem, Option.some.injEq, Prod.mk.injEq] at hh
    obtain ⟨rfl, rfl⟩ := hh
    exact ⟨rfl, by simpa using hm⟩

theorem htlcTxsAux_length (s : Setup) (k : Keys) (c : Content) (parent : CTx H) (l : List (Elem H)) (i : Nat) :
    (htlcTxsAux s k c parent l i).length = l.countP (fun e => e.htlc.isSome) := by
  induction l generalizing i with
  | nil => simp [htlcTxsAux]
  | cons e l ih =>
    cases he : e.htlc with
    | none => simp [htlcTxsAux, he, ih, countP_cons]
    | some p => obtain ⟨off, h⟩ := p; simp [htlcTxsAux, he, ih, countP_cons]

theorem rawElems_countP (s : Setup) (k : Keys) (c : Content) :
    (rawElems wsh s k c).countP (fun e => e.htlc.isSome) = c.offered.length + c.received.length := by
  have h1 : ∀ (off : Bool) (l : List Htlc),
      (l.map (htlcElem wsh s k off)).countP (fun e => e.htlc.isSome) = l.length := by
    intro off l; induction l <;> simp_all [htlcElem, countP_cons]
  simp only [rawElems, countP_append, h1]
  have z1 : ∀ v, (if c.toCs > 0 then [toRemoteElem wsh s k v] else []).countP (fun e => e.htlc.isSome) = 0 := by
    intro v; split <;> simp [toRemoteElem, countP_cons]; split <;> simp
  have z2 : ∀ v, (if c.toBc > 0 then [toLocalElem wsh s k v] else []).countP (fun e => e.htlc.isSome) = 0 := by
    intro v; split <;> simp [toLocalElem, countP_cons]
  have z3 : ∀ (p : Prop) [Decidable p] (key : Key),
      (if p then [anchorElem wsh key] else ([] : List (Elem H))).countP (fun e => e.htlc.isSome) = 0 := by
    intro p _ key; split <;> simp [anchorElem, countP_cons]
  rw [z1, z2]
  split
  · rw [countP_append, z3, z3]; omega
  · simp

theorem htlcTxsAux_spec (s : Setup) (k : Keys) (c : Content) (parent : CTx H) (l : List (Elem H)) (i : Nat)
    (t : HtlcTx H) (ht : t ∈ htlcTxsAux s k c parent l i) :
    ∃ j e off h, l[j]? = some e ∧ e.htlc = some (off, h) ∧ t.vout = i + j ∧ t.parent = parent ∧
      t.redeem = htlcScript s k off h ∧ t.amount = h.value ∧ t.locktime = (if off then h.cltv else 0) ∧
      t.value = htlcTxValue s c.feerate off h ∧ t.outScript = toLocalScript s k ∧
      t.sequence = (if s.ctype.ldkAnchors then 1 else 0) ∧ t.singleAcp = s.ctype.ldkAnchors := by
  induction l generalizing i with
  | nil => simp [htlcTxsAux] at ht
  | cons e l ih =>
    cases he : e.htlc with
    | none =>
      simp only [htlcTxsAux, he] at ht
      obtain ⟨j, e', off, h, h1, h2, h3, rest⟩ := ih (i + 1) ht
      exact ⟨j + 1, e', off, h, by simpa using h1, h2, by omega, rest⟩
    | some p =>
      obtain ⟨off, h⟩ := p
      simp only [htlcTxsAux, he, mem_cons] at ht
      rcases ht with rfl | ht
      · exact ⟨0, e, off, h, by simp, he, by simp, rfl, rfl, rfl, rfl, rfl, rfl, rfl, rfl⟩
      · obtain ⟨j, e', off', h', h1, h2, h3, rest⟩ := ih (i + 1) ht
        exact ⟨j + 1, e', off', h', by simpa using h1, h2, by omega, rest⟩

end

end VlsModel.Bolt3
