import VlsModel.Model.Sweep
/- Helper lemma for C09: what a successful `recompose` (LDK `build_htlc_transaction`) returns. -/
namespace VlsModel.Sweep
open VlsModel

theorem recompose_some (ct : CommitmentType) (txid vout feerate delay : Nat) (offered : Bool)
    (cltv amountSat r k : Nat) (rtx : HtlcTx)
    (h : recompose ct txid vout feerate delay offered cltv amountSat r k = some rtx) :
    htlcFee ct offered feerate ≤ amountSat ∧
    rtx = { version := 2, locktime := if offered then cltv else 0,
            ins := [{ txid := txid, vout := vout, sequence := if ct.isZeroFee then 1 else 0 }],
            outs := [{ value := amountSat - htlcFee ct offered feerate, script := .revokeable r delay k }] } := by
  unfold recompose at h
  simp only at h
  by_cases hf : amountSat < htlcFee ct offered feerate
  · unfold htlcFee at hf; simp [hf] at h
  · unfold htlcFee at hf ⊢
    simp only [hf, if_false, Option.some.injEq] at h
    exact ⟨Nat.le_of_not_lt hf, h.symm⟩

end VlsModel.Sweep
