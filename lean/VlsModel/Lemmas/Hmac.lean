import VlsModel.Model.Hmac
/- Helper lemmas for property C17: `be64` is injective below 2^64, lengths of the encodings. -/
namespace VlsModel.Hmac
open VlsModel.Sha256 (Bytes)

theorem be64_length (n : Nat) : (be64 n).length = 8 := rfl

theorem ofNat_inj256 {a b : Nat} (h : UInt8.ofNat (a % 256) = UInt8.ofNat (b % 256)) :
    a % 256 = b % 256 := by
  have := congrArg UInt8.toNat h
  simpa [UInt8.toNat_ofNat'] using this

theorem be64_inj {n m : Nat} (hn : n < 18446744073709551616) (hm : m < 18446744073709551616)
    (h : be64 n = be64 m) : n = m := by
  unfold be64 at h
  injection h with h0 h
  injection h with h1 h
  injection h with h2 h
  injection h with h3 h
  injection h with h4 h
  injection h with h5 h
  injection h with h6 h
  injection h with h7 h
  have h0 := ofNat_inj256 h0
  have h1 := ofNat_inj256 h1
  have h2 := ofNat_inj256 h2
  have h3 := ofNat_inj256 h3
  have h4 := ofNat_inj256 h4
  have h5 := ofNat_inj256 h5
  have h6 := ofNat_inj256 h6
  have h7 := ofNat_inj256 h7
  omega

/-- two `field ‖ be64 ‖ rest` strings whose first fields have the same length agree field by field -/
theorem enc3_inj {k k' x x' : Bytes} {v v' : Nat} (hk : k.length = k'.length)
    (hv : v < 18446744073709551616) (hv' : v' < 18446744073709551616)
    (h : k ++ be64 v ++ x = k' ++ be64 v' ++ x') : k = k' ∧ v = v' ∧ x = x' := by
  rw [List.append_assoc, List.append_assoc] at h
  obtain ⟨h1, h2⟩ := List.append_inj h hk
  obtain ⟨h3, h4⟩ := List.append_inj h2 (by simp [be64_length])
  exact ⟨h1, be64_inj hv hv' h3, h4⟩

end VlsModel.Hmac
