import VlsModel.Prim.Rs
import VlsModel.Lemmas.FnGen
/- String-keyed maps of the rs2lean runtime library (`Rs.smapInsert`) stay strictly sorted by key; on a sorted list
   "insert all entries in order" is "look the key up in the list, else in the map" (used for the version cache update
   at the end of `RedbKVVStore::put_batch`, Props/C16Gen.lean). -/
namespace VlsModel.Rs

def SSorted {α : Type} : List (String × α) → Prop
  | [] => True
  | e :: t => (∀ e' ∈ t, e.1 < e'.1) ∧ SSorted t

theorem mem_smapInsert {α : Type} {m : List (String × α)} {k : String} {x : α} {e : String × α}
    (h : e ∈ smapInsert m k x) : e = (k, x) ∨ e ∈ m := by
  induction m with
  | nil => simp [smapInsert] at h; exact Or.inl h
  | cons e0 m ih =>
    obtain ⟨k0, v0⟩ := e0
    simp only [smapInsert] at h
    split at h
    · subst_vars
      simp at h
      rcases h with h | h
      · exact Or.inl h
      · exact Or.inr (by simp [h])
    · split at h
      · simp at h
        rcases h with h | h | h
        · exact Or.inl h
        · exact Or.inr (by simp [h])
        · exact Or.inr (by simp [h])
      · simp at h
        rcases h with h | h
        · exact Or.inr (by simp [h])
        · rcases ih h with h' | h'
          · exact Or.inl h'
          · exact Or.inr (by simp [h'])

theorem ssorted_insert {α : Type} {m : List (String × α)} (k : String) (x : α) (h : SSorted m) :
    SSorted (smapInsert m k x) := by
  induction m with
  | nil => simp [smapInsert, SSorted]
  | cons e0 m ih =>
    obtain ⟨k0, v0⟩ := e0
    obtain ⟨h1, h2⟩ := h
    simp only [smapInsert]
    split
    · subst_vars; exact ⟨h1, h2⟩
    · rename_i hne
      split
      · rename_i hlt
        refine ⟨?_, h1, h2⟩
        intro e' he'
        simp at he'
        rcases he' with rfl | he'
        · exact hlt
        · exact String.lt_trans hlt (h1 e' he')
      · rename_i hnlt
        refine ⟨?_, ih h2⟩
        intro e' he'
        rcases mem_smapInsert he' with rfl | he'
        · exact Std.lt_of_le_of_ne (String.not_lt.mp hnlt) hne
        · exact h1 e' he'

theorem smapGet_none_of_lt {α : Type} {m : List (String × α)} {k : String} (h : ∀ e ∈ m, k < e.1) :
    smapGet m k = none := by
  induction m with
  | nil => rfl
  | cons e0 m ih =>
    obtain ⟨k0, v0⟩ := e0
    simp only [smapGet]
    have h0 := h (k0, v0) (by simp)
    split
    · subst_vars; exact absurd h0 (String.lt_irrefl _)
    · exact ih (fun e he => h e (by simp [he]))

/-- `for (key, value) in staged.into_iter() { m.insert(key, value) }` on a sorted `staged` -/
theorem smapGet_insertAll_sorted {α : Type} (es : List (String × α)) (m : List (String × α)) (k : String)
    (hs : SSorted es) :
    smapGet (es.foldl (fun m e => smapInsert m e.1 e.2) m) k
      = (match smapGet es k with | some a => some a | none => smapGet m k) := by
  induction es generalizing m with
  | nil => rfl
  | cons e es ih =>
    obtain ⟨k0, a0⟩ := e
    obtain ⟨h1, h2⟩ := hs
    rw [List.foldl_cons, ih _ h2]
    simp only [smapGet]
    by_cases hk : k0 = k
    · subst hk
      have : smapGet es k0 = none := smapGet_none_of_lt (fun e he => h1 e he)
      simp [this, smapGet_insert]
    · simp [hk, smapGet_insert]

/-- the same with the inserted value computed from the entry (`versions.insert(key, decode(vv).0)`) -/
theorem smapGet_insertAll_map_sorted {α β : Type} (g : α → β) (es : List (String × α)) (m : List (String × β)) (k : String)
    (hs : SSorted es) :
    smapGet (es.foldl (fun m e => smapInsert m e.1 (g e.2)) m) k
      = (match smapGet es k with | some a => some (g a) | none => smapGet m k) := by
  induction es generalizing m with
  | nil => rfl
  | cons e es ih =>
    obtain ⟨k0, a0⟩ := e
    obtain ⟨h1, h2⟩ := hs
    rw [List.foldl_cons, ih _ h2]
    simp only [smapGet]
    by_cases hk : k0 = k
    · subst hk
      have : smapGet es k0 = none := smapGet_none_of_lt (fun e he => h1 e he)
      simp [this, smapGet_insert]
    · simp [hk, smapGet_insert]

end VlsModel.Rs
