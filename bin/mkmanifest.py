#!/usr/bin/env python3
"""Writes MANIFEST.json from bin/props.py (claimed properties) and the fixed property list."""
import json, os, sys
HERE = os.path.dirname(os.path.abspath(__file__))
sys.path.insert(0, HERE)
import props
VERIF = os.path.dirname(HERE)
ids = [json.loads(l)["id"] for l in open(os.path.join(VERIF, "properties.jsonl"))]
checks, na = [], []
for pid in ids:
    c = props.TABLE.get(pid)
    if c is None or c.get("unclaimed"):
        na.append({"property_id": pid, "reason": (c or {}).get("unclaimed", "check not built yet in this round (planned, see DESIGN.md section 3); not a statement that Lean cannot decide it")})
        continue
    checks.append({
        "property_id": pid,
        "quick_cmd": f"bin/check {pid} --tier quick",
        "thorough_cmd": f"bin/check {pid} --tier thorough",
        "evidence_file": f"/verif/evidence/{pid}.json",
        "replay_cmd_template": f"bin/check {pid} --replay {{path}}",
        "engine": "lean4+correspondence",
        "level_claimed": {
            "category": c.get("level", "proof"),
            "text": c["claim"],
            "design_ref": "DESIGN.md section 3, " + pid,
        },
        "level_note": c["note"],
        "technique": c["technique"],
    })
m = {
    "version": 1,
    "setup_cmd": "bin/setup",
    "hooks": {
        "guard": "vls_verif",
        "enable": "RUSTFLAGS='--cfg vls_verif' (set by bin/check for the checks that need hooks; separate target dir harness/target-hooks)",
        "baseline_off_cmd": "cd /repo && cargo nextest run --workspace --no-fail-fast --tool-config-file pb:/w/lib/nextest.toml --profile pb --test-threads 8 --offline",
        "source_commits": props.HOOK_COMMITS,
        "add_only": False,
    },
    "engines": [
        {"name": "lean4+correspondence", "path": "lean/ (model, theorems, driver), translate/ (Rust source -> Lean tables), harness/ (Rust correspondence + monitors), bin/check",
         "serves_properties": [c["property_id"] for c in checks],
         "kind_free_text": "machine-checked proof in Lean 4 about a model of the code; model tied to the source by a translator (generated tables) and by a differential correspondence check that runs the model's executable definitions and the real implementation on the same operation sequences"}
    ],
    "checks": checks,
    "not_applicable": na,
    "notes": "Defects found and repaired in /repo are listed in known_findings.json ('fixed' entries, suppress nothing). See DESIGN.md.",
}
json.dump(m, open(os.path.join(VERIF, "MANIFEST.json"), "w"), indent=1)
print("claimed", [c["property_id"] for c in checks])
