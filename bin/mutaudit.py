#!/usr/bin/env python3
"""bin/mutaudit.py <mutations.json> [--only NAME]

Guard-by-guard mutation audit.  Each mutation is {name, file, old, new, checks:[Cxx,...]} (exact string
replacement, `old` must occur exactly once).  For each one: apply it to the scratch worktree
/work/me/repo, run the listed checks from the scratch clone /work/me/verif (VERIF_REPO), record the
verdict, undo it.  Writes <mutations>.result.json and prints a table."""
import sys, os, json, subprocess, re
W = "/work/me"
spec = json.load(open(sys.argv[1]))
only = sys.argv[sys.argv.index("--only") + 1] if "--only" in sys.argv else None
def sh(cmd, cwd):
    p = subprocess.run(cmd, cwd=cwd, shell=True, stdout=subprocess.PIPE, stderr=subprocess.STDOUT, text=True)
    return p.returncode, p.stdout
head = subprocess.check_output("git -C /repo rev-parse HEAD", shell=True, text=True).strip()
sh(f"git checkout -q --detach {head} && git checkout -q -- . && git clean -qfd -e target", f"{W}/repo")
sh("git pull -q origin main || (git fetch -q origin && git reset -q --hard origin/main)", f"{W}/verif")
results = []
for m in spec:
    if only and m["name"] != only: continue
    path = f"{W}/repo/{m['file']}"
    src = open(path).read()
    if "edits" in m:
        cur = src; bad = None
        for e in m["edits"]:
            if cur.count(e["old"]) != 1: bad = f"SKIP: edit old occurs {cur.count(e['old'])} times: {e['old'][:40]!r}"; break
            cur = cur.replace(e["old"], e["new"])
        if bad:
            results.append({"name": m["name"], "verdict": bad}); print(results[-1]); continue
        open(path, "w").write(cur)
    elif "line" in m:
        lines = src.split("\n")
        ln = m["line"] - 1
        if m["old"] not in lines[ln]:
            results.append({"name": m["name"], "verdict": f"SKIP: line {m['line']} does not contain old"}); print(results[-1]); continue
        lines[ln] = lines[ln].replace(m["old"], m["new"], 1)
        open(path, "w").write("\n".join(lines))
    else:
        if src.count(m["old"]) != 1:
            results.append({"name": m["name"], "verdict": f"SKIP: old occurs {src.count(m['old'])} times"}); print(results[-1]); continue
        open(path, "w").write(src.replace(m["old"], m["new"]))
    verdicts = []
    for c in m["checks"]:
        rc, out = sh(f"VERIF_REPO={W}/repo bin/check {c}", f"{W}/verif")
        kind = re.search(r"# property \S+ violated on the implementation: (\S+)", open(f"{W}/verif/replays/{c}-quick-1.txt").read()) if rc != 0 and os.path.exists(f"{W}/verif/replays/{c}-quick-1.txt") else None
        line = re.search(r"^(C\d+ quick: .*)$", out, re.M)
        if "harness build against" in out:
            v = "does-not-compile"
        elif rc == 0:
            v = "MISSED"
        elif "no-failing-input-found" in out:
            v = "obligation/correspondence break only"
        else:
            v = "caught: " + (kind.group(1) if kind else "?")
        verdicts.append(f"{c}: {v}")
    open(path, "w").write(src)
    results.append({"name": m["name"], "file": m["file"], "verdict": "; ".join(verdicts)})
    print(results[-1], flush=True)
json.dump(results, open(sys.argv[1].replace(".json", ".result.json"), "w"), indent=1)
