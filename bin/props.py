"""Per-property configuration of bin/check."""

CRYPTO = "secp256k1 / SHA-256 / HMAC are not modelled: signature validity and hash values are inputs computed by the real libraries in the harness"

HOOK_COMMITS = []

TABLE = {
    "C12": {
        "lean_module": "VlsModel.Props.C12",
        "level": "proof",
        "technique": "Lean 4 proof: bucket vector = per-epoch abstraction of the approved log (invariant by induction over request lists incl. restarts) + differential correspondence against VelocityControl and a real Node",
        "claim": "Theorems C12_main / C12_main_any_window / C12_spec / C12_restart / C12_no_panic (Lean 4 kernel-checked, no bound on history length, timestamps, amounts or number of restarts) prove the sliding-window bound for the executable model of VelocityControl::insert with its exact saturating arithmetic; the model is tied to the code by regenerated spec_to_triple constants and by running model and implementation (unit level and a real Node with ManualClock, persister and restore_node) on the same generated request histories with a brute-force window oracle as monitor.",
        "note": "Trusted: Lean kernel (axioms propext, Classical.choice, Quot.sound only), the translator for the constants, the correspondence harness; the hand-written model of velocity.rs is validated by correspondence, not derived from the source. Unlimited controls and changed policy specs are outside the property.",
        "trusted_base": [
            "modelled by hand (not verified from source): VelocityControl::{new*, spec_matches, update_spec, insert, velocity, clear} "
            "and the persist/restore path of NodeState.velocity_control (NodeVC); spec_to_triple constants are regenerated from source",
        ],
        "assumptions": [
            "timestamps handed to insert are non-decreasing (the property's quantifier); the clock source itself is not modelled",
            "limit < u64::MAX (the Unlimited setting is the documented opt-out)",
            "a restart happens under an unchanged policy spec; a changed spec resets the control by design (update_spec)",
        ],
    },
}
