"""Per-property configuration of bin/check: one JSON file per claimed property in bin/propcfg/.

Keys: lean_module, level, technique, claim (MANIFEST level_claimed.text), note (MANIFEST level_note),
trusted_base [..], assumptions [..]; optional: harness (bool, default true), cfg_flag (e.g. "vls_verif"),
bin (harness binary name), timeout {"quick": s, "thorough": s}, unclaimed ("reason": property listed under not_applicable).
"""
import json, os, glob

HOOK_COMMITS = ["c8b93d9", "0289453"]

TABLE = {}
for _p in sorted(glob.glob(os.path.join(os.path.dirname(os.path.abspath(__file__)), "propcfg", "C*.json"))):
    TABLE[os.path.basename(_p)[:-5]] = json.load(open(_p))
