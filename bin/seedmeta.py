#!/usr/bin/env python3
"""Fills `detected_by` / `first_run` in seeded/*/meta.json from the seedtest logs and regenerates the
table of DESIGN.md section 7."""
import json, os, re, glob
V = os.path.dirname(os.path.dirname(os.path.abspath(__file__)))
FIRST = {  # outcome of the FIRST run of the then-current check, before any strengthening
 "C01-1": "missed (generator never produced a short HTLC-signature list)", "C05-1": "missed (no chain-state change between holder validation and counterparty signing)",
 "C07-1": "correspondence break only (no monitor hit)", "C07-2": "missed by C07 (durability is C11's monitor; the C11 simulator lacked the phase-1 close)",
 "C08-1": "correspondence break only", "C08-2": "correspondence break only", "C10-1": "missed (no on-chain signing request in the simulator)",
 "C10-2": "missed (no counterparty with non-chaining secrets)", "C13-1": "missed (no repeated attestations)", "C14-2": "missed (single double-spend tx in the pool)",
 "C15-1": "missed (closes without HTLC sweeps)", "C17-1": "correspondence break only", "C19-2": "missed (no leaf larger than a few hundred bytes)",
 "C20-1": "theorem C20_subtable_acyclic broke, no concrete schedule", "C20-2": "missed (no two-channel payment scenario)",
}
rows = []
for m in sorted(glob.glob(os.path.join(V, "seeded", "*", "meta.json"))):
    name = os.path.basename(os.path.dirname(m))
    d = json.load(open(m))
    pid, k = name.split("-", 1)
    k0 = k.rstrip("b")
    final = f"/tmp/final_{name}.log"
    r2 = k.startswith("r2-")
    if r2:
        kk = k[3:]
        cands = [f"/tmp/r2test_{pid}-{kk}.y.log", f"/tmp/r2test_{pid}-{kk}.log", f"/tmp/r2test_{pid}-{kk}.x.log"]
        log = next((c for c in cands if os.path.exists(c) and "VIOLATION" in open(c).read()), None) or next((c for c in cands if os.path.exists(c)), None)
        first = f"/tmp/r2test_{pid}-{kk}.log"
    else:
        log = f"/tmp/seedtest_{pid}-{k0}.log"
        first = None
    if name in ("C15-2b",): log = None
    det = d.get("detected_by")
    def verdict(path):
        t = open(path).read()
        out = []
        for blk in re.split(r"(?m)^(?==== )", t):
            mchk = re.match(r"=== (C\d+) with", blk)
            if not mchk: continue
            chk = mchk.group(1)
            v = re.search(r"(?m)^VIOLATION[^\n]*", blk)
            line = re.search(r"(?m)^C\d+ quick: [^\n]*", blk)
            kind = re.search(r"# property \S+ violated on the implementation: (\S+)", blk)
            nd = re.search(r"(\d+) correspondence disagreements", line.group(0)).group(1) if line else "?"
            if v:
                nf = "no-failing-input-found" in v.group(0)
                what = ("VIOLATION no-failing-input-found (broken obligation named in the replay file)" if nf
                        else "VIOLATION with concrete replay" + (", monitor kind " + kind.group(1) if kind else ""))
                out.append(f"bin/check {chk}: {what}; {nd} correspondence disagreements")
            else:
                out.append(f"bin/check {chk}: exit 0 (missed)")
        return out
    if os.path.exists(final):
        log = final
    if log and os.path.exists(log):
        vs = verdict(log)
        hits = [v for v in vs if "VIOLATION" in v]
        det = "; ".join(hits) if hits else ("MISSED" if not det else det)
    if r2:
        fr = verdict(first) if os.path.exists(first) else []
        fhit = [v for v in fr if "VIOLATION with concrete replay" in v]
        fnf = [v for v in fr if "no-failing-input-found" in v]
        if os.path.exists(first):   # (round 10) without the log of that run, keep what meta.json recorded
            FIRST[name] = "caught" if fhit else ("no concrete replay (broken obligation only)" if fnf else "missed by the property's own check")
        xl = f"/tmp/r2test_{pid}-{kk}.x.log"
        if os.path.exists(xl) and not fhit:
            xh = [v for v in verdict(xl) if "VIOLATION with concrete replay" in v]
            if xh: FIRST[name] += "; caught by another property's check: " + xh[0].split(":")[0]
    if k[:3] in ("r3-", "r4-", "r5-", "r6-", "r7-", "r8-"):
        fl = os.path.join(V, "notes", "seedlogs", f"{k[:2]}first_{name}.log")
        if os.path.exists(fl):
            fr = verdict(fl)
            fhit = [v for v in fr if "VIOLATION with concrete replay" in v]
            fnf = [v for v in fr if "no-failing-input-found" in v]
            if fr:   # (round 10) a log without a verdict line is a run still in progress
                FIRST[name] = "caught" if fhit else ("no concrete replay (broken obligation only)" if fnf else "missed by the property's own check")
    if name == "C18-r3-2" and False:
        FIRST[name] = "not reported — judged not to violate C18 as stated (no key, point or secret value changes)"
        det = "not reported, by design (see integrator_note in meta.json)"
    if name == "C07-2": det = "bin/check C11: VIOLATION with concrete replay, monitor kind not-durable-at-prepare:mc1 (restore after the phase-1 close request)"
    if name in ("C15-2b", "C11-1b"): det = "bin/check C15: VIOLATION channel-id-reuse; bin/check C11: VIOLATION not-durable-at-prepare:forget (both with concrete replays)"
    d["detected_by"] = det
    # (no log of a first run and nothing recorded earlier: say so instead of defaulting to "caught")
    d["first_run"] = FIRST.get(name) or d.get("first_run") or ("caught" if k[0] != "r" or k[:3] == "r2-" else "not recorded separately (the first run is the builder's re-run in the Final check column)")
    json.dump(d, open(m, "w"), indent=1)
    last = d.get("now_round9") or d.get("now")      # what the check says at the latest re-run recorded by a builder
    fin = (str(last) + (" — " + str(det) if det and str(det) not in str(last) else "")) if last else det
    rows.append(f"| {name} | {(d.get('summary') or '')[:230].replace('|','/')} | {(d.get('needs_to_manifest') or '')[:200].replace('|','/')} | {d['first_run']} | {str(fin).replace('|','/')[:400]} |")
table = ("| Seed | Change | Needs | First run of the check | Final check |\n|------|--------|-------|------------------------|-------------|\n" + "\n".join(rows))
p = os.path.join(V, "DESIGN.md")
s = open(p).read()
i = s.index("## 7. Seeded breaking changes")
head = ("## 7. Seeded breaking changes and the checks that catch them\n\n"
        "Each row is a change written by an independent sub-agent that saw only the property text and a scratch\n"
        "worktree of /repo (nothing from /verif); it compiles, passes the existing suite, and has a demonstration that\n"
        "fails with it and passes without it. Confirmed by `bin/seedconfirm` (demo without/with patch, affected-crate\n"
        "suite with patch) and run against the checks by `bin/seedtest` in a scratch worktree. 'First run' is what the\n"
        "check as it existed then did; every miss was turned into a generator/monitor extension (never a special case\n"
        "for the patch). 'Final check' is what the check says at the latest recorded re-run (`replay:<monitor kind>` = concrete\n"
        "failing input, `break-only` = only a proof obligation / the correspondence / the translator noticed, `missed`). Generated by `bin/seedmeta.py`.\n\n")
s = s[:i] + head + table + "\n"
open(p, "w").write(s)
print(len(rows), "seeds")
