#!/usr/bin/env python3
"""mutation audit driver: apply one mutation to /work/c20/repo, run bin/check C20, record the result"""
import sys, os, re, subprocess, json, time
sys.path.insert(0, os.path.dirname(__file__))
import muts
REPO='/work/c20/repo'; VERIF='/work/c20/verif'
def sh(c, **k): return subprocess.run(c, shell=True, stdout=subprocess.PIPE, stderr=subprocess.STDOUT, text=True, **k)
def reset(): sh(f"git -C {REPO} checkout -q -- . && git -C {REPO} clean -fdq vls-core/src")
def apply(m):
    if m[2]=="PATCH":
        r=sh(f"git -C {REPO} apply {m[3]}"); return r.returncode==0, r.stdout
    if len(m)==4:
        mid,desc,f,subs=m; hdr=None
    else:
        mid,desc,f,hdr,subs=m
    p=os.path.join(REPO,f); s=open(p).read()
    a,b=0,len(s)
    if hdr:
        a=s.index(hdr); b=s.index("\n    }\n",a)+6
    region=s[a:b]
    for old,new in subs:
        if region.count(old)<1: return False, "pattern not found: "+old[:60]
        region=region.replace(old,new,1)
    open(p,'w').write(s[:a]+region+s[b:]); return True,""
def run(m, seed):
    mid=m[0]; reset(); ok,msg=apply(m)
    if not ok: return {"id":mid,"desc":m[1],"status":"not-applied","detail":msg}
    c=sh(f"cd {REPO} && cargo check -p vls-core --offline 2>&1 | grep -E '^error' -A5 | head -12")
    if c.stdout.strip(): return {"id":mid,"desc":m[1],"status":"does-not-compile","detail":c.stdout[:400]}
    t0=time.time()
    r=sh(f"cd {VERIF} && VERIF_REPO={REPO} bin/check C20 --seed {seed}")
    out=r.stdout
    res={"id":mid,"desc":m[1],"exit":r.returncode,"wall":round(time.time()-t0)}
    res["broken"]=re.findall(r"^BROKEN: (.*)$", out, re.M)
    mm=re.search(r"(\d+) correspondence disagreements, (\d+) new violations", out)
    res["disagreements"],res["violations"]=(int(mm.group(1)),int(mm.group(2))) if mm else (None,None)
    lean=re.findall(r"C20\.lean:(\d+):", out)
    res["lean_lines"]=sorted(set(lean))
    rp=os.path.join(VERIF,"replays",f"C20-quick-{seed}.txt")
    if os.path.exists(rp):
        L=open(rp).read().splitlines()
        res["kind"]=L[0].split(": ",1)[-1] if "violated on the implementation" in L[0] else "none(no-failing-input)"
        res["replay"]=[l for l in L if l and not l.startswith("#") and not l.startswith("ev ")][:9]
        res["detail"]=L[1][:260] if len(L)>1 else ""
        os.remove(rp)
    else: res["kind"]="-"
    sh(f"cd {VERIF} && git checkout -q -- lean/VlsModel/Gen/LockTable.lean evidence/C20.json")
    return res
if __name__=="__main__":
    want=sys.argv[1:]
    allm=muts.MUTS+muts.FMUTS
    out=open('/work/c20/audit/results.jsonl','a')
    for k,m in enumerate(allm):
        if m[3] is None and len(m)==4: continue
        if want and m[0] not in want: continue
        r=run(m, 100+k); print(json.dumps(r)); sys.stdout.flush(); out.write(json.dumps(r)+"\n"); out.flush()
    reset()
