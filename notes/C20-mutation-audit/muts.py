N='vls-core/src/node.rs'; C='vls-core/src/channel.rs'; M='vls-core/src/monitor.rs'
MUTS=[
("M01","add_keysend takes the channel map while holding node_state (wrong order)",N,[
 ('''        defer! { trace_node_state!(self.get_state()); }
        let mut state = self.get_state();
        let policy = self.policy();
        if state.invoices.len() >= policy.max_invoices() {
            return Err(failed_precondition(format!(
                "too many invoices ({} >= {})",
                state.invoices.len(),
                policy.max_invoices()
            )));
        }

        if let Some(payment_state) = state.invoices.get(&payment_hash) {''','''        defer! { trace_node_state!(self.get_state()); }
        let mut state = self.get_state();
        let _nchan = self.get_channels().len();
        let policy = self.policy();
        if state.invoices.len() >= policy.max_invoices() {
            return Err(failed_precondition(format!(
                "too many invoices ({} >= {})",
                state.invoices.len(),
                policy.max_invoices()
            )));
        }

        if let Some(payment_state) = state.invoices.get(&payment_hash) {''')]),
("M02","add_allowlist takes the channel map while holding node_state",N,[
 ('''        let mut state = self.get_state();
        for allowable in allowables {
            state.allowlist.insert(allowable);
        }
        self.update_allowlist(&state)?;
        Ok(())''','''        let mut state = self.get_state();
        let _nchan = self.get_channels().len();
        for allowable in allowables {
            state.allowlist.insert(allowable);
        }
        self.update_allowlist(&state)?;
        Ok(())''')]),
("M03","channel_balance takes the tracker while holding the channel map",N,[
 ('''        let channels_lock = self.get_channels();
        for (_, slot_arc) in channels_lock.iter() {
            let slot = slot_arc.lock().unwrap();
            let balance = match &*slot {''','''        let channels_lock = self.get_channels();
        let _height = self.get_tracker().height();
        for (_, slot_arc) in channels_lock.iter() {
            let slot = slot_arc.lock().unwrap();
            let balance = match &*slot {''')]),
("M04","a channel method (sign_holder_commitment_tx_phase2) takes the channel map while holding its slot",C,[
 ('''        let validator = self.validator();
        let info2 = validator
            .get_current_holder_commitment_info(&mut self.enforcement_state, commitment_number)?;

        let htlcs = Self::htlcs_info2_to_oic(&info2.offered_htlcs, &info2.received_htlcs);
        let per_commitment_point = self.get_per_commitment_point(commitment_number)?;

        let build_feerate = if self.setup.is_zero_fee_htlc() { 0 } else { info2.feerate_per_kw };
        let txkeys = self.make_holder_tx_keys(&per_commitment_point);
        // policy-onchain-format-standard''','''        let validator = self.validator();
        let _nchan = self.get_node().get_channels().len();
        let info2 = validator
            .get_current_holder_commitment_info(&mut self.enforcement_state, commitment_number)?;

        let htlcs = Self::htlcs_info2_to_oic(&info2.offered_htlcs, &info2.received_htlcs);
        let per_commitment_point = self.get_per_commitment_point(commitment_number)?;

        let build_feerate = if self.setup.is_zero_fee_htlc() { 0 } else { info2.feerate_per_kw };
        let txkeys = self.make_holder_tx_keys(&per_commitment_point);
        // policy-onchain-format-standard''')]),
("M05","check_onchain_tx takes node_state first and keeps it (node_state -> channels)",N,[
 ('''    ) -> Result<(), ValidationError> {
        let channels_lock = self.get_channels();''','''    ) -> Result<(), ValidationError> {
        let early_state = self.get_state();
        let _hwm = early_state.dbid_high_water_mark;
        let channels_lock = self.get_channels();'''),
 ('''        // be conservative about holding multiple locks, so we don't worry about order
        drop(channels_lock);''','''        // be conservative about holding multiple locks, so we don't worry about order
        drop(channels_lock);
        drop(early_state);''')]),
("M06","get_heartbeat keeps the node_state guard (drop(state) removed) while taking tracker/channels",N,[
 ('''        drop(state); // minimize lock time

        let mut tracker = self.get_tracker();''','''        let mut tracker = self.get_tracker();''')]),
("M07","setup_channel takes node_state first and keeps it across tracker/channels",N,[
 ('''    ) -> Result<Channel, Status> {
        let mut tracker = self.get_tracker();
        let validator = self.validator_factory().make_validator(''','''    ) -> Result<Channel, Status> {
        let early_state = self.get_state();
        let _hwm = early_state.dbid_high_water_mark;
        let mut tracker = self.get_tracker();
        let _ = &early_state;
        let validator = self.validator_factory().make_validator(''')]),
("M08","find_or_create_channel reads the tracker height after taking the channel map (channels -> tracker)",N,[
 ('''        let blockheight = arc_self.get_tracker().height();
        let mut channels = self.get_channels();
        if let Some(dbid) = monotonic_dbid {''','''        let mut channels = self.get_channels();
        let blockheight = arc_self.get_tracker().height();
        if let Some(dbid) = monotonic_dbid {''')]),
("M09","unchecked_sign_onchain_tx takes the channel map before the tracker",N,[
 ('''        let mut tracker = self.get_tracker();
        let channels_lock = self.get_channels();

        // Funding transactions cannot be associated with just a single channel;''','''        let channels_lock = self.get_channels();
        let mut tracker = self.get_tracker();

        // Funding transactions cannot be associated with just a single channel;''')]),
("M10","forget_channel takes node_state first again (node_state -> channels -> slot)",N,[
 ('''        let mut channels = self.get_channels();
        let found = channels.get(channel_id);
        if let Some(slot) = found {''','''        let mut node_state: MutexGuard<'_, NodeState> = self.get_state();
        let mut channels = self.get_channels();
        let found = channels.get(channel_id);
        if let Some(slot) = found {'''),
 ('''            let mut node_state: MutexGuard<'_, NodeState> = self.get_state();
            if channel_id.oid() > node_state.dbid_high_water_mark {''','''            if channel_id.oid() > node_state.dbid_high_water_mark {'''),
 ('''        drop(channels);
        if ready_found {''','''        drop(channels);
        drop(node_state);
        if ready_found {''')]),
("M11","find_or_create_channel keeps the node_state guard of the high-water-mark check alive (node_state -> slot)",N,[
 ('''        if let Some(dbid) = monotonic_dbid {
            // forget_channel raises the mark while it holds the channel map
            if self.get_state().dbid_high_water_mark >= dbid {''','''        let hwm_state = self.get_state();
        if let Some(dbid) = monotonic_dbid {
            // forget_channel raises the mark while it holds the channel map
            if hwm_state.dbid_high_water_mark >= dbid {''')]),
("M12","new_channel checks the high-water mark before taking the channel map (lookup/insert split, F11b reverted)",N,[
 ('''        let channel_id = ChannelId::new_from_peer_id_and_oid(peer_id, dbid);''','''        if self.get_state().dbid_high_water_mark >= dbid {
            return Err(policy_error(
                "policy-channel-original-channel-id-reuse",
                format!("original channel id {} is potentially being reused", dbid),
            )
            .into());
        }
        let channel_id = ChannelId::new_from_peer_id_and_oid(peer_id, dbid);'''),
 ('''self.find_or_create_channel(channel_id, arc_self, Some(dbid))''','''self.find_or_create_channel(channel_id, arc_self, None)''')]),
("M13","with_channel releases the slot in the middle of the request (clone, run, write back)",N,[
 ('''        let slot_arc = self.get_channel(channel_id)?;
        let mut slot = slot_arc.lock().unwrap();
        match &mut *slot {
            ChannelSlot::Stub(_) =>
                Err(invalid_argument(format!("channel not ready: {}", &channel_id))),
            ChannelSlot::Ready(chan) => f(chan),
        }''','''        let slot_arc = self.get_channel(channel_id)?;
        let mut chan = {
            let slot = slot_arc.lock().unwrap();
            match &*slot {
                ChannelSlot::Stub(_) =>
                    return Err(invalid_argument(format!("channel not ready: {}", &channel_id))),
                ChannelSlot::Ready(chan) => chan.clone(),
            }
        };
        let res = f(&mut chan);
        *slot_arc.lock().unwrap() = ChannelSlot::Ready(chan);
        res''')]),
("M14","channel_balance keeps every slot guard, iterating the map in id-descending order",N,[
 ('''        let channels_lock = self.get_channels();
        for (_, slot_arc) in channels_lock.iter() {
            let slot = slot_arc.lock().unwrap();
            let balance = match &*slot {
                ChannelSlot::Ready(chan) => chan.balance(),
                ChannelSlot::Stub(_stub) => ChannelBalance::stub(),
            };
            sum.accumulate(&balance);
        }
        sum''','''        let channels_lock = self.get_channels();
        let mut guards = Vec::new();
        for (_, slot_arc) in channels_lock.iter().rev() {
            let slot = slot_arc.lock().unwrap();
            let balance = match &*slot {
                ChannelSlot::Ready(chan) => chan.balance(),
                ChannelSlot::Stub(_stub) => ChannelBalance::stub(),
            };
            sum.accumulate(&balance);
            guards.push(slot);
        }
        sum''')]),
("M15","forget_channel releases the channel map between finding a stub and removing it",N,[
 ('''        if stub_found {
            channels.remove(&channel_id).unwrap();''','''        drop(channels);
        let mut channels = self.get_channels();
        if stub_found {
            channels.remove(&channel_id).unwrap();''')]),
("M16","add_invoice releases node_state between the existence check and the insert",N,[
 ('''                Err(failed_precondition(
                    "add_invoice: already have a different invoice for same payment_hash",
                ))
            };
        }''','''                Err(failed_precondition(
                    "add_invoice: already have a different invoice for same payment_hash",
                ))
            };
        }
        drop(state);
        let mut state = self.get_state();''')]),
("M17","add_keysend releases node_state between the existence check and the insert",N,[
 ('''                Err(failed_precondition(
                    "add_keysend: already have a different keysend for same payment_hash",
                ))
            };
        }''','''                Err(failed_precondition(
                    "add_keysend: already have a different keysend for same payment_hash",
                ))
            };
        }
        drop(state);
        let mut state = self.get_state();''')]),
("M18","revoke_previous_holder_commitment takes node_state per ledger step (validate / apply split)",C,[
 ('''        let node = self.get_node();
        let mut state = node.get_state();

        let delta =
            self.enforcement_state.claimable_balances(&*state, Some(&info2), None, &self.setup);

        // Other channels may have changed the node's in-flight payments since this
        // commitment was validated, so check the balance again before it becomes current.
        state.validate_payments(''','''        let node = self.get_node();

        let delta = self.enforcement_state.claimable_balances(
            &*node.get_state(),
            Some(&info2),
            None,
            &self.setup,
        );

        // Other channels may have changed the node's in-flight payments since this
        // commitment was validated, so check the balance again before it becomes current.
        node.get_state().validate_payments('''),
 ('''                sigs,
            )?;

        state.apply_payments(
            &self.id0,
            &incoming_payment_summary,
            &outgoing_payment_summary,
            &delta,
            validator,
            Some(&info2),
        );''','''                sigs,
            )?;

        node.get_state().apply_payments(
            &self.id0,
            &incoming_payment_summary,
            &outgoing_payment_summary,
            &delta,
            validator,
            Some(&info2),
        );''')]),
("M25","setup_channel takes the channel map before the tracker and keeps it",N,[
 ('''    ) -> Result<Channel, Status> {
        let mut tracker = self.get_tracker();
        let validator = self.validator_factory().make_validator(''','''    ) -> Result<Channel, Status> {
        let early_channels = self.get_channels();
        let _n = early_channels.len();
        let mut tracker = self.get_tracker();
        drop(early_channels);
        let validator = self.validator_factory().make_validator(''')]),
("M27","Channel::balance takes the tracker while holding slot and node_state",C,None),
("M29","find_or_create_channel releases the channel map between lookup and insert",N,[
 ('''        let channel_value_sat = 0; // Placeholder value, not known yet.
        let keys =
            self.keys_manager.get_channel_keys_with_id(channel_id.clone(), channel_value_sat);
''','''        drop(channels);
        let channel_value_sat = 0; // Placeholder value, not known yet.
        let keys =
            self.keys_manager.get_channel_keys_with_id(channel_id.clone(), channel_value_sat);
        let mut channels = self.get_channels();
''')]),
("M35","chaninfo takes node_state before iterating the slots (node_state -> slot)",N,[
 ('''        // Gather the entries
        self.get_channels()
            .iter()''','''        // Gather the entries
        let _state = self.get_state();
        self.get_channels()
            .iter()''')]),
("S1","seed 1: add_invoice keeps the validator_factory guard, then node_state","PATCH","/tmp/seed/C20-out/1/patch.diff"),
("S2","seed 2: sign_counterparty_commitment_tx_phase2 takes node_state per ledger step","PATCH","/tmp/seed/C20-out/2/patch.diff"),
("R1","round-2 seed 1: setup_channel re-takes tracker/channels after validation","PATCH","/tmp/seed2/C20-out/1/patch.diff"),
("R2","round-2 seed 2: forget_channel keeps the channel map while taking the tracker","PATCH","/tmp/seed2/C20-out/2/patch.diff"),
]

# function-scoped mutations: (id, desc, file, fn header, [(old,new)])
FMUTS=[
("M27","Channel::balance takes the tracker while holding slot and node_state",C,"    pub fn balance(&self) -> ChannelBalance {",[
 ('''        let state = node.get_state();''','''        let state = node.get_state();
        let _height = node.get_tracker().height();''')]),
("M31","validate_holder_commitment_tx_phase2 takes node_state per ledger step (read-only steps: harmless)",C,"    pub fn validate_holder_commitment_tx_phase2(",[
 ('''        let state = node.get_state();
        let delta =
            self.enforcement_state.claimable_balances(&*state, Some(&info2), None, &self.setup);''','''        let delta = self.enforcement_state.claimable_balances(
            &*node.get_state(),
            Some(&info2),
            None,
            &self.setup,
        );'''),
 ('''        state.validate_payments(''','''        node.get_state().validate_payments(''')]),
("M32","sign_counterparty_commitment_tx (phase 1) takes node_state per ledger step",C,"    pub fn sign_counterparty_commitment_tx(",[
 ('''        let mut state = node.get_state();
        let delta =
            self.enforcement_state.claimable_balances(&*state, None, Some(&info2), &self.setup);''','''        let delta = self.enforcement_state.claimable_balances(
            &*node.get_state(),
            None,
            Some(&info2),
            &self.setup,
        );'''),
 ('''        state.validate_payments(''','''        node.get_state().validate_payments('''),
 ('''        state.apply_payments(''','''        node.get_state().apply_payments(''')]),
("M36","CONTROL (harmless): check_onchain_tx keeps the channel map while taking node_state (allowed order)",N,"    pub fn check_onchain_tx(",[
 ('''        // be conservative about holding multiple locks, so we don't worry about order
        drop(channels_lock);
''','''''')]),
("M44","forget_channel raises the high-water mark only after releasing the channel map",N,"    pub fn forget_channel(",[
 ('''            let mut node_state: MutexGuard<'_, NodeState> = self.get_state();
            if channel_id.oid() > node_state.dbid_high_water_mark {
                node_state.dbid_high_water_mark = channel_id.oid();
                self.persister
                    .update_node(&self.get_id(), &node_state)
                    .unwrap_or_else(|err| panic!("could not update node state: {:?}", err));
            }
''','''            raise_mark = true;
'''),
 ('''        let mut stub_found = false;''','''        let mut stub_found = false;
        let mut raise_mark = false;'''),
 ('''        drop(channels);
        if ready_found {''','''        drop(channels);
        if raise_mark {
            let mut node_state: MutexGuard<'_, NodeState> = self.get_state();
            if channel_id.oid() > node_state.dbid_high_water_mark {
                node_state.dbid_high_water_mark = channel_id.oid();
                self.persister
                    .update_node(&self.get_id(), &node_state)
                    .unwrap_or_else(|err| panic!("could not update node state: {:?}", err));
            }
        }
        if ready_found {''')]),
]
