#!/usr/bin/env python3
"""round-8 audit of the C20 additions: one-line slips on the private worktree /work/b20/repo"""
import subprocess, sys, os, re

W = "/work/b20/repo"
V = "/work/b20/va"


def sub(path, old, new, count=1):
    p = os.path.join(W, path)
    s = open(p).read()
    assert old in s, (path, old)
    s = s.replace(old, new, count)
    open(p, "w").write(s)


def m_a1():
    # a ChannelHandler arm keeps the node state guard while it enters with_channel (node_state -> channels/slot)
    sub("vls-protocol-signer/src/handler.rs",
        "            Message::SignLocalCommitmentTx2(m) => {\n                let sig = self.node.with_channel(",
        "            Message::SignLocalCommitmentTx2(m) => {\n                let _state = self.node.get_state();\n                let sig = self.node.with_channel(")


def m_a2():
    subprocess.check_call(["git", "-C", W, "apply", os.path.join(V, "seeded/C20-r5-1/patch.diff")])


def m_a3():
    # a new public function with a lock acquisition that no request program reaches
    sub("vls-core/src/node.rs", "    /// Set the node's validator factory\n",
        "    /// number of channels plus invoices (diagnostics)\n    pub fn debug_counts(&self) -> usize {\n        let st = self.get_state();\n        st.invoices.len() + self.get_channels().len()\n    }\n\n    /// Set the node's validator factory\n")


def m_a4():
    subprocess.check_call(["git", "-C", W, "apply", os.path.join(V, "notes/fixes/F11d-persist-all-lock-order.diff")])


def m_a5():
    # with_channel called with a closure variable instead of a literal
    sub("vls-protocol-signer/src/handler.rs",
        "                let sig = self.node.with_channel(&self.channel_id, |chan| {\n                    chan.sign_holder_commitment_tx_phase2(m.commitment_number)\n                })?;\n                Ok(Box::new(msgs::SignCommitmentTxReply { signature: to_bitcoin_sig(sig) }))\n            }\n            Message::ValidateRevocation",
        "                let n = m.commitment_number;\n                let f = move |chan: &mut Channel| chan.sign_holder_commitment_tx_phase2(n);\n                let sig = self.node.with_channel(&self.channel_id, f)?;\n                Ok(Box::new(msgs::SignCommitmentTxReply { signature: to_bitcoin_sig(sig) }))\n            }\n            Message::ValidateRevocation")


def m_a6():
    # the TipInfo arm reads the chain height through the node while it holds the tracker guard (self-relock)
    sub("vls-protocol-signer/src/handler.rs",
        "                    height: tracker.height(),",
        "                    height: self.node.get_chain_height(),")


def m_a7():
    # GetHeartbeat arm takes the channel map first and keeps it (channels -> node_state -> tracker)
    sub("vls-protocol-signer/src/handler.rs",
        "                let heartbeat = self.node.get_heartbeat();",
        "                let _channels = self.node.get_channels();\n                let heartbeat = self.node.get_heartbeat();")


MUTS = {"A1": m_a1, "A2": m_a2, "A3": m_a3, "A4": m_a4, "A5": m_a5, "A6": m_a6, "A7": m_a7}

for name in sys.argv[1:]:
    subprocess.check_call(["git", "-C", W, "checkout", "-q", "--", "."])
    if name.startswith("seed:"):
        subprocess.check_call(["git", "-C", W, "apply", os.path.join(V, "seeded", name[5:], "patch.diff")])
    else:
        MUTS[name]()
    env = dict(os.environ, VERIF_REPO=W, CARGO_BUILD_JOBS="4", CARGO_NET_OFFLINE="true", VERIF_NO_ESCALATE="1")
    p = subprocess.run(["bin/check", "C20"], cwd=V, env=env, stdout=subprocess.PIPE, stderr=subprocess.STDOUT, text=True, timeout=3000)
    lines = [l for l in p.stdout.splitlines() if re.match(r"^(VIOLATION|KNOWN-FINDING|C20 |BROKEN|   |# property|# )", l)]
    print("=== %s rc=%d" % (name, p.returncode))
    print("\n".join(lines[:40]))
    rp = os.path.join(V, "replays", "C20-quick-1.txt")
    if os.path.exists(rp) and "VIOLATION" in p.stdout:
        print("--- replay")
        print("".join(open(rp).readlines()[:14]))
    sys.stdout.flush()
subprocess.check_call(["git", "-C", W, "checkout", "-q", "--", "."])
