#!/usr/bin/env python3
"""Round 8 (b0809): one-line slips inside the functions that Props/C08Fn.lean / Props/C09Fn.lean tie to generated text.
For each mutation: apply it to a private worktree of /repo, regenerate lean/VlsModel/Gen from that worktree, build the two
companion modules, record which theorem breaks; then restore.  Usage:
    git -C /repo worktree add --detach /work/b0809/repo HEAD
    python3 notes/audit/c0809_fn_muts.py /work/b0809/repo > notes/audit/c0809_fn_muts.result.json
(only the Lean side is exercised here: the point is that the *proof obligation* sees the change; the monitors' view of the
same kinds of slips is in notes/C08-mutation-audit.md / notes/C09-mutation-audit.md)"""
import sys, os, re, json, subprocess

HERE = os.path.dirname(os.path.abspath(__file__))
VERIF = os.path.abspath(os.path.join(HERE, "..", ".."))
SV = "vls-core/src/policy/simple_validator.rs"
TU = "vls-core/src/util/transaction_utils.rs"
CH = "vls-core/src/channel.rs"

MUTS = [
    ("sweep-dest-inverted", SV, "if !spendable && !wallet.allowlist_contains(dest_script, wallet_path) {",
     "if spendable && !wallet.allowlist_contains(dest_script, wallet_path) {"),
    ("sweep-dest-or", SV, "if !spendable && !wallet.allowlist_contains(dest_script, wallet_path) {",
     "if !spendable || !wallet.allowlist_contains(dest_script, wallet_path) {"),
    ("sweep-version-filterable", SV, 'transaction_format_err!(self, "policy-sweep-version", "bad version: {}", tx.version);',
     'policy_err!(self, "policy-sweep-version", "bad version: {}", tx.version);'),
    ("delayed-holder-delay", SV, "if seq != setup.counterparty_selected_contest_delay as u32 {",
     "if seq != setup.holder_selected_contest_delay as u32 {"),
    ("delayed-seq-lt", SV, "if seq != setup.counterparty_selected_contest_delay as u32 {",
     "if seq < setup.counterparty_selected_contest_delay as u32 {"),
    ("max-chain-lag-3", SV, "const MAX_CHAIN_LAG: u32 = 2;", "const MAX_CHAIN_LAG: u32 = 3;"),
    ("cphtlc-locktime-ge", SV, "if tx.lock_time.to_consensus_u32() > cltv_expiry as u32 {",
     "if tx.lock_time.to_consensus_u32() >= cltv_expiry as u32 {"),
    ("cphtlc-cltv-range", SV, "if cltv_expiry < 0 || cltv_expiry > u32::MAX as i64 {", "if cltv_expiry < 0 {"),
    ("anchor-seqs", SV, "const ANCHOR_SEQS: [u32; 1] = [0x_0000_0001];", "const ANCHOR_SEQS: [u32; 2] = [0x_0000_0001, 0x_0000_0000];"),
    ("justice-anchor-table", SV, "let valid_seqs = SimpleValidator::NON_ANCHOR_SEQS.to_vec();\n        if !valid_seqs.contains(&seq) {\n            transaction_format_err!(\n                self,\n                \"policy-sweep-sequence\",\n                \"bad sequence: {} not in {:?}\",\n                seq,\n                valid_seqs\n            );",
     "let valid_seqs = SimpleValidator::ANCHOR_SEQS.to_vec();\n        if !valid_seqs.contains(&seq) {\n            transaction_format_err!(\n                self,\n                \"policy-sweep-sequence\",\n                \"bad sequence: {} not in {:?}\",\n                seq,\n                valid_seqs\n            );"),
    ("htlc-max-ge", SV, "if feerate_per_kw > self.policy.max_feerate_per_kw {", "if feerate_per_kw >= self.policy.max_feerate_per_kw {"),
    ("htlc-min-zero-fee", SV, "if !setup.is_zero_fee_htlc() {\n            if feerate_per_kw < self.policy.min_feerate_per_kw {",
     "if !setup.is_anchors() {\n            if feerate_per_kw < self.policy.min_feerate_per_kw {"),
    ("is-anchors-one-variant", CH, "self.commitment_type == CommitmentType::Anchors\n            || self.commitment_type == CommitmentType::AnchorsZeroFeeHtlc",
     "self.commitment_type == CommitmentType::AnchorsZeroFeeHtlc"),
    ("onchain-push-gt-1", SV, "if push_val_sat > 0 {", "if push_val_sat > 1 {"),
    ("onchain-unknown-index", SV, "unknowns.push(outndx);", "unknowns.push(0);"),
    ("onchain-commit-num-0", SV, "if chan.enforcement_state.next_holder_commit_num != 1 {", "if chan.enforcement_state.next_holder_commit_num == 0 {"),
    ("onchain-inbound-ok", SV, "if !chan.setup.is_outbound {", "if chan.setup.is_outbound {"),
    ("onchain-value-ge", SV, "if output.value.to_sat() != chan.setup.channel_value_sat {", "if output.value.to_sat() < chan.setup.channel_value_sat {"),
    ("onchain-push-not-subtracted", SV, "chan.setup.channel_value_sat.checked_sub(push_val_sat).ok_or_else(", "chan.setup.channel_value_sat.checked_sub(0).ok_or_else("),
    ("onchain-size-ge", SV, "if tx.base_size() > MAX_ONCHAIN_TX_SIZE {", "if tx.base_size() >= MAX_ONCHAIN_TX_SIZE {"),
    ("onchain-malleable-and-or", SV, "if channels.iter().any(|c| c.is_some()) && !is_tx_non_malleable(tx, segwit_flags) {",
     "if channels.iter().all(|c| c.is_some()) && !is_tx_non_malleable(tx, segwit_flags) {"),
    ("onchain-unknown-after-fee", SV, "if unknowns.len() > 0 {\n            return Err(unknown_destinations_error(unknowns));\n        }", "if unknowns.len() > 1 {\n            return Err(unknown_destinations_error(unknowns));\n        }"),
    ("onchain-xpub-credit-twice", SV, "if !spendable {\n                    // Possible output to allowlisted xpub", "if true {\n                    // Possible output to allowlisted xpub"),
    ("non-malleable-any", TU, "segwit_flags.iter().all(|flag| *flag)", "segwit_flags.iter().any(|flag| *flag)"),
    ("non-malleable-no-assert", TU, 'assert_eq!(tx.input.len(), segwit_flags.len(), "tx and segwit_flags must have same length");\n', ""),
    ("beneficial-rate-floor", SV, "let feerate_perkw: u128 = (non_beneficial as u128 * 1000 + 999) / weight as u128;",
     "let feerate_perkw: u128 = (non_beneficial as u128 * 1000) / weight as u128;"),
]


def sh(cmd, cwd):
    r = subprocess.run(cmd, cwd=cwd, stdout=subprocess.PIPE, stderr=subprocess.STDOUT, text=True)
    return r.returncode, r.stdout


def main():
    wt = sys.argv[1]
    gen = os.path.join(VERIF, "lean", "VlsModel", "Gen")
    res = []
    for name, rel, old, new in MUTS:
        path = os.path.join(wt, rel)
        src = open(path).read()
        if src.count(old) != 1:
            res.append({"mutation": name, "applied": False, "why": "pattern occurs %d times" % src.count(old)}); continue
        open(path, "w").write(src.replace(old, new))
        try:
            rc, out = sh([sys.executable, os.path.join(VERIF, "translate", "gen.py"), "--repo", wt, "--out", gen], VERIF)
            ent = {"mutation": name, "applied": True}
            if rc != 0:
                ent.update(verdict="translator raised (fail closed, all properties)", detail=out[-300:])
            else:
                info = json.loads(out.strip().split("\n")[-1])
                nt = [o for p in ("C08", "C09") for o in info.get(p, {}).get("obligations", []) if "NOT TRANSLATED" in o]
                rc2, out2 = sh(["lake", "build", "VlsModel.Props.C08Fn", "VlsModel.Props.C09Fn"], os.path.join(VERIF, "lean"))
                errs = re.findall(r"error: (VlsModel/Props/C0[89]Fn\.lean:\d+)", out2)
                ent.update(not_translated=nt, lake_rc=rc2, broken_at=sorted(set(errs))[:6],
                           verdict="broken obligation" if rc2 != 0 else "NOT DETECTED by the Fn theorems")
            res.append(ent)
        finally:
            open(path, "w").write(src)
    # restore the generated files for the unchanged /repo
    sh([sys.executable, os.path.join(VERIF, "translate", "gen.py"), "--repo", "/repo", "--out", gen], VERIF)
    print(json.dumps(res, indent=1))


if __name__ == "__main__":
    main()
