#!/usr/bin/env python3
"""guard-by-guard mutation audit runner for C18: apply one textual mutation to the private worktree,
run bin/check C18 (quick), classify, revert."""
import subprocess, sys, os, re, json, time
REPO = "/work/c18/repo"
VERIF = "/work/c18/verif"
sys.path.insert(0, "/work/c18/audit")
from muts import MUTS

def sh(cmd, **kw):
    return subprocess.run(cmd, shell=True, stdout=subprocess.PIPE, stderr=subprocess.STDOUT, text=True, **kw)

def run_one(name, edits):
    sh(f"git -C {REPO} checkout -q .")
    for (f, old, new) in edits:
        p = os.path.join(REPO, f)
        s = open(p).read()
        if s.count(old) != 1:
            return {"name": name, "result": f"BAD-MUTATION ({s.count(old)} matches in {f})"}
        open(p, "w").write(s.replace(old, new))
    t0 = time.time()
    r = sh(f"cd {VERIF} && VERIF_REPO={REPO} bin/check C18", timeout=1500)
    out = r.stdout
    res = {"name": name, "exit": r.returncode, "wall": round(time.time() - t0, 1)}
    summ = [l for l in out.splitlines() if l.startswith("C18 quick")]
    res["summary"] = summ[0] if summ else ""
    res["broken"] = [l[8:80] for l in out.splitlines() if l.startswith("BROKEN:")]
    if "harness build against" in out:
        res["result"] = "DOES-NOT-COMPILE"
    elif "VIOLATION" in out and "no-failing-input-found" not in out:
        rp = os.path.join(VERIF, "replays", "C18-quick-1.txt")
        lines = open(rp).read().splitlines()
        kind = lines[0].split(": ")[-1]
        ops = [l.split(" ")[0] + ("" if len(l.split(" ")) < 4 else " " + l.split(" ")[-1][:12]) for l in lines if l and not l.startswith("#") and not l.startswith("case")]
        res["result"] = "CAUGHT-REPLAY"
        res["kind"] = kind
        res["replay"] = "; ".join(ops)
        res["desc"] = lines[1][:200]
    elif "VIOLATION" in out:
        res["result"] = "NO-REPLAY"
    elif r.returncode == 0:
        res["result"] = "MISSED"
    else:
        res["result"] = "?"
    sh(f"git -C {REPO} checkout -q .")
    return res

if __name__ == "__main__":
    sel = sys.argv[1:]
    outp = "/work/c18/audit/results.jsonl"
    for (name, edits, note) in MUTS:
        if sel and name not in sel and not any(name.startswith(s) for s in sel):
            continue
        res = run_one(name, edits)
        res["note"] = note
        print(json.dumps(res), flush=True)
        with open(outp, "a") as fh:
            fh.write(json.dumps(res) + "\n")
