import json,sys
sys.path.insert(0,'/work/c01/audit')
from muts import M
res=json.load(open('/work/c01/audit/results.json'))
rows=[]; stats={'REPLAY':0,'BREAK-ONLY':0,'MISSED':0,'COMPILE':0,'PATTERN':0}
for (mid, props, f, old, new, occ, desc) in M:
    r=res.get(mid)
    if not r: continue
    if r.get('status')=='PATTERN': stats['PATTERN']+=1; continue
    for prop,o in r['props'].items():
        st=o['status']; key='REPLAY' if st.startswith('REPLAY') else st
        stats[key]+=1
        rep=' → '.join(o['replay']) if o.get('replay') else ''
        rows.append(f"| {mid} | {prop} | `{f.split('/')[-1]}` | {desc} | {st.replace('REPLAY:','replay: ')}{' (+%d disagreements)'%o['dis'] if o.get('dis') else ''}{'; '+'; '.join(b[:60] for b in o['broken'] if 'correspondence' not in b) if o.get('broken') else ''} | {rep[:160]} |")
print(stats)
open('/work/c01/audit/table.md','w').write("| id | check | file | mutation | result | replay (shrunk) |\n|---|---|---|---|---|---|\n"+"\n".join(rows)+"\n")
