#!/usr/bin/env python3
"""C11/C12 audit: conversions between NodeState and its persisted form. Writes notes/audit/persistconv.json."""
import json
MD="vls-persist/src/model.rs"; KV="vls-persist/src/kvv.rs"; ND="vls-core/src/node.rs"
M=[]
def m(name,file,checks,old,new): M.append({"name":name,"file":file,"checks":checks,"old":old,"new":new})
m("restore-velocity-swapped",KV,["C12","C11"],"                state_entry.velocity_control.into(),\n                state_entry.fee_velocity_control.into(),","                state_entry.fee_velocity_control.into(),\n                state_entry.velocity_control.into(),")
m("restore-hwm-zero",KV,["C11","C15"],"                state_entry.dbid_high_water_mark.into(),","                0,")
m("store-hwm-not-written",MD,["C11","C15"],"        let dbid_high_water_mark = state.dbid_high_water_mark;","        let dbid_high_water_mark = 0;")
m("store-fee-velocity-from-payment-control",MD,["C12"],"        let fee_velocity_control = state.fee_velocity_control.clone().into();","        let fee_velocity_control = state.velocity_control.clone().into();")
m("store-velocity-fresh",MD,["C12","C11"],"        let velocity_control = state.velocity_control.clone().into();","        let velocity_control = CoreVelocityControl::new_with_intervals(state.velocity_control.limit, state.velocity_control.bucket_interval, state.velocity_control.buckets.len()).into();")
m("store-invoices-first-only",MD,["C11","C06"],"        let invoices = state.invoices.iter().map(|(a, b)| (a.0.to_vec(), b.clone())).collect();","        let invoices = state.invoices.iter().take(1).map(|(a, b)| (a.0.to_vec(), b.clone())).collect();")
m("restore-allowlist-unwrap-empty",KV,["C11","C07"],"                    .unwrap_or(Ok(Vec::new()))\n                    .map_err(|e| Error::SerdeError(format!(\"Invalid allowlist entry: {}\", e)))?;","                    .unwrap_or(Ok(Vec::new()))\n                    .unwrap_or_default();")
m("restore-node-allowlist-skip-first",ND,["C11","C07"],"            .expect(\"missing node allowlist in persistence\")\n            .iter()\n            .map(|e| Allowable::from_str(e, network))","            .expect(\"missing node allowlist in persistence\")\n            .iter()\n            .skip(1)\n            .map(|e| Allowable::from_str(e, network))")
m("restore-excess-nonzero",KV,["C11","C06"],"                state_entry.preimages,\n                0,","                state_entry.preimages,\n                1_000_000,")
json.dump(M,open("notes/audit/persistconv.json","w"),indent=1); print(len(M))
