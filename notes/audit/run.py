#!/usr/bin/env python3
"""Mutation audit driver: run.py <PROP> <repo worktree> <verif copy> <mutations.json> <out.jsonl>"""
import sys, json, subprocess, os, time
prop, repo, vcopy, mfile, outp = sys.argv[1:6]
muts = json.load(open(mfile))
done = set()
if os.path.exists(outp):
    for l in open(outp):
        done.add(json.loads(l)["id"])
H = os.path.join(vcopy, "harness")
def sh(cmd, cwd=None, timeout=1500):
    p = subprocess.run(cmd, cwd=cwd, shell=True, stdout=subprocess.PIPE, stderr=subprocess.STDOUT, text=True, timeout=timeout)
    return p.returncode, p.stdout
for m in muts:
    if m["id"] in done: continue
    sh("git checkout -q .", cwd=repo)
    path = os.path.join(repo, m["file"])
    src = open(path).read()
    n = src.count(m["old"])
    occ = m.get("occ", 0)
    rec = {"id": m["id"], "desc": m["desc"], "file": m["file"]}
    if n == 0 or occ >= n or (n > 1 and "occ" not in m):
        rec["verdict"] = f"NOT-APPLIED (old string found {n} times)"
        open(outp, "a").write(json.dumps(rec) + "\n"); continue
    idx = -1
    for _ in range(occ + 1):
        idx = src.index(m["old"], idx + 1)
    src = src[:idx] + m["new"] + src[idx + len(m["old"]):]
    open(path, "w").write(src)
    t0 = time.time()
    rc, out = sh("cargo build --offline --bin harness > /tmp/audit_build_%s.log 2>&1; rc=$?; grep -E '^error' -A6 /tmp/audit_build_%s.log | head -20; exit $rc" % (prop, prop), cwd=H)
    if rc != 0:
        rec["verdict"] = "DOES-NOT-COMPILE"; rec["detail"] = out[:400]
        open(outp, "a").write(json.dumps(rec) + "\n"); continue
    # translator
    rc, out = sh(f"python3 translate/gen.py --repo {repo} --out /tmp/audit_gen_{prop} > /dev/null 2>/tmp/audit_gen_{prop}.err; echo rc=$?", cwd=vcopy)
    rec["translator"] = "fails-closed" if "rc=0" not in out else "ok"
    if rec["translator"] == "ok":
        rc2, d = sh(f"diff -rq /tmp/audit_gen_{prop} lean/VlsModel/Gen | grep -v 'Only in lean' | head -3", cwd=vcopy)
        if d.strip(): rec["translator"] = "generated-table-changed"
    rj = f"/tmp/audit_{prop}.json"
    if os.path.exists(rj): os.remove(rj)
    try:
        rc, out = sh(f"./target/debug/harness {prop} --model-bin ../lean/.lake/build/bin/vlsmodel --out {rj}", cwd=H, timeout=1500)
    except subprocess.TimeoutExpired:
        rc, out = 124, "timeout"
    if not os.path.exists(rj):
        rec["verdict"] = "HARNESS-CRASH"; rec["detail"] = out[-300:]
    else:
        reps = json.load(open(rj))
        kinds = {}; dis = 0; first = None
        for r in reps:
            dis += len(r["disagreements"])
            for v in r["violations"]:
                kinds[v["kind"]] = kinds.get(v["kind"], 0) + 1
                if first is None: first = {"group": r["extra"]["group"], "kind": v["kind"], "ops": v["ops"], "desc": v["desc"][:200]}
        rec["violations"] = kinds; rec["disagreements"] = dis; rec["replay"] = first
        if kinds: rec["verdict"] = "CAUGHT-REPLAY"
        elif dis or rec["translator"] != "ok": rec["verdict"] = "CAUGHT-BREAK-ONLY"
        else: rec["verdict"] = "MISSED"
        if dis and not kinds:
            for r in reps:
                if r["disagreements"]:
                    d = r["disagreements"][0]; rec["first_disagreement"] = {"ops": d["ops"][-2:], "impl": d["impl_out"][-1:], "model": d["model_out"][-1:]}; break
    rec["wall_s"] = round(time.time() - t0)
    open(outp, "a").write(json.dumps(rec) + "\n")
    print(rec["id"], rec["verdict"], rec.get("violations"), rec.get("disagreements"), rec["wall_s"], flush=True)
sh("git checkout -q .", cwd=repo)
