#!/usr/bin/env python3
"""run.py <verif-dir> <worktree> <results.jsonl> [--dry] [ids...]   apply each mutation, run bin/check, record"""
import sys, os, subprocess, json, re, time
sys.path.insert(0, os.path.dirname(os.path.abspath(__file__)))
import importlib, muts
verif, wt, out = sys.argv[1], sys.argv[2], sys.argv[3]
dry = "--dry" in sys.argv
ids = [a for a in sys.argv[4:] if not a.startswith("--")]
done = set()
if os.path.exists(out) and not dry:
    for l in open(out):
        try: done.add(json.loads(l)["id"])
        except Exception: pass

def sh(cmd, cwd=None, env=None, timeout=3600):
    e = dict(os.environ); e.update(env or {})
    p = subprocess.run(cmd, cwd=cwd, shell=True, stdout=subprocess.PIPE, stderr=subprocess.STDOUT, text=True, env=e, timeout=timeout)
    return p.returncode, p.stdout

for mu in muts.M:
    if ids and mu["id"] not in ids: continue
    if mu["id"] in done: continue
    path = os.path.join(wt, mu["file"])
    sh("git checkout -q .", cwd=wt)
    src = open(path).read()
    n = src.count(mu["old"])
    if n != 1:
        print(mu["id"], "PATTERN", n);
        if not dry:
            open(out, "a").write(json.dumps({"id": mu["id"], "note": mu["note"], "status": "pattern-not-unique:%d" % n}) + "\n")
        continue
    if dry:
        print(mu["id"], "ok"); continue
    open(path, "w").write(src.replace(mu["old"], mu["new"]))
    res = {"id": mu["id"], "note": mu["note"], "file": mu["file"], "checks": {}}
    t0 = time.time()
    for c in mu["checks"]:
        rc, o = sh("bin/check %s" % c, cwd=verif, env={"VERIF_REPO": wt, "VERIF_NO_ESCALATE": "1"})
        kinds = []
        rp = os.path.join(verif, "replays", "%s-quick-1.txt" % c)
        replay = ""
        if os.path.exists(rp):
            replay = open(rp).read()[:1500]
            os.remove(rp)
        m1 = re.search(r"violated on the implementation: (\S+)", replay)
        summ = [l for l in o.splitlines() if re.match(r"^(VIOLATION|KNOWN|C1[345] quick|BROKEN)", l)]
        build_fail = "harness build against" in o or "error[E" in o
        status = ("compile-fail" if build_fail else
                  "caught:" + m1.group(1) if m1 else
                  "broken-only" if rc != 0 else "MISSED")
        res["checks"][c] = {"rc": rc, "status": status, "summary": [s[:200] for s in summ][:4], "replay": replay[:900]}
        print(mu["id"], c, status, "%.0fs" % (time.time() - t0), flush=True)
    open(out, "a").write(json.dumps(res) + "\n")
sh("git checkout -q .", cwd=wt)
