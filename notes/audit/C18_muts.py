DER = "vls-core/src/signer/derive.rs"
KM = "vls-core/src/signer/my_keys_manager.rs"
CU = "vls-core/src/util/crypto_utils.rs"
CH = "vls-core/src/channel.rs"
ND = "vls-core/src/node.rs"
KV = "vls-persist/src/kvv.rs"
PM = "vls-persist/src/model.rs"

NATIVE_SIG_OLD = '''        _seed: &[u8],
        keys_id: &[u8; 32],
        _basepoint_index: u32,
        _master_key: &Xpriv,
        _secp_ctx: &Secp256k1<secp256k1::All>,
    ) -> (SecretKey, SecretKey, SecretKey, SecretKey, SecretKey, [u8; 32]) {
        let hkdf_info = "c-lightning";
        let keys_buf: [u8; 192] = hkdf_sha256_keys(keys_id, hkdf_info.as_bytes(), &[]);

        // unwraps below are safe because the keys_buf is 192 bytes long
        let mut ndx = 0;
        let funding_key'''

MUTS = [
 # ---------------- derive.rs -----------------------------------------------------------------
 ("D01-ldk-keys_id-ignores-id", [(DER,
   '''        let mut res =
            hkdf_sha256(channel_seed_base, "per-peer seed".as_bytes(), channel_id.as_slice());''',
   '''        let mut res =
            hkdf_sha256(channel_seed_base, "per-peer seed".as_bytes(), &channel_id.as_slice()[..0]);''')],
  "LDK keys_id drops the channel id (all LDK channels share keys)"),
 ("D02-keys_id-oid-only", [(DER,
   '''        hkdf_sha256(channel_seed_base, "per-peer seed".as_bytes(), channel_id.as_slice())
    }''',
   '''        let s = channel_id.as_slice();
        hkdf_sha256(channel_seed_base, "per-peer seed".as_bytes(), &s[s.len().saturating_sub(8)..])
    }''')],
  "default keys_id salts with the trailing 8 bytes (dbid) only: same dbid, different peer collide"),
 ("D03-keys_id-peer-only", [(DER,
   '''        hkdf_sha256(channel_seed_base, "per-peer seed".as_bytes(), channel_id.as_slice())
    }''',
   '''        let s = channel_id.as_slice();
        hkdf_sha256(channel_seed_base, "per-peer seed".as_bytes(), &s[..s.len().min(33)])
    }''')],
  "default keys_id salts with the first 33 bytes (peer id) only: same peer, different dbid collide"),
 ("D04-native-keys-from-seed", [(DER, NATIVE_SIG_OLD,
   NATIVE_SIG_OLD.replace("_seed: &[u8]", "seed: &[u8]").replace("hkdf_sha256_keys(keys_id,", "hkdf_sha256_keys(&[seed, &keys_id[..0]].concat(),"))],
  "native channel_keys expands the node seed instead of keys_id"),
 ("D05-native-buffer-overlap", [(DER,
   '''        let funding_key = SecretKey::from_slice(&keys_buf[ndx..ndx + 32]).unwrap();
        ndx += 32;
        let revocation_base_key = SecretKey::from_slice(&keys_buf[ndx..ndx + 32]).unwrap();
        ndx += 32;
        let htlc_base_key''',
   '''        let funding_key = SecretKey::from_slice(&keys_buf[ndx..ndx + 32]).unwrap();
        let revocation_base_key = SecretKey::from_slice(&keys_buf[ndx..ndx + 32]).unwrap();
        ndx += 32;
        ndx += 32;
        let htlc_base_key''')],
  "native: revocation base key = funding key (slice not advanced); keys stay a function of the id"),
 ("D06-ldk-child-index-from-counter", [(DER,
   '''        seed: &[u8],
        keys_id: &[u8; 32],
        _basepoint_index: u32,
        master_key: &Xpriv,''',
   '''        seed: &[u8],
        keys_id: &[u8; 32],
        basepoint_index: u32,
        master_key: &Xpriv,'''), (DER,
   '''&[ChildNumber::from_hardened_idx(chan_id as u32).expect("key space exhausted")],''',
   '''&[ChildNumber::from_hardened_idx(chan_id as u32 ^ (basepoint_index & 1)).expect("key space exhausted")],''')],
  "LDK channel_keys mixes the parity of the lnd counter into the BIP32 child index"),
 ("D07-ldk-unique-start-without-keys_id", [(DER,
   '''        unique_start.input(keys_id);
        unique_start.input(seed);''',
   '''        unique_start.input(&keys_id[..8]);
        unique_start.input(seed);''')],
  "LDK channel seed hashes only the first 8 bytes of keys_id (31 bits of entropy per id)"),
 ("D08-ldk-commitment-seed-from-node-seed", [(DER,
   '''            sha.input(&channel_seed);
            sha.input(&b"commitment seed"[..]);''',
   '''            sha.input(seed);
            sha.input(&b"commitment seed"[..]);''')],
  "LDK commitment seed derived from the node seed: every LDK channel shares its per-commitment secrets"),
 ("D09-dispatch-ldk-to-native", [(DER,
   "KeyDerivationStyle::Ldk => Box::new(LdkKeyDerive { network }),",
   "KeyDerivationStyle::Ldk => Box::new(NativeKeyDerive { network }),")],
  "key_derive dispatches Ldk to the native derivation (stable, but not the LDK keys)"),
 # ---------------- crypto_utils.rs ------------------------------------------------------------
 ("H01-hkdf-first-chunk-t", [(CU, "        if n != 1 {\n            hmac.input(&t);", "        if n == 1 {\n            hmac.input(&t);")],
  "HKDF expand feeds T only into the first chunk (different bytes, still a function of the same inputs)"),
 ("H02-hkdf-ignores-salt", [(CU, "let mut hmac = HmacEngine::<BitcoinSha256>::new(salt);", "let mut hmac = HmacEngine::<BitcoinSha256>::new(&salt[..0]);")],
  "HKDF extract ignores the salt: keys_id no longer depends on the channel id"),
 ("H03-hkdf-no-counter", [(CU, "        hmac.input(&[n]);\n", "        hmac.input(&[n.min(2)]);\n")],
  "HKDF expand caps the chunk counter at 2 (chunks 3..6 still chain through T)"),
 # ---------------- my_keys_manager.rs ---------------------------------------------------------
 ("K01-keys_id-counter-threshold", [(KM,
   "        let keys_id = key_derive.keys_id(channel_id, &self.channel_seed_base);\n",
   "        let mut keys_id = key_derive.keys_id(channel_id, &self.channel_seed_base);\n        if self.lnd_basepoint_index.load(Ordering::Acquire) >= 3 {\n            keys_id[31] ^= 1;\n        }\n")],
  "keys_id flips a bit once the manager has derived three signers (4th channel, or restore of >3 channels)"),
 ("K02-seed-mixes-entropy", [(KM,
   "        InMemorySigner::new(\n            &secp_ctx,\n            funding_key,\n            revocation_base_key,\n            payment_key,",
   "        let mut commitment_seed = commitment_seed;\n        commitment_seed[31] ^= self.get_secure_random_bytes()[0] & 1;\n        InMemorySigner::new(\n            &secp_ctx,\n            funding_key,\n            revocation_base_key,\n            payment_key,")],
  "commitment seed mixes one bit of the manager's entropy stream (starting time + counter)"),
 ("K03-seed-base-mixes-starting-time", [(KM,
   "        let channel_seed_base = key_derive.channels_seed(seed);",
   "        let channel_seed_base = key_derive.channels_seed(&[seed, &byte_utils::be32_to_array((starting_time_secs % 2) as u32)[..]].concat());")],
  "channel seed base depends on the parity of the starting time: keys change on some restarts only"),
 ("K04-signer-args-swapped", [(KM,
   "            payment_key,\n            delayed_payment_base_key,\n            htlc_base_key,\n            commitment_seed,\n            channel_value_sat,\n            keys_id,",
   "            delayed_payment_base_key,\n            payment_key,\n            htlc_base_key,\n            commitment_seed,\n            channel_value_sat,\n            keys_id,")],
  "payment and delayed-payment keys swapped when building the signer (stable, wrong roles)"),
 ("K05-signer-keys_id-zero", [(KM,
   "            channel_value_sat,\n            keys_id,\n            self.get_secure_random_bytes(),",
   "            channel_value_sat,\n            [0u8; 32],\n            self.get_secure_random_bytes(),")],
  "the signer records an all-zero channel_keys_id for every channel"),
 ("K06-value-into-funding-key", [(KM,
   "        InMemorySigner::new(\n            &secp_ctx,\n            funding_key,\n            revocation_base_key,\n            payment_key,",
   "        let funding_key = if channel_value_sat > 10_000_000 { revocation_base_key } else { funding_key };\n        InMemorySigner::new(\n            &secp_ctx,\n            funding_key,\n            revocation_base_key,\n            payment_key,")],
  "channels above 0.1 BTC get another funding key when re-derived with their value (restore only)"),
 # ---------------- channel.rs -----------------------------------------------------------------
 ("C01-stub-point-off-by-one", [(CH,
   "        Ok(self\n            .keys\n            .get_per_commitment_point(INITIAL_COMMITMENT_NUMBER - commitment_number, &self.secp_ctx)",
   "        Ok(self\n            .keys\n            .get_per_commitment_point(INITIAL_COMMITMENT_NUMBER - commitment_number - 1, &self.secp_ctx)")],
  "a stub hands out point n+1 for n (only visible before setup)"),
 ("C02-point-off-by-one-beyond-3", [(CH,
   "    fn get_per_commitment_point_unchecked(&self, commitment_number: u64) -> PublicKey {\n        self.keys\n            .get_per_commitment_point(INITIAL_COMMITMENT_NUMBER - commitment_number, &self.secp_ctx)",
   "    fn get_per_commitment_point_unchecked(&self, commitment_number: u64) -> PublicKey {\n        self.keys\n            .get_per_commitment_point(INITIAL_COMMITMENT_NUMBER - commitment_number - (commitment_number > 3) as u64, &self.secp_ctx)")],
  "points of commitments above 3 are shifted by one"),
 ("C03-secret_or_none-off-by-one", [(CH,
   "                        .keys\n                        .release_commitment_secret(INITIAL_COMMITMENT_NUMBER - commitment_number)",
   "                        .keys\n                        .release_commitment_secret(INITIAL_COMMITMENT_NUMBER - commitment_number + 1)")],
  "get_per_commitment_secret_or_none(n) returns the secret of n-1"),
 ("C04-secret-zero-is-one", [(CH,
   "        let secret = self\n            .keys\n            .release_commitment_secret(INITIAL_COMMITMENT_NUMBER - commitment_number)\n            .unwrap();\n        Ok(SecretKey::from_slice(&secret).unwrap())",
   "        let secret = self\n            .keys\n            .release_commitment_secret(INITIAL_COMMITMENT_NUMBER - commitment_number.max(1))\n            .unwrap();\n        Ok(SecretKey::from_slice(&secret).unwrap())")],
  "get_per_commitment_secret(0) returns the secret of commitment 1"),
 ("C05-secret-guard-relaxed", [(CH,
   "        if commitment_number.checked_add(2).map_or(true, |n| n > next_holder_commit_num) {\n            let validator = self.validator();",
   "        if commitment_number.checked_add(1).map_or(true, |n| n > next_holder_commit_num) {\n            let validator = self.validator();")],
  "get_per_commitment_secret guard relaxed by one (C01/C02 territory: the value for a given number is unchanged)"),
 ("C06-setup-swaps-htlc-payment", [(CH,
   "            keys.payment_key,\n            keys.delayed_payment_base_key,\n            keys.htlc_base_key,",
   "            keys.htlc_base_key,\n            keys.delayed_payment_base_key,\n            keys.payment_key,")],
  "setup copies the stub's payment and htlc keys into each other's slot"),
 ("C07-setup-seed-from-keys-id", [(CH, "            keys.commitment_seed,\n            channel_value_sat,\n            keys.channel_keys_id(),", "            keys.channel_keys_id(),\n            channel_value_sat,\n            keys.channel_keys_id(),")],
  "setup uses the keys id as commitment seed (points of a stub differ from points after setup)"),
 ("C08-release-next-point-plus-2", [(CH, "self.get_per_commitment_point(commitment_number.saturating_add(1))?;\n        let maybe_old_secret", "self.get_per_commitment_point(commitment_number.saturating_add(2))?;\n        let maybe_old_secret")],
  "revocation returns the point of n+2 as next point"),
 ("C09-rerevoke-returns-latest", [(CH,
   "            return Ok(self.release_commitment_secret(new_current_commitment_number)?);",
   "            return Ok(self.release_commitment_secret(\n                new_current_commitment_number.max(self.enforcement_state.next_holder_commit_num.saturating_sub(1)),\n            )?);")],
  "a repeated revocation of an older commitment answers with the latest revocation"),
 ("C10-activate-returns-point-0", [(CH, "        Ok(self.get_per_commitment_point_unchecked(1))\n    }", "        Ok(self.get_per_commitment_point_unchecked(0))\n    }")],
  "activate_initial_commitment returns point 0 instead of point 1"),
 ("C11-channel-basepoints-swapped", [(CH,
   "        self.enforcement_state.set_next_holder_commit_num_for_testing(num);\n    }\n\n    fn get_channel_basepoints(&self) -> ChannelPublicKeys {\n        self.keys.pubkeys().clone()",
   "        self.enforcement_state.set_next_holder_commit_num_for_testing(num);\n    }\n\n    fn get_channel_basepoints(&self) -> ChannelPublicKeys {\n        let mut p = self.keys.pubkeys().clone();\n        core::mem::swap(&mut p.payment_point, &mut p.funding_pubkey);\n        p")],
  "a ready channel reports funding pubkey and payment point swapped"),
 ("C12-stub-point-guard-only-zero", [(CH, "        if ![0, 1].contains(&commitment_number) {", "        if ![0].contains(&commitment_number) {")],
  "stub refuses point 1 (availability only; C18 values unchanged)"),
 # ---------------- node.rs --------------------------------------------------------------------
 ("N01-create-derives-from-peer-part", [(ND,
   "            self.keys_manager.get_channel_keys_with_id(channel_id.clone(), channel_value_sat);",
   "            self.keys_manager.get_channel_keys_with_id(\n                ChannelId::new(&channel_id.as_slice()[..channel_id.as_slice().len().min(33)]),\n                channel_value_sat,\n            );")],
  "creation derives from the peer-id part of the channel id"),
 ("N02-new_channel-truncates-dbid", [(ND, "        let channel_id = ChannelId::new_from_peer_id_and_oid(peer_id, dbid);", "        let channel_id = ChannelId::new_from_peer_id_and_oid(peer_id, dbid as u32 as u64);")],
  "new_channel builds the id from the low 32 bits of dbid: dbid and dbid+2^32 are one channel"),
 ("N03-setup-derives-from-perm-id", [(ND,
   "            let mut keys = stub.channel_keys_with_channel_value(setup.channel_value_sat);\n",
   "            let _ = stub;\n            let mut keys = self.keys_manager.get_channel_keys_with_id(chan_id.clone(), setup.channel_value_sat);\n")],
  "setup re-derives from the permanent id"),
 ("N04-restore-derives-from-perm-id", [(ND,
   "            let mut keys = node.keys_manager.get_channel_keys_with_id(\n                channel_id0.clone(),",
   "            let mut keys = node.keys_manager.get_channel_keys_with_id(\n                channel_id.clone().unwrap_or(channel_id0.clone()),")],
  "restore derives from the permanent id when there is one"),
 ("N05-restore-id0-field-is-perm", [(ND,
   "                        setup,\n                        id0: channel_id0.clone(),\n                        id: channel_id.clone(),",
   "                        setup,\n                        id0: channel_id.clone().unwrap_or(channel_id0.clone()),\n                        id: channel_id.clone(),")],
  "a restored channel carries the permanent id as its id0 (keys right, identity wrong)"),
 ("N06-restore-style-always-native", [(ND,
   "        let key_derivation_style = KeyDerivationStyle::try_from(node_entry.key_derivation_style)\n            .expect(\"bad key derivation in peristence\");",
   "        let key_derivation_style = KeyDerivationStyle::try_from(node_entry.key_derivation_style.min(1))\n            .expect(\"bad key derivation in peristence\");")],
  "restore_node reads every style as Native"),
 ("N07-restore-stub-value-derivation", [(ND,
   "                channel_id0.clone(),\n                channel_entry.channel_value_satoshis,\n            );",
   "                if channel_entry.channel_setup.is_none() { ChannelId::new(&channel_id0.as_slice()[1..]) } else { channel_id0.clone() },\n                channel_entry.channel_value_satoshis,\n            );")],
  "restore derives *stubs* (not ready channels) from a shortened id"),
 # ---------------- vls-persist ----------------------------------------------------------------
 ("P01-update_channel-keyed-by-perm-id", [(KV,
   "        let key = make_key2(CHANNEL_PREFIX, &node_id.serialize(), channel.id0.as_slice());\n\n        let channel_value_satoshis = channel.setup.channel_value_sat;",
   "        let key = make_key2(CHANNEL_PREFIX, &node_id.serialize(), channel.id().as_slice());\n\n        let channel_value_satoshis = channel.setup.channel_value_sat;")],
  "update_channel stores a channel under its permanent id: after a restart it is re-derived from that id"),
 ("P02-get_node_channels-truncates-id", [(KV, "            let channel_id = ChannelId::new(&suffix);", "            let channel_id = ChannelId::new(&suffix[..suffix.len().min(40)]);")],
  "ids longer than 40 bytes lose their last byte when read back (the top byte of the dbid)"),
 ("P03-update_channel-drops-perm-id", [(KV, "            id: channel.id.clone(),\n            enforcement_state: channel.enforcement_state.clone(),", "            id: None,\n            enforcement_state: channel.enforcement_state.clone(),")],
  "the permanent id is not persisted (alias lost after restart; keys unchanged)"),
 ("P04-node-entry-style-plus-one", [(KV, "            key_derivation_style: config.key_derivation_style as u8,\n            network: config.network.to_string(),\n        };\n        let value = F::ser_value(&entry)?;\n        self.put(&key, value)", "            key_derivation_style: (config.key_derivation_style as u8).max(2),\n            network: config.network.to_string(),\n        };\n        let value = F::ser_value(&entry)?;\n        self.put(&key, value)")],
  "a Native node is persisted as Ldk"),
 ("P05-entry-conversion-drops-setup-value", [(PM, "            channel_value_satoshis: e.channel_value_satoshis,\n            channel_setup: e.channel_setup,\n            id: e.id,", "            channel_value_satoshis: e.channel_value_satoshis,\n            channel_setup: e.channel_setup,\n            id: e.id.filter(|i| i.as_slice().len() != 32),")],
  "the persisted→core conversion drops 32-byte permanent ids"),
]

HD = "vls-protocol-signer/src/handler.rs"
SU = "vls-core/src/util/ser_util.rs"
MUTS += [
 # ---------------- round 2 ----------------------------------------------------------------------
 ("R01-guarded-point-clamped-to-next", [(CH, "        Ok(self.get_per_commitment_point_unchecked(commitment_number))",
   "        Ok(self.get_per_commitment_point_unchecked(commitment_number.min(next_holder_commit_num)))")],
  "the guarded get_per_commitment_point answers next+1 with the point of next"),
 ("R02-first-release-one-behind", [(CH, "        self.release_commitment_secret(new_current_commitment_number)\n",
   "        self.release_commitment_secret(new_current_commitment_number.saturating_sub(1).max(1).min(new_current_commitment_number))\n")],
  "the first revocation of N >= 2 answers like the revocation of N-1"),
 ("R03-release-secret-two-behind-for-even", [(CH, "            Some(self.get_per_commitment_secret(commitment_number - 1)?)",
   "            Some(self.get_per_commitment_secret(if commitment_number % 4 == 0 && commitment_number >= 4 { commitment_number - 2 } else { commitment_number - 1 })?)")],
  "every fourth revocation releases the secret of N-2 (needs at least five commitments)"),
 ("R04-restore-takes-three-channels", [(ND, '            persister.get_node_channels(&node_id).expect("channels not found for node")\n',
   '            persister.get_node_channels(&node_id).expect("channels not found for node").into_iter().take(3)\n')],
  "restore re-creates only the first three persisted channels"),
 ("R05-restore-value-zero", [(ND, "                channel_id0.clone(),\n                channel_entry.channel_value_satoshis,\n            );",
   "                channel_id0.clone(),\n                0,\n            );")],
  "restore derives the signer with channel value 0 (no key, point or secret changes: C04 matter)"),
 ("R06-setup-id0-field-is-perm", [(ND, "                id0: channel_id0.clone(),\n                id: opt_channel_id.clone(),", "                id0: chan_id.clone(),\n                id: opt_channel_id.clone(),")],
  "setup_channel stores the permanent id as the channel's id0"),
 ("R07-hkdf-five-chunks", [(CU, "    for chunk in output.chunks_mut(32) {", "    for chunk in output.chunks_mut(32).take(5) {")],
  "HKDF fills only five chunks: the native commitment seed stays all-zero for every channel"),
 ("R08-old-getpoint-secret-n-1", [(HD, "                            Some(base.get_per_commitment_secret(commitment_number - 2)?)", "                            Some(base.get_per_commitment_secret(commitment_number - 1).or_else(|_| base.get_per_commitment_secret(commitment_number - 2))?)")],
  "pre-v6 GetPerCommitmentPoint(n) discloses the secret of n-1 when it is releasable"),
 ("R09-wire-revoke-off-by-one", [(HD, "                        chan.revoke_previous_holder_commitment(commit_num + 1)", "                        chan.revoke_previous_holder_commitment(commit_num.max(1))")],
  "RevokeCommitmentTx{n} revokes like RevokeCommitmentTx{n-1} (the wire arm, not the channel)"),
 ("R10-handler-channel-id-other-endianness", [(HD, "        ChannelId::new_from_peer_id_and_oid(&peer_id.0, dbid)\n    }", "        ChannelId::new_from_peer_id_and_oid(&peer_id.0, dbid.swap_bytes().swap_bytes() ^ ((dbid >> 40) & 1))\n    }")],
  "the protocol handler computes another channel id than Node::new_channel for dbids with bit 40 set"),
 ("R11-chanid-deser-truncates", [(SU, "        let key = ChannelId::new(&hex::decode(&*res).unwrap());", "        let mut v = hex::decode(&*res).unwrap();\n        v.truncate(31);\n        let key = ChannelId::new(&v);")],
  "the persisted permanent id loses its last byte when read back"),
 ("R12-ldk-mask-wrong-byte", [(DER, "        res[4] &= 0x7f;", "        res[5] &= 0x7f;")],
  "LDK keys_id clears bit 7 of byte 5 instead of byte 4: about half of the ids make channel_keys panic (index >= 2^31)"),
 ("R13-stub-restored-keys-from-entry-order", [(ND, "            node.keys_manager.increment_channel_id_child_index();\n        }", "        }")],
  "restore no longer advances the random-id counter (a later random id can repeat an existing one; ids, not keys)"),
 ("R14-create-value-into-derivation-id", [(ND, "        let channel_value_sat = 0; // Placeholder value, not known yet.", "        let channel_value_sat = channels.len() as u64; // Placeholder value, not known yet.")],
  "creation passes the number of existing channels as the placeholder value (not key material)"),
]
