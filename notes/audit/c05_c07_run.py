#!/usr/bin/env python3
"""mutation audit runner: run.py <mutations.py> [ids...]  -> appends to results.jsonl"""
import sys, os, subprocess, json, re, time, importlib.util
R='/work/c05/repo'; V='/work/c05/verif'
spec=importlib.util.spec_from_file_location('m', sys.argv[1]); m=importlib.util.module_from_spec(spec); spec.loader.exec_module(m)
want=set(sys.argv[2:])
out=open('/work/c05/audit/results.jsonl','a')
for mu in m.MUTS:
    mid,prop,f,old,new,desc=mu[:6]
    nth=mu[6] if len(mu)>6 else 0
    if want and mid not in want: continue
    subprocess.run(['git','-C',R,'checkout','-q','--','.'])
    p=os.path.join(R,f); s=open(p).read()
    idxs=[i.start() for i in re.finditer(re.escape(old), s)]
    res={'id':mid,'prop':prop,'file':f,'desc':desc}
    if len(idxs)<=nth:
        res['result']='PATTERN-NOT-FOUND'; print(mid,res['result']); out.write(json.dumps(res)+'\n'); out.flush(); continue
    i=idxs[nth]; s=s[:i]+new+s[i+len(old):]; open(p,'w').write(s)
    rp=os.path.join(V,'replays',f'{prop}-quick-1.txt')
    if os.path.exists(rp): os.remove(rp)
    t0=time.time()
    pr=subprocess.run(['bin/check',prop],cwd=V,env=dict(os.environ,VERIF_REPO=R),capture_output=True,text=True)
    o=pr.stdout+pr.stderr
    res['wall']=round(time.time()-t0)
    summ=[l for l in o.splitlines() if l.startswith(prop+' quick')]
    res['summary']=summ[0] if summ else o[-300:]
    if 'harness build against' in o:
        res['result']='NO-COMPILE'; res['detail']=o[-600:]
    elif 'no-failing-input-found' in o:
        res['result']='CORR-ONLY'
        res['broken']=[l for l in o.splitlines() if l.startswith('BROKEN')]
    elif 'VIOLATION' in o:
        res['result']='CAUGHT'
        try:
            head=open(rp).read().splitlines()
            res['kind']=head[0].split(': ')[-1]; res['replay']=[l for l in head if not l.startswith('#')][:14]
        except Exception as e: res['kind']='?'
    elif pr.returncode==0:
        res['result']='MISSED'
    else:
        res['result']='OTHER'; res['detail']=o[-600:]
    print(mid,res['result'],res.get('kind',''),res['summary'][-110:],flush=True)
    out.write(json.dumps(res)+'\n'); out.flush()
subprocess.run(['git','-C',R,'checkout','-q','--','.'])
