SV='vls-core/src/policy/simple_validator.rs'; OC='vls-core/src/policy/onchain_validator.rs'; CH='vls-core/src/channel.rs'
ND='vls-core/src/node.rs'; FL='vls-core/src/policy/filter.rs'; PM='vls-core/src/policy/mod.rs'; MON='vls-core/src/monitor.rs'; TX='vls-core/src/tx/tx.rs'
MUTS=[
('A01','C05',SV,'if delay < policy.min_delay as u32 {','if delay + 1 < policy.min_delay as u32 {','validate_delay: lower bound off by one (accepts min_delay-1)'),
('A02','C05',SV,'if delay > policy.max_delay as u32 {','if delay > policy.max_delay as u32 + 1 {','validate_delay: upper bound off by one'),
('A03','C05',SV,'self.validate_delay("holder", setup.counterparty_selected_contest_delay as u32)?;','self.validate_delay("holder", setup.holder_selected_contest_delay as u32)?;','validate_setup_channel: wrong delay variable (holder-selected checked twice)'),
('A04','C05',SV,'self.validate_delay("counterparty", setup.holder_selected_contest_delay as u32)?;','','validate_setup_channel: second validate_delay dropped'),
('A05','C05',SV,'if !SAFE_COMMITMENT_TYPE.contains(&setup.commitment_type) {','if false && !SAFE_COMMITMENT_TYPE.contains(&setup.commitment_type) {','validate_setup_channel: safe-type check dropped'),
('A06','C05',SV,'&[CommitmentType::StaticRemoteKey, CommitmentType::AnchorsZeroFeeHtlc];','&[CommitmentType::StaticRemoteKey, CommitmentType::AnchorsZeroFeeHtlc, CommitmentType::Anchors];','SAFE_COMMITMENT_TYPE gains Anchors'),
('A07','C05',SV,'if setup.channel_value_sat > self.policy.max_channel_size_sat {','if setup.channel_value_sat > self.policy.max_channel_size_sat.saturating_add(1) {','validate_channel_value: off by one'),
('A08','C05',SV,'if expiry < current_height + policy.min_delay as u32 {','if expiry + 1 < current_height + policy.min_delay as u32 {','validate_expiry: lower bound off by one'),
('A09','C05',SV,'if expiry > current_height + policy.max_delay as u32 {','if expiry > current_height + policy.max_delay as u32 + 1 {','validate_expiry: upper bound off by one'),
('A10','C05',SV,'if expiry < current_height + policy.min_delay as u32 {','if expiry < policy.min_delay as u32 {','validate_expiry: lower bound forgets current_height'),
('A11','C05',SV,'if expiry > current_height + policy.max_delay as u32 {','if expiry > current_height.saturating_add(policy.max_delay as u32) {','validate_expiry: saturating instead of plain add (harmless arithmetic variant, changes panic into decision)'),
('A12','C05',SV,'if feerate_perkw < self.policy.min_feerate_per_kw as u128 {','if false && feerate_perkw < self.policy.min_feerate_per_kw as u128 {','validate_fee: min check dropped'),
('A13','C05',SV,'if feerate_perkw > self.policy.max_feerate_per_kw as u128 {','if feerate_perkw > self.policy.max_feerate_per_kw as u128 + 1 {','validate_fee: max bound off by one'),
('A14','C05',SV,'let feerate_perkw: u128 = (fee as u128 * 1000 + 999) / weight as u128;','let feerate_perkw: u128 = (fee as u128 * 1000) / weight as u128;','validate_fee: rounding term dropped'),
('A15','C05',SV,'let feerate_perkw: u128 = (fee as u128 * 1000 + 999) / weight as u128;','let feerate_perkw: u128 = (fee as u128 * 1000 + 999) / (weight as u128 + 1);','validate_fee: weight off by one'),
('A16','C05',SV,'''        let expected_weight = expected_commitment_tx_weight(
            setup.is_anchors(),
            info.offered_htlcs.len() + info.received_htlcs.len(),''','''        let expected_weight = expected_commitment_tx_weight(
            setup.is_anchors(),
            info.offered_htlcs.len(),''','validate_commitment_tx: weight counts offered HTLCs only'),
('A17','C05',SV,'''        if info.to_countersigner_value_sat > 0
            && info.to_countersigner_value_sat < MIN_CHAN_DUST_LIMIT_SATOSHIS''','''        if info.to_countersigner_value_sat > 0
            && info.to_countersigner_value_sat < MIN_DUST_LIMIT_SATOSHIS''','to_countersigner dust check uses the wrong constant (330)'),
('A18','C05',SV,'''        if info.to_broadcaster_value_sat > 0
            && info.to_broadcaster_value_sat < MIN_CHAN_DUST_LIMIT_SATOSHIS''','''        if info.to_broadcaster_value_sat > 1
            && info.to_broadcaster_value_sat < MIN_CHAN_DUST_LIMIT_SATOSHIS''','to_broadcaster dust check lets value 1 through'),
('A19','C05',SV,'if info.offered_htlcs.len() + info.received_htlcs.len() > policy.max_htlcs {','if core::cmp::max(info.offered_htlcs.len(), info.received_htlcs.len()) > policy.max_htlcs {','HTLC count: max of the directions instead of the sum'),
('A20','C05',SV,'+ (info.feerate_per_kw as u64 * htlc_timeout_tx_weight(&setup.features()) / 1000)','+ (info.feerate_per_kw as u64 * htlc_timeout_tx_weight(&setup.features()) / 1024)','offered trim limit: /1024'),
('A21','C05',SV,'+ (info.feerate_per_kw as u64 * htlc_success_tx_weight(&setup.features()) / 1000)','+ (info.feerate_per_kw as u64 * htlc_timeout_tx_weight(&setup.features()) / 1000)','received trim limit uses the timeout weight'),
('A22','C05',SV,'''        let received_htlc_dust_limit = if setup.is_zero_fee_htlc() {
            MIN_CHAN_DUST_LIMIT_SATOSHIS''','''        let received_htlc_dust_limit = if setup.is_zero_fee_htlc() {
            MIN_DUST_LIMIT_SATOSHIS''','received trim limit for zero-fee anchors uses 330'),
('A23','C05',SV,'if htlc.value_sat < received_htlc_dust_limit {','if htlc.value_sat < received_htlc_dust_limit && htlc.value_sat != 0 {','received dust check skips zero-value HTLCs'),
('A24','C05',SV,'self.validate_expiry("received HTLC", htlc.cltv_expiry, cstate.current_height)?;','','expiry not validated for received HTLCs'),
('A25','C05',SV,'''            htlc_value_sat = htlc_value_sat.checked_add(htlc.value_sat).ok_or_else(|| {
                policy_error(
                    "policy-commitment-payment-velocity",
                    "received HTLC value overflow".to_string(),''','''            let _ignored = htlc_value_sat.checked_add(htlc.value_sat).ok_or_else(|| {
                policy_error(
                    "policy-commitment-payment-velocity",
                    "received HTLC value overflow".to_string(),''','received HTLC values not accumulated (in-flight and fee see offered only)'),
('A26','C05',SV,'if htlc_value_sat > policy.max_htlc_value_sat {','if htlc_value_sat / 2 > policy.max_htlc_value_sat / 2 {','in-flight comparison loses the low bit'),
('A27','C05',SV,'''            .checked_add(info.to_countersigner_value_sat)
            .ok_or_else(|| {
                policy_error(
                    "policy-commitment-payment-velocity",
                    "channel value overflow".to_string(),''','''            .checked_add(0)
            .ok_or_else(|| {
                policy_error(
                    "policy-commitment-payment-velocity",
                    "channel value overflow".to_string(),''','sum of outputs omits to_countersigner'),
('A28','C05',SV,'if info.offered_htlcs.len() + info.received_htlcs.len() > 0 {','if info.offered_htlcs.len() > 0 {','first-no-htlcs looks at offered only'),
('A29','C05',SV,'if counterparty_value_sat > setup.push_value_msat / 1000 {','if counterparty_value_sat > setup.push_value_msat / 1000 + 1 {','initial funding value off by one'),
('A30','C05',SV,'if counterparty_value_sat > setup.push_value_msat / 1000 {','if counterparty_value_sat > setup.push_value_msat.div_ceil(1000) {','initial funding value rounds the push up'),
('A31','C05',SV,'let (_holder_value_sat, counterparty_value_sat) = info.value_to_parties();','let (counterparty_value_sat, _holder_value_sat) = info.value_to_parties();','initial funding value checks the holder side'),
('A32','C05',SV,'''        if commit_num == 0 {
            if info.offered_htlcs.len()''','''        if commit_num == 0 && estate.next_holder_commit_num == 0 {
            if info.offered_htlcs.len()''','initial rules only while the holder counter is 0 (wrong extra condition)'),
('A33','C05',OC,'if cstate.funding_depth < self.policy.min_funding_depth as u32 {','if cstate.funding_depth + 1 < self.policy.min_funding_depth as u32 {','on-chain: funding depth off by one (depth 0 passes)'),
('A34','C05',OC,'if cstate.closing_depth > 0 {','if cstate.closing_depth > 1 {','on-chain: closing depth 1 passes'),
('A35','C05',OC,'if commit_num > 0 {','if commit_num > 1 {','on-chain: commitment 1 treated as initial'),
('A36','C05',OC,'''        if estate.next_holder_commit_num <= commit_num {
            self.ensure_funding_buried_and_unspent(commit_num, cstate)?;''','''        if estate.next_holder_commit_num < commit_num {
            self.ensure_funding_buried_and_unspent(commit_num, cstate)?;''','on-chain holder wrapper: n == next_holder skips the gate'),
('A37','C05',OC,'''        if estate.next_holder_commit_num <= commit_num {
            self.ensure_funding_buried_and_unspent(commit_num, cstate)?;''','''        if estate.next_counterparty_commit_num <= commit_num {
            self.ensure_funding_buried_and_unspent(commit_num, cstate)?;''','on-chain holder wrapper: wrong counter (counterparty)'),
('A38','C05',OC,'OnchainPolicy { filter, min_funding_depth: 1 }','OnchainPolicy { filter, min_funding_depth: 0 }','min_funding_depth 0'),
('A39','C05',OC,'''    fn is_ready(&self, cstate: &ChainState) -> bool {
        cstate.funding_depth >= self.policy.min_funding_depth as u32''','''    fn is_ready(&self, cstate: &ChainState) -> bool {
        cstate.funding_depth > self.policy.min_funding_depth as u32''','is_ready off by one (not on the commitment paths; expected harmless for C05)'),
('A40','C05',MON,'''                .mutual_closing_height
                .or(state.unilateral_closing_height)''','''                .unilateral_closing_height
                .or(None)''','as_chain_state: closing depth ignores a mutual close'),
('A41','C05',MON,'funding_depth: state.funding_height.map(|h| state.height + 1 - h).unwrap_or(0),','funding_depth: state.funding_height.map(|h| state.height + 2 - h).unwrap_or(1),','as_chain_state: funding depth one too high (unconfirmed reads as 1)'),
('A42','C05',PM,'''    if filter.filter(&tag) == FilterResult::Error {
        Err(policy_error(tag, msg))''','''    if filter.filter(&tag) != FilterResult::Warn || tag.ends_with("-range") {
        Err(policy_error(tag, msg))''','filter: *-range tags can not be downgraded (stricter; expected correspondence only)'),
('A43','C05',FL,'if rule.is_prefix { tag.starts_with(&rule.tag) } else { *tag == rule.tag };','if rule.is_prefix { tag.starts_with(&rule.tag) } else { tag.starts_with(&rule.tag) };','filter: exact rules match as prefixes'),
('A44','C05',CH,'''        validator.validate_counterparty_commitment_tx(
            &self.enforcement_state,
            commitment_number,
            &remote_per_commitment_point,
            &self.setup,
            &self.get_chain_state(),
            &info2,
        )?;''','''        let _ = validator.validate_counterparty_commitment_tx(
            &self.enforcement_state,
            commitment_number,
            &remote_per_commitment_point,
            &self.setup,
            &self.get_chain_state(),
            &info2,
        );''','phase-2 counterparty signing ignores the validation result'),
('A45','C05',CH,'''        Ok(CommitmentInfo2::new(
            true,
            to_holder_value_sat,
            to_counterparty_value_sat,''','''        Ok(CommitmentInfo2::new(
            true,
            to_counterparty_value_sat,
            to_holder_value_sat,''','build_counterparty_commitment_info swaps the two values'),
('A46','C05',CH,'''        Ok(CommitmentInfo2::new(
            false,
            to_counterparty_value_sat,
            to_holder_value_sat,
            offered_htlcs,
            received_htlcs,''','''        Ok(CommitmentInfo2::new(
            false,
            to_counterparty_value_sat,
            to_holder_value_sat,
            received_htlcs,
            offered_htlcs,''','build_holder_commitment_info swaps offered/received'),
('A47','C05',ND,'validator.validate_setup_channel(self, &setup, holder_shutdown_key_path)?;','let _ = validator.validate_setup_channel(self, &setup, holder_shutdown_key_path);','setup_channel ignores the validation result'),
('A48','C05',ND,'(setup.channel_value_sat * 1000).checked_sub(setup.push_value_msat).ok_or_else(','(setup.channel_value_sat.saturating_mul(1000)).checked_sub(setup.push_value_msat).ok_or_else(','setup_channel: saturating_mul (harmless arithmetic variant: panic becomes decision)'),
('A49','C05',CH,'''        // Since we didn't have the value at the real open, validate it now.
        let validator = self.validator();
        validator.validate_channel_value(&self.setup)?;

        // Derive a CommitmentInfo first''','''        // Since we didn't have the value at the real open, validate it now.
        let validator = self.validator();

        // Derive a CommitmentInfo first''','PHASE 1 sign_counterparty_commitment_tx loses validate_channel_value'),
('A50','C05',TX,'''        if self.is_counterparty_broadcaster {
            (self.to_countersigner_value_sat, self.to_broadcaster_value_sat)
        } else {
            (self.to_broadcaster_value_sat, self.to_countersigner_value_sat)
        }''','''        if !self.is_counterparty_broadcaster {
            (self.to_countersigner_value_sat, self.to_broadcaster_value_sat)
        } else {
            (self.to_broadcaster_value_sat, self.to_countersigner_value_sat)
        }''','value_to_parties inverted'),
('A51','C05',CH,'''                ve
            })?;

        let htlcs = Self::htlcs_info2_to_oic(&info2.offered_htlcs, &info2.received_htlcs);

        let recomposed_tx = self.make_counterparty_commitment_tx(''','''                ve
            }).ok();

        let htlcs = Self::htlcs_info2_to_oic(&info2.offered_htlcs, &info2.received_htlcs);

        let recomposed_tx = self.make_counterparty_commitment_tx(''','PHASE 1 sign_counterparty_commitment_tx ignores the validation result'),
('A52','C05',CH,'''                ve
            })?;

        let htlcs = Self::htlcs_info2_to_oic(&info2.offered_htlcs, &info2.received_htlcs);

        let recomposed_tx = self.make_holder_commitment_tx(''','''                ve
            }).ok();

        let htlcs = Self::htlcs_info2_to_oic(&info2.offered_htlcs, &info2.received_htlcs);

        let recomposed_tx = self.make_holder_commitment_tx(''','PHASE 1 validate_holder_commitment_tx ignores the validation result'),
]
