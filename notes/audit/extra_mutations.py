SV='vls-core/src/policy/simple_validator.rs'; CH='vls-core/src/channel.rs'
MUTS=[
('A53','C05',CH,'''                ve
            })?;

        let htlcs = Self::htlcs_info2_to_oic(&info2.offered_htlcs, &info2.received_htlcs);

        let txkeys = self.make_holder_tx_keys(&per_commitment_point);''','''                ve
            }).ok();

        let htlcs = Self::htlcs_info2_to_oic(&info2.offered_htlcs, &info2.received_htlcs);

        let txkeys = self.make_holder_tx_keys(&per_commitment_point);''','phase-2 validate_holder_commitment_tx ignores the validation result'),
('B35','C07',CH,'''    ) -> Result<Signature, Status> {
        self.validator().validate_mutual_close_tx(''','''    ) -> Result<Signature, Status> {
        self.enforcement_state.channel_closed = true;
        self.validator().validate_mutual_close_tx(''','phase 2 marks the channel closed before validating (a refused close closes the channel; C10 subject)'),
('B36','C07',SV,'''            good_args.counterparty_script.unwrap_or_else(|| ScriptBuf::new()),
            setup.funding_outpoint,''','''            good_args.counterparty_script.unwrap_or_else(|| ScriptBuf::new()),
            tx.input[0].previous_output,''','phase 1 recomposes (and signs) on the outpoint of the supplied tx instead of the channel funding outpoint'),
]
