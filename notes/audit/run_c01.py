import sys, os, subprocess, json, re, time
sys.path.insert(0,'/work/c01/audit')
from muts import M
R='/work/c01/repo'; V='/work/c01/verif'
only=set(sys.argv[1:])
res_path='/work/c01/audit/results.json'
results=json.load(open(res_path)) if os.path.exists(res_path) else {}
def sh(c, **kw): return subprocess.run(c, shell=True, capture_output=True, text=True, **kw)
for (mid, props, f, old, new, occ, desc) in M:
    if only and mid not in only: continue
    if not only and mid in results: continue
    sh(f'git -C {R} checkout -q .')
    p=os.path.join(R,f); s=open(p).read()
    cnt=s.count(old)
    if cnt==0 or (occ is None and cnt!=1) or (occ is not None and occ>=cnt):
        results[mid]={'desc':desc,'status':'PATTERN','count':cnt}; print(mid,'PATTERN',cnt, flush=True); continue
    idx=-1
    for _ in range((occ or 0)+1): idx=s.index(old, idx+1)
    open(p,'w').write(s[:idx]+new+s[idx+len(old):])
    out={}
    for prop in props.split():
        t0=time.time()
        r=sh(f'cd {V} && VERIF_REPO={R} bin/check {prop}', timeout=1500)
        o=r.stdout+r.stderr
        kind=None; replay=None
        m=re.search(r'VIOLATION property=\S+ replay=(\S+)', o)
        nf='no-failing-input-found' in o
        if m and os.path.exists(m.group(1)):
            txt=open(m.group(1)).read()
            k=re.search(r'violated on the implementation: (\S+)', txt)
            kind=k.group(1) if k else None
            replay=[l for l in txt.splitlines() if l and not l.startswith('#') and not l.startswith('case')][:14]
            os.remove(m.group(1))
        summ=re.search(r'(\d+) correspondence disagreements, (\d+) new violations', o)
        broken=re.findall(r'^BROKEN: (.*)$', o, re.M)
        build_fail=any('harness build' in b for b in broken)
        out[prop]={'exit':r.returncode,'kind':kind,'replay':replay,'nofail':nf,'dis':int(summ.group(1)) if summ else None,'viol':int(summ.group(2)) if summ else None,'broken':broken[:4],'secs':round(time.time()-t0)}
        status = 'COMPILE' if build_fail else ('REPLAY:'+str(kind) if kind else ('BREAK-ONLY' if r.returncode!=0 else 'MISSED'))
        out[prop]['status']=status
        print(mid, prop, status, out[prop]['dis'], out[prop]['viol'], broken[:2], out[prop]['secs'],'s', flush=True)
    results[mid]={'desc':desc,'file':f,'props':out}
    json.dump(results,open(res_path,'w'),indent=1)
sh(f'git -C {R} checkout -q .')
