SV='vls-core/src/policy/simple_validator.rs'; CH='vls-core/src/channel.rs'; ND='vls-core/src/node.rs'
VA='vls-core/src/policy/validator.rs'; TX='vls-core/src/tx/tx.rs'; TU='vls-core/src/util/transaction_utils.rs'; HD='vls-protocol-signer/src/handler.rs'
MUTS=[
('B01','C07',SV,'(value0 - value1 > self.policy.epsilon_sat, "larger".to_string())','(value0 - value1 > self.policy.epsilon_sat.saturating_add(1), "larger".to_string())','outside_epsilon_range: larger side off by one'),
('B02','C07',SV,'(value1 - value0 > self.policy.epsilon_sat, "smaller".to_string())','(value1 - value0 > self.policy.epsilon_sat.saturating_add(1), "smaller".to_string())','outside_epsilon_range: smaller side off by one'),
('B03','C07',SV,'(value1 - value0 > self.policy.epsilon_sat, "smaller".to_string())','(false, "smaller".to_string())','outside_epsilon_range: smaller side never outside'),
('B04','C07',SV,'''            if let (true, descr) = self.outside_epsilon_range(
                to_counterparty_value_sat,
                holder_info.to_countersigner_value_sat,
            ) {''','''            if let (true, descr) = self.outside_epsilon_range(
                to_counterparty_value_sat,
                counterparty_info.to_broadcaster_value_sat,
            ) {''','funder: second comparison repeats the counterparty commitment (holder commitment ignored)'),
('B05','C07',SV,'''            if let (true, descr) = self
                .outside_epsilon_range(to_holder_value_sat, holder_info.to_broadcaster_value_sat)''','''            if let (true, descr) = self
                .outside_epsilon_range(to_holder_value_sat, holder_info.to_countersigner_value_sat)''','fundee: compares the holder value with the wrong field of the holder commitment'),
('B06','C07',SV,'''        // To make this test independent of variable fees we compare the side that
        // isn't paying the fees.
        if setup.is_outbound {''','''        // To make this test independent of variable fees we compare the side that
        // isn't paying the fees.
        if !setup.is_outbound {''','value comparison: funder/fundee branches inverted'),
('B07','C07',SV,'if !holder_info.htlcs_is_empty() || !counterparty_info.htlcs_is_empty() {','if !holder_info.htlcs_is_empty() && !counterparty_info.htlcs_is_empty() {','pending HTLCs: both instead of either'),
('B08','C07',TX,'self.offered_htlcs.is_empty() && self.received_htlcs.is_empty()','self.offered_htlcs.is_empty()','htlcs_is_empty ignores received HTLCs'),
('B09','C07',SV,'if *holder_script != setup.holder_shutdown_script {','if *counterparty_script != setup.holder_shutdown_script && *holder_script != setup.holder_shutdown_script {','upfront script: also satisfied by the counterparty script'),
('B10','C07',SV,'if setup.holder_shutdown_script.is_some() && to_holder_value_sat > 0 {','if setup.holder_shutdown_script.is_some() && to_holder_value_sat > MIN_CHAN_DUST_LIMIT_SATOSHIS {','upfront script only enforced above the dust limit'),
('B11','C07',SV,'if to_holder_value_sat > 0 && holder_script.is_none() {','if false && to_holder_value_sat > 0 && holder_script.is_none() {','missing holder script with holder value accepted'),
('B12','C07',SV,'''            to_holder_value_sat.checked_add(to_counterparty_value_sat).ok_or_else(|| {
                policy_error("policy-mutual-value-matches-commitment", "consumed overflow")
            })?;''','''            Some(to_holder_value_sat.wrapping_add(to_counterparty_value_sat)).ok_or_else(|| {
                policy_error("policy-mutual-value-matches-commitment", "consumed overflow")
            })?;''','sum of outputs wraps'),
('B13','C07',SV,'self.validate_fee("policy-mutual-fee-range", setup.channel_value_sat, sum_outputs, weight)','self.validate_fee("policy-mutual-fee-range", setup.channel_value_sat, sum_outputs.max(to_holder_value_sat), weight.max(1) * 2)','mutual fee judged on twice the weight'),
('B14','C07',SV,'''        if let Some(script) = &holder_script {
            if !wallet.can_spend(holder_wallet_path_hint, script)''','''        if let Some(script) = &counterparty_script {
            if !wallet.can_spend(holder_wallet_path_hint, script)''','destination check applied to the counterparty script'),
('B15','C07',SV,'''        if let Some(script) = &holder_script {
            if !wallet.can_spend(holder_wallet_path_hint, script)''','''        if let (Some(script), true) = (&holder_script, to_holder_value_sat > MIN_CHAN_DUST_LIMIT_SATOSHIS * 10) {
            if !wallet.can_spend(holder_wallet_path_hint, script)''','destination check skipped for small holder values'),
('B16','C07',SV,'if tx.output.len() > 2 {','if tx.output.len() > 3 {','phase 1 accepts three outputs past the count check'),
('B17','C07',SV,'''                holder_script: Some(tx.output[1].script_pubkey.clone()),
                counterparty_script: Some(tx.output[0].script_pubkey.clone()),
                wallet_path: wallet_paths[1].clone(),''','''                holder_script: Some(tx.output[1].script_pubkey.clone()),
                counterparty_script: Some(tx.output[0].script_pubkey.clone()),
                wallet_path: wallet_paths[0].clone(),''','phase 1: cparty_first reading uses the wrong wallet path'),
('B18','C07',SV,'''            if unlikely_rv.is_ok() {
                unlikely_args''','''            if unlikely_rv.is_ok() || likely_args.to_holder_value_sat == 0 {
                unlikely_args''','phase 1: the unlikely reading is taken unvalidated when the likely one has no holder value'),
('B19','C07',SV,'if *recomposed_tx != *tx {','if recomposed_tx.output != tx.output {','phase 1: recomposed tx compared on outputs only (lock time / sequence / version / outpoint unchecked)'),
('B20','C07',SV,'if *recomposed_tx != *tx {','if recomposed_tx.output.len() != tx.output.len() {','phase 1: recomposed tx compared on the number of outputs only'),
('B21','C07',CH,'''            .sign_closing_transaction(&recomposed_tx, &self.secp_ctx)
            .map_err(|_| Status::internal("failed to sign"))?;
        self.enforcement_state.channel_closed = true;''','''            .sign_closing_transaction(&recomposed_tx, &self.secp_ctx)
            .map_err(|_| Status::internal("failed to sign"))?;''','PHASE 1 does not set channel_closed'),
('B22','C07',CH,'''        let tx = ClosingTransaction::new(
            to_holder_value_sat,
            to_counterparty_value_sat,
            holder_script.clone().unwrap_or_else(|| ScriptBuf::new()),
            counterparty_script.clone().unwrap_or_else(|| ScriptBuf::new()),
            self.setup.funding_outpoint,
        );

        let sig = self''','''        let tx = ClosingTransaction::new(
            to_holder_value_sat,
            to_counterparty_value_sat,
            counterparty_script.clone().unwrap_or_else(|| ScriptBuf::new()),
            holder_script.clone().unwrap_or_else(|| ScriptBuf::new()),
            self.setup.funding_outpoint,
        );

        let sig = self''','phase 2 signs a transaction with the two scripts swapped'),
('B23','C07',CH,'''    ) -> Result<Signature, Status> {
        self.validator().validate_mutual_close_tx(
            &*self.get_node(),
            &self.setup,
            &self.enforcement_state,
            to_holder_value_sat,
            to_counterparty_value_sat,
            holder_script,
            counterparty_script,
            holder_wallet_path_hint,
        )?;''','''    ) -> Result<Signature, Status> {
        if !self.enforcement_state.channel_closed {
        self.validator().validate_mutual_close_tx(
            &*self.get_node(),
            &self.setup,
            &self.enforcement_state,
            to_holder_value_sat,
            to_counterparty_value_sat,
            holder_script,
            counterparty_script,
            holder_wallet_path_hint,
        )?;
        }''','phase 2 skips validation once the channel is closed (second close with other values)'),
('B24','C07',TU,'72 + 72 + // <signature_for_pubkey1> <signature_for_pubkey2>','73 + 73 + // <signature_for_pubkey1> <signature_for_pubkey2>','mutual close witness weight 73+73'),
('B25','C07',TU,'unsigned_tx.weight().to_wu() as usize + EXPECTED_MUTUAL_CLOSE_WITNESS_WEIGHT','unsigned_tx.base_size() * 4 + EXPECTED_MUTUAL_CLOSE_WITNESS_WEIGHT + 2','mutual_close_tx_weight: +2 (marker/flag counted twice)'),
('B26','C07',SV,'''                    "policy-mutual-destination-allowlisted",
                    "holder_shutdown_script is not in wallet or allowlist"''','''                    "policy-mutual-destination-allowlisted-upfront",
                    "holder_shutdown_script is not in wallet or allowlist"''','setup: upfront check under a different tag (filter rules for the documented tag no longer apply)'),
('B27','C07',SV,'''            if !spendable
                && !wallet.allowlist_contains(holder_shutdown_script, holder_shutdown_key_path)
            {''','''            if !spendable
                && !wallet.allowlist_contains(holder_shutdown_script, holder_shutdown_key_path)
                && false
            {''','setup: unknown upfront script accepted'),
('B28','C07',ND,'''        if state.allowlist.contains(&Allowable::Script(script_pubkey.clone())) {
            return true;
        }''','''        if state.allowlist.contains(&Allowable::Script(script_pubkey.clone())) || (!state.allowlist.is_empty() && script_pubkey.is_p2wsh()) {
            return true;
        }''','allowlist_contains: any p2wsh script passes when the allowlist is non-empty'),
('B29','C07',ND,'''        Ok(*script_pubkey == native_addr.script_pubkey()
            || *script_pubkey == wrapped_addr.script_pubkey()''','''        Ok(script_pubkey.is_p2wpkh()
            || *script_pubkey == wrapped_addr.script_pubkey()''','can_spend: any p2wpkh script counts as ours when a path is given'),
('B30','C07',HD,'''                        m.to_local_value_sat,
                        m.to_remote_value_sat,
                        &to_script(&m.local_script),
                        &to_script(&m.remote_script),
                        &local_wallet_path_hint,''','''                        m.to_local_value_sat,
                        m.to_remote_value_sat,
                        &to_script(&m.remote_script),
                        &to_script(&m.local_script),
                        &local_wallet_path_hint,''','wire handler arm SignMutualCloseTx2 swaps the scripts'),
('B31','C07',VA,'''    pub channel_closed: bool,
    pub initial_holder_value: u64,''','''    #[serde(skip_serializing, default)]
    pub channel_closed: bool,
    pub initial_holder_value: u64,''','channel_closed not persisted (restart forgets the close)'),
('B32','C07',SV,'let holder_value_is_larger = holder_value > cparty_value;','let holder_value_is_larger = holder_value < cparty_value;','phase 1: likely/unlikely guess inverted (expected harmless)'),
('B33','C07',SV,'''        if estate.current_counterparty_commit_info.is_none() {
            policy_err!(self, "policy-mutual-other", "current_counterparty_commit_info missing");
        }''','','phase 1: missing-counterparty-commitment precheck dropped (validate_mutual_close_tx still refuses)'),
('B34','C07',SV,'''        let counterparty_info =
            estate.current_counterparty_commit_info.as_ref().ok_or_else(|| {''','''        let counterparty_info =
            estate.current_counterparty_commit_info.as_ref().or(estate.current_holder_commit_info.as_ref()).ok_or_else(|| {''','validate_mutual_close_tx: holder commitment stands in for a missing counterparty commitment'),
]
