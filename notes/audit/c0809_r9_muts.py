#!/usr/bin/env python3
"""Round-9 audit of the new generated ties of C08/C09 (approver.rs, onchain_validator.rs wrappers, node.rs
check_onchain_tx / wallet key+address functions): one-line slips on a private worktree of /repo, Gen/ regenerated in a
second clone, Props/C08Fn + Props/C09Fn rebuilt.  usage: c0809_r9_muts.py <repo worktree> <verif clone>"""
import sys, subprocess, json, re, os
W, V = sys.argv[1], sys.argv[2]
MUTS = [
 ("hpo-declined-signs", "vls-protocol-signer/src/approver.rs", "return Ok(false);\n                    }\n                }\n                _ =>", "return Ok(true);\n                    }\n                }\n                _ =>"),
 ("hpo-approver-inverted", "vls-protocol-signer/src/approver.rs", "if self.approve_onchain(&tx, &prev_outs, indices) {", "if !self.approve_onchain(&tx, &prev_outs, indices) {"),
 ("hpo-other-error-ok", "vls-protocol-signer/src/approver.rs", "return Err(Status::failed_precondition(ve.to_string()))?;", "return Ok(true);"),
 ("memo-outputs-only", "vls-protocol-signer/src/approver.rs", "if approved_tx == *tx {", "if approved_tx.output == tx.output {"),
 ("memo-any-onchain-memo", "vls-protocol-signer/src/approver.rs", "if approved_tx == *tx {", "if approved_tx == *tx || true {"),
 ("velocity-approver-approves", "vls-protocol-signer/src/approver.rs", "        self.delegate.approve_onchain(tx, prev_outs, unknown_indices)\n    }\n}\n\n/// An approval that is memorized", "        true\n    }\n}\n\n/// An approval that is memorized"),
 ("negative-approver-approves", "vls-protocol-signer/src/approver.rs", "        _unknown_indices: &[usize],\n    ) -> bool {\n        false", "        _unknown_indices: &[usize],\n    ) -> bool {\n        true"),
 ("wrap-justice-to-delayed", "vls-core/src/policy/onchain_validator.rs", "self.inner.validate_justice_sweep(wallet, setup, cstate, tx, input, amount_sat, wallet_path)", "self.inner.validate_delayed_sweep(wallet, setup, cstate, tx, input, amount_sat, wallet_path)"),
 ("wrap-htlc-feerate", "vls-core/src/policy/onchain_validator.rs", "self.inner.validate_htlc_tx(setup, cstate, is_counterparty, htlc, feerate_per_kw)", "self.inner.validate_htlc_tx(setup, cstate, is_counterparty, htlc, feerate_per_kw + 1)"),
 ("wrap-onchain-weight", "vls-core/src/policy/onchain_validator.rs", "            opaths,\n            weight,\n        )", "            opaths,\n            weight * 2,\n        )"),
 ("wrap-sweep-input0", "vls-core/src/policy/onchain_validator.rs", "self.inner.validate_delayed_sweep(wallet, setup, cstate, tx, input, amount_sat, wallet_path)", "self.inner.validate_delayed_sweep(wallet, setup, cstate, tx, 0, amount_sat, wallet_path)"),
 ("coc-default-witness-32", "vls-core/src/node.rs", "                    None => 33,", "                    None => 32,"),
 ("coc-witness-const-71", "vls-core/src/node.rs", "weight_lower_bound += 2 + 1 + 1 + 72 + 1 + wit_len;", "weight_lower_bound += 2 + 1 + 1 + 71 + 1 + wit_len;"),
 ("coc-msat-times-100", "vls-core/src/node.rs", "if !state.fee_velocity_control.insert(now, non_beneficial_sat * 1000) {", "if !state.fee_velocity_control.insert(now, non_beneficial_sat * 100) {"),
 ("coc-insert-not-negated", "vls-core/src/node.rs", "if !state.fee_velocity_control.insert(now, non_beneficial_sat * 1000) {", "if state.fee_velocity_control.insert(now, non_beneficial_sat * 1000) {"),
 ("coc-invalid-counts", "vls-core/src/node.rs", "                weight_lower_bound += 0;", "                weight_lower_bound += 1;"),
 ("coc-values-skip", "vls-core/src/node.rs", "let values_sat = prev_outs.iter().map(|o| o.value.to_sat()).collect::<Vec<_>>();", "let values_sat = prev_outs.iter().skip(1).map(|o| o.value.to_sat()).collect::<Vec<_>>();"),
 ("coc-velocity-tag", "vls-core/src/node.rs", "                validator,\n                \"policy-onchain-fee-range\",", "                validator,\n                \"policy-onchain-max-size\","),
 ("privkey-len-lt", "vls-core/src/node.rs", "if key_path_len.is_some() && derivation_path.len() != key_path_len.unwrap() {", "if key_path_len.is_some() && derivation_path.len() < key_path_len.unwrap() {"),
 ("native-address-empty-path", "vls-core/src/node.rs", "    fn get_native_address(&self, child_path: &DerivationPath) -> Result<Address, Status> {\n        if child_path.len() == 0 {", "    fn get_native_address(&self, child_path: &DerivationPath) -> Result<Address, Status> {\n        if child_path.len() == 9 {"),
 ("payee-script-variant", "vls-core/src/node.rs", "self.get_state().allowlist.contains(&Allowable::Payee(payee))", "!self.get_state().allowlist.contains(&Allowable::Payee(payee))"),
 # second half of the round: channel.rs entry points, handler.rs sweep helpers, allowlist maintenance
 ("delayed-uses-htlc-key", "vls-core/src/channel.rs", "            &per_commitment_point,\n            &self.keys.delayed_payment_base_key,", "            &per_commitment_point,\n            &self.keys.htlc_base_key,"),
 ("delayed-skips-validator-order", "vls-core/src/channel.rs", "        let per_commitment_point = self.get_per_commitment_point(commitment_number)?;\n\n        self.validator().validate_delayed_sweep(", "        let per_commitment_point = self.get_per_commitment_point(commitment_number + 1)?;\n\n        self.validator().validate_delayed_sweep("),
 ("justice-validates-as-delayed", "vls-core/src/channel.rs", "        self.validator().validate_justice_sweep(", "        self.validator().validate_delayed_sweep("),
 ("cphtlc-input-check-gt", "vls-core/src/channel.rs", "        if input >= tx.input.len() {\n            return Err(invalid_argument(format!(\n                \"sign_counterparty_htlc_sweep", "        if input > tx.input.len() {\n            return Err(invalid_argument(format!(\n                \"sign_counterparty_htlc_sweep"),
 ("sweep-sighash-amount", "vls-core/src/channel.rs", "                    Amount::from_sat(htlc_amount_sat),\n                    EcdsaSighashType::All,", "                    Amount::from_sat(htlc_amount_sat + 1),\n                    EcdsaSighashType::All,"),
 ("htlc-tx-skip-validate", "vls-core/src/channel.rs", "                &self.get_chain_state(),\n                is_counterparty,\n                &htlc,\n                feerate_per_kw,", "                &self.get_chain_state(),\n                !is_counterparty,\n                &htlc,\n                feerate_per_kw,"),
 ("holder-htlc-is-counterparty", "vls-core/src/channel.rs", "            false, // is_counterparty", "            true, // is_counterparty"),
 ("htlc-tx-signs-with-delayed-key", "vls-core/src/channel.rs", "derive_private_key(&self.secp_ctx, &per_commitment_point, &self.keys.htlc_base_key);", "derive_private_key(&self.secp_ctx, &per_commitment_point, &self.keys.delayed_payment_base_key);"),
 ("handler-amount-input0", "vls-protocol-signer/src/handler.rs", "    let htlc_amount =\n        psbt.inputs[input].witness_utxo.as_ref().expect(\"will only spend witness UTXOs\").value;\n    let wallet_paths = extract_psbt_output_paths(&psbt);\n    let sig = node.with_channel(channel_id, |chan| {\n        chan.sign_delayed_sweep(", "    let htlc_amount =\n        psbt.inputs[0].witness_utxo.as_ref().expect(\"will only spend witness UTXOs\").value;\n    let wallet_paths = extract_psbt_output_paths(&psbt);\n    let sig = node.with_channel(channel_id, |chan| {\n        chan.sign_delayed_sweep("),
 ("handler-penalty-path1", "vls-protocol-signer/src/handler.rs", "            &revocation_secret,\n            &redeemscript,\n            htlc_amount.to_sat(),\n            &wallet_paths[0],", "            &revocation_secret,\n            &redeemscript,\n            htlc_amount.to_sat(),\n            &wallet_paths[1],"),
 ("handler-remote-htlc-calls-delayed", "vls-protocol-signer/src/handler.rs", "        chan.sign_counterparty_htlc_sweep(", "        chan.sign_justice_sweep("),
 ("allowlist-remove-persist-first", "vls-core/src/node.rs", "        for allowable in allowables {\n            state.allowlist.remove(&allowable);\n        }\n        self.update_allowlist(&state)?;", "        self.update_allowlist(&state)?;\n        for allowable in allowables {\n            state.allowlist.remove(&allowable);\n        }"),
 ("allowlist-set-no-clear", "vls-core/src/node.rs", "        state.allowlist.clear();\n", "        \n"),
 ("allowlist-add-no-persist", "vls-core/src/node.rs", "            state.allowlist.insert(allowable);\n        }\n        self.update_allowlist(&state)?;\n        Ok(())\n    }\n\n    /// Replace", "            state.allowlist.insert(allowable);\n        }\n        Ok(())\n    }\n\n    /// Replace"),
]
def sh(cmd, cwd): return subprocess.run(cmd, shell=True, cwd=cwd, capture_output=True, text=True)
res = {}
only = sys.argv[3:] 
for name, rel, old, new in MUTS:
    if only and name not in only: continue
    sh("git checkout -q -- .", W)
    p = os.path.join(W, rel); s = open(p).read()
    if s.count(old) < 1: res[name] = "PATTERN NOT FOUND"; print(name, res[name]); continue
    open(p, "w").write(s.replace(old, new, 1))
    sh("git checkout -q -- . && git clean -qfd lean/VlsModel/Gen", V)
    g = sh("python3 translate/gen.py --repo %s --out lean/VlsModel/Gen" % W, V)
    if g.returncode != 0:
        res[name] = "translator failed for all: " + (g.stderr.strip().splitlines() or ["?"])[-1][:200]; print(name, res[name]); continue
    nt = sh("grep -l 'NOT TRANSLATED' lean/VlsModel/Gen/FnApproverC08.lean lean/VlsModel/Gen/FnOnchainWrap.lean lean/VlsModel/Gen/FnNodeOnchain.lean lean/VlsModel/Gen/FnNodeWallet.lean lean/VlsModel/Gen/FnChannelSweep.lean lean/VlsModel/Gen/FnHandlerSweep.lean lean/VlsModel/Gen/FnNodeAllowlist.lean", V).stdout.split()
    b = sh("timeout 900 lake build VlsModel.Props.C08Fn VlsModel.Props.C09Fn 2>&1 | grep -E '^error: VlsModel' | head -3", os.path.join(V, "lean"))
    errs = [re.sub(r"^error: ", "", l)[:160] for l in b.stdout.strip().splitlines()]
    res[name] = ("BROKEN " + " | ".join(errs) + (" [NOT TRANSLATED in %s]" % ",".join(os.path.basename(x) for x in nt) if nt else "")) if errs else "NOT DETECTED by the ties"
    print(name, "->", res[name], flush=True)
sh("git checkout -q -- .", W); sh("git checkout -q -- . && git clean -qfd lean/VlsModel/Gen", V)
old = {}
try: old = json.load(open(os.path.join(os.path.dirname(os.path.abspath(__file__)), "c0809_r9_muts_result.json")))
except Exception: pass
old.update(res); res = old
json.dump(res, open(os.path.join(os.path.dirname(os.path.abspath(__file__)), "c0809_r9_muts_result.json"), "w"), indent=1)
