#!/usr/bin/env python3
"""C10/C11 audit: 'state changed before the refusal' slips.  Writes notes/audit/c10.json for bin/mutaudit.py."""
import json
CH="vls-core/src/channel.rs"; ND="vls-core/src/node.rs"; TR="vls-core/src/chain/tracker.rs"
M=[]
def m(name,file,checks,old=None,new=None,edits=None):
    d={"name":name,"file":file,"checks":checks}
    if edits: d["edits"]=[{"old":o,"new":n} for o,n in edits]
    else: d["old"]=old; d["new"]=new
    M.append(d)
# --- channel.rs
m("vh2-store-before-sigcheck",CH,["C10","C01"],
  "            to_holder_value_sat,\n            to_counterparty_value_sat,\n            htlcs,\n        );\n\n        #[cfg(not(fuzzing))]\n        self.check_holder_tx_signatures(",
  "            to_holder_value_sat,\n            to_counterparty_value_sat,\n            htlcs,\n        );\n        if commitment_number == self.enforcement_state.next_holder_commit_num {\n            self.enforcement_state.next_holder_commit_info = Some((info2.clone(), CommitmentSignatures(counterparty_commit_sig.clone(), counterparty_htlc_sigs.to_vec())));\n        }\n\n        #[cfg(not(fuzzing))]\n        self.check_holder_tx_signatures(")
m("rv-clear-before-validate-payments",CH,["C10","C06"],edits=[
  ("        )?;\n        self.enforcement_state.next_holder_commit_info = None;\n","        )?;\n"),
  ("        // Other channels may have changed the node's in-flight payments since this\n","        self.enforcement_state.next_holder_commit_info = None;\n        // Other channels may have changed the node's in-flight payments since this\n")])
m("scp2-advance-before-validate-payments",CH,["C10","C06"],edits=[
  ("        // Only advance the state if nothing goes wrong.\n        validator.set_next_counterparty_commit_num(\n            &mut self.enforcement_state,\n            commitment_number + 1,\n            *remote_per_commitment_point,\n            info2.clone(),\n        )?;\n\n        state.apply_payments(\n            &self.id0,\n            &incoming_payment_summary,\n            &outgoing_payment_summary,\n            &delta,\n            validator,\n            Some(&info2),\n        );\n\n        trace_enforcement_state!(self);\n        self.persist()?;\n        Ok((sig, htlc_sigs))",
   "        state.apply_payments(\n            &self.id0,\n            &incoming_payment_summary,\n            &outgoing_payment_summary,\n            &delta,\n            validator,\n            Some(&info2),\n        );\n\n        trace_enforcement_state!(self);\n        self.persist()?;\n        Ok((sig, htlc_sigs))"),
  ("        let outgoing_payment_summary = self.enforcement_state.payments_summary(None, Some(&info2));\n        state.validate_payments(\n            &self.id0,\n            &incoming_payment_summary,\n            &outgoing_payment_summary,\n            &delta,\n            validator.clone(),\n        )?;\n\n        state.apply_payments(",
   "        let outgoing_payment_summary = self.enforcement_state.payments_summary(None, Some(&info2));\n        validator.set_next_counterparty_commit_num(\n            &mut self.enforcement_state,\n            commitment_number + 1,\n            *remote_per_commitment_point,\n            info2.clone(),\n        )?;\n        state.validate_payments(\n            &self.id0,\n            &incoming_payment_summary,\n            &outgoing_payment_summary,\n            &delta,\n            validator.clone(),\n        )?;\n\n        state.apply_payments(")])
m("cpr-advance-before-chain-check",CH,["C10","C03"],edits=[
  ("        validator.set_next_counterparty_revoke_num(&mut self.enforcement_state, revoke_num + 1)?;\n        self.enforcement_state.counterparty_secrets = new_secrets;","        self.enforcement_state.counterparty_secrets = new_secrets;"),
  ("        let mut new_secrets = self.enforcement_state.counterparty_secrets.clone();\n        if let Some(secrets) = new_secrets.as_mut() {\n            let backwards_num = INITIAL_COMMITMENT_NUMBER - revoke_num;",
   "        validator.set_next_counterparty_revoke_num(&mut self.enforcement_state, revoke_num + 1)?;\n        let mut new_secrets = self.enforcement_state.counterparty_secrets.clone();\n        if let Some(secrets) = new_secrets.as_mut() {\n            let backwards_num = INITIAL_COMMITMENT_NUMBER - revoke_num;")])
m("cpr-secrets-in-place",CH,["C10","C03"],edits=[
  ("        let mut new_secrets = self.enforcement_state.counterparty_secrets.clone();\n        if let Some(secrets) = new_secrets.as_mut() {","        if let Some(secrets) = self.enforcement_state.counterparty_secrets.as_mut() {"),
  ("        self.enforcement_state.counterparty_secrets = new_secrets;\n","")])
m("mc2-closed-before-validate",CH,["C10","C07"],
  "    ) -> Result<Signature, Status> {\n        self.validator().validate_mutual_close_tx(\n            &*self.get_node(),\n            &self.setup,\n            &self.enforcement_state,\n            to_holder_value_sat,",
  "    ) -> Result<Signature, Status> {\n        self.enforcement_state.channel_closed = true;\n        self.validator().validate_mutual_close_tx(\n            &*self.get_node(),\n            &self.setup,\n            &self.enforcement_state,\n            to_holder_value_sat,")
m("shx-closed-before-validate",CH,["C10"],
  "        let per_commitment_point = self.get_per_commitment_point(commitment_number)?;\n\n        let info2 = self.build_holder_commitment_info(\n            to_holder_value_sat,\n            to_counterparty_value_sat,\n            offered_htlcs.clone(),",
  "        let per_commitment_point = self.get_per_commitment_point(commitment_number)?;\n        self.enforcement_state.channel_closed = true;\n\n        let info2 = self.build_holder_commitment_info(\n            to_holder_value_sat,\n            to_counterparty_value_sat,\n            offered_htlcs.clone(),")
m("act-take-before-check",CH,["C10","C01"],edits=[
  ("        if self.enforcement_state.next_holder_commit_num != 0 {\n            return Err(invalid_argument(format!(\n                \"activate_initial_commitment called with next_holder_commit_num {}\",",
   "        let taken = self.enforcement_state.next_holder_commit_info.take();\n        if self.enforcement_state.next_holder_commit_num != 0 {\n            return Err(invalid_argument(format!(\n                \"activate_initial_commitment called with next_holder_commit_num {}\","),
  ("        if let Some((info2, sigs)) = self.enforcement_state.next_holder_commit_info.take() {\n            self.enforcement_state.set_next_holder_commit_num(1, info2, sigs);","        if let Some((info2, sigs)) = taken {\n            self.enforcement_state.set_next_holder_commit_num(1, info2, sigs);")])
# --- node.rs
m("al-add-insert-while-parsing",ND,["C10","C11"],
  "        let allowables = self.parse_allowables(adds)?;\n        let mut state = self.get_state();\n        for allowable in allowables {\n            state.allowlist.insert(allowable);\n        }",
  "        let mut state = self.get_state();\n        for a in adds {\n            let allowable = Allowable::from_str(a, self.node_config.network)\n                .map_err(|e| invalid_argument(format!(\"could not parse {}\", e)))?;\n            state.allowlist.insert(allowable);\n        }")
m("al-set-clear-before-parse",ND,["C10","C11"],
  "        let allowables = self.parse_allowables(list)?;\n        let mut state = self.get_state();\n        state.allowlist.clear();",
  "        let mut state = self.get_state();\n        state.allowlist.clear();\n        let allowables = self.parse_allowables(list)?;")
m("al-rm-remove-while-parsing",ND,["C10","C11"],
  "        let allowables = self.parse_allowables(removes)?;\n        let mut state = self.get_state();\n        for allowable in allowables {\n            state.allowlist.remove(&allowable);\n        }",
  "        let mut state = self.get_state();\n        for a in removes {\n            let allowable = Allowable::from_str(a, self.node_config.network)\n                .map_err(|e| invalid_argument(format!(\"could not parse {}\", e)))?;\n            state.allowlist.remove(&allowable);\n        }")
m("ks-payments-entry-before-checks",ND,["C10","C06"],
  "        defer! { trace_node_state!(self.get_state()); }\n        let mut state = self.get_state();\n        let policy = self.policy();\n        if state.invoices.len() >= policy.max_invoices() {\n            return Err(failed_precondition(format!(\n                \"too many invoices ({} >= {})\",\n                state.invoices.len(),\n                policy.max_invoices()\n            )));\n        }\n\n        if let Some(payment_state) = state.invoices.get(&payment_hash) {",
  "        defer! { trace_node_state!(self.get_state()); }\n        let mut state = self.get_state();\n        state.payments.entry(payment_hash).or_insert_with(RoutedPayment::new);\n        let policy = self.policy();\n        if state.invoices.len() >= policy.max_invoices() {\n            return Err(failed_precondition(format!(\n                \"too many invoices ({} >= {})\",\n                state.invoices.len(),\n                policy.max_invoices()\n            )));\n        }\n\n        if let Some(payment_state) = state.invoices.get(&payment_hash) {")
m("ks-velocity-before-max-invoices",ND,["C10","C12"],edits=[
  ("        let now = self.clock.now().as_secs();\n        if !state.velocity_control.insert(now, payment_state.amount_msat) {","        if false {"),
  ("        defer! { trace_node_state!(self.get_state()); }\n        let mut state = self.get_state();\n        let policy = self.policy();\n        if state.invoices.len() >= policy.max_invoices() {\n            return Err(failed_precondition(format!(\n                \"too many invoices ({} >= {})\",\n                state.invoices.len(),\n                policy.max_invoices()\n            )));\n        }\n\n        if let Some(payment_state) = state.invoices.get(&payment_hash) {",
   "        defer! { trace_node_state!(self.get_state()); }\n        let mut state = self.get_state();\n        let now = self.clock.now().as_secs();\n        if !state.invoices.contains_key(&payment_hash) && !state.velocity_control.insert(now, payment_state.amount_msat) {\n            return Ok(false);\n        }\n        let policy = self.policy();\n        if state.invoices.len() >= policy.max_invoices() {\n            return Err(failed_precondition(format!(\n                \"too many invoices ({} >= {})\",\n                state.invoices.len(),\n                policy.max_invoices()\n            )));\n        }\n\n        if let Some(payment_state) = state.invoices.get(&payment_hash) {")])
m("newch-insert-before-max-channels",ND,["C10","C11"],edits=[
  ("        let policy = self.policy();\n        if channels.len() >= policy.max_channels() {","        let policy = self.policy();\n        if channels.len() > policy.max_channels() + 1000 {"),
  ("        // TODO(507) this clone is expensive\n        channels.insert(channel_id.clone(), Arc::new(Mutex::new(ChannelSlot::Stub(stub.clone()))));\n",
   "        // TODO(507) this clone is expensive\n        channels.insert(channel_id.clone(), Arc::new(Mutex::new(ChannelSlot::Stub(stub.clone()))));\n        if channels.len() > policy.max_channels() {\n            return Err(failed_precondition(format!(\"too many channels ({})\", channels.len())));\n        }\n")])
m("forget-hwm-before-found",ND,["C10","C15"],edits=[
  ("        let mut channels = self.get_channels();\n        let found = channels.get(channel_id);\n        if let Some(slot) = found {\n            // Acquire a lock on the node state",
   "        let mut channels = self.get_channels();\n        {\n            let mut node_state = self.get_state();\n            if channel_id.oid() > node_state.dbid_high_water_mark { node_state.dbid_high_water_mark = channel_id.oid(); }\n        }\n        let found = channels.get(channel_id);\n        if let Some(slot) = found {\n            // Acquire a lock on the node state")])
# --- tracker.rs
m("blk-add-height-before-validate",TR,["C10","C13"],edits=[
  ("        self.tip = Headers(header, filter_header);\n        self.height += 1;\n        info!(\"added block {}: {}\"","        self.tip = Headers(header, filter_header);\n        info!(\"added block {}: {}\""),
  ("        self.validate_block(\n            self.height,\n            expected_external_block_hash,\n            &self.tip,\n            &headers,\n            &proof,\n            false,\n        )?;\n        match proof.proof {",
   "        self.height += 1;\n        self.validate_block(\n            self.height - 1,\n            expected_external_block_hash,\n            &self.tip,\n            &headers,\n            &proof,\n            false,\n        )?;\n        match proof.proof {")])
json.dump(M,open("notes/audit/c10.json","w"),indent=1)
print(len(M))
