// Two invoice approvals overlap: A reads the clock (t1), is preempted before it takes the node state
// lock; B reads the clock later (t2, in the next velocity bucket) and completes; A continues.
// The preemption is scripted through the Clock service: the first `now()` runs B to completion
// before it returns t1 (A holds no lock at that point, so this is a legal interleaving).
use lightning_signer::bitcoin::hashes::{sha256::Hash as Sha256Hash, Hash};
use lightning_signer::bitcoin::secp256k1::{Secp256k1, SecretKey};
use lightning_signer::bitcoin::Network;
use lightning_signer::invoice::Invoice;
use lightning_signer::lightning::types::payment::PaymentSecret;
use lightning_signer::lightning_invoice::{Currency, InvoiceBuilder};
use lightning_signer::node::{Node, NodeConfig, NodeServices};
use lightning_signer::policy::simple_validator::{make_default_simple_policy, SimpleValidatorFactory};
use lightning_signer::signer::derive::KeyDerivationStyle;
use lightning_signer::util::clock::Clock;
use lightning_signer::util::test_utils::*;
use lightning_signer::util::velocity::{VelocityControlIntervalType, VelocityControlSpec};
use lightning_signer::SendSync;
use std::sync::{Arc, Mutex};
use std::time::Duration;

struct Scripted {
    calls: Mutex<u32>,
    hook: Mutex<Option<Box<dyn FnOnce() + Send>>>,
}
impl SendSync for Scripted {}
impl Clock for Scripted {
    fn now(&self) -> Duration {
        let n = { let mut c = self.calls.lock().unwrap(); *c += 1; *c };
        if n == 1 {
            // request A has read the clock; before it goes on, request B runs completely
            if let Some(h) = self.hook.lock().unwrap().take() { h(); }
            Duration::from_secs(1_600_000_000)
        } else {
            Duration::from_secs(1_600_000_000 + 400) // next 5-minute bucket
        }
    }
}

fn invoice(tag: u8, t: u64, amt: u64) -> Invoice {
    let key = SecretKey::from_slice(&[42; 32]).unwrap();
    Invoice::Bolt11(InvoiceBuilder::new(Currency::BitcoinTestnet)
        .description("x".into())
        .payment_hash(Sha256Hash::hash(&[tag; 32]))
        .payment_secret(PaymentSecret([tag; 32]))
        .duration_since_epoch(Duration::from_secs(t))
        .min_final_cltv_expiry_delta(144)
        .amount_milli_satoshis(amt)
        .build_signed(|h| Secp256k1::new().sign_ecdsa_recoverable(h, &key)).unwrap())
}

#[test]
fn overlapping_invoice_approvals_keep_the_velocity_window() {
    let clock = Arc::new(Scripted { calls: Mutex::new(0), hook: Mutex::new(None) });
    let mut policy = make_default_simple_policy(Network::Testnet);
    policy.global_velocity_control = VelocityControlSpec { limit_msat: 1_000_000, interval_type: VelocityControlIntervalType::Hourly };
    let services = NodeServices {
        validator_factory: Arc::new(SimpleValidatorFactory::new_with_policy(policy)),
        starting_time_factory: make_genesis_starting_time_factory(Network::Testnet),
        persister: make_services().persister,
        clock: clock.clone(),
        trusted_oracle_pubkeys: vec![],
    };
    let config = NodeConfig { network: Network::Testnet, key_derivation_style: KeyDerivationStyle::Native, use_checkpoints: true, allow_deep_reorgs: true };
    let node = Arc::new(Node::new(config, &[9u8; 32], vec![], services));
    let n2 = node.clone();
    *clock.hook.lock().unwrap() = Some(Box::new(move || {
        assert!(n2.add_invoice(invoice(2, 1_600_000_400, 600_000)).unwrap());
    }));
    // request A: 600_000 more would exceed the hourly limit of 1_000_000 together with B's 600_000
    let a = node.add_invoice(invoice(1, 1_600_000_000, 600_000)).unwrap();
    assert!(!a, "1_200_000 msat approved within seven minutes under a limit of 1_000_000 msat per hour");
}
