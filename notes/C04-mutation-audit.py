#!/usr/bin/env python3
"""C04 mutation audit runner: apply one mutation to the private worktree, run bin/check C04 (quick), record, revert."""
import subprocess, sys, os, re, json, time
REPO = "/work/c04/repo"
VERIF = "/work/c04/verif"
CH = "vls-core/src/channel.rs"
TX = "vls-core/src/tx/tx.rs"
SV = "vls-core/src/policy/simple_validator.rs"
ND = "vls-core/src/node.rs"
KV = "vls-persist/src/kvv.rs"

# (id, description, [(file, line, old, new) | (file, 'swap', lineA, lineB)])
M = [
 ("A01", "phase 1: length test tx.output vs witscripts dropped", [(CH, 2149, "if tx.output.len()", "if false && tx.output.len()")]),
 ("A02", "phase 1: decoded balances swapped when building info2", [(CH, "swap", 2168, 2169)]),
 ("A03", "phase 1: balances swapped in the recomposition call", [(CH, "swap", 2220, 2221)]),
 ("A04", "phase 1: offered/received swapped in htlcs_info2_to_oic for the recomposition", [(CH, 2214, "(&info2.offered_htlcs, &info2.received_htlcs)", "(&info2.received_htlcs, &info2.offered_htlcs)")]),
 ("A05", "phase 1: equality test compares outputs only", [(CH, 2225, "transaction != *tx", "transaction.output != tx.output")]),
 ("A06", "phase 1: equality test compares inputs only", [(CH, 2225, "transaction != *tx", "transaction.input != tx.input")]),
 ("A07", "phase 1: BIP143 amount off by one (channel_value_sat - 1)", [(CH, 2280, "self.setup.channel_value_sat,", "self.setup.channel_value_sat - 1,")]),
 ("A08", "phase 1: equality test compares lock_time/version/inputs and output *count* only", [(CH, 2225, "transaction != *tx", "transaction.output.len() != tx.output.len()")]),
 ("B01", "phase 2: balances swapped in make_counterparty_commitment_tx call", [(CH, "swap", 797, 798)]),
 ("B02", "phase 2: balances swapped in build_counterparty_commitment_info (validated content differs from signed content)", [(CH, "swap", 762, 763)]),
 ("B03", "phase 2: offered/received swapped in htlcs_info2_to_oic", [(CH, 786, "(&offered_htlcs, &received_htlcs)", "(&received_htlcs, &offered_htlcs)")]),
 ("B05", "phase 2: HTLC signatures returned in reverse order", [(CH, 850, "Ok((sig, htlc_sigs))", "Ok((sig, htlc_sigs.into_iter().rev().collect()))")]),
 ("C01", "builder: INITIAL_COMMITMENT_NUMBER - n made saturating (differs only for n > 2^48-1)", [(CH, 942, "INITIAL_COMMITMENT_NUMBER - commitment_number,", "INITIAL_COMMITMENT_NUMBER.saturating_sub(commitment_number),")]),
 ("C02", "builder: to_broadcaster/to_countersignatory swapped in CommitmentTransaction::new", [(CH, "swap", 943, 944)]),
 ("C03", "builder: the two funding pubkeys swapped (matters only when exactly one anchor exists)", [(CH, "swap", 945, 946)]),
 ("C04", "make_channel_parameters: funding vout truncated to u8", [(CH, 1615, "vout as u16", "vout as u8 as u16")]),
 ("C05", "make_channel_parameters: is_outbound negated (obscure factor order)", [(CH, 1620, "self.setup.is_outbound", "!self.setup.is_outbound")]),
 ("C07", "make_counterparty_tx_keys: holder/counterparty basepoints swapped", [(CH, 718, "counterparty_points, holder_points", "holder_points, counterparty_points")]),
 ("C08", "htlcs_info2_to_oic: amount_msat = sat*1000+999 (same sat amount: expected unobservable)", [(CH, 1593, "htlc.value_sat * 1000,", "htlc.value_sat * 1000 + 999,")]),
 ("C09", "htlcs_info2_to_oic: offered HTLC cltv_expiry dropped (0)", [(CH, 1594, "cltv_expiry: htlc.cltv_expiry,", "cltv_expiry: 0,")]),
 ("C10", "htlcs_info2_to_oic: received HTLCs flagged offered", [(CH, 1601, "offered: false", "offered: true")]),
 ("C11", "ChannelSetup::features: zero-fee / non-zero-fee anchors bits swapped", [(CH, 262, "if self.is_zero_fee_htlc()", "if !self.is_zero_fee_htlc()")]),
 ("C12", "ChannelSetup::is_anchors: Anchors variant no longer counts as anchors", [(CH, 248, "self.commitment_type == CommitmentType::Anchors", "false")]),
 ("D01", "decoder: to_local delay 0 refused (delay <= 0)", [(TX, 479, "if delay < 0", "if delay <= 0")]),
 ("D02", "decoder: MAX_DELAY bound lowered to 2000 (delays 2001..2016 refused)", [(TX, 482, "if delay > MAX_DELAY", "if delay > 2000")]),
 ("D04", "decoder: anchored to_remote value not recorded", [(TX, 531, "self.to_countersigner_value_sat = out.value.to_sat();", "")]),
 ("D05", "decoder: p2wpkh to_remote value recorded into the to_broadcaster field", [(TX, 655, "self.to_countersigner_value_sat = out.value.to_sat();", "self.to_broadcaster_value_sat = out.value.to_sat();")]),
 ("D06", "decoder: script_pubkey == p2wsh(witness script) test dropped", [(TX, 662, "if out.script_pubkey != script.to_p2wsh()", "if false && out.script_pubkey != script.to_p2wsh()")]),
 ("D07", "decoder: received-HTLC parser never expects the anchors suffix", [(TX, 672, "parse_received_htlc_script(&script, setup.is_anchors())", "parse_received_htlc_script(&script, false)")]),
 ("D08", "decoder: negative CLTV test dropped (masked by the equality test)", [(TX, 552, "if cltv_expiry < 0", "if false && cltv_expiry < 0")]),
 ("D09", "decoder: anchor amount test dropped (masked by the equality test)", [(TX, 613, "if out.value != ANCHOR_SAT", "if false && out.value != ANCHOR_SAT")]),
 ("D11", "decoder: p2wpkh-with-anchors refusal dropped (masked by the equality test)", [(TX, 641, "if setup.is_anchors() {", "if false && setup.is_anchors() {")]),
 ("D12", "decoder: singular to_local test dropped (masked by the equality test)", [(TX, 473, "if self.has_to_broadcaster() {", "if false && self.has_to_broadcaster() {")]),
 ("D13", "to_local parser expects OP_CLTV instead of OP_CSV", [(TX, 456, "expect_op(iter, OP_CSV)?;", "expect_op(iter, OP_CLTV)?;")]),
 ("D15", "offered-HTLC parser: size constant 33", [(TX, 347, "if thirty_two != 32", "if thirty_two != 33")]),
 ("D16", "anchor parser expects OP_1 instead of OP_16", [(TX, 588, "expect_op(iter, OP_PUSHNUM_16)?;", "expect_op(iter, OP_PUSHNUM_1)?;")]),
 ("D17", "anchored to_remote accepted without anchors too (guard on is_anchors dropped; masked)", [(TX, 681, "if setup.is_anchors() {", "if true {")]),
 ("E01", "decode_commitment_tx: version test dropped (masked by the equality test)", [(SV, 700, "if tx.version != Version::TWO", "if false && tx.version != Version::TWO")]),
 ("E02", "decode_commitment_tx: last output not decoded", [(SV, 710, "0..tx.output.len()", "0..tx.output.len().saturating_sub(1)")]),
 ("E03", "decode_commitment_tx: first output not decoded", [(SV, 710, "0..tx.output.len()", "1..tx.output.len()")]),
 ("F01", "CommitmentInfo2::new: offered list no longer sorted (expected unobservable for C04)", [(TX, 128, "offered_htlcs.sort();", "")]),
 ("G01", "persist: ChannelEntry.channel_value_satoshis written as 0", [(KV, 211, "channel.setup.channel_value_sat;", "0;")]),
 ("G02", "signer channel parameters: holder delay := counterparty delay (HTLC-tx output script)", [(ND, 2390, "setup.holder_selected_contest_delay", "setup.counterparty_selected_contest_delay")]),
 ("G03", "restore path: provide_channel_parameters skipped", [(ND, 1351, "keys.provide_channel_parameters(&channel_transaction_parameters);", "let _ = &channel_transaction_parameters;")]),
 ("G05", "signer channel parameters: channel type features lost (static remotekey only)", [(ND, 2397, "setup.features()", "ChannelTypeFeatures::only_static_remote_key()")]),
 ("B06", "build_counterparty_commitment_info: is_counterparty_broadcaster flag false (validated as a holder commitment)", [(CH, 2111, "true,", "false,")]),
 ("B07", "build_counterparty_commitment_info: feerate recorded/validated as 0", [(CH, 2116, "feerate_per_kw,", "0,")]),
 ("A09", "phase 1: records an info2 with the HTLC lists exchanged as the validated content", [(CH, 2301, "info2.clone(),", "{ let mut x = info2.clone(); core::mem::swap(&mut x.offered_htlcs, &mut x.received_htlcs); x },")]),
 ("G07", "setup_channel: signer keys derived with channel value 0 (phase 2 signs amount 0 before any restart)", [(ND, 1901, "setup.channel_value_sat", "0")]),
 ("G08", "persist read path: ChannelEntry.channel_value_satoshis dropped in From<ChannelEntry>", [("vls-persist/src/model.rs", 128, "e.channel_value_satoshis", "0")]),
 ("D18", "decoder: offered-HTLC parser called with the anchors flag negated", [(TX, 675, "parse_offered_htlc_script(&script, setup.is_anchors())", "parse_offered_htlc_script(&script, !setup.is_anchors())")]),
 ("D19", "decoder: witness script taken from the previous output (index - 1, saturating)", [(SV, 711, "output_witscripts[ind]", "output_witscripts[ind.saturating_sub(1)]")]),
 ("G06", "signer channel parameters: funding vout truncated to u8 (signer copy only)", [(ND, 2385, "vout as u16", "vout as u8 as u16")]),
]

def sh(cmd, cwd=None, env=None, timeout=3000):
    e = dict(os.environ)
    if env: e.update(env)
    p = subprocess.run(cmd, shell=True, cwd=cwd, env=e, stdout=subprocess.PIPE, stderr=subprocess.STDOUT, text=True, timeout=timeout)
    return p.returncode, p.stdout

def apply(edits):
    for ed in edits:
        f = os.path.join(REPO, ed[0])
        lines = open(f).read().split("\n")
        if ed[1] == "swap":
            a, b = ed[2] - 1, ed[3] - 1
            lines[a], lines[b] = lines[b], lines[a]
        else:
            i = ed[1] - 1
            assert ed[2] in lines[i], (ed, lines[i])
            lines[i] = lines[i].replace(ed[2], ed[3], 1)
        open(f, "w").write("\n".join(lines))

def run_one(mid, desc, edits, out):
    sh("git checkout -q -- .", cwd=REPO)
    apply(edits)
    t0 = time.time()
    rc, log = sh("bin/check C04", cwd=VERIF, env={"VERIF_REPO": REPO})
    dt = time.time() - t0
    res = {"id": mid, "desc": desc, "rc": rc, "wall": round(dt)}
    m = re.search(r"(\d+) correspondence disagreements, (\d+) new violations", log)
    res["disagreements"] = int(m.group(1)) if m else None
    res["violations"] = int(m.group(2)) if m else None
    res["build_broken"] = "harness build against" in log
    kind = None
    rp = os.path.join(VERIF, "replays", "C04-quick-1.txt")
    if "VIOLATION" in log and os.path.exists(rp):
        txt = open(rp).read()
        k = re.search(r"violated on the implementation: (\S+)", txt)
        kind = k.group(1) if k else ("no-failing-input-found" if "no longer shown" in txt else None)
        res["replay"] = [l for l in txt.split("\n") if l and not l.startswith("#")][:8]
        os.remove(rp)
    res["kind"] = kind
    ev = json.load(open(os.path.join(VERIF, "evidence", "C04.json")))
    res["all_kinds"] = sorted(set(k.split(":")[-1] for k in []))
    out.append(res)
    print(json.dumps({k: res[k] for k in ("id", "rc", "disagreements", "violations", "kind", "wall", "build_broken")}), flush=True)
    sh("git checkout -q -- .", cwd=REPO)

if __name__ == "__main__":
    sel = sys.argv[1:]
    outp = "/work/c04/audit_results.json"
    out = json.load(open(outp)) if os.path.exists(outp) else []
    for (mid, desc, edits) in M:
        if sel and mid not in sel: continue
        out = [r for r in out if r["id"] != mid]
        run_one(mid, desc, edits, out)
        json.dump(out, open(outp, "w"), indent=1)
