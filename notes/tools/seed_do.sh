#!/bin/bash
# do.sh <Cxx> <file> <dest> "<cmd>"  : confirm, clean, commit, first-run seedtest
P=$1
/tmp/seed/adapt.sh "$1" "$2" "$3" "$4" > /tmp/seed/$P-confirm.log 2>&1
git -C /repo worktree remove --force /work/seedconfirm-$P/repo; rm -rf /work/seedconfirm-$P; git -C /repo worktree remove --force /tmp/seed/$P-r8
grep -q '"confirmed": true' /tmp/seed/$P-confirm.log || { echo "NOT CONFIRMED $P"; tail -n 30 /tmp/seed/$P-confirm.log; exit 1; }
cd /verif
SEEDTEST_DIR=/work/seedtest VERIF_NO_ESCALATE=1 bin/seedtest /verif/seeded/$P-r8-1/patch.diff $P > notes/seedlogs/r8first_$P-r8-1.log 2>&1
cut -c1-300 notes/seedlogs/r8first_$P-r8-1.log | head -n 12
