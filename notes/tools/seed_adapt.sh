#!/bin/sh
# adapt.sh <Cxx> <demo-file-name> <dest-path-in-repo> "<cargo cmd>"
set -e
P=$1; F=$2; DEST=$3; CMD=$4
S=/tmp/seed/$P-r8/SEED; O=/tmp/seed/$P-stage; rm -rf $O; mkdir -p $O
cp $S/patch.diff $S/meta.json $O/
{ echo "// $CMD"; cat $S/demo/$F; } > $O/demo.rs
# demo.diff: new-file diff at DEST
T=$(mktemp -d); mkdir -p $T/a $T/b/$(dirname $DEST); cp $O/demo.rs $T/b/$DEST
(cd $T && diff -uN a/$DEST b/$DEST | sed "1s#.*#--- /dev/null#; 2s#.*#+++ b/$DEST#" ) > $O/demo.body || true
{ echo "diff --git a/$DEST b/$DEST"; echo "new file mode 100644"; cat $O/demo.body; } > $O/demo.diff; rm -rf $T $O/demo.body
cd /verif && SEEDCONFIRM_DIR=/work/seedconfirm-$P python3 bin/seedconfirm $O $P-r8-1
