import sys, subprocess, json, os, re, time
sys.path.insert(0,'/work/c06/tools')
import importlib, muts
REPO=os.environ.get('MUT_REPO','/work/c06/repo'); VERIF=sys.argv[2] if len(sys.argv)>2 and not sys.argv[2].startswith('-') else '/work/c06/audit'
def apply(m):
    subprocess.run(['git','-C',REPO,'checkout','-q','.'],check=True)
    mid,f,desc,old,new,nth=m
    p=os.path.join(REPO,f); s=open(p).read()
    idx=-1
    for _ in range(nth+1):
        idx=s.find(old,idx+1)
        if idx<0: return False
    s=s[:idx]+new+s[idx+len(old):]
    open(p,'w').write(s); return True
if sys.argv[1]=='verify':
    for m in muts.M:
        ok=apply(m)
        print(m[0], 'ok' if ok else 'NOT FOUND')
    subprocess.run(['git','-C',REPO,'checkout','-q','.'])
    sys.exit(0)
ids=sys.argv[3:] if len(sys.argv)>3 else None
out=open('/work/c06/tools/results.jsonl','a')
for m in muts.M:
    if ids and m[0] not in ids: continue
    if not apply(m): print(m[0],'NOT FOUND'); continue
    t0=time.time()
    p=subprocess.run(['bin/check','C06'],cwd=VERIF,env=dict(os.environ,VERIF_REPO=REPO),stdout=subprocess.PIPE,stderr=subprocess.STDOUT,text=True)
    o=p.stdout
    res={'id':m[0],'desc':m[2],'exit':p.returncode,'wall':round(time.time()-t0)}
    res['violation']=bool(re.search(r'^VIOLATION property=C06 replay=\S+$',o,re.M))
    res['nofail']='no-failing-input-found' in o
    mm=re.search(r'(\d+) correspondence disagreements, (\d+) new violations',o); res['disagree']=int(mm.group(1)) if mm else None; res['newviol']=int(mm.group(2)) if mm else None
    res['build_broken']='harness build' in o
    kind=None; replay=[]
    rp=os.path.join(VERIF,'replays','C06-quick-1.txt')
    if os.path.exists(rp):
        t=open(rp).read()
        k=re.search(r'violated on the implementation: (\S+)',t); kind=k.group(1) if k else None
        replay=[l for l in t.splitlines() if l and not l.startswith('#') and not l.startswith('case')][:14]
        os.remove(rp)
    res['kind']=kind; res['replay']=replay
    out.write(json.dumps(res)+'\n'); out.flush()
    print(res['id'],res['exit'],kind,res['disagree'],res['newviol'],res['wall'],flush=True)
subprocess.run(['git','-C',REPO,'checkout','-q','.'])
