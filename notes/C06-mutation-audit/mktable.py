import json,sys
sys.path.insert(0,'/work/c06/tools'); import muts
def load(f):
    d={}
    try:
        for l in open(f):
            r=json.loads(l); d[r['id']]=r
    except FileNotFoundError: pass
    return d
r1=load('tools/results_round1.jsonl'); r2=load('tools/results_round2.jsonl'); r3=load('tools/results_round3.jsonl'); r4=load('tools/results_round4.jsonl')
def cls(r):
    if r is None: return None
    if r.get('build_broken'): return 'no-compile'
    if r['exit']==0: return 'MISSED'
    if r['kind']: return 'replay:'+r['kind']
    return 'correspondence'
why={
'V04':'the node keeps counting outgoing value that left the commitment (over-count): stricter, the property cannot break',
'V05':'as V04 for the counterparty view: over-count, stricter',
'V06':'only affects hashes present in the holder view alone, whose incoming value is 0 by the min rule anyway; changes which entries exist, not a balance',
'N01':'own channel counted twice: over-count, stricter',
'N16':'prune one second earlier; no balance effect',
'N17':'the dropped entry matters only for a later approval of that hash, which is the listed finding F-C06-1 (kind suppressed as known); the divergence itself is replayed by the correspondence',
'N18':'an invoiced entry without HTLCs is dropped: later validation treats the hash as without entry (no tolerance), stricter',
'N20':'answer only (Ok(true) instead of Err); the registered invoice and amount do not change',
'N22':'heartbeat panics after a restart (missing payments struct): availability, not balance',
'N25':'an expired, already pruned approval comes back after a restart; the harness book has let it lapse, so it demands nothing for that hash any more',
'N28':'`outgoing.is_empty()` is false once the channel was ever applied: nothing with a history is pruned any more; stricter',
'N31':'prune time earlier by the invoice expiry; no balance effect',
'N32':'answer only (has_payment says same for a different invoice); nothing registered',
'P03':'preimage flag of an uninvoiced entry lost over a restart: affects pruning only',
'P05':'pending holder commitment lost over a restart: the revocation is refused; stricter',
'C07':'a refused revocation forgets the pending commitment: later revocations are refused; stricter',
'C13':'after a restart the amounts sit under the permanent id and are counted in addition to id0: over-count, stricter',
'C14':'the own old amount of the channel is not subtracted (wrong key): over-count, stricter',
'S01':'exact amount + allowance refused: stricter by 1 msat',
'S03':'differs only where a + max_routing_fee_msat overflows u64 (debug panic vs saturation)',
'S04':'exactly 10 % fee refused: stricter',
'N34':'EQUIVALENT on reachable states: an outgoing-only hash reaches apply_payments only if it already has an entry (approved, or tolerated because the entry exists); otherwise validate_payments refused the update',
}
rows=[]
n1=dict(replay=0,corr=0,missed=0,nocomp=0)
for m in muts.M:
    i=m[0]
    a=cls(r1.get(i)); rest=[cls(x.get(i)) for x in (r2,r3,r4)]
    final=[x for x in [a]+rest if x][-1]
    first=a if a else '(added in a later round)'
    if a:
        if a.startswith('replay'): n1['replay']+=1
        elif a=='correspondence': n1['corr']+=1
        elif a=='MISSED': n1['missed']+=1
        else: n1['nocomp']+=1
    fr=r4.get(i) or r3.get(i) or r2.get(i) or r1.get(i)
    rp=' / '.join(fr['replay'][:9]) if fr and fr['kind'] else ''
    rows.append((i,m[1].split('/')[-1],m[2],first,final,rp,why.get(i,'')))
out=["| id | file | one-line slip | first run (harness of cd34664) | final | replay of the final run (first ops) / why no property replay is possible |","|---|---|---|---|---|---|"]
for i,f,d,first,final,rp,note in rows:
    out.append(f"| {i} | {f} | {d} | {first} | {final} | {('`'+rp+'`') if rp else note} |")
open('/tmp/c06_table.md','w').write('\n'.join(out)+'\n')
fin={}
for r in rows:
    k='replay' if r[4].startswith('replay') else r[4]
    fin[k]=fin.get(k,0)+1
print('first run:',n1,'total',len(muts.M)); print('final:',fin)
