use std::sync::atomic::{AtomicU64, Ordering};
use std::sync::Arc;
use std::time::Duration;
use lightning_signer::node::NodeMonitor;
use lightning_signer::util::test_utils::*;

#[test]
fn c20_deadlock_forget_vs_balance() {
    let (node, channel_id) = init_node_and_channel(TEST_NODE_CONFIG, TEST_SEED[1], make_test_channel_setup());
    let ca = Arc::new(AtomicU64::new(0));
    let cb = Arc::new(AtomicU64::new(0));
    let (n1, c1, id1) = (node.clone(), ca.clone(), channel_id.clone());
    std::thread::spawn(move || loop { n1.forget_channel(&id1).unwrap(); c1.fetch_add(1, Ordering::SeqCst); });
    let (n2, c2) = (node.clone(), cb.clone());
    std::thread::spawn(move || loop { let _ = n2.channel_balance(); c2.fetch_add(1, Ordering::SeqCst); });
    let mut last = (0, 0);
    for i in 0..20 {
        std::thread::sleep(Duration::from_millis(500));
        let cur = (ca.load(Ordering::SeqCst), cb.load(Ordering::SeqCst));
        println!("t={} forget={} balance={}", i, cur.0, cur.1);
        if cur == last && i > 0 { panic!("VIOLATION: no progress in 500ms: deadlock (forget_channel vs channel_balance)"); }
        last = cur;
    }
}
