use std::sync::Arc;
use lightning_signer::bitcoin::Network;
use lightning_signer::policy::simple_validator::{make_default_simple_policy, SimpleValidatorFactory};
use lightning_signer::util::test_utils::*;
use lightning_signer::util::test_utils::key::make_test_pubkey;

#[test]
fn c05_feerate_truncation() {
    let mut setup = make_test_channel_setup();
    setup.channel_value_sat = 4_000_000_000;
    let (node, channel_id) = {
        let node = init_node(TEST_NODE_CONFIG, TEST_SEED[1]);
        let mut policy = make_default_simple_policy(Network::Testnet);
        policy.max_channel_size_sat = 5_000_000_000;
        node.set_validator_factory(Arc::new(SimpleValidatorFactory::new_with_policy(policy)));
        let id = init_channel(setup.clone(), node.clone());
        (node, id)
    };
    let fee: u64 = 3_109_557_046; // ~31 BTC
    let point = make_test_pubkey(0x21);
    let r = node.with_channel(&channel_id, |chan| {
        chan.sign_counterparty_commitment_tx_phase2(&point, 0, 1000, setup.channel_value_sat - fee, 0, vec![], vec![])
    });
    println!("commitment burning {} sat in fees accepted: {:?}", fee, r.as_ref().map(|_| ()).map_err(|e| e.message().to_string()));
    assert!(r.is_err(), "VIOLATION: fee {} sat on weight 724 accepted (max_feerate 333_333 per kw => max fee 241_333 sat)", fee);
}
