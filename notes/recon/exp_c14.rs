use lightning_signer::bitcoin::hashes::Hash;
use lightning_signer::bitcoin::{BlockHash, OutPoint, TxIn, Txid};
use lightning_signer::chain::tracker::ChainListener;
use lightning_signer::channel::{ChannelBase, ChannelSetup, CommitmentType};
use lightning_signer::util::test_utils::key::make_test_counterparty_points;
use lightning_signer::util::test_utils::*;

fn make_txin2(prev_txid: Txid, prevout: u32) -> TxIn {
    TxIn { previous_output: OutPoint::new(prev_txid, prevout), script_sig: Default::default(), sequence: Default::default(), witness: Default::default() }
}

#[test]
fn c14_close_and_sweep_same_block_then_reorg() {
    let funding_tx = make_tx(vec![make_txin(1), make_txin(2)]);
    let funding_outpoint = OutPoint::new(funding_tx.compute_txid(), 0);
    let setup = ChannelSetup {
        is_outbound: true, channel_value_sat: 3_000_000, push_value_msat: 0, funding_outpoint,
        holder_selected_contest_delay: 6, holder_shutdown_script: None,
        counterparty_points: make_test_counterparty_points(), counterparty_selected_contest_delay: 7,
        counterparty_shutdown_script: None, commitment_type: CommitmentType::StaticRemoteKey,
    };
    let (node, channel_id) = init_node_and_channel(TEST_NODE_CONFIG, TEST_SEED[1], setup.clone());
    let monitor = node.get_tracker().listeners.get(&funding_outpoint).unwrap().0.clone();
    let bh = BlockHash::all_zeros();
    monitor.on_add_block(&[], &bh);
    monitor.on_add_block(&[funding_tx.clone()], &bh);
    let commit_num = 23;
    let to_holder = 100000;
    node.with_channel(&channel_id, |chan| {
        chan.set_next_holder_commit_num_for_testing(commit_num);
        let p = chan.get_per_commitment_point(commit_num)?;
        chan.set_next_counterparty_commit_num_for_testing(commit_num + 1, p.clone());
        Ok(())
    }).unwrap();
    let secp_ctx = lightning_signer::bitcoin::secp256k1::Secp256k1::signing_only();
    let node_ctx = TestNodeContext { node: node.clone(), secp_ctx };
    let counterparty_keys = make_test_counterparty_keys(&node_ctx, &channel_id, 3_000_000);
    let chan_ctx = TestChannelContext { channel_id: channel_id.clone(), setup: setup.clone(), counterparty_keys };
    let closing = channel_commitment(&node_ctx, &chan_ctx, commit_num, 1000, to_holder, 200000, vec![], vec![]).tx.unwrap();
    let closing_tx = closing.trust().built_transaction().transaction.clone();
    let closing_txid = closing_tx.compute_txid();
    let hidx = closing_tx.output.iter().position(|o| o.value.to_sat() == to_holder).unwrap() as u32;
    let sweep = make_tx(vec![make_txin2(closing_txid, hidx)]);
    let before = format!("{:?}", *monitor.get_state());
    monitor.on_add_block(&[closing_tx.clone(), sweep.clone()], &bh);
    println!("after add: {:?}", *monitor.get_state());
    let r = std::panic::catch_unwind(std::panic::AssertUnwindSafe(|| monitor.on_remove_block(&[closing_tx.clone(), sweep.clone()], &bh)));
    println!("remove result is_err(panic) = {}", r.is_err());
    let after = format!("{:?}", *monitor.get_state());
    println!("roundtrip equal: {}", before == after);
    assert!(r.is_ok() && before == after);
}
