use lightning_signer::persist::{compute_shared_hmac, Mutations};
use vls_persist::kvv::memory::MemoryKVVStore;
use vls_persist::kvv::redb::RedbKVVStore;
use vls_persist::kvv::cloud::CloudKVVStore;
use vls_persist::kvv::{KVVStore, KVV};

#[test]
fn c16_mem_vs_redb_dup_batch() {
    let mem = MemoryKVVStore::new([0; 16]);
    let dir = tempfile::tempdir().unwrap();
    let redb = RedbKVVStore::new(dir.path());
    mem.put_with_version("k", 1, b"x".to_vec()).unwrap();
    redb.put_with_version("k", 1, b"x".to_vec()).unwrap();
    let batch = || vec![KVV("k".into(), (2, b"a".to_vec())), KVV("k".into(), (1, b"x".to_vec()))];
    let rm = mem.put_batch(batch());
    let rr = redb.put_batch(batch());
    println!("mem: {:?} -> {:?}", rm.is_ok(), mem.get("k").unwrap());
    println!("redb: {:?} -> {:?}", rr.is_ok(), redb.get("k").unwrap());
    assert_eq!(rm.is_ok(), rr.is_ok(), "VIOLATION: backends disagree");
}

#[test]
fn c16_cloud_version_lowered_in_txn() {
    let cloud = CloudKVVStore::new(MemoryKVVStore::new([0; 16]));
    cloud.enter().unwrap();
    cloud.put_with_version("k", 5, b"a".to_vec()).unwrap();
    let r = cloud.put_with_version("k", 3, b"b".to_vec());
    println!("second put: {:?}, get: {:?}", r.is_ok(), cloud.get("k").unwrap());
    let _ = cloud.prepare();
    cloud.commit().unwrap();
    println!("local after commit: {:?}", cloud.get_local("k").unwrap());
}

#[test]
fn c17_shared_hmac_collision() {
    let secret = [7u8; 32];
    let nonce = [9u8; 32];
    let mut a = Mutations::new();
    a.add("k1".into(), 1, b"v1".to_vec());
    a.add("k2".into(), 2, b"v2".to_vec());
    let mut merged = b"v1".to_vec();
    merged.extend_from_slice(b"k2");
    merged.extend_from_slice(&2u64.to_be_bytes());
    merged.extend_from_slice(b"v2");
    let mut b = Mutations::new();
    b.add("k1".into(), 1, merged);
    let ha = compute_shared_hmac(&secret, &nonce, &a);
    let hb = compute_shared_hmac(&secret, &nonce, &b);
    println!("equal tags for different record sets: {}", ha == hb);
    assert_ne!(ha, hb, "VIOLATION: two different record sets authenticate under the same tag");
}
