// F13 replay: in a build without overflow checks (cargo build --release) the per-commitment secret
// guard `commitment_number + 2 > next_holder_commit_num` wraps.
use lightning_signer::channel::ChannelBase;
use lightning_signer::lightning::sign::ChannelSigner;
use lightning_signer::util::test_utils::*;
fn main() {
    let node_ctx = test_node_ctx(1);
    let chan_ctx = fund_test_channel(&node_ctx, 3_000_000); // next_holder_commit_num == 1
    let r = node_ctx.node.with_channel(&chan_ctx.channel_id, |chan| {
        println!("next_holder_commit_num = {}", chan.enforcement_state.next_holder_commit_num);
        let seed = chan.keys.commitment_seed;
        println!("get_per_commitment_secret(0)          -> {:?}", chan.get_per_commitment_secret(0).map(|_| "secret").map_err(|e| e.message().to_string()));
        let a = std::panic::catch_unwind(std::panic::AssertUnwindSafe(|| chan.get_per_commitment_secret(u64::MAX)));
        match a {
            Err(_) => println!("get_per_commitment_secret(u64::MAX)   -> panic (overflow checks on)"),
            Ok(Err(e)) => println!("get_per_commitment_secret(u64::MAX)   -> Err {}", e.message()),
            Ok(Ok(s)) => println!("get_per_commitment_secret(u64::MAX)   -> Ok, equals commitment_seed: {}", s.secret_bytes() == seed),
        }
        let b = std::panic::catch_unwind(std::panic::AssertUnwindSafe(|| chan.get_per_commitment_secret_or_none(u64::MAX - 1)));
        match b {
            Err(_) => println!("get_per_commitment_secret_or_none(MAX-1) -> panic"),
            Ok(None) => println!("get_per_commitment_secret_or_none(MAX-1) -> None"),
            Ok(Some(s)) => println!("get_per_commitment_secret_or_none(MAX-1) -> Some, equals secret of commitment 2^48-2: {}",
                s.secret_bytes() == chan.keys.release_commitment_secret(1).unwrap()),
        }
        let c = std::panic::catch_unwind(std::panic::AssertUnwindSafe(|| chan.revoke_previous_holder_commitment(u64::MAX)));
        match c {
            Err(_) => println!("revoke_previous_holder_commitment(u64::MAX) -> panic"),
            Ok(Err(e)) => println!("revoke_previous_holder_commitment(u64::MAX) -> Err {}", e.message()),
            Ok(Ok((_, s))) => println!("revoke_previous_holder_commitment(u64::MAX) -> Ok secret present: {}", s.is_some()),
        }
        Ok(())
    });
    r.unwrap();
}
