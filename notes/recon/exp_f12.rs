use std::sync::Arc;
use std::time::Duration;
use lightning_signer::bitcoin::Network;
use lightning_signer::bitcoin::consensus::serialize;
use lightning_signer::bitcoin::{Block, Transaction, TxOut};
use lightning_signer::node::{Node, NodeConfig, NodeServices};
use lightning_signer::persist::Persist;
use lightning_signer::policy::simple_validator::SimpleValidatorFactory;
use lightning_signer::signer::derive::KeyDerivationStyle;
use lightning_signer::txoo::proof::{ProofType, TxoProof};
use lightning_signer::util::clock::ManualClock;
use lightning_signer::util::test_utils::*;
use vls_persist::kvv::memory::MemoryKVVStore;
use vls_persist::kvv::{JsonFormat, KVVPersister};

fn services(persister: Arc<dyn Persist>) -> NodeServices {
    NodeServices {
        validator_factory: Arc::new(SimpleValidatorFactory::new()),
        starting_time_factory: make_genesis_starting_time_factory(Network::Testnet),
        persister, clock: Arc::new(ManualClock::new(Duration::from_secs(1_000_000))), trusted_oracle_pubkeys: vec![],
    }
}

#[test]
fn f12_forget_flag_not_durable() {
    let persister: Arc<dyn Persist> = Arc::new(KVVPersister(MemoryKVVStore::new([7u8; 16]), JsonFormat));
    let seed = [9u8; 32];
    let config = NodeConfig { network: Network::Testnet, key_derivation_style: KeyDerivationStyle::Native, use_checkpoints: true, allow_deep_reorgs: true };
    let node = Arc::new(Node::new(config, &seed, vec![], services(persister.clone())));
    persister.new_node(&node.get_id(), &config, &*node.get_state()).unwrap();
    persister.new_tracker(&node.get_id(), &node.get_tracker()).unwrap();
    node.add_allowlist(&[]).unwrap();
    let channel_id = init_channel(make_test_channel_setup(), node.clone());
    node.forget_channel(&channel_id).unwrap();
    let mem = node.with_channel(&channel_id, |c| Ok(c.monitor.forget_seen())).unwrap();
    let (node_id, entry) = persister.get_nodes().unwrap().into_iter().next().unwrap();
    let node2 = Node::restore_node(&node_id, entry, &seed, services(persister.clone())).unwrap();
    let restored = node2.with_channel(&channel_id, |c| Ok(c.monitor.forget_seen())).unwrap();
    println!("forget_seen in memory {} after restart {}", mem, restored);
    assert_eq!(mem, restored, "VIOLATION: acknowledged forget_channel not durable");
}

#[test]
fn f4b_streamed_reject_then_stream() {
    let (node, _channel_id) = init_node_and_channel(TEST_NODE_CONFIG, TEST_SEED[1], make_test_channel_setup());
    let mut tracker = node.get_tracker();
    let coinbase = |n: u32| Transaction {
        version: lightning_signer::bitcoin::transaction::Version::non_standard(0),
        lock_time: lightning_signer::bitcoin::absolute::LockTime::from_consensus(n),
        input: vec![], output: vec![TxOut { value: Default::default(), script_pubkey: Default::default() }] };
    // orphan: built on an old header
    let old = tracker.headers()[0].clone();
    let blk = make_block(old.0, vec![coinbase(77)]);
    let p = TxoProof::prove_unchecked(&blk, &old.1, tracker.height());
    let ext = TxoProof { attestations: p.attestations.clone(), proof: ProofType::ExternalBlock() };
    tracker.block_chunk(blk.block_hash(), 0, &serialize(&blk)).unwrap();
    let r = tracker.add_block(blk.header, ext);
    println!("orphan streamed add: {:?}", r);
    assert!(r.is_err());
    let tip = tracker.tip().clone();
    let blk2 = make_block(tip.0, vec![coinbase(78)]);
    let p2 = TxoProof::prove_unchecked(&blk2, &tip.1, tracker.height() + 1);
    let ext2 = TxoProof { attestations: p2.attestations.clone(), proof: ProofType::ExternalBlock() };
    let h = tracker.height();
    let res = std::panic::catch_unwind(std::panic::AssertUnwindSafe(|| {
        tracker.block_chunk(blk2.block_hash(), 0, &serialize(&blk2)).unwrap();
        tracker.add_block(blk2.header, ext2)
    }));
    println!("second streamed add panicked: {} ", res.is_err());
    assert!(res.is_ok(), "VIOLATION: correct streamed block after a rejected streamed block panics");
    println!("result {:?} height {} -> {}", res.unwrap(), h, tracker.height());
}
