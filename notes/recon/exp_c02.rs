use lightning_signer::channel::ChannelBase;
use lightning_signer::util::test_utils::*;

#[test]
fn c02_sign_then_revoke() {
    let node_ctx = test_node_ctx(1);
    let chan_ctx = fund_test_channel(&node_ctx, 3_000_000);
    // now next_holder_commit_num == 1; current holder commitment is 0
    let fee = 1000u64;
    let mut c1 = channel_commitment(&node_ctx, &chan_ctx, 1, 0 + 1000, 3_000_000 - fee - 200_000, 200_000, vec![], vec![]);
    let (csig, hsigs) = counterparty_sign_holder_commitment(&node_ctx, &chan_ctx, &mut c1);
    let r = node_ctx.node.with_channel(&chan_ctx.channel_id, |chan| {
        chan.validate_holder_commitment_tx_phase2(1, c1.feerate_per_kw, c1.to_broadcaster, c1.to_countersignatory, vec![], vec![], &csig, &hsigs)
    });
    println!("validate 1: {:?}", r);
    r.unwrap();
    // force close on commitment 0
    let sig0 = node_ctx.node.with_channel(&chan_ctx.channel_id, |chan| chan.sign_holder_commitment_tx_phase2(0));
    println!("sign 0: {:?}", sig0.is_ok());
    sig0.unwrap();
    // now revoke commitment 0
    let rv = node_ctx.node.with_channel(&chan_ctx.channel_id, |chan| chan.revoke_previous_holder_commitment(1));
    println!("revoke(1) -> secret for 0 present: {:?}", rv.as_ref().map(|(_, s)| s.is_some()));
    let s0 = node_ctx.node.with_channel(&chan_ctx.channel_id, |chan| chan.get_per_commitment_secret(0));
    println!("get secret 0: {:?}", s0.is_ok());
    assert!(rv.is_err() || rv.unwrap().1.is_none(), "VIOLATION: commitment 0 signed and revoked");
}
