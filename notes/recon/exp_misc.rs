use std::sync::Arc;
use std::time::Duration;
use lightning_signer::bitcoin::Network;
use lightning_signer::bitcoin::hashes::Hash;
use lightning_signer::lightning::types::payment::PaymentHash;
use lightning_signer::node::{Node, NodeConfig, NodeServices};
use lightning_signer::persist::Persist;
use lightning_signer::policy::simple_validator::{make_default_simple_policy, SimpleValidatorFactory};
use lightning_signer::signer::derive::KeyDerivationStyle;
use lightning_signer::util::clock::ManualClock;
use lightning_signer::util::test_utils::*;
use lightning_signer::util::test_utils::key::make_test_pubkey;
use lightning_signer::util::velocity::{VelocityControlIntervalType, VelocityControlSpec};
use lightning_signer::chain::tracker::Headers;
use vls_persist::kvv::memory::MemoryKVVStore;
use vls_persist::kvv::{JsonFormat, KVVPersister};

fn services(persister: Arc<dyn Persist>, clock: Arc<ManualClock>) -> NodeServices {
    let mut policy = make_default_simple_policy(Network::Testnet);
    policy.global_velocity_control = VelocityControlSpec { limit_msat: 1000, interval_type: VelocityControlIntervalType::Hourly };
    NodeServices {
        validator_factory: Arc::new(SimpleValidatorFactory::new_with_policy(policy)),
        starting_time_factory: make_genesis_starting_time_factory(Network::Testnet),
        persister, clock, trusted_oracle_pubkeys: vec![],
    }
}

#[test]
fn c12_restart_resets_velocity() {
    let persister: Arc<dyn Persist> = Arc::new(KVVPersister(MemoryKVVStore::new([7u8; 16]), JsonFormat));
    let clock = Arc::new(ManualClock::new(Duration::from_secs(1_000_000)));
    let seed = [9u8; 32];
    let config = NodeConfig { network: Network::Testnet, key_derivation_style: KeyDerivationStyle::Native, use_checkpoints: true, allow_deep_reorgs: true };
    let node = Arc::new(Node::new(config, &seed, vec![], services(persister.clone(), clock.clone())));
    persister.new_node(&node.get_id(), &config, &*node.get_state()).unwrap();
    persister.new_tracker(&node.get_id(), &node.get_tracker()).unwrap();
    node.add_allowlist(&[]).unwrap();
    let r1 = node.add_keysend(make_test_pubkey(1), PaymentHash([1; 32]), 900).unwrap();
    let r2 = node.add_keysend(make_test_pubkey(1), PaymentHash([2; 32]), 900).unwrap();
    println!("before restart: {} {}", r1, r2);
    assert!(r1 && !r2);
    // restart
    let (node_id, entry) = persister.get_nodes().unwrap().into_iter().next().unwrap();
    println!("persisted velocity: {:?}", entry.state.velocity_control);
    let node2 = Node::restore_node(&node_id, entry, &seed, services(persister.clone(), clock.clone())).unwrap();
    println!("restored velocity: {:?}", node2.get_state().velocity_control);
    let r3 = node2.add_keysend(make_test_pubkey(1), PaymentHash([3; 32]), 900).unwrap();
    println!("after restart: {}", r3);
    assert!(!r3, "VIOLATION: 1800 msat approved within one hour with limit 1000");
}

#[test]
fn c10_allowlist_partial() {
    let (_, node, _) = make_node();
    node.add_allowlist(&["tb1qhetd7l0rv6kca6wvmt25ax5ej05eaat9q29z7z".to_string()]).unwrap();
    let before = node.allowlist().unwrap();
    let r = node.set_allowlist(&["tb1qycu764qwuvhn7u0enpg0x8gwumyuw565f3mspnn58rsgar5hkjmqtjegrh".to_string(), "bogus".to_string()]);
    println!("set_allowlist result: {:?}", r.is_err());
    let after = node.allowlist().unwrap();
    println!("before {:?}\nafter {:?}", before, after);
    assert_eq!(before, after, "VIOLATION: refused set_allowlist changed state");
}

#[test]
fn c13_remove_block_pops_before_validate() {
    let (_, node, _) = make_node();
    let mut tracker = node.get_tracker();
    let mut hdrs = vec![tracker.tip().clone()];
    for _ in 0..3 {
        let (header, proof) = make_testnet_header(tracker.tip(), tracker.height());
        tracker.add_block(header, proof).unwrap();
        hdrs.push(tracker.tip().clone());
    }
    assert_eq!(tracker.height(), 3);
    let nh = tracker.headers().len();
    // build a correct removal proof for the tip block (height 3) and a bad one
    let prev = hdrs[2].clone();
    let (_h, good_proof) = {
        // re-make the same block as at height 3: make_testnet_header is deterministic given tip & height
        make_testnet_header(&prev, 2)
    };
    let (_h2, bad_proof) = make_testnet_header(&hdrs[1], 1); // proof for a different block
    let r = tracker.remove_block(bad_proof, Headers(prev.0, prev.1));
    println!("bad remove: {:?}, headers {} -> {}, height {}", r.as_ref().err(), nh, tracker.headers().len(), tracker.height());
    let r2 = tracker.remove_block(good_proof, Headers(prev.0, prev.1));
    println!("good remove after bad: {:?}", r2.as_ref().err());
    assert!(r.is_err());
    assert_eq!(nh, tracker.headers().len() + if r2.is_ok() {1} else {0}, "VIOLATION: rejected remove_block changed header window");
    assert!(r2.is_ok(), "VIOLATION: correct remove_block fails after a rejected one");
}
