use lightning_signer::bitcoin::hashes::Hash;
use lightning_signer::bitcoin::{OutPoint, Txid};
use lightning_signer::channel::ChannelBase;
use lightning_signer::lightning::types::payment::PaymentHash;
use lightning_signer::tx::tx::HTLCInfo2;
use lightning_signer::util::test_utils::*;
use lightning_signer::util::test_utils::key::make_test_pubkey;

fn open(node_ctx: &TestNodeContext, nn: usize, txid_byte: u8) -> TestChannelContext {
    let mut chan_ctx = test_chan_ctx(node_ctx, nn, 3_000_000);
    let outpoint = OutPoint { txid: Txid::from_slice(&[txid_byte; 32]).unwrap(), vout: 0 };
    chan_ctx.setup.funding_outpoint = outpoint;
    node_ctx.node.setup_channel(chan_ctx.channel_id.clone(), None, chan_ctx.setup.clone(), &Default::default()).unwrap();
    // initial holder commitment 0
    let mut c0 = channel_initial_holder_commitment(node_ctx, &chan_ctx);
    let (csig, hsigs) = counterparty_sign_holder_commitment(node_ctx, &chan_ctx, &mut c0);
    validate_holder_commitment(node_ctx, &chan_ctx, &c0, &csig, &hsigs).expect("c0");
    // initial counterparty commitment 0
    let point = make_test_pubkey(0x20 + nn as u8);
    node_ctx.node.with_channel(&chan_ctx.channel_id, |chan| {
        chan.sign_counterparty_commitment_tx_phase2(&point, 0, 1000, 2_999_000, 0, vec![], vec![])
    }).expect("cp c0");
    chan_ctx
}

#[test]
fn c06_cross_channel_toctou() {
    let node_ctx = test_node_ctx(1);
    let a = open(&node_ctx, 1, 0x0a);
    let b = open(&node_ctx, 2, 0x0b);
    let hash = PaymentHash([0x42; 32]);
    let amt_sat = 100_000u64;
    assert!(node_ctx.node.add_keysend(make_test_pubkey(9), hash, amt_sat * 1000).unwrap());
    let htlc = HTLCInfo2 { value_sat: amt_sat, payment_hash: hash, cltv_expiry: 500 };

    // A: validate holder commitment 1 offering the HTLC (not yet revoked => not applied)
    let mut a1 = channel_commitment(&node_ctx, &a, 1, 1000, 3_000_000 - amt_sat - 2000, 0, vec![htlc.clone()], vec![]);
    let (csig, hsigs) = counterparty_sign_holder_commitment(&node_ctx, &a, &mut a1);
    node_ctx.node.with_channel(&a.channel_id, |chan| {
        chan.validate_holder_commitment_tx_phase2(1, 1000, a1.to_broadcaster, a1.to_countersignatory, vec![htlc.clone()], vec![], &csig, &hsigs)
    }).expect("A validate 1");

    // B: sign counterparty commitment 1 where the counterparty receives the HTLC (we offer)
    let point = make_test_pubkey(0x31);
    let rb = node_ctx.node.with_channel(&b.channel_id, |chan| {
        chan.sign_counterparty_commitment_tx_phase2(&point, 1, 1000, 3_000_000 - amt_sat - 2000, 0, vec![], vec![htlc.clone()])
    });
    println!("B sign cp 1: {:?}", rb.as_ref().map(|_| ()));
    rb.expect("B sign");

    // A: revoke 0, making commitment 1 (with the HTLC) current
    let ra = node_ctx.node.with_channel(&a.channel_id, |chan| chan.revoke_previous_holder_commitment(1));
    println!("A revoke: {:?}", ra.as_ref().map(|_| ()));
    let st = node_ctx.node.get_state();
    let p = st.payments.get(&hash).unwrap();
    let (inc, out) = p.incoming_outgoing();
    println!("incoming {} outgoing {} (approved {} sat, fee allowance {} msat)", inc, out, amt_sat, 222_000);
    assert!(ra.is_err() || out * 1000 <= inc * 1000 + amt_sat * 1000 + 222_000, "VIOLATION: invoice overpaid in flight");
}
