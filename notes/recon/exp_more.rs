use lightning_signer::bitcoin::consensus::serialize;
use lightning_signer::bitcoin::hashes::Hash;
use lightning_signer::bitcoin::secp256k1::{PublicKey, Secp256k1, SecretKey};
use lightning_signer::bitcoin::{Block, BlockHash};
use lightning_signer::txoo::proof::{ProofType, TxoProof};
use lightning_signer::util::test_utils::*;
use lightning_signer::util::test_utils::key::make_test_pubkey;

#[test]
fn c10_revocation_refused_but_secret_stored() {
    let (node, channel_id) = init_node_and_channel(TEST_NODE_CONFIG, TEST_SEED[1], make_test_channel_setup());
    let secp = Secp256k1::new();
    let secret0 = SecretKey::from_slice(&[0x33; 32]).unwrap();
    let point0 = PublicKey::from_secret_key(&secp, &secret0);
    node.with_channel(&channel_id, |chan| {
        chan.sign_counterparty_commitment_tx_phase2(&point0, 0, 1000, 2_999_000, 0, vec![], vec![])
    }).expect("cp c0");
    let before = node.with_channel(&channel_id, |chan| Ok(format!("{:?}", chan.enforcement_state))).unwrap();
    let r = node.with_channel(&channel_id, |chan| chan.validate_counterparty_revocation(0, &secret0));
    println!("revoke current cp commitment: {:?}", r.as_ref().err().map(|e| e.message().to_string()));
    let after = node.with_channel(&channel_id, |chan| Ok(format!("{:?}", chan.enforcement_state))).unwrap();
    assert!(r.is_err());
    if before != after { println!("BEFORE {}\nAFTER  {}", before, after); }
    assert_eq!(before, after, "VIOLATION: refused revocation changed enforcement state");
}

#[test]
fn c13_streamed_orphan_then_stream() {
    let (node, _channel_id) = init_node_and_channel(TEST_NODE_CONFIG, TEST_SEED[1], make_test_channel_setup());
    let mut tracker = node.get_tracker();
    // an orphan block: built on a header that is not the tip
    let genesis_like = tracker.headers()[0].clone();
    let (hdr, proof) = make_testnet_header(&genesis_like, tracker.height() - 1);
    let txs = vec![lightning_signer::bitcoin::Transaction {
        version: lightning_signer::bitcoin::transaction::Version::non_standard(0),
        lock_time: lightning_signer::bitcoin::absolute::LockTime::from_consensus(tracker.height()),
        input: vec![], output: vec![] }];
    let block = Block { header: hdr, txdata: txs };
    assert_eq!(block.block_hash(), hdr.block_hash());
    let ext = TxoProof { attestations: proof.attestations.clone(), proof: ProofType::ExternalBlock() };
    tracker.block_chunk(block.block_hash(), 0, &serialize(&block)).unwrap();
    let r = tracker.add_block(hdr, ext);
    println!("orphan streamed add: {:?}", r);
    assert!(r.is_err());
    // now a correct streamed block
    let (hdr2, proof2) = make_testnet_header(tracker.tip(), tracker.height());
    let txs2 = vec![lightning_signer::bitcoin::Transaction {
        version: lightning_signer::bitcoin::transaction::Version::non_standard(0),
        lock_time: lightning_signer::bitcoin::absolute::LockTime::from_consensus(tracker.height() + 1),
        input: vec![], output: vec![] }];
    let block2 = Block { header: hdr2, txdata: txs2 };
    let ext2 = TxoProof { attestations: proof2.attestations.clone(), proof: ProofType::ExternalBlock() };
    let h = tracker.height();
    let res = std::panic::catch_unwind(std::panic::AssertUnwindSafe(|| {
        tracker.block_chunk(block2.block_hash(), 0, &serialize(&block2)).unwrap();
        tracker.add_block(hdr2, ext2)
    }));
    println!("second streamed add panicked: {}", res.is_err());
    assert!(res.is_ok() && res.unwrap().is_ok() && tracker.height() == h + 1, "VIOLATION: correct request after rejected streamed block fails");
}
