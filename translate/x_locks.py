"""C20: the lock-acquisition table of the request entry points of vls-core.

A call-structure scan of the current sources (node.rs, channel.rs, monitor.rs, policy validators):
function bodies are walked in program order; lock expressions (`get_state()`, `get_channels()`,
`get_tracker()`, `validator_factory()`, `<x>.lock()`), the lifetime of the resulting guards
(`let` binding -> end of block or `drop(x)`; temporary -> end of statement, `if` condition, or end of
the `match`/`for`/`if let` block; `let x = &guard.field` -> end of block; `defer!{}` -> scope exit) and
calls into other functions of the scanned files are turned into nested acquire/release events.
For every request kind the table lists

  * `edges`: the held-while-acquiring relation (union over all branches, loop bodies and — for
    channel requests — over every `Channel` method a `with_channel` closure may call), and
  * `path`: one canonical linear event list (first alternative of every choice) used by the model
    driver and by the refutation witness.

Lock classes are symbolic: node_state, channels, slot, tracker, monitor, monitor_decode,
validator_factory, store (= a call into the persister, a leaf: it never calls back into the node).
Instances of slot/monitor are not distinguished by the scan (a slot->slot edge therefore always
counts as unordered).

Fail-closed: a missing entry point / helper, a `.lock()` whose receiver the scanner cannot
classify, a function returning a `MutexGuard` that is not a known lock getter, recursion, or
unbalanced braces raise ExtractError.  The harness validates the table against lock traces of the
real code (every observed nested acquisition must be an edge of the table).
"""
import re
from rustsrc import read, strip_comments, ExtractError

FILES = {
    "node": "vls-core/src/node.rs",
    "channel": "vls-core/src/channel.rs",
    "monitor": "vls-core/src/monitor.rs",
    "validator": "vls-core/src/policy/simple_validator.rs",
    "onchain_validator": "vls-core/src/policy/onchain_validator.rs",
    "tracker": "vls-core/src/chain/tracker.rs",
}

CLASSES = ["tracker", "channels", "slot", "monitor", "monitor_decode", "node_state", "validator_factory", "store"]

# lock getters: (file, fn name) -> class; their bodies are checked to contain exactly that lock
GETTERS = {
    ("node", "get_state"): ("node_state", r"self\.state\.lock\(\)"),
    ("node", "get_channels"): ("channels", r"self\.channels\.lock\(\)"),
    ("node", "get_tracker"): ("tracker", r"self\.tracker\.lock\(\)"),
    ("node", "validator_factory"): ("validator_factory", r"self\.validator_factory\.lock\(\)"),
    ("monitor", "get_state"): ("monitor", r"self\.state\.lock\(\)"),
    ("provider", "get_channel"): ("slot", r"self\.chan\.lock\(\)"),
}

# receivers of `.lock()` per file -> class
LOCK_RECEIVERS = {
    "node": {"state": "node_state", "channels": "channels", "tracker": "tracker",
             "validator_factory": "validator_factory",
             "slot": "slot", "slot_mutex": "slot", "slot_arc": "slot", "arcobj": "slot", "channel": "slot"},
    "channel": {},
    "provider": {"chan": "slot"},
    "monitor": {"state": "monitor", "decode_state": "monitor_decode"},
    "validator": {"slot": "slot"},
    "onchain_validator": {"slot": "slot"},
    "tracker": {},
}

# method-name lock expressions per file (receiver arbitrary)
METHOD_LOCKS = {
    "node": {"get_state": "node_state", "get_channels": "channels", "get_tracker": "tracker",
             "validator_factory": "validator_factory"},
    "channel": {"get_state": "node_state", "get_channels": "channels", "get_tracker": "tracker",
                "validator_factory": "validator_factory"},
    "provider": {"get_channel": "slot"},
    "monitor": {"get_state": "monitor"},
    "validator": {"get_state": "node_state", "get_channels": "channels", "get_tracker": "tracker"},
    "onchain_validator": {"get_state": "node_state", "get_channels": "channels", "get_tracker": "tracker"},
    "tracker": {},
}

# request kinds: name -> list of top-level items
ENTRIES = {
    "channel_request": [("call", "node", "with_channel")],
    "channel_base_request": [("call", "node", "with_channel_base")],
    "forget_channel": [("call", "node", "forget_channel")],
    "channel_balance": [("call", "node", "channel_balance")],
    "chaninfo": [("call", "node", "chaninfo")],
    "check_onchain_tx": [("call", "node", "check_onchain_tx")],
    "unchecked_sign_onchain_tx": [("call", "node", "unchecked_sign_onchain_tx")],
    "new_channel": [("call", "node", "new_channel")],
    "setup_channel": [("call", "node", "setup_channel")],
    "get_heartbeat": [("call", "node", "get_heartbeat")],
    "add_invoice": [("call", "node", "add_invoice")],
    "add_keysend": [("call", "node", "add_keysend")],
    "add_allowlist": [("call", "node", "add_allowlist")],
    "set_allowlist": [("call", "node", "set_allowlist")],
    "remove_allowlist": [("call", "node", "remove_allowlist")],
    # a block handed to the tracker: the caller holds the tracker guard, the tracker notifies the
    # monitors (ChainListener methods of ChainMonitor), then the tracker is persisted
    "add_block": [("acq", "tracker", "g0"), ("choice", [("monitor", n) for n in
                  ("on_add_block", "on_add_streamed_block_end", "on_push")]), ("leaf", "store"), ("rel", "g0")],
    "remove_block": [("acq", "tracker", "g0"), ("choice", [("monitor", n) for n in
                     ("on_remove_block", "on_remove_streamed_block_end", "on_push")]), ("leaf", "store"), ("rel", "g0")],
}

# kinds whose whole read-modify-write of the channel must sit in ONE slot critical section
SINGLE_SECTION = ["channel_request", "channel_base_request"]

# functions that must exist (beyond the entries) - the scan is meaningless without them
REQUIRED = [("node", "get_channel"), ("node", "find_or_create_channel"), ("node", "prune_channels"),
            ("node", "find_channel_with_funding_outpoint"), ("node", "validator"), ("node", "policy"),
            ("channel", "validate_holder_commitment_tx"), ("channel", "revoke_previous_holder_commitment"),
            ("channel", "sign_counterparty_commitment_tx"), ("channel", "balance"), ("channel", "forget"),
            ("provider", "get_holder_commitment_point"), ("monitor", "push_transactions"),
            ("monitor", "on_transaction_end"), ("validator", "validate_onchain_tx")]

KEYWORDS = {"if", "while", "for", "match", "return", "let", "fn", "loop", "else", "move", "as", "in",
            "Some", "Ok", "Err", "None", "Box", "Vec", "drop", "assert", "panic", "format", "vec"}


def blank_literals(src):
    """replace the contents of string and char literals by spaces (keeps offsets and braces honest)"""
    out, i, n = list(src), 0, len(src)
    while i < n:
        c = src[i]
        if c == '"':
            j = i + 1
            while j < n and src[j] != '"':
                j += 2 if src[j] == "\\" else 1
            for k in range(i + 1, min(j, n)):
                if out[k] != "\n":
                    out[k] = " "
            i = j + 1
        elif c == "'":
            m = re.match(r"'(\\.[^']*|[^\\'])'", src[i:i + 12])
            if m:
                for k in range(i + 1, i + m.end() - 1):
                    out[k] = " "
                i += m.end()
            else:
                i += 1
        else:
            i += 1
    return "".join(out)


def cut_tests(src):
    m = re.search(r"\n#\[cfg\(test\)\]\s*\n\s*mod\s+\w+", src)
    return src[:m.start()] if m else src


def match_close(src, i, open_c, close_c):
    depth = 0
    for j in range(i, len(src)):
        if src[j] == open_c:
            depth += 1
        elif src[j] == close_c:
            depth -= 1
            if depth == 0:
                return j
    raise ExtractError("unbalanced %s at offset %d" % (open_c, i))


def fns_in(src):
    """name -> list of (body, returns_guard) for every `fn name(...) ... { body }` of the text"""
    res = {}
    for m in re.finditer(r"\bfn\s+(\w+)\s*(?:<[^>(]*>)?\s*\(", src):
        name = m.group(1)
        j = match_close(src, m.end() - 1, "(", ")")
        # signature tail up to `{` or `;`
        k = j + 1
        while k < len(src) and src[k] not in "{;":
            k += 1
        if k >= len(src) or src[k] == ";":
            continue  # declaration without body
        sig_tail = src[j + 1:k]
        e = match_close(src, k, "{", "}")
        has_self = bool(re.match(r"\s*&?\s*(?:'\w+\s+)?(?:mut\s+)?self\b", src[m.end():j]))
        res.setdefault(name, []).append((src[k + 1:e], "MutexGuard" in sig_tail, has_self))
    return res


class Scan:
    def __init__(self, repo):
        self.src = {}
        self.fns = {}
        for f, rel in FILES.items():
            s = blank_literals(cut_tests(strip_comments(read(repo, rel))))
            if f == "channel":
                m = re.search(r"\n[^\n]*struct\s+ChannelCommitmentPointProvider\b", s)
                if not m:
                    raise ExtractError("ChannelCommitmentPointProvider not found in channel.rs")
                self.src["provider"] = s[m.start():]
                self.fns["provider"] = fns_in(self.src["provider"])
                s = s[:m.start()]
            self.src[f] = s
            self.fns[f] = fns_in(s)
        self.cache = {}
        self.stack = []
        self.scanned = set()
        self.gid = 0
        self.sim_stack = []
        self.recursion_cuts = set()
        self.check_global()

    # ---- global fail-closed checks ---------------------------------------------------------
    def check_global(self):
        for (f, name), (cls, pat) in GETTERS.items():
            bodies = self.fns[f].get(name)
            if not bodies:
                raise ExtractError("lock getter %s::%s not found" % (f, name))
            for body, guard, _ in bodies:
                if not guard or not re.search(pat, body):
                    raise ExtractError("lock getter %s::%s no longer returns the %s guard" % (f, name, cls))
        for f in self.src:
            for name, bodies in self.fns[f].items():
                for body, guard, _ in bodies:
                    if guard and (f, name) not in GETTERS:
                        raise ExtractError("unknown function returning a MutexGuard: %s::%s" % (f, name))
            for m in re.finditer(r"(\w+)\s*\.\s*lock\s*\(\s*\)", self.src[f]):
                if m.group(1) not in LOCK_RECEIVERS[f]:
                    raise ExtractError("unclassified .lock() receiver `%s` in %s" % (m.group(1), FILES[f]))
            for m in re.finditer(r"\btry_lock\b|\bRwLock\b|\bCondvar\b", self.src[f]):
                raise ExtractError("locking construct not understood: %s in %s" % (m.group(0), FILES[f]))
        for f, name in REQUIRED:
            if name not in self.fns[f]:
                raise ExtractError("scanned function disappeared: %s::%s" % (f, name))
        t = self.src["tracker"]
        for n in ("on_add_block", "on_add_streamed_block_end", "on_remove_block", "on_remove_streamed_block_end", "on_push"):
            if not re.search(r"listener\s*\.\s*%s\s*\(" % n, t):
                raise ExtractError("tracker no longer calls listener.%s" % n)
            if n not in self.fns["monitor"]:
                raise ExtractError("ChainMonitor::%s not found" % n)

    # ---- call resolution -------------------------------------------------------------------
    def resolve(self, f, recv, name):
        """which scanned function does `recv.name(` / `name(` in file f call? -> (file, name) | None"""
        if (f, name) in GETTERS or name in METHOD_LOCKS[f]:
            return None  # handled as a lock expression
        here = self.fns[f]
        if f == "node":
            if recv in ("self", "node", "arc_self", "Self", "") and name in here:
                return ("node", name)
            if recv in ("chan", "c", "base", "stub", "unwrap()") and name in self.fns["channel"]:
                return ("channel", name)
            if recv == "validator":
                for vf in ("validator", "onchain_validator"):
                    if name in self.fns[vf]:
                        return (vf, name)
            if recv == "f" or (recv == "" and name == "f"):
                return None
        elif f == "channel":
            if recv in ("self", "Self", "") and name in here:
                return ("channel", name)
            if recv in ("node", "get_node()") and name in self.fns["node"]:
                return ("node", name)
        elif f in ("validator", "onchain_validator"):
            if recv in ("self", "Self", "") and name in here:
                return (f, name)
            if recv in ("wallet", "node") and name in self.fns["node"]:
                return ("node", name)
        elif f == "monitor":
            if recv in ("self", "Self", "listener", "") and name in here:
                return ("monitor", name)
            if recv in ("provider", "commitment_point_provider") and name in self.fns["provider"]:
                return ("provider", name)
        elif f == "provider":
            if recv in ("self", "Self", "") and name in here:
                return ("provider", name)
            if recv in ("chan", "c") and name in self.fns["channel"]:
                return ("channel", name)
        return None

    # ---- body walk -------------------------------------------------------------------------
    def items_of(self, f, name, method=None):
        """items of function f::name; method=True/False restricts to bodies with/without a self parameter"""
        key = (f, name, method)
        if key in self.cache:
            return self.cache[key]
        if key in self.stack:
            raise ExtractError("recursion through %s::%s" % key[:2])
        if name not in self.fns[f]:
            raise ExtractError("scanned function disappeared: %s::%s" % key[:2])
        bodies = [b for b in self.fns[f][name] if method is None or b[2] == method] or self.fns[f][name]
        self.stack.append(key)
        alts = [self.walk(f, b[0]) for b in bodies]
        self.stack.pop()
        self.scanned.add("%s::%s" % key[:2])
        items = alts[0] if len(alts) == 1 else [("choice_items", alts)]
        self.cache[key] = items
        return items

    def new_gid(self):
        self.gid += 1
        return "g%d" % self.gid

    def walk(self, f, body):
        """-> list of items: ('acq', cls, gid) ('rel', gid) ('sub', file, name) ('leaf', cls) ('choice_items', [..])"""
        items = []
        n = len(body)
        blocks = [{"guards": [], "scrut": []}]     # stack of open blocks
        stmt_start = 0
        stmt_temps = []        # gids released at the next `;` (or enclosing `}`)
        cond_temps = []        # gids released at the next `{`
        scrut_temps = []       # gids attached to the next `{` block, released at its `}`
        pending = []           # (close_paren_offset, item) calls firing when their `)` is reached
        lock_re = re.compile(
            r"(?P<recv>[\w\.]*?(?:\(\))?)\s*\.\s*(?P<m>get_state|get_channels|get_tracker|validator_factory|get_channel)\s*\(\s*\)"
            r"|(?P<lrecv>\w+)\s*\.\s*lock\s*\(\s*\)")
        i = 0

        def release(gids):
            for g in reversed(gids):
                if isinstance(g, tuple):      # deferred body
                    items.extend(g[1])
                else:
                    items.append(("rel", g))

        while i < n:
            while pending and pending[-1][0] <= i:
                items.append(pending.pop()[1])
            c = body[i]
            if c == "{":
                release(cond_temps); cond_temps.clear()
                blocks.append({"guards": [], "scrut": scrut_temps[:]})
                scrut_temps.clear()
                stmt_start = i + 1
                i += 1
                continue
            if c == "}":
                release(stmt_temps); stmt_temps.clear()
                b = blocks.pop()
                if not blocks:
                    raise ExtractError("unbalanced braces in a scanned body of " + f)
                release(b["guards"])
                release(b["scrut"])
                stmt_start = i + 1
                i += 1
                continue
            if c == ";":
                while pending:
                    items.append(pending.pop()[1])
                release(stmt_temps); stmt_temps.clear()
                release(cond_temps); cond_temps.clear()
                release(scrut_temps); scrut_temps.clear()
                stmt_start = i + 1
                i += 1
                continue
            # defer! { ... }
            m = re.compile(r"defer!\s*\{").match(body, i)
            if m:
                e = match_close(body, m.end() - 1, "{", "}")
                inner = self.walk(f, body[m.end():e] + ";")
                blocks[-1]["guards"].append(("defer", inner))
                i = e + 1
                continue
            # drop(x)
            m = re.compile(r"\bdrop\s*\(\s*(\w+)\s*\)").match(body, i)
            if m and (i == 0 or not (body[i - 1].isalnum() or body[i - 1] in "_.")):
                nm = m.group(1)
                for b in reversed(blocks):
                    hit = [g for g in b["guards"] if not isinstance(g, tuple) and g.endswith(":" + nm)]
                    if hit:
                        b["guards"].remove(hit[-1])
                        items.append(("rel", hit[-1]))
                        break
                i = m.end()
                continue
            # lock expression
            m = lock_re.match(body, i) if (c.isalpha() or c == "_") and (i == 0 or not (body[i - 1].isalnum() or body[i - 1] == "_")) else None
            if m:
                if m.group("m"):
                    meth = m.group("m")
                    cls = METHOD_LOCKS[f].get(meth)
                    if cls is None and meth != "get_channel":
                        raise ExtractError("lock method %s used in %s is not classified" % (meth, f))
                    if meth == "get_channel" and f != "provider":
                        cls = None     # Node::get_channel(id) returns the Arc, not a guard
                else:
                    cls = LOCK_RECEIVERS[f].get(m.group("lrecv"))
                    if cls is None:
                        raise ExtractError("unclassified .lock() receiver `%s` in %s" % (m.group("lrecv"), FILES[f]))
                if cls is None:
                    # not a lock: let the call scanner see it
                    m = None
            if m:
                end = m.end()
                tail = re.compile(r"(\s*\.\s*(unwrap\s*\(\s*\)|expect\s*\(\s*\)|expect\s*\([^)]*\)))*").match(body, end)
                end2 = tail.end()
                head = body[stmt_start:i]
                g = self.new_gid()
                let = re.search(r"\blet\s+(?:mut\s+)?(\w+)\s*(?::[^=]+)?=\s*$", head)
                let_ref = re.search(r"\blet\s+(?:mut\s+)?(\w+)\s*(?::[^=]+)?=\s*&\s*(?:mut\s+)?$", head)
                after = body[end2:]
                def check_escape(nm):
                    depth_, scope_end = 0, n
                    for q in range(end2, n):
                        if body[q] == "{":
                            depth_ += 1
                        elif body[q] == "}":
                            depth_ -= 1
                            if depth_ < 0:
                                scope_end = q
                                break
                    esc = re.search(r"\b(push|push_back|insert|extend|Some|Ok|Box::new|Arc::new)\s*\(\s*(?:[\w\.&]+\s*,\s*)?%s\s*\)|\breturn\s+%s\b" % (nm, nm), body[end2:scope_end])
                    if esc:
                        raise ExtractError("guard `%s` escapes its block (%s) in %s: lifetime not understood" % (nm, esc.group(0), f))
                if let and re.match(r"\s*;", after):
                    check_escape(let.group(1))
                    gid = g + ":" + let.group(1)
                    items.append(("acq", cls, gid))
                    blocks[-1]["guards"].append(gid)
                elif let_ref and re.match(r"(\s*\.\s*\w+)*\s*;", after) and not re.match(r"(\s*\.\s*\w+)*\s*\(", after):
                    check_escape(let_ref.group(1))
                    gid = g + ":" + let_ref.group(1)
                    items.append(("acq", cls, gid))
                    blocks[-1]["guards"].append(gid)
                else:
                    items.append(("acq", cls, g))
                    h = head.strip()
                    if re.match(r"(else\s+)?(if|while)\b(?!\s+let\b)", h):
                        cond_temps.append(g)
                    elif re.match(r"(else\s+)?(match|for|if\s+let|while\s+let)\b", h):
                        scrut_temps.append(g)
                    else:
                        stmt_temps.append(g)
                i = end2
                continue
            # node-ledger read-modify-write steps (fire at their closing paren, i.e. after their arguments)
            m = re.compile(r"(claimable_balances|validate_payments|apply_payments)\s*\(").match(body, i)
            if m and i > 0 and body[i - 1] == ".":
                close = match_close(body, m.end() - 1, "(", ")")
                pending.append((close, ("mark", m.group(1))))
                pending.sort(key=lambda p: -p[0])
                i = m.end()
                continue
            # persister call = store leaf (fires at its closing paren)
            m = re.compile(r"persister\s*\.\s*(\w+)\s*\(").match(body, i)
            if m and (i == 0 or not (body[i - 1].isalnum() or body[i - 1] == "_")):
                close = match_close(body, m.end() - 1, "(", ")")
                pending.append((close, ("leaf", "store")))
                pending.sort(key=lambda p: -p[0])
                i = m.end()
                continue
            # monitor base call from channel/node code: `<x>.monitor.<name>(`
            m = re.compile(r"(?:\w+\s*\.\s*)?monitor\s*\.\s*(\w+)\s*\(").match(body, i)
            if m and f in ("channel", "node") and (i == 0 or not (body[i - 1].isalnum() or body[i - 1] == "_")):
                name = m.group(1)
                if name in self.fns["monitor"]:
                    close = match_close(body, m.end() - 1, "(", ")")
                    pending.append((close, ("sub", "monitor", name)))
                    pending.sort(key=lambda p: -p[0])
                i = m.end()
                continue
            # closure parameter call in with_channel / on_push
            m = re.compile(r"\bf\s*\(\s*(&mut\s+)?(chan|base|listener)\s*\)").match(body, i)
            if m and (i == 0 or not (body[i - 1].isalnum() or body[i - 1] in "_.")):
                items.append(("closure", m.group(2)))
                i = m.end()
                continue
            # ordinary call
            m = re.compile(r"(?:(?P<recv>\w+(?:\(\))?)\s*(?:\.|::)\s*)?(?P<name>[a-z_]\w*)\s*(?:::<[^>]*>)?\s*\(").match(body, i)
            if m and (i == 0 or not (body[i - 1].isalnum() or body[i - 1] in "_!")):
                recv, name = m.group("recv") or "", m.group("name")
                # receiver chains like self.get_node().x( : look at the text just before
                if not recv:
                    pre = body[max(0, i - 24):i]
                    pm = re.search(r"(\w+(?:\(\))?)\s*\.\s*$", pre)
                    if pm:
                        recv = pm.group(1)
                if name == "now" and recv == "clock":
                    # a clock read; remember the variable it is bound to (if any)
                    lm = re.search(r"\blet\s+(?:mut\s+)?(\w+)\s*(?::[^=]+)?=\s*[\w\.\s]*$", body[stmt_start:i])
                    close = match_close(body, m.end() - 1, "(", ")")
                    pending.append((close, ("mark", "clock", lm.group(1) if lm else "")))
                    pending.sort(key=lambda p: -p[0])
                elif name == "insert" and recv.endswith("velocity_control"):
                    close = match_close(body, m.end() - 1, "(", ")")
                    arg = body[m.end():close].split(",")[0].strip()
                    pending.append((close, ("mark", "vinsert", arg)))
                    pending.sort(key=lambda p: -p[0])
                elif name in ("claimable_balances", "validate_payments", "apply_payments"):
                    close = match_close(body, m.end() - 1, "(", ")")
                    pending.append((close, ("mark", name)))
                    pending.sort(key=lambda p: -p[0])
                elif name not in KEYWORDS:
                    tgt = self.resolve(f, recv, name)
                    if tgt and tgt not in GETTERS:
                        close = match_close(body, m.end() - 1, "(", ")")
                        meth = None if recv in ("Self",) else (recv != "")
                        pending.append((close, ("sub", tgt[0], tgt[1], meth)))
                        pending.sort(key=lambda p: -p[0])
                i = m.start("name") + len(name) if m.group("recv") else m.end("name")
                continue
            if c.isalnum() or c == "_":
                # skip the rest of an identifier so that patterns only match at identifier starts
                j = i + 1
                while j < n and (body[j].isalnum() or body[j] == "_"):
                    j += 1
                i = j
                continue
            i += 1
        while pending:
            items.append(pending.pop()[1])
        release(stmt_temps); release(cond_temps); release(scrut_temps)
        if len(blocks) != 1:
            raise ExtractError("unbalanced braces in a scanned body of " + f)
        release(blocks[0]["guards"])
        return items

    # ---- expansion -------------------------------------------------------------------------
    def closure_alts(self, which):
        if which == "chan":
            names = sorted(n for n in self.fns["channel"] if self.is_channel_method(n))
            # canonical path: the commitment update
            names.sort(key=lambda n: (n != "validate_holder_commitment_tx", n))
            return [("channel", n) for n in names]
        if which == "base":
            return [("channel", n) for n in ("get_per_commitment_point", "get_per_commitment_secret",
                                              "check_future_secret", "validate", "get_channel_basepoints")
                    if n in self.fns["channel"]]
        if which == "listener":
            return [("monitor", n) for n in ("on_transaction_end", "on_transaction_start", "on_transaction_input",
                                              "on_transaction_output", "on_block_start", "on_block_end")
                    if n in self.fns["monitor"]]
        raise ExtractError("unknown closure kind " + which)

    def is_channel_method(self, name):
        # every method of channel.rs that takes `self` (Channel / ChannelStub / ChannelBase impls)
        pat = re.compile(r"\bfn\s+%s\s*(?:<[^>(]*>)?\s*\(\s*&(?:mut\s+)?self\b" % re.escape(name))
        return bool(pat.search(self.src["channel"])) and ("channel", name) not in GETTERS

    def sim_fn(self, ff, nn, held, edges, path, primary, depth, method=None):
        """simulate a call of function ff::nn; a re-entrant (name-resolved) call is cut and recorded"""
        key = (ff, nn)
        if key in self.sim_stack:
            self.recursion_cuts.add("%s::%s" % key)
            return
        self.sim_stack.append(key)
        try:
            self.simulate(self.items_of(ff, nn, method), held, edges, path, primary, depth + 1)
        finally:
            self.sim_stack.pop()

    def simulate(self, items, held, edges, path, primary, depth=0):
        """walk items with the multiset of held locks; collect edges; extend the canonical path if primary"""
        if depth > 60:
            raise ExtractError("call depth exceeded")
        local = {}
        for it in items:
            k = it[0]
            if k == "acq":
                cls = it[1]
                for h in held:
                    edges.add((h, cls))
                held.append(cls)
                local[it[2]] = cls
                if primary:
                    path.append(("acq", cls))
            elif k == "rel":
                cls = local.pop(it[1], None)
                if cls is not None:
                    # remove the most recent instance
                    for j in range(len(held) - 1, -1, -1):
                        if held[j] == cls:
                            del held[j]
                            break
                    if primary:
                        path.append(("rel", cls))
            elif k == "mark":
                pass
            elif k == "leaf":
                for h in held:
                    edges.add((h, it[1]))
                if primary:
                    path.append(("acq", it[1])); path.append(("rel", it[1]))
            elif k == "sub":
                self.sim_fn(it[1], it[2], held, edges, path, primary, depth, it[3] if len(it) > 3 else None)
            elif k == "closure":
                alts = self.closure_alts(it[1])
                for j, (ff, nn) in enumerate(alts):
                    self.sim_fn(ff, nn, held[:], edges, path, primary and j == 0, depth)
            elif k == "choice":
                for j, (ff, nn) in enumerate(it[1]):
                    self.sim_fn(ff, nn, held[:], edges, path, primary and j == 0, depth)
            elif k == "choice_items":
                for j, alt in enumerate(it[1]):
                    self.simulate(alt, held[:], edges, path, primary and j == 0, depth + 1)
            elif k == "call":
                self.sim_fn(it[1], it[2], held, edges, path, primary, depth)
            else:
                raise ExtractError("unknown item " + str(it))
        # guards still registered locally (returned guards never happen: getters are primitives)
        for gid, cls in local.items():
            for j in range(len(held) - 1, -1, -1):
                if held[j] == cls:
                    del held[j]
                    break
            if primary:
                path.append(("rel", cls))


LEDGER_MARKS = ("claimable_balances", "validate_payments", "apply_payments")


def ledger_paths(sc):
    """For every Channel method that performs the node-ledger read-modify-write (claimable_balances /
    validate_payments ... apply_payments on the node state): the node_state acquire/release events of
    the function body interleaved with one `upd` per ledger step.  The theorem side requires each of
    these lists to be strict two-phase (one node_state critical section spanning validate..apply)."""
    res = {}
    for name, bodies in sorted(sc.fns["channel"].items()):
        for k, (body, _, _) in enumerate(bodies):
            if not re.search(r"\.\s*(validate_payments|apply_payments)\s*\(", body):
                continue
            items = sc.walk("channel", body)
            ev, guards = [], {}
            for it in items:
                if it[0] == "acq" and it[1] == "node_state":
                    guards[it[2]] = True
                    ev.append(("acq", None))
                elif it[0] == "rel" and it[1] in guards:
                    del guards[it[1]]
                    ev.append(("rel", None))
                elif it[0] == "mark" and it[1] in LEDGER_MARKS:
                    if not guards:
                        raise ExtractError("ledger step %s outside a node_state section in %s" % (it[1], name))
                    ev.append(("upd", it[1]))
            for g in list(guards):
                ev.append(("rel", None))
            res[name if k == 0 else "%s_%d" % (name, k)] = ev
    if not any(any(e == ("upd", "apply_payments") for e in v) for v in res.values()):
        raise ExtractError("no Channel method applies payments to the node ledger any more")
    for req in ("sign_counterparty_commitment_tx_phase2", "validate_holder_commitment_tx_phase2",
                "revoke_previous_holder_commitment"):
        if req not in res:
            raise ExtractError("ledger read-modify-write disappeared from Channel::" + req)
    return res


VELOCITY_FNS = ("add_invoice", "add_keysend", "check_onchain_tx")


def velocity_time_facts(sc):
    """For the functions that feed a velocity control: is the `insert` inside the node_state section,
    is the last clock read before it inside that section too, and is the time argument of `insert` the
    value of that read?  (A time read before the lock can be older than the control's window start
    when requests overlap.)"""
    src = sc.src["node"]
    total = len(re.findall(r"velocity_control\s*\.\s*insert\s*\(", src))
    res, seen = {}, 0
    for name in VELOCITY_FNS:
        bodies = sc.fns["node"].get(name)
        if not bodies:
            raise ExtractError("scanned function disappeared: node::" + name)
        items = sc.walk("node", bodies[0][0])
        guards, last_clock, facts = {}, None, []
        for it in items:
            if it[0] == "acq" and it[1] == "node_state":
                guards[it[2]] = True
            elif it[0] == "rel" and it[1] in guards:
                del guards[it[1]]
            elif it[0] == "mark" and it[1] == "clock":
                last_clock = (it[2], bool(guards))
            elif it[0] == "mark" and it[1] == "vinsert":
                seen += 1
                arg_ok = bool(last_clock and last_clock[0] and re.match(r"%s\b" % re.escape(last_clock[0]), it[2]))
                facts.append((bool(guards), bool(last_clock and last_clock[1]), arg_ok))
        if not facts:
            raise ExtractError("no velocity control insert in node::" + name)
        res[name] = tuple(all(f[k] for f in facts) for k in range(3))
    if seen != total:
        raise ExtractError("a velocity_control.insert site of node.rs is outside the scanned functions (%d of %d)" % (seen, total))
    return res


def lean_class(c):
    return "." + {"node_state": "nodeState", "channels": "channels", "slot": "slot", "tracker": "tracker",
                  "monitor": "monitor", "monitor_decode": "monitorDecode",
                  "validator_factory": "validatorFactory", "store": "store"}[c]


def build(repo):
    sc = Scan(repo)
    table = {}
    for kind, top in ENTRIES.items():
        edges, path = set(), []
        sc.simulate(top, [], edges, path, True)
        slot_sections = sum(1 for e in path if e == ("acq", "slot"))
        table[kind] = {"edges": sorted(edges, key=lambda e: (CLASSES.index(e[0]), CLASSES.index(e[1]))),
                       "path": path, "slot_sections": slot_sections}
    return sc, table


def extract(repo):
    sc, table = build(repo)
    for kind in SINGLE_SECTION:
        if table[kind]["slot_sections"] != 1:
            raise ExtractError("%s: expected exactly one slot critical section on the canonical path, found %d"
                               % (kind, table[kind]["slot_sections"]))
    kinds = list(ENTRIES)
    L = ["import VlsModel.Model.Locks",
         "import VlsModel.Model.Locks2pl",
         "/- Lock-acquisition table of the request entry points (held-while-acquiring edges and one",
         "   canonical event path per request kind), extracted from the current sources. -/",
         "namespace VlsModel.Gen.LockTable",
         "open VlsModel.Locks",
         "",
         "/-- request kinds (entry points scanned) -/",
         "inductive Kind",
         "  | " + " | ".join(kinds),
         "  deriving DecidableEq, Repr",
         "",
         "def Kind.all : List Kind := [%s]" % ", ".join("." + k for k in kinds),
         "",
         "def Kind.ofString? : String → Option Kind"]
    for k in kinds:
        L.append('  | "%s" => some .%s' % (k, k))
    L += ["  | _ => none", "",
          "/-- request kind ↦ held-while-acquiring edges `(held, acquired)` over lock classes -/",
          "def edges : Kind → List (Cls × Cls)"]
    for k in kinds:
        es = ", ".join("(%s, %s)" % (lean_class(a), lean_class(b)) for a, b in table[k]["edges"])
        L.append("  | .%s => [%s]" % (k, es))
    L += ["", "/-- request kind ↦ canonical event path over lock classes (`true` = acquire) -/",
          "def path : Kind → List (Bool × Cls)"]
    for k in kinds:
        ps = ", ".join("(%s, %s)" % ("true" if a == "acq" else "false", lean_class(c)) for a, c in table[k]["path"])
        L.append("  | .%s => [%s]" % (k, ps))
    L += ["", "/-- request kinds that must hold their channel slot in exactly one critical section -/",
          "def singleSection : List Kind := [%s]" % ", ".join(".%s" % k for k in SINGLE_SECTION),
          "",
          "/-- Channel methods that read-modify-write the node ledger: their node_state events with one",
          "`upd` per ledger step (claimable_balances / validate_payments / apply_payments) -/",
          "def ledgerPaths : List (String × List (VlsModel.Locks2pl.DEv Cls Unit)) := ["]
    lp = ledger_paths(sc)
    rows = []
    for name, ev in lp.items():
        es = ", ".join({"acq": ".acq .nodeState", "rel": ".rel .nodeState", "upd": ".upd .nodeState id"}[a] for a, _ in ev)
        rows.append('  ("%s", [%s])' % (name, es))
    L.append(",\n".join(rows) + "]")
    vt = velocity_time_facts(sc)
    L += ["",
          "/-- functions feeding a velocity control: (insert inside the node_state section, the last clock",
          "read before it is inside that section, the time argument of insert is that read) -/",
          "def velocityTime : List (String × Bool × Bool × Bool) := [" +
          ", ".join('("%s", %s, %s, %s)' % ((n,) + tuple("true" if b else "false" for b in v)) for n, v in vt.items()) + "]"]
    L += ["", "end VlsModel.Gen.LockTable", ""]
    facts = {k: {"edges": ["%s->%s" % e for e in table[k]["edges"]],
                 "path": " ".join(("+" if a == "acq" else "-") + c for a, c in table[k]["path"])} for k in kinds}
    facts["_ledger_sections"] = {n: " ".join(("+ns" if a == "acq" else "-ns" if a == "rel" else b) for a, b in ev) for n, ev in lp.items()}
    facts["_velocity_time"] = {n: {"insert_under_lock": v[0], "clock_read_under_lock": v[1], "arg_is_that_read": v[2]} for n, v in vt.items()}
    facts["_scanned_functions"] = sorted(sc.scanned)
    facts["_recursion_cuts"] = sorted(sc.recursion_cuts)
    return {"LockTable.lean": "\n".join(L)}, {"C20": {"facts": {"lock_table": facts}, "obligations": [
        "Gen.LockTable: the sub-table of C20_partial is rank-increasing (theorem C20_subtable_acyclic, decide +kernel)",
        "Gen.LockTable: the full table contains the cycles of finding F11 (theorem C20_full_false)",
        "Gen.LockTable: every ledger read-modify-write of a Channel method sits in one node_state section (theorem C20_ledger_sections_strict2pl)"]}}


if __name__ == "__main__":
    import sys, json
    sc, table = build(sys.argv[1] if len(sys.argv) > 1 else "/repo")
    for k, v in table.items():
        print(k)
        print("   edges:", " ".join("%s->%s" % e for e in v["edges"]))
        print("   path: ", " ".join(("+" if a == "acq" else "-") + c for a, c in v["path"]))
    print(len(sc.scanned), "functions scanned; recursion cuts:", sorted(sc.recursion_cuts))
