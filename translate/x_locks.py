"""C20: the lock-acquisition table of the request entry points of vls-core.

A call-structure scan of the current sources (node.rs, channel.rs, monitor.rs, policy validators):
function bodies are walked in program order; lock expressions (`get_state()`, `get_channels()`,
`get_tracker()`, `validator_factory()`, `<x>.lock()`), the lifetime of the resulting guards
(`let` binding -> end of block or `drop(x)`; temporary -> end of statement, `if` condition, or end of
the `match`/`for`/`if let` block; `let x = &guard.field` -> end of block; `defer!{}` -> scope exit) and
calls into other functions of the scanned files are turned into nested acquire/release events.
For every request kind the table lists

  * `edges`: the held-while-acquiring relation (union over all branches, loop bodies and — for
    channel requests — over every `Channel` method a `with_channel` closure may call), and
  * `path`: one canonical linear event list (first alternative of every choice) used by the model
    driver and by the refutation witness.

Lock classes are symbolic: node_state, channels, slot, tracker, monitor, monitor_decode,
validator_factory, store (= a call into the persister, a leaf: it never calls back into the node).
Instances of slot/monitor are not distinguished by the scan (a slot->slot edge therefore always
counts as unordered).

Fail-closed: a missing entry point / helper, a `.lock()` whose receiver the scanner cannot
classify, a function returning a `MutexGuard` that is not a known lock getter, recursion, or
unbalanced braces raise ExtractError.  The harness validates the table against lock traces of the
real code (every observed nested acquisition must be an edge of the table).
"""
import re
from rustsrc import read, strip_comments, ExtractError

FILES = {
    "node": "vls-core/src/node.rs",
    "channel": "vls-core/src/channel.rs",
    "monitor": "vls-core/src/monitor.rs",
    "validator": "vls-core/src/policy/simple_validator.rs",
    "onchain_validator": "vls-core/src/policy/onchain_validator.rs",
    "tracker": "vls-core/src/chain/tracker.rs",
    "handler": "vls-protocol-signer/src/handler.rs",
    "approver": "vls-protocol-signer/src/approver.rs",
}

CLASSES = ["tracker", "channels", "slot", "monitor", "monitor_decode", "node_state", "validator_factory", "store",
           "approver"]

# lock getters: (file, fn name) -> class; their bodies are checked to contain exactly that lock
GETTERS = {
    ("node", "get_state"): ("node_state", r"self\.state\.lock\(\)"),
    ("node", "get_channels"): ("channels", r"self\.channels\.lock\(\)"),
    ("node", "get_tracker"): ("tracker", r"self\.tracker\.lock\(\)"),
    ("node", "validator_factory"): ("validator_factory", r"self\.validator_factory\.lock\(\)"),
    ("monitor", "get_state"): ("monitor", r"self\.state\.lock\(\)"),
    ("provider", "get_channel"): ("slot", r"self\.chan\.lock\(\)"),
}

# receivers of `.lock()` per file -> class
LOCK_RECEIVERS = {
    "node": {"state": "node_state", "channels": "channels", "tracker": "tracker",
             "validator_factory": "validator_factory",
             "slot": "slot", "slot_mutex": "slot", "slot_arc": "slot", "arcobj": "slot", "channel": "slot"},
    "channel": {},
    "provider": {"chan": "slot"},
    "monitor": {"state": "monitor", "decode_state": "monitor_decode"},
    "validator": {"slot": "slot"},
    "onchain_validator": {"slot": "slot"},
    "tracker": {},
    "handler": {},
    # the approvers' own mutexes (VelocityApprover.control, MemoApprover.approvals): one class `approver`
    "approver": {"control": "approver", "approvals": "approver"},
}

# method-name lock expressions per file (receiver arbitrary)
METHOD_LOCKS = {
    "node": {"get_state": "node_state", "get_channels": "channels", "get_tracker": "tracker",
             "validator_factory": "validator_factory"},
    "channel": {"get_state": "node_state", "get_channels": "channels", "get_tracker": "tracker",
                "validator_factory": "validator_factory"},
    "provider": {"get_channel": "slot"},
    "monitor": {"get_state": "monitor"},
    "validator": {"get_state": "node_state", "get_channels": "channels", "get_tracker": "tracker"},
    "onchain_validator": {"get_state": "node_state", "get_channels": "channels", "get_tracker": "tracker"},
    "tracker": {},
    "handler": {"get_state": "node_state", "get_channels": "channels", "get_tracker": "tracker",
                "validator_factory": "validator_factory"},
    "approver": {"get_state": "node_state", "get_channels": "channels", "get_tracker": "tracker",
                 "validator_factory": "validator_factory"},
}

# request kinds: name -> list of top-level items
ENTRIES = {
    "channel_request": [("call", "node", "with_channel")],
    "channel_base_request": [("call", "node", "with_channel_base")],
    "forget_channel": [("call", "node", "forget_channel")],
    "channel_balance": [("call", "node", "channel_balance")],
    "chaninfo": [("call", "node", "chaninfo")],
    "check_onchain_tx": [("call", "node", "check_onchain_tx")],
    "unchecked_sign_onchain_tx": [("call", "node", "unchecked_sign_onchain_tx")],
    "new_channel": [("call", "node", "new_channel")],
    "setup_channel": [("call", "node", "setup_channel")],
    "get_heartbeat": [("call", "node", "get_heartbeat")],
    "add_invoice": [("call", "node", "add_invoice")],
    "add_keysend": [("call", "node", "add_keysend")],
    "add_allowlist": [("call", "node", "add_allowlist")],
    "set_allowlist": [("call", "node", "set_allowlist")],
    "remove_allowlist": [("call", "node", "remove_allowlist")],
    # node-level entry points behind the SignInvoice / Preapprove* arms and the maintenance API
    "sign_bolt11_invoice": [("call", "node", "sign_bolt11_invoice")],
    "has_payment": [("call", "node", "has_payment")],
    "persist_all": [("call", "node", "persist_all")],
    # a block handed to the tracker: the caller holds the tracker guard, the tracker notifies the
    # monitors (ChainListener methods of ChainMonitor), then the tracker is persisted
    "add_block": [("acq", "tracker", "g0"), ("choice", [("monitor", n) for n in
                  ("on_add_block", "on_add_streamed_block_end", "on_push")]), ("leaf", "store"), ("rel", "g0")],
    "remove_block": [("acq", "tracker", "g0"), ("choice", [("monitor", n) for n in
                     ("on_remove_block", "on_remove_streamed_block_end", "on_push")]), ("leaf", "store"), ("rel", "g0")],
}

# kinds whose whole read-modify-write of the channel must sit in ONE slot critical section
SINGLE_SECTION = ["channel_request", "channel_base_request"]

# functions that must exist (beyond the entries) - the scan is meaningless without them
REQUIRED = [("node", "get_channel"), ("node", "find_or_create_channel"), ("node", "prune_channels"),
            ("node", "find_channel_with_funding_outpoint"), ("node", "validator"), ("node", "policy"),
            ("channel", "validate_holder_commitment_tx"), ("channel", "revoke_previous_holder_commitment"),
            ("channel", "sign_counterparty_commitment_tx"), ("channel", "balance"), ("channel", "forget"),
            ("provider", "get_holder_commitment_point"), ("monitor", "push_transactions"),
            ("monitor", "on_transaction_end"), ("validator", "validate_onchain_tx")]

KEYWORDS = {"if", "while", "for", "match", "return", "let", "fn", "loop", "else", "move", "as", "in",
            "Some", "Ok", "Err", "None", "Box", "Vec", "drop", "assert", "panic", "format", "vec"}


# receivers that denote a validator object in node.rs / channel.rs (`let validator = self.validator();`,
# `self.validator().x(`)
VALIDATOR_RECEIVERS = ("validator", "validator()")

# names the closure parameter of with_channel / with_channel_base carries in handler.rs
CLOSURE_PARAMS = ("chan", "base", "channel", "ch", "c")

# `node.<name>(` calls of handler.rs / approver.rs that are NOT functions of node.rs (trait methods and
# accessors defined elsewhere; none of them takes a lock of the five classes).  Anything else that is not
# found in node.rs makes the extraction fail closed.
HANDLER_NODE_EXTERNALS = set()

# functions that contain a lock acquisition but are not reachable from any request entry point:
# construction / restore code that runs before the node is shared between threads, and test-only
# accessors.  A lock acquisition site in any OTHER unreached function fails the extraction.
NON_REQUEST_SITES = {
    "node::new_from_persistence": "constructor (restore)",
    "node::restore_node": "constructor (restore)",
    "node::maybe_sync_persister": "called by restore_node only",
    "monitor::new_from_persistence": "constructor (restore)",
    "monitor::add_funding": "used by the unit tests of monitor.rs only",
    "monitor::funding_depth": "used by unit tests only",
    "monitor::funding_double_spent_depth": "used by unit tests only",
    "monitor::closing_depth": "used by unit tests only",
}

# calls the name-based resolution does not follow although a function of the same NAME in the scanned files takes
# a lock ("file: receiver.name"), each with the reason why the callee is a different function (reviewed).
# Anything else of that kind fails the extraction (call_census).
UNRESOLVED_OK = {
    # the Approve delegate chain (trait object): VelocityApprover -> MemoApprover -> ... approver mutexes of
    # DIFFERENT instances; listed in the trusted base of bin/propcfg/C20.json
    "approver: delegate.approve_invoice": "Approve trait object (delegate chain)",
    "approver: delegate.approve_keysend": "Approve trait object (delegate chain)",
    "approver: delegate.approve_onchain": "Approve trait object (delegate chain)",
    # ChannelSlot::chaninfo dispatches to ChannelStub::chaninfo / Channel::chaninfo: all three bodies are already
    # alternatives of the one scanned name `channel::chaninfo`
    "channel: chan.chaninfo": "same-name dispatch inside channel.rs (bodies are alternatives of channel::chaninfo)",
    "channel: stub.chaninfo": "same-name dispatch inside channel.rs (bodies are alternatives of channel::chaninfo)",
    "channel: enforcement_state.balance": "EnforcementState::balance (plain data), not Channel::balance",
    "channel: keys.release_commitment_secret": "InMemorySigner::release_commitment_secret (key material), not Channel's",
    # construction / restore code: runs before the node is shared between threads (NON_REQUEST_SITES)
    "handler: InitHandler.new": "constructor",
    "handler: Node.new": "constructor",
    "handler: Node.restore_node": "restore, before the node is shared (HandlerBuilder::build)",
    "node: ChainMonitorBase.new": "constructor of a monitor nobody else can reach yet (takes no lock itself: checked by site_census)",
    "node: ChainMonitorBase.new_from_persistence": "restore",
    "node: Node.new_from_persistence": "restore",
    "node: Node.restore_node": "restore",
    "node: NodeState.new": "constructor of plain data",
    "node: channel.restore_payments": "restore (Node::new_from_persistence)",
    "onchain_validator: SimpleValidatorFactory.new": "constructor",
    # the arms of do_handle are split off and scanned one by one (handler_arms)
    "handler: self.do_handle": "split into its Message arms",
    # methods of the guarded `State` value that share their name with the ChainMonitorBase wrapper taking the lock
    "monitor: get_state().diagnostic": "State::diagnostic on the guard, not ChainMonitorBase::diagnostic",
    "monitor: get_state().is_done": "State::is_done on the guard, not ChainMonitorBase::is_done",
    "monitor: state.on_add_block_end": "State::on_add_block_end on the guard (no provider, no lock in reach)",
    # ValidatorFactory::policy of the factory object, not Node::policy (which takes the factory lock)
    "node: validator_factory().policy": "ValidatorFactory::policy of the factory object",
    "node: validator_factory.policy": "ValidatorFactory::policy of the factory object",
    "onchain_validator: inner_factory.policy": "ValidatorFactory::policy of the inner factory",
    # closure parameter of ChainTracker::do_push = the monitor's push listener: covered by the `f(listener)` item
    "tracker: pl.on_block_end": "closure parameter bound by f(listener)",
    "tracker: pl.on_block_start": "closure parameter bound by f(listener)",
    "tracker: pl.on_transaction_end": "closure parameter bound by f(listener)",
    "tracker: pl.on_transaction_input": "closure parameter bound by f(listener)",
    "tracker: pl.on_transaction_output": "closure parameter bound by f(listener)",
    "tracker: pl.on_transaction_start": "closure parameter bound by f(listener)",
}
# type names whose associated functions live in the scanned files (a `Type::name(` call with any other
# capitalised receiver is a function of another type)
SCANNED_TYPES = ("Self", "Node", "Channel", "ChannelStub", "ChannelSlot", "ChannelBase", "ChainMonitor", "ChainMonitorBase",
                 "ChannelCommitmentPointProvider", "SimpleValidator", "SimpleValidatorFactory", "OnchainValidator",
                 "OnchainValidatorFactory", "ChainTracker", "RootHandler", "ChannelHandler", "InitHandler", "HandlerBuilder",
                 "State", "NodeState")

# public Node API that no handler arm calls but other front ends (vlsd's RPC server, embedders) do:
# scanned as additional programs `Node.<name>`
NODE_API_EXTRA = ["get_chain_height", "allowables", "allowlist", "persist_all", "set_validator_factory",
                  "update_velocity_controls", "has_payment", "sign_bolt11_invoice"]


# method names that mutate their receiver (used to decide whether a temporary guard's section writes)
MUTATORS = (r"\.\s*(insert|remove|push|push_back|pop|pop_front|clear|extend|retain|take|get_mut|entry|values_mut|"
            r"iter_mut|drain|truncate|replace|as_mut|set_\w+|add_\w+|update_\w+)\s*\(")


def blank_literals(src):
    """replace the contents of string and char literals by spaces (keeps offsets and braces honest)"""
    out, i, n = list(src), 0, len(src)
    while i < n:
        c = src[i]
        if c == '"':
            j = i + 1
            while j < n and src[j] != '"':
                j += 2 if src[j] == "\\" else 1
            for k in range(i + 1, min(j, n)):
                if out[k] != "\n":
                    out[k] = " "
            i = j + 1
        elif c == "'":
            m = re.match(r"'(\\.[^']*|[^\\'])'", src[i:i + 12])
            if m:
                for k in range(i + 1, i + m.end() - 1):
                    out[k] = " "
                i += m.end()
            else:
                i += 1
        else:
            i += 1
    return "".join(out)


def cut_tests(src):
    m = re.search(r"\n#\[cfg\(test\)\]\s*\n\s*mod\s+\w+", src)
    return src[:m.start()] if m else src


def match_close(src, i, open_c, close_c):
    depth = 0
    for j in range(i, len(src)):
        if src[j] == open_c:
            depth += 1
        elif src[j] == close_c:
            depth -= 1
            if depth == 0:
                return j
    raise ExtractError("unbalanced %s at offset %d" % (open_c, i))


def fns_in(src):
    """name -> list of (body, returns_guard) for every `fn name(...) ... { body }` of the text"""
    res = {}
    for m in re.finditer(r"\bfn\s+(\w+)\s*(?:<(?:[^<>()]|\([^()]*\))*>)?\s*\(", src):
        name = m.group(1)
        j = match_close(src, m.end() - 1, "(", ")")
        # signature tail up to `{` or `;`
        k = j + 1
        while k < len(src) and src[k] not in "{;":
            k += 1
        if k >= len(src) or src[k] == ";":
            continue  # declaration without body
        sig_tail = src[j + 1:k]
        e = match_close(src, k, "{", "}")
        has_self = bool(re.match(r"\s*&?\s*(?:'\w+\s+)?(?:mut\s+)?self\b", src[m.end():j]))
        res.setdefault(name, []).append((src[k + 1:e], "MutexGuard" in sig_tail, has_self))
    return res


class Scan:
    def __init__(self, repo):
        self.src = {}
        self.fns = {}
        for f, rel in FILES.items():
            s = blank_literals(cut_tests(strip_comments(read(repo, rel))))
            if f == "channel":
                m = re.search(r"\n[^\n]*struct\s+ChannelCommitmentPointProvider\b", s)
                if not m:
                    raise ExtractError("ChannelCommitmentPointProvider not found in channel.rs")
                self.src["provider"] = s[m.start():]
                self.fns["provider"] = fns_in(self.src["provider"])
                s = s[:m.start()]
            self.src[f] = s
            self.fns[f] = fns_in(s)
        self.cache = {}
        self.stack = []
        self.scanned = set()
        self.gid = 0
        self.sim_stack = []
        self.recursion_cuts = set()
        self.closure_bind = []
        self.slot_w = []
        self.wpath = []
        self.cur_arm = None
        # calls the name-based resolution could not follow: (file, receiver, name) -> {calling function}
        self.unresolved = {}
        # names of functions of the scanned files that take `&mut self`
        self.mut_self_methods = set()
        for f in self.src:
            self.mut_self_methods.update(re.findall(r"\bfn\s+(\w+)\s*(?:<[^>(]*>)?\s*\(\s*&\s*(?:'\w+\s+)?mut\s+self\b", self.src[f]))
        self.check_global()

    # ---- global fail-closed checks ---------------------------------------------------------
    def check_global(self):
        for (f, name), (cls, pat) in GETTERS.items():
            bodies = self.fns[f].get(name)
            if not bodies:
                raise ExtractError("lock getter %s::%s not found" % (f, name))
            for body, guard, _ in bodies:
                if not guard or not re.search(pat, body):
                    raise ExtractError("lock getter %s::%s no longer returns the %s guard" % (f, name, cls))
        for f in self.src:
            for name, bodies in self.fns[f].items():
                for body, guard, _ in bodies:
                    if guard and (f, name) not in GETTERS:
                        raise ExtractError("unknown function returning a MutexGuard: %s::%s" % (f, name))
            for m in re.finditer(r"(\w+)\s*\.\s*lock\s*\(\s*\)", self.src[f]):
                if m.group(1) not in LOCK_RECEIVERS[f]:
                    raise ExtractError("unclassified .lock() receiver `%s` in %s" % (m.group(1), FILES[f]))
            for m in re.finditer(r"\btry_lock\b|\bRwLock\b|\bCondvar\b", self.src[f]):
                raise ExtractError("locking construct not understood: %s in %s" % (m.group(0), FILES[f]))
        for f, name in REQUIRED:
            if name not in self.fns[f]:
                raise ExtractError("scanned function disappeared: %s::%s" % (f, name))
        t = self.src["tracker"]
        for n in ("on_add_block", "on_add_streamed_block_end", "on_remove_block", "on_remove_streamed_block_end", "on_push"):
            if not re.search(r"listener\s*\.\s*%s\s*\(" % n, t):
                raise ExtractError("tracker no longer calls listener.%s" % n)
            if n not in self.fns["monitor"]:
                raise ExtractError("ChainMonitor::%s not found" % n)

    # ---- call resolution -------------------------------------------------------------------
    def resolve(self, f, recv, name):
        """which scanned function does `recv.name(` / `name(` in file f call? -> (file, name) | None"""
        if (f, name) in GETTERS or name in METHOD_LOCKS[f]:
            return None  # handled as a lock expression
        here = self.fns[f]
        if f == "node":
            if recv in ("self", "node", "arc_self", "Self", "") and name in here:
                return ("node", name)
            if recv in ("chan", "c", "base", "stub", "unwrap()") and name in self.fns["channel"]:
                return ("channel", name)
            if recv == "validator":
                for vf in ("validator", "onchain_validator"):
                    if name in self.fns[vf]:
                        return (vf, name)
            if recv == "f" or (recv == "" and name == "f"):
                return None
        elif f == "channel":
            if recv in ("self", "Self", "") and name in here:
                return ("channel", name)
            if recv in ("node", "get_node()") and name in self.fns["node"]:
                return ("node", name)
        elif f in ("validator", "onchain_validator"):
            if recv in ("self", "Self", "") and name in here:
                return (f, name)
            if recv in ("wallet", "node") and name in self.fns["node"]:
                return ("node", name)
        elif f == "monitor":
            if recv in ("self", "Self", "listener", "") and name in here:
                return ("monitor", name)
            if recv in ("provider", "commitment_point_provider") and name in self.fns["provider"]:
                return ("provider", name)
        elif f == "provider":
            if recv in ("self", "Self", "") and name in here:
                return ("provider", name)
            if recv in ("chan", "c") and name in self.fns["channel"]:
                return ("channel", name)
        elif f in ("handler", "approver"):
            if recv in ("node", "node()"):
                if name in self.fns["node"]:
                    return ("node", name)
                if name not in HANDLER_NODE_EXTERNALS:
                    raise ExtractError("%s calls node.%s, which is not a function of node.rs: cannot classify" % (FILES[f], name))
                return None
            if recv == "" and self.cur_arm and ("__local_%s_%s" % (self.cur_arm, name)) in self.fns["handler"]:
                return ("handler", "__local_%s_%s" % (self.cur_arm, name))
            if recv in ("self", "Self", "") and name in here and name not in ("do_handle", "handle"):
                return (f, name)
            if recv == "approver" and name in self.fns["approver"]:
                return ("approver", name)
            if recv == "tracker":
                if name in self.fns["tracker"]:
                    return ("tracker", name)
                raise ExtractError("%s calls tracker.%s, which is not a function of tracker.rs" % (FILES[f], name))
            if recv in CLOSURE_PARAMS and name in self.fns["channel"]:
                return ("channel", name)
        elif f == "tracker":
            if recv in ("self", "Self", "") and name in here:
                return ("tracker", name)
            if recv == "listener" and name in self.fns["monitor"]:
                return ("monitor", name)
            if recv == "decoder" and name == "decode_next":
                # the external block decoder calls back the ChainTrackerPushListener, every method of
                # which forwards to do_push -> listener.on_push
                return ("tracker", "do_push")
        return None

    def resolve_multi(self, f, recv, name):
        """all scanned functions a call can dispatch to.  A call on a validator object (`validator.x(`,
        `self.validator().x(` in node.rs / channel.rs) can reach BOTH validator implementations
        (SimpleValidator and OnchainValidator, which delegates to its `inner` SimpleValidator): every
        implementation that defines the name is followed (union of their edges)."""
        if (f, name) in GETTERS or name in METHOD_LOCKS[f]:
            return []
        if (f in ("node", "channel") and recv in VALIDATOR_RECEIVERS) :
            tg = [(vf, name) for vf in ("validator", "onchain_validator") if name in self.fns[vf]]
            if tg:
                return tg
        if f == "node" and recv == "ChannelCommitmentPointProvider" and name in self.fns["provider"]:
            # setup_channel builds the provider of the ready channel: its constructor locks the (new) slot
            return [("provider", name)]
        if f == "onchain_validator" and recv == "inner" and name in self.fns["validator"]:
            return [("validator", name)]
        t = self.resolve(f, recv, name)
        return [t] if t else []

    # ---- body walk -------------------------------------------------------------------------
    def items_of(self, f, name, method=None):
        """items of function f::name; method=True/False restricts to bodies with/without a self parameter"""
        key = (f, name, method)
        if key in self.cache:
            return self.cache[key]
        if key in self.stack:
            raise ExtractError("recursion through %s::%s" % key[:2])
        if name not in self.fns[f]:
            raise ExtractError("scanned function disappeared: %s::%s" % key[:2])
        bodies = [b for b in self.fns[f][name] if method is None or b[2] == method] or self.fns[f][name]
        self.stack.append(key)
        alts = [self.walk(f, b[0]) for b in bodies]
        self.stack.pop()
        self.scanned.add("%s::%s" % key[:2])
        items = alts[0] if len(alts) == 1 else [("choice_items", alts)]
        if key[:2] == ("node", "get_channel"):
            # `let mut guard = self.get_channels(); let elem = guard.get_mut(id);` only clones the Arc: the
            # section is read-only although the binding is `mut` (checked shape, fail closed)
            b0 = bodies[0][0]
            if len(bodies) != 1 or len(re.findall(r"\bguard\b", b0)) != 2 or "Arc::clone(slot_arc)" not in b0 \
                    or not re.search(r"let\s+mut\s+guard\s*=\s*self\s*\.\s*get_channels\s*\(\s*\)\s*;\s*let\s+elem\s*=\s*guard\s*\.\s*get_mut\s*\(", b0) \
                    or re.search(r"\*\s*(elem|slot_arc)\s*=", b0):
                raise ExtractError("Node::get_channel no longer just looks the slot up and clones the Arc "
                                   "(its `let mut guard` section is taken to be read-only)")
            items = [(it[0], it[1], it[2], False) if it[0] == "acq" else it for it in items]
        self.cache[key] = items
        return items

    def new_gid(self):
        self.gid += 1
        return "g%d" % self.gid

    def walk(self, f, body):
        """-> list of items: ('acq', cls, gid) ('rel', gid) ('sub', file, name) ('leaf', cls) ('choice_items', [..])"""
        items = []
        n = len(body)
        blocks = [{"guards": [], "scrut": []}]     # stack of open blocks
        stmt_start = 0
        stmt_temps = []        # gids released at the next `;` (or enclosing `}`)
        cond_temps = []        # gids released at the next `{`
        scrut_temps = []       # gids attached to the next `{` block, released at its `}`
        pending = []           # (close_paren_offset, item) calls firing when their `)` is reached
        lock_re = re.compile(
            r"(?P<recv>[\w\.]*?(?:\(\))?)\s*\.\s*(?P<m>get_state|get_channels|get_tracker|validator_factory|get_channel)\s*\(\s*\)"
            r"|(?P<lrecv>\w+)\s*\.\s*lock\s*\(\s*\)")
        i = 0

        def release(gids):
            for g in reversed(gids):
                if isinstance(g, tuple):      # deferred body
                    items.extend(g[1])
                else:
                    items.append(("rel", g))

        while i < n:
            while pending and pending[-1][0] <= i:
                items.append(pending.pop()[1])
            c = body[i]
            if c == "{":
                release(cond_temps); cond_temps.clear()
                blocks.append({"guards": [], "scrut": scrut_temps[:]})
                scrut_temps.clear()
                stmt_start = i + 1
                i += 1
                continue
            if c == "}":
                release(stmt_temps); stmt_temps.clear()
                b = blocks.pop()
                if not blocks:
                    raise ExtractError("unbalanced braces in a scanned body of " + f)
                release(b["guards"])
                release(b["scrut"])
                stmt_start = i + 1
                i += 1
                continue
            if c == ";":
                while pending:
                    items.append(pending.pop()[1])
                release(stmt_temps); stmt_temps.clear()
                release(cond_temps); cond_temps.clear()
                release(scrut_temps); scrut_temps.clear()
                stmt_start = i + 1
                i += 1
                continue
            # defer! { ... }
            m = re.compile(r"defer!\s*\{").match(body, i)
            if m:
                e = match_close(body, m.end() - 1, "{", "}")
                inner = self.walk(f, body[m.end():e] + ";")
                blocks[-1]["guards"].append(("defer", inner))
                i = e + 1
                continue
            # drop(x)
            m = re.compile(r"\bdrop\s*\(\s*(\w+)\s*\)").match(body, i)
            if m and (i == 0 or not (body[i - 1].isalnum() or body[i - 1] in "_.")):
                nm = m.group(1)
                for b in reversed(blocks):
                    hit = [g for g in b["guards"] if not isinstance(g, tuple) and g.endswith(":" + nm)]
                    if hit:
                        b["guards"].remove(hit[-1])
                        items.append(("rel", hit[-1]))
                        break
                i = m.end()
                continue
            # lock expression
            m = lock_re.match(body, i) if (c.isalpha() or c == "_") and (i == 0 or not (body[i - 1].isalnum() or body[i - 1] == "_")) else None
            if m:
                if m.group("m"):
                    meth = m.group("m")
                    cls = METHOD_LOCKS[f].get(meth)
                    if cls is None and meth != "get_channel":
                        raise ExtractError("lock method %s used in %s is not classified" % (meth, f))
                    if meth == "get_channel" and f != "provider":
                        cls = None     # Node::get_channel(id) returns the Arc, not a guard
                else:
                    cls = LOCK_RECEIVERS[f].get(m.group("lrecv"))
                    if cls is None:
                        raise ExtractError("unclassified .lock() receiver `%s` in %s" % (m.group("lrecv"), FILES[f]))
                if cls is None:
                    # not a lock: let the call scanner see it
                    m = None
            if m:
                end = m.end()
                tail = re.compile(r"(\s*\.\s*(unwrap\s*\(\s*\)|expect\s*\(\s*\)|expect\s*\([^)]*\)))*").match(body, end)
                end2 = tail.end()
                head = body[stmt_start:i]
                g = self.new_gid()
                let = re.search(r"\blet\s+(?:mut\s+)?(\w+)\s*(?::[^=]+)?=\s*$", head)
                let_ref = re.search(r"\blet\s+(?:mut\s+)?(\w+)\s*(?::[^=]+)?=\s*&\s*(?:mut\s+)?$", head)
                after = body[end2:]
                # does the section write the protected data?  `let mut g = <lock>` / `= &mut <lock>.f` (Rust
                # needs the `mut` binding to mutate through the guard), or a temporary that is assigned
                # through / has a mutating method called on it in the same statement
                stmt_rest = re.split(r"[;{]", after, 1)[0]
                w_let = bool(re.search(r"\blet\s+mut\s+\w+\s*(?::[^=]+)?=\s*$", head)) or bool(re.search(r"=\s*&\s*mut\s+$", head))
                w_tmp = bool(re.match(r"(\s*\.\s*\w+)*\s*(=(?!=)|\+=|-=)", stmt_rest)) or bool(re.search(MUTATORS, stmt_rest))
                if not w_tmp:
                    # a method of the scanned sources that takes `&mut self`, called on the temporary guard
                    cm1 = re.match(r"\s*\.\s*(\w+)\s*\(", stmt_rest)
                    w_tmp = bool(cm1 and cm1.group(1) in self.mut_self_methods)
                def check_escape(nm):
                    depth_, scope_end = 0, n
                    for q in range(end2, n):
                        if body[q] == "{":
                            depth_ += 1
                        elif body[q] == "}":
                            depth_ -= 1
                            if depth_ < 0:
                                scope_end = q
                                break
                    esc = re.search(r"\b(push|push_back|insert|extend|Some|Ok|Box::new|Arc::new)\s*\(\s*(?:[\w\.&]+\s*,\s*)?%s\s*\)|\breturn\s+%s\b" % (nm, nm), body[end2:scope_end])
                    if esc:
                        raise ExtractError("guard `%s` escapes its block (%s) in %s: lifetime not understood" % (nm, esc.group(0), f))
                if let and re.match(r"\s*;", after):
                    check_escape(let.group(1))
                    gid = g + ":" + let.group(1)
                    items.append(("acq", cls, gid, w_let))
                    blocks[-1]["guards"].append(gid)
                elif let_ref and re.match(r"(\s*\.\s*\w+)*\s*;", after) and not re.match(r"(\s*\.\s*\w+)*\s*\(", after):
                    check_escape(let_ref.group(1))
                    gid = g + ":" + let_ref.group(1)
                    items.append(("acq", cls, gid, w_let))
                    blocks[-1]["guards"].append(gid)
                else:
                    items.append(("acq", cls, g, w_tmp))
                    h = head.strip()
                    if re.match(r"(else\s+)?(if|while)\b(?!\s+let\b)", h):
                        cond_temps.append(g)
                    elif re.match(r"(else\s+)?(match|for|if\s+let|while\s+let)\b", h):
                        scrut_temps.append(g)
                    else:
                        stmt_temps.append(g)
                i = end2
                continue
            # node-ledger read-modify-write steps (fire at their closing paren, i.e. after their arguments)
            m = re.compile(r"(claimable_balances|validate_payments|apply_payments)\s*\(").match(body, i)
            if m and i > 0 and body[i - 1] == ".":
                close = match_close(body, m.end() - 1, "(", ")")
                pending.append((close, ("mark", m.group(1))))
                pending.sort(key=lambda p: -p[0])
                i = m.end()
                continue
            # persister call = store leaf (fires at its closing paren)
            m = re.compile(r"persister\s*\.\s*(\w+)\s*\(").match(body, i)
            if m and (i == 0 or not (body[i - 1].isalnum() or body[i - 1] == "_")):
                close = match_close(body, m.end() - 1, "(", ")")
                pending.append((close, ("leaf", "store")))
                pending.sort(key=lambda p: -p[0])
                i = m.end()
                continue
            # monitor base call from channel/node code: `<x>.monitor.<name>(`
            m = re.compile(r"(?:\w+\s*\.\s*)?monitor\s*\.\s*(\w+)\s*\(").match(body, i)
            if m and f in ("channel", "node") and (i == 0 or not (body[i - 1].isalnum() or body[i - 1] == "_")):
                name = m.group(1)
                if name in self.fns["monitor"]:
                    close = match_close(body, m.end() - 1, "(", ")")
                    pending.append((close, ("sub", "monitor", name)))
                    pending.sort(key=lambda p: -p[0])
                i = m.end()
                continue
            # closure parameter call in with_channel / on_push
            m = re.compile(r"\bf\s*\(\s*(&mut\s+)?(chan|base|listener)\s*\)").match(body, i)
            if m and (i == 0 or not (body[i - 1].isalnum() or body[i - 1] in "_.")):
                items.append(("closure", m.group(2)))
                i = m.end()
                continue
            # ordinary call
            m = re.compile(r"(?:(?P<recv>\w+(?:\(\))?)\s*(?:\.|::)\s*)?(?P<name>[a-z_]\w*)\s*(?:::<[^>]*>)?\s*\(").match(body, i)
            if m and (i == 0 or not (body[i - 1].isalnum() or body[i - 1] in "_!")):
                recv, name = m.group("recv") or "", m.group("name")
                # receiver chains like self.get_node().x( : look at the text just before
                if not recv:
                    pre = body[max(0, i - 24):i]
                    pm = re.search(r"(\w+(?:\(\))?)\s*\.\s*$", pre)
                    if pm:
                        recv = pm.group(1)
                if name == "now" and recv == "clock":
                    # a clock read; remember the variable it is bound to (if any)
                    lm = re.search(r"\blet\s+(?:mut\s+)?(\w+)\s*(?::[^=]+)?=\s*[\w\.\s]*$", body[stmt_start:i])
                    close = match_close(body, m.end() - 1, "(", ")")
                    pending.append((close, ("mark", "clock", lm.group(1) if lm else "")))
                    pending.sort(key=lambda p: -p[0])
                elif name == "insert" and recv.endswith("velocity_control"):
                    close = match_close(body, m.end() - 1, "(", ")")
                    arg = body[m.end():close].split(",")[0].strip()
                    pending.append((close, ("mark", "vinsert", arg)))
                    pending.sort(key=lambda p: -p[0])
                elif name in ("claimable_balances", "validate_payments", "apply_payments"):
                    close = match_close(body, m.end() - 1, "(", ")")
                    pending.append((close, ("mark", name)))
                    pending.sort(key=lambda p: -p[0])
                elif recv == "get_persister()" and f in ("handler", "approver"):
                    # `node.get_persister().<name>(` = store leaf (handler.rs writes the tracker that way)
                    close = match_close(body, m.end() - 1, "(", ")")
                    pending.append((close, ("leaf", "store")))
                    pending.sort(key=lambda p: -p[0])
                elif name in ("with_channel", "with_channel_base") and f in ("handler", "approver"):
                    # called with a closure literal: the closure body runs where with_channel calls
                    # `f(chan)`, i.e. inside the slot section
                    close = match_close(body, m.end() - 1, "(", ")")
                    args = body[m.end():close]
                    cm = re.search(r"(?:\bmove\s+)?\|\s*(?:mut\s+)?(\w+)\s*(?::[^|]*)?\|", args)
                    if not cm:
                        raise ExtractError("%s: %s called without a closure literal: the channel methods it runs cannot be determined" % (FILES[f], name))
                    if cm.group(1) not in CLOSURE_PARAMS:
                        raise ExtractError("%s: closure parameter `%s` of %s is not a known name" % (FILES[f], cm.group(1), name))
                    ctext = args[cm.end():]
                    inner = self.walk(f, ctext + ";")
                    # the closure must not hand the channel to code the scan cannot follow
                    for am in re.finditer(r"(?:(\w+)\s*\.\s*)?\b([a-z_]\w*)\s*\(\s*(?:&\s*mut\s+|&\s*)?%s\s*[,)]" % re.escape(cm.group(1)), ctext):
                        if self.resolve(f, am.group(1) or "", am.group(2)) is None:
                            raise ExtractError("%s: the closure of %s passes the channel to `%s`, which the scan cannot follow"
                                               % (FILES[f], name, am.group(2)))
                    calls = self.channel_calls(inner, 0)
                    items.append(("subc", "node", name, inner, calls))
                    i = close
                    continue
                elif name not in KEYWORDS:
                    tgts = [t for t in self.resolve_multi(f, recv, name) if t not in GETTERS]
                    if len(tgts) == 1:
                        tgt = tgts[0]
                        close = match_close(body, m.end() - 1, "(", ")")
                        meth = None if recv in ("Self",) else (recv != "")
                        pending.append((close, ("sub", tgt[0], tgt[1], meth)))
                        pending.sort(key=lambda p: -p[0])
                    elif tgts:
                        close = match_close(body, m.end() - 1, "(", ")")
                        pending.append((close, ("choice", tgts)))
                        pending.sort(key=lambda p: -p[0])
                    elif not ((f, name) in GETTERS or name in METHOD_LOCKS[f]):
                        who = "%s::%s" % self.stack[-1][:2] if self.stack else "%s::<arm %s>" % (f, self.cur_arm)
                        self.unresolved.setdefault((f, recv, name), set()).add(who)
                i = m.start("name") + len(name) if m.group("recv") else m.end("name")
                continue
            if c.isalnum() or c == "_":
                # skip the rest of an identifier so that patterns only match at identifier starts
                j = i + 1
                while j < n and (body[j].isalnum() or body[j] == "_"):
                    j += 1
                i = j
                continue
            i += 1
        while pending:
            items.append(pending.pop()[1])
        release(stmt_temps); release(cond_temps); release(scrut_temps)
        if len(blocks) != 1:
            raise ExtractError("unbalanced braces in a scanned body of " + f)
        release(blocks[0]["guards"])
        return items

    # ---- expansion -------------------------------------------------------------------------
    def closure_alts(self, which):
        if which == "chan":
            names = sorted(n for n in self.fns["channel"] if self.is_channel_method(n))
            # canonical path: the commitment update
            names.sort(key=lambda n: (n != "validate_holder_commitment_tx", n))
            return [("channel", n) for n in names]
        if which == "base":
            return [("channel", n) for n in ("get_per_commitment_point", "get_per_commitment_secret",
                                              "check_future_secret", "validate", "get_channel_basepoints")
                    if n in self.fns["channel"]]
        if which == "listener":
            return [("monitor", n) for n in ("on_transaction_end", "on_transaction_start", "on_transaction_input",
                                              "on_transaction_output", "on_block_start", "on_block_end")
                    if n in self.fns["monitor"]]
        raise ExtractError("unknown closure kind " + which)

    def channel_calls(self, items, depth):
        """Channel methods called by a closure body, through the arm's local closures too"""
        out = []
        for it in items:
            if it[0] == "sub" and it[1] == "channel":
                out.append(it[2])
            elif it[0] == "sub" and it[1] == "handler" and it[2].startswith("__local_") and depth < 6:
                out.extend(self.channel_calls(self.items_of("handler", it[2], None), depth + 1))
        return out

    def register_local_closures(self, arm, text):
        """`let name = |params| body;` inside an arm = a local function of that arm"""
        self.cur_arm = re.sub(r"\W", "_", arm)
        for m in re.finditer(r"\blet\s+(?:mut\s+)?(\w+)\s*(?::[^=]+)?=\s*(?:move\s+)?\|[^|]*\|\s*(?:->\s*[^{]+)?", text):
            k = m.end()
            if k < len(text) and text[k] == "{":
                e = match_close(text, k, "{", "}")
                body = text[k + 1:e]
            else:
                e = text.find(";", k)
                body = text[k:e if e >= 0 else len(text)] + ";"
            self.fns["handler"]["__local_%s_%s" % (self.cur_arm, m.group(1))] = [(body, False, False)]

    def is_mut_method(self, meth):
        return bool(re.search(r"\bfn\s+%s\s*(?:<[^>(]*>)?\s*\(\s*&\s*mut\s+self\b" % re.escape(meth), self.src["channel"]))

    def is_channel_method(self, name):
        # every method of channel.rs that takes `self` (Channel / ChannelStub / ChannelBase impls)
        pat = re.compile(r"\bfn\s+%s\s*(?:<[^>(]*>)?\s*\(\s*&(?:mut\s+)?self\b" % re.escape(name))
        return bool(pat.search(self.src["channel"])) and ("channel", name) not in GETTERS

    def sim_fn(self, ff, nn, held, edges, path, primary, depth, method=None):
        """simulate a call of function ff::nn; a re-entrant (name-resolved) call is cut and recorded"""
        key = (ff, nn)
        if key in self.sim_stack:
            self.recursion_cuts.add("%s::%s" % key)
            return
        self.sim_stack.append(key)
        try:
            self.simulate(self.items_of(ff, nn, method), held, edges, path, primary, depth + 1)
        finally:
            self.sim_stack.pop()

    def simulate(self, items, held, edges, path, primary, depth=0):
        """walk items with the multiset of held locks; collect edges; extend the canonical path if primary"""
        if depth > 60:
            raise ExtractError("call depth exceeded")
        local = {}
        for it in items:
            k = it[0]
            if k == "acq":
                cls = it[1]
                for h in held:
                    edges.add((h, cls))
                held.append(cls)
                local[it[2]] = cls
                if primary:
                    path.append(("acq", cls))
                    w = bool(it[3]) if len(it) > 3 else False
                    if cls == "slot" and self.slot_w and self.slot_w[-1] is not None:
                        w = self.slot_w[-1]
                    self.wpath.append(("acq", cls, w))
            elif k == "rel":
                cls = local.pop(it[1], None)
                if cls is not None:
                    # remove the most recent instance
                    for j in range(len(held) - 1, -1, -1):
                        if held[j] == cls:
                            del held[j]
                            break
                    if primary:
                        path.append(("rel", cls))
                        self.wpath.append(("rel", cls))
            elif k == "mark":
                pass
            elif k == "leaf":
                for h in held:
                    edges.add((h, it[1]))
                if primary:
                    path.append(("acq", it[1])); path.append(("rel", it[1]))
            elif k == "sub":
                self.sim_fn(it[1], it[2], held, edges, path, primary, depth, it[3] if len(it) > 3 else None)
            elif k == "subc":
                # with_channel(id, |chan| <closure>) : the closure literal is bound to `f(chan)`
                self.closure_bind.append(it[3])
                # the slot section writes iff the closure calls a `&mut self` Channel method
                self.slot_w.append(any(self.is_mut_method(mth) for mth in it[4]))
                try:
                    self.sim_fn(it[1], it[2], held, edges, path, primary, depth)
                finally:
                    self.closure_bind.pop()
                    self.slot_w.pop()
            elif k == "closure" and it[1] in ("chan", "base") and self.closure_bind and self.closure_bind[-1] is not None:
                bound = self.closure_bind[-1]
                self.closure_bind.append(None)     # not visible to nested with_channel bodies
                try:
                    self.simulate(bound, held, edges, path, primary, depth + 1)
                finally:
                    self.closure_bind.pop()
            elif k == "closure":
                alts = self.closure_alts(it[1])
                for j, (ff, nn) in enumerate(alts):
                    self.sim_fn(ff, nn, held[:], edges, path, primary and j == 0, depth)
            elif k == "choice":
                for j, (ff, nn) in enumerate(it[1]):
                    self.sim_fn(ff, nn, held[:], edges, path, primary and j == 0, depth)
            elif k == "choice_items":
                for j, alt in enumerate(it[1]):
                    self.simulate(alt, held[:], edges, path, primary and j == 0, depth + 1)
            elif k == "call":
                self.sim_fn(it[1], it[2], held, edges, path, primary, depth)
            else:
                raise ExtractError("unknown item " + str(it))
        # guards still registered locally (returned guards never happen: getters are primitives)
        for gid, cls in local.items():
            for j in range(len(held) - 1, -1, -1):
                if held[j] == cls:
                    del held[j]
                    break
            if primary:
                path.append(("rel", cls))
                self.wpath.append(("rel", cls))


def handler_arms(sc):
    """Every `Message::X(..) =>` arm of the three `do_handle` functions of handler.rs (InitHandler, RootHandler,
    ChannelHandler) as a program `<Handler>.<X>`, every other method of handler.rs that takes `self` as
    `<Handler>.fn.<name>`, and the Node API of NODE_API_EXTRA as `Node.<name>`: -> [(name, items)].
    Fail-closed: a do_handle without `match msg {`, an arm pattern the splitter does not understand, fewer
    arms than `Message::` patterns at arm depth."""
    src = sc.src["handler"]
    impls = [(m.start(), m.group(1)) for m in re.finditer(r"\bimpl\s+(?:<[^>]*>\s*)?(?:[\w:]+\s+for\s+)?(\w+)\s*\{", src)]

    def impl_of(pos):
        best = None
        for p, nm in impls:
            if p < pos:
                best = nm
        if best is None:
            raise ExtractError("handler.rs: no impl block before offset %d" % pos)
        return best.replace("Handler", "") or best

    out, seen = [], set()
    for m in re.finditer(r"\bfn\s+do_handle\s*\(", src):
        j = match_close(src, m.end() - 1, "(", ")")
        k = j + 1
        while k < len(src) and src[k] not in "{;":
            k += 1
        if k >= len(src) or src[k] == ";":
            continue
        e = match_close(src, k, "{", "}")
        body = src[k + 1:e]
        owner = impl_of(m.start())
        mm = re.search(r"\bmatch\s+msg\s*\{", body)
        if not mm:
            raise ExtractError("handler.rs: %s::do_handle has no `match msg {`" % owner)
        me = match_close(body, mm.end() - 1, "{", "}")
        mb = body[mm.end():me]
        # arm starts: `Message::X` at nesting depth 0 of the match body, followed by `=>`
        depth, starts = 0, []
        q = 0
        while q < len(mb):
            ch = mb[q]
            if ch in "{([":
                depth += 1
            elif ch in "})]":
                depth -= 1
            elif depth == 0:
                am = re.compile(r"Message::(\w+)\s*(\()?").match(mb, q)
                if am and (q == 0 or not (mb[q - 1].isalnum() or mb[q - 1] in "_:")):
                    p2 = am.end()
                    if am.group(2):
                        p2 = match_close(mb, am.end() - 1, "(", ")") + 1
                    ar = re.compile(r"\s*=>").match(mb, p2)
                    if not ar:
                        raise ExtractError("handler.rs: arm pattern Message::%s of %s::do_handle not understood" % (am.group(1), owner))
                    starts.append((q, ar.end(), am.group(1)))
                    q = ar.end()
                    continue
                wm = re.compile(r"(_|[a-z]\w*)\s*=>").match(mb, q)
                if wm and (q == 0 or not (mb[q - 1].isalnum() or mb[q - 1] in "_:")) \
                        and not re.match(r"\s*(unimplemented|panic|unreachable)\s*!", mb[wm.end():]):
                    # (a catch-all that only panics handles no request)
                    raise ExtractError("handler.rs: %s::do_handle has a wildcard / binding arm `%s =>`: its requests cannot be enumerated" % (owner, wm.group(1)))
            q += 1
        if not starts:
            raise ExtractError("handler.rs: no arms found in %s::do_handle" % owner)
        sc.scanned.add("handler::do_handle")
        for idx, (a0, a1, nm) in enumerate(starts):
            end = starts[idx + 1][0] if idx + 1 < len(starts) else len(mb)
            name = "%s.%s" % (owner, nm)
            if name in seen:
                raise ExtractError("handler.rs: duplicate arm " + name)
            seen.add(name)
            sc.register_local_closures(name, mb[a1:end])
            out.append((name, sc.walk("handler", mb[a1:end] + ";")))
            sc.cur_arm = None
        # anything else in do_handle outside the match (prologue / epilogue) must not touch locks
        rest = sc.walk("handler", body[:mm.start()] + ";" + body[me + 1:] + ";")
        if any(it[0] in ("acq", "sub", "subc", "leaf") for it in rest):
            out.append(("%s.<around-match>" % owner, rest))
    if len(out) < 3:
        raise ExtractError("handler.rs: do_handle functions not found")
    # other methods of handler.rs that take self (pub API of the handlers, builder)
    for name, bodies in sorted(sc.fns["handler"].items()):
        if name in ("do_handle", "handle", "fmt", "from", "into"):
            continue
        if any(b[2] for b in bodies):
            out.append(("Handler.fn.%s" % name, [("call", "handler", name)]))
    for name in NODE_API_EXTRA:
        if name not in sc.fns["node"]:
            raise ExtractError("scanned function disappeared: node::" + name)
        out.append(("Node." + name, [("call", "node", name)]))
    # management API of the approvers (called by the front end, not by an arm): every method of approver.rs
    # that takes self and is not one of the Approve trait's request methods reached above
    for name, bodies in sorted(sc.fns["approver"].items()):
        if any(b[2] for b in bodies) and not name.startswith(("approve_", "handle_proposed_")) and name not in ("fmt",):
            out.append(("Approver." + name, [("call", "approver", name)]))
    return out


# files of the two crates that are NOT scanned but contain lock expressions, with the number of expressions (after
# cutting `mod tests`) and the reason they are outside the request programs.  Any other unscanned file with a lock
# expression, or a changed count, fails the extraction (file_census): re-review, then update.
UNSCANNED_LOCK_FILES = {
    "vls-core/src/verif_sync.rs": (4, "hook H2: the lock-event tap itself (its LOG mutex is a leaf)"),
    "vls-core/src/util/clock.rs": (2, "ManualClock's own leaf mutex (test clock)"),
    "vls-core/src/util/mocks.rs": (1, "test mocks"),
    "vls-core/src/signer/multi_signer.rs": (8, "MultiSigner front end (several nodes in one process): its `nodes` map mutex is "
                                            "taken first and nests only node_state/tracker of a node under construction; its "
                                            "with_channel / with_channel_base are copies of Node::with_channel(_base) (slot "
                                            "section = row channel_request / channel_base_request)"),
}
CENSUS_ROOTS = ("vls-core/src", "vls-protocol-signer/src")


def file_census(repo):
    """every .rs file of vls-core/src and vls-protocol-signer/src outside the scanned FILES (test files excluded) that
    contains a lock expression must be listed in UNSCANNED_LOCK_FILES with its count -> sorted [(file, count)]"""
    import os
    found = {}
    scanned = set(FILES.values())
    for root in CENSUS_ROOTS:
        base = os.path.join(repo, root)
        if not os.path.isdir(base):
            raise ExtractError("source directory disappeared: " + root)
        for dp, _, fns in sorted(os.walk(base)):
            for fn in sorted(fns):
                rel = os.path.relpath(os.path.join(dp, fn), repo)
                if not fn.endswith(".rs") or rel in scanned:
                    continue
                if fn.endswith("_tests.rs") or fn.endswith("_test.rs") or "/test_utils" in rel or "/tests/" in rel:
                    continue
                src = blank_literals(cut_tests(strip_comments(read(repo, rel))))
                n = len(LOCK_SITE_RE.findall(src))
                if n:
                    found[rel] = n
    for rel, n in sorted(found.items()):
        if rel not in UNSCANNED_LOCK_FILES:
            raise ExtractError("%s contains %d lock expression(s) but is not scanned: add it to FILES (and the call "
                               "resolution), or review it and list it in UNSCANNED_LOCK_FILES" % (rel, n))
        if UNSCANNED_LOCK_FILES[rel][0] != n:
            raise ExtractError("%s: %d lock expressions, reviewed with %d (UNSCANNED_LOCK_FILES): re-review"
                               % (rel, n, UNSCANNED_LOCK_FILES[rel][0]))
    for rel in UNSCANNED_LOCK_FILES:
        if rel not in found:
            raise ExtractError("UNSCANNED_LOCK_FILES lists %s, which has no lock expression any more" % rel)
    return sorted(found.items())


def call_census(sc):
    """Fail-closed check of the call-graph resolution (lock scopes taken through helper functions): every call
    `recv.name(` / `name(` in a scanned body that the name-based resolution did NOT follow, although `name` is the
    name of a function of the scanned files that (transitively) acquires a lock, must be listed in
    UNRESOLVED_OK with the reason why it cannot be that function.  -> sorted ["file: recv.name", ...]"""
    locking = {}
    scanned_before = set(sc.scanned)
    for f in sorted(sc.fns):
        for name in sorted(sc.fns[f]):
            if (f, name) in GETTERS:
                locking.setdefault(name, set()).add(f)
                continue
            edges = set()
            try:
                sc.sim_stack = []
                sc.simulate(sc.items_of(f, name, None), ["<held>"], edges, [], False)
            except ExtractError:
                edges = {("<held>", "?")}
            if edges:
                locking.setdefault(name, set()).add(f)
    sc.sim_stack = []
    sc.scanned = scanned_before
    found = {}
    for (f, recv, name), who in sorted(sc.unresolved.items()):
        if name not in locking:
            continue
        if recv[:1].isupper() and recv not in SCANNED_TYPES:
            continue      # associated function of a type that is not defined in the scanned files (Arc::new, Box::new ...)
        key = "%s: %s.%s" % (f, recv, name) if recv else "%s: %s" % (f, name)
        found[key] = (sorted(who), sorted(locking[name]))
    for key, (who, where) in found.items():
        if key not in UNRESOLVED_OK:
            raise ExtractError("call `%s(` in %s is not followed by the scan, but a function of that name in %s takes a lock: "
                               "teach Scan.resolve the receiver, or list it in UNRESOLVED_OK with the reason"
                               % (key.split(": ")[1], ", ".join(who), "/".join(where)))
    for key in UNRESOLVED_OK:
        if key not in found:
            raise ExtractError("UNRESOLVED_OK lists `%s`, which no longer occurs (or is resolved now)" % key)
    return sorted(found)


LOCK_SITE_RE = re.compile(r"\b(?:get_state|get_channels|get_tracker|validator_factory)\s*\(\s*\)|\w+\s*\.\s*lock\s*\(\s*\)")


def site_census(sc):
    """every function of the scanned files that contains a lock acquisition expression: reached from an
    entry point / handler arm (scanned), a lock getter itself, or listed in NON_REQUEST_SITES.
    -> (sites, unreached)   sites: [(file::fn, number of lock expressions, reached)]"""
    sites, unreached = [], []
    for f in sorted(sc.src):
        for name, bodies in sorted(sc.fns[f].items()):
            cnt = 0
            for body, _, _ in bodies:
                cnt += sum(1 for m in LOCK_SITE_RE.finditer(body)
                           if not (f not in ("provider",) and m.group(0).startswith("get_channel(")))
            if f == "provider":
                cnt += sum(len(re.findall(r"\bget_channel\s*\(\s*\)", b[0])) for b in bodies)
            if not cnt or (f, name) in GETTERS:
                continue
            key = "%s::%s" % (f, name)
            reached = key in sc.scanned
            sites.append((key, cnt, reached))
            if not reached:
                if key not in NON_REQUEST_SITES:
                    raise ExtractError("lock acquisition site outside every request entry point and handler arm: %s "
                                       "(add an entry point for it, or list it in NON_REQUEST_SITES with the reason)" % key)
                unreached.append(key)
    for key in NON_REQUEST_SITES:
        if key not in unreached:
            raise ExtractError("NON_REQUEST_SITES lists %s, which is now reached by a request or no longer takes a lock" % key)
    return sites, unreached


DOC_NAMES = {"tracker": "tracker", "channels": "channels", "channel map": "channels", "channel": "slot", "slot": "slot",
             "node state": "node_state", "node_state": "node_state", "monitor": "monitor"}


def documented_orders(repo):
    """The lock orders the source itself documents in comments (`lock order: a -> b -> c`, `lock order: a before
    b`, monitor.rs `Lock order: after self.state` next to decode_state): [(file:line, [class, ...])].  A comment
    that mentions a lock order and is not understood fails the extraction (unless it documents an exception:
    "backwards")."""
    out = []
    for f, rel in FILES.items():
        text = read(repo, rel)
        m0 = re.search(r"\n#\[cfg\(test\)\]\s*\n\s*mod\s+\w+", text)
        lines = (text[:m0.start()] if m0 else text).split("\n")
        for k, line in enumerate(lines):
            cm = re.search(r"//+\s*(.*)$", line)
            if not cm or not re.search(r"lock order", cm.group(1), re.I):
                continue
            c = cm.group(1)
            # comments may continue on the next line(s)
            j = k + 1
            while j < len(lines) and re.match(r"\s*//", lines[j]) and j < k + 3:
                c += " " + re.sub(r"^\s*//+\s*", "", lines[j])
                j += 1
            where = "%s:%d" % (rel, k + 1)
            if re.search(r"backwards", c):
                continue
            m = re.search(r"lock order:?\s*\(?((?:[\w ]+?\s*->\s*)+[\w ]+?)\s*(?:[,.)(]|as in|$)", c, re.I)
            if m:
                names = [x.strip().lower() for x in m.group(1).split("->")]
            else:
                m = re.search(r"lock order:?\s*([\w ]+?)\s+before\s+([\w ]+?)\s*(?:[,.(]|as in|$)", c, re.I)
                if m:
                    names = [m.group(1).strip().lower(), m.group(2).strip().lower()]
                elif f == "monitor" and re.search(r"lock order:?\s*after\s+`?self\.state`?", c, re.I):
                    names = ["monitor", "monitor_decode_"]
                else:
                    raise ExtractError("%s: a comment documents a lock order that the extractor does not understand: %s" % (where, c[:120]))
            chain = []
            for nm in names:
                if nm == "monitor_decode_":
                    chain.append("monitor_decode")
                elif nm in DOC_NAMES:
                    chain.append(DOC_NAMES[nm])
                else:
                    raise ExtractError("%s: documented lock order names an unknown lock `%s`" % (where, nm))
            out.append((where, chain))
    if len(out) < 3:
        raise ExtractError("the lock-order comments of node.rs / monitor.rs disappeared (found %d)" % len(out))
    return out


LEDGER_MARKS = ("claimable_balances", "validate_payments", "apply_payments")


def ledger_paths(sc):
    """For every Channel method that performs the node-ledger read-modify-write (claimable_balances /
    validate_payments ... apply_payments on the node state): the node_state acquire/release events of
    the function body interleaved with one `upd` per ledger step.  The theorem side requires each of
    these lists to be strict two-phase (one node_state critical section spanning validate..apply)."""
    res = {}
    for name, bodies in sorted(sc.fns["channel"].items()):
        for k, (body, _, _) in enumerate(bodies):
            if not re.search(r"\.\s*(validate_payments|apply_payments)\s*\(", body):
                continue
            items = sc.walk("channel", body)
            ev, guards = [], {}
            for it in items:
                if it[0] == "acq" and it[1] == "node_state":
                    guards[it[2]] = True
                    ev.append(("acq", None))
                elif it[0] == "rel" and it[1] in guards:
                    del guards[it[1]]
                    ev.append(("rel", None))
                elif it[0] == "mark" and it[1] in LEDGER_MARKS:
                    if not guards:
                        raise ExtractError("ledger step %s outside a node_state section in %s" % (it[1], name))
                    ev.append(("upd", it[1]))
            for g in list(guards):
                ev.append(("rel", None))
            res[name if k == 0 else "%s_%d" % (name, k)] = ev
    if not any(any(e == ("upd", "apply_payments") for e in v) for v in res.values()):
        raise ExtractError("no Channel method applies payments to the node ledger any more")
    for req in ("sign_counterparty_commitment_tx_phase2", "validate_holder_commitment_tx_phase2",
                "revoke_previous_holder_commitment"):
        if req not in res:
            raise ExtractError("ledger read-modify-write disappeared from Channel::" + req)
    return res


VELOCITY_FNS = ("add_invoice", "add_keysend", "check_onchain_tx")


def velocity_time_facts(sc):
    """For the functions that feed a velocity control: is the `insert` inside the node_state section,
    is the last clock read before it inside that section too, and is the time argument of `insert` the
    value of that read?  (A time read before the lock can be older than the control's window start
    when requests overlap.)"""
    src = sc.src["node"]
    total = len(re.findall(r"velocity_control\s*\.\s*insert\s*\(", src))
    res, seen = {}, 0
    for name in VELOCITY_FNS:
        bodies = sc.fns["node"].get(name)
        if not bodies:
            raise ExtractError("scanned function disappeared: node::" + name)
        items = sc.walk("node", bodies[0][0])
        guards, last_clock, facts = {}, None, []
        for it in items:
            if it[0] == "acq" and it[1] == "node_state":
                guards[it[2]] = True
            elif it[0] == "rel" and it[1] in guards:
                del guards[it[1]]
            elif it[0] == "mark" and it[1] == "clock":
                last_clock = (it[2], bool(guards))
            elif it[0] == "mark" and it[1] == "vinsert":
                seen += 1
                arg_ok = bool(last_clock and last_clock[0] and re.match(r"%s\b" % re.escape(last_clock[0]), it[2]))
                facts.append((bool(guards), bool(last_clock and last_clock[1]), arg_ok))
        if not facts:
            raise ExtractError("no velocity control insert in node::" + name)
        res[name] = tuple(all(f[k] for f in facts) for k in range(3))
    if seen != total:
        raise ExtractError("a velocity_control.insert site of node.rs is outside the scanned functions (%d of %d)" % (seen, total))
    return res


def lean_class(c):
    return "." + {"node_state": "nodeState", "channels": "channels", "slot": "slot", "tracker": "tracker",
                  "monitor": "monitor", "monitor_decode": "monitorDecode",
                  "validator_factory": "validatorFactory", "store": "store", "approver": "approver"}[c]


def build(repo):
    sc = Scan(repo)
    table = {}
    for kind, top in ENTRIES.items():
        edges, path = set(), []
        sc.wpath = []
        sc.simulate(top, [], edges, path, True)
        slot_sections = sum(1 for e in path if e == ("acq", "slot"))
        table[kind] = {"edges": sorted(edges, key=lambda e: (CLASSES.index(e[0]), CLASSES.index(e[1]))),
                       "path": path, "slot_sections": slot_sections, "wpath": sc.wpath}
    arms = []
    for name, items in handler_arms(sc):
        edges, path = set(), []
        sc.wpath = []
        sc.simulate(items, [], edges, path, True)
        secs = arm_sections(sc, items)
        arms.append({"name": name, "edges": sorted(edges, key=lambda e: (CLASSES.index(e[0]), CLASSES.index(e[1]))),
                     "path": path, "sections": secs, "wpath": sc.wpath})
    sc.arms = arms
    sc.sites, sc.unreached = site_census(sc)
    sc.unresolved_locking = call_census(sc)
    sc.unscanned_files = file_census(repo)
    return sc, table


def arm_sections(sc, items):
    """the with_channel / with_channel_base sections a program opens itself or through helper functions of
    handler.rs / approver.rs: [(with_channel | with_channel_base, [Channel methods called by the closure])]"""
    out = []

    def rec(its, depth):
        if depth > 8:
            return
        for it in its:
            if it[0] == "subc":
                out.append((it[2], list(it[4])))
            elif it[0] in ("sub", "call") and it[1] in ("handler", "approver"):
                rec(sc.items_of(it[1], it[2], it[3] if len(it) > 3 else None), depth + 1)
            elif it[0] == "choice_items":
                for alt in it[1]:
                    rec(alt, depth + 1)
    rec(items, 0)
    return out


def extract(repo):
    sc, table = build(repo)
    for kind in SINGLE_SECTION:
        if table[kind]["slot_sections"] != 1:
            raise ExtractError("%s: expected exactly one slot critical section on the canonical path, found %d"
                               % (kind, table[kind]["slot_sections"]))
    kinds = list(ENTRIES)
    L = ["import VlsModel.Model.Locks",
         "import VlsModel.Model.Locks2pl",
         "/- Lock-acquisition table of the request entry points (held-while-acquiring edges and one",
         "   canonical event path per request kind), extracted from the current sources. -/",
         "namespace VlsModel.Gen.LockTable",
         "open VlsModel.Locks",
         "",
         "/-- request kinds (entry points scanned) -/",
         "inductive Kind",
         "  | " + " | ".join(kinds),
         "  deriving DecidableEq, Repr",
         "",
         "def Kind.all : List Kind := [%s]" % ", ".join("." + k for k in kinds),
         "",
         "def Kind.ofString? : String → Option Kind"]
    for k in kinds:
        L.append('  | "%s" => some .%s' % (k, k))
    L += ["  | _ => none", "",
          "/-- request kind ↦ held-while-acquiring edges `(held, acquired)` over lock classes -/",
          "def edges : Kind → List (Cls × Cls)"]
    for k in kinds:
        es = ", ".join("(%s, %s)" % (lean_class(a), lean_class(b)) for a, b in table[k]["edges"])
        L.append("  | .%s => [%s]" % (k, es))
    L += ["", "/-- request kind ↦ canonical event path over lock classes (`true` = acquire) -/",
          "def path : Kind → List (Bool × Cls)"]
    for k in kinds:
        ps = ", ".join("(%s, %s)" % ("true" if a == "acq" else "false", lean_class(c)) for a, c in table[k]["path"])
        L.append("  | .%s => [%s]" % (k, ps))
    L += ["", "/-- request kinds that must hold their channel slot in exactly one critical section -/",
          "def singleSection : List Kind := [%s]" % ", ".join(".%s" % k for k in SINGLE_SECTION),
          "",
          "/-- Channel methods that read-modify-write the node ledger: their node_state events with one",
          "`upd` per ledger step (claimable_balances / validate_payments / apply_payments) -/",
          "def ledgerPaths : List (String × List (VlsModel.Locks2pl.DEv Cls Unit)) := ["]
    lp = ledger_paths(sc)
    rows = []
    for name, ev in lp.items():
        es = ", ".join({"acq": ".acq .nodeState", "rel": ".rel .nodeState", "upd": ".upd .nodeState id"}[a] for a, _ in ev)
        rows.append('  ("%s", [%s])' % (name, es))
    L.append(",\n".join(rows) + "]")
    vt = velocity_time_facts(sc)
    L += ["",
          "/-- functions feeding a velocity control: (insert inside the node_state section, the last clock",
          "read before it is inside that section, the time argument of insert is that read) -/",
          "def velocityTime : List (String × Bool × Bool × Bool) := [" +
          ", ".join('("%s", %s, %s, %s)' % ((n,) + tuple("true" if b else "false" for b in v)) for n, v in vt.items()) + "]"]
    def is_mut(meth):
        return bool(re.search(r"\bfn\s+%s\s*(?:<[^>(]*>)?\s*\(\s*&\s*mut\s+self\b" % re.escape(meth), sc.src["channel"]))
    L += ["",
          "/-- request programs of the protocol front end: every `Message::X` arm of the three `do_handle`",
          "functions of handler.rs (with the closure literal of each `with_channel` call bound to the slot section),",
          "the other `self` methods of handler.rs and the Node API no arm calls: name ↦ held-while-acquiring edges -/",
          "def arms : List (String × List (Cls × Cls)) := ["]
    L.append(",\n".join('  ("%s", [%s])' % (a["name"], ", ".join("(%s, %s)" % (lean_class(x), lean_class(y)) for x, y in a["edges"]))
                        for a in sc.arms) + "]")
    L += ["", "/-- the same programs: canonical event path (`true` = acquire) -/",
          "def armPaths : List (String × List (Bool × Cls)) := ["]
    L.append(",\n".join('  ("%s", [%s])' % (a["name"], ", ".join("(%s, %s)" % ("true" if x == "acq" else "false", lean_class(c)) for x, c in a["path"]))
                        for a in sc.arms) + "]")
    L += ["", "/-- the slot sections each program opens (`with_channel` = false / `with_channel_base` = true) with the",
          "Channel methods its closure calls, in program order: (method, takes `&mut self`) -/",
          "def armSections : List (String × List (Bool × List (String × Bool))) := ["]
    L.append(",\n".join('  ("%s", [%s])' % (a["name"], ", ".join("(%s, [%s])" % ("true" if w == "with_channel_base" else "false",
                        ", ".join('("%s", %s)' % (mth, "true" if is_mut(mth) else "false") for mth in calls)) for w, calls in a["sections"]))
                        for a in sc.arms) + "]")
    def wp(evs):
        return ", ".join("(%s, %s, %s)" % ("true" if e[0] == "acq" else "false",
                                          "true" if (e[0] == "acq" and e[2]) else "false", lean_class(e[1])) for e in evs)
    L += ["", "/-- the canonical event path of every node-level kind (`kind:<name>`) and every front-end program with the",
          "write flag of each critical section: (is acquire, the section writes the protected data, class).  A section",
          "writes iff its guard is bound `let mut` / borrowed `&mut` (Rust needs that to mutate through the guard), a",
          "temporary guard is assigned through or has a mutating method called on it, or - for the slot section of a",
          "`with_channel` call with a closure literal - the closure calls a `&mut self` method of channel.rs -/",
          "def progs : List (String × List (Bool × Bool × Cls)) := ["]
    L.append(",\n".join(['  ("kind:%s", [%s])' % (k, wp(table[k]["wpath"])) for k in kinds] +
                        ['  ("%s", [%s])' % (a["name"], wp(a["wpath"])) for a in sc.arms]) + "]")
    L += ["", "/-- functions that contain a lock acquisition and are reached by NO entry point or arm (constructors,",
          "restore code, test-only accessors; any other such function makes the extraction fail) -/",
          "def unreachedSites : List String := [%s]" % ", ".join('"%s"' % k for k in sc.unreached),
          "", "/-- (functions containing lock acquisitions, lock acquisition expressions in them, of which in reached functions) -/",
          "def siteCount : Nat × Nat × Nat := (%d, %d, %d)" % (len(sc.sites), sum(s[1] for s in sc.sites), sum(s[1] for s in sc.sites if s[2]))]
    L += ["", "/-- calls in scanned bodies that the name-based call resolution does NOT follow although a function of the",
          "same name in the scanned files takes a lock (`file: receiver.name`); each is reviewed in UNRESOLVED_OK of",
          "x_locks.py (trait objects of the approver delegate chain, constructors/restore code, same-name methods of the",
          "guarded data); any other such call makes the extraction fail -/",
          "def unresolvedCalls : List String := [%s]" % ", ".join('"%s"' % k for k in sc.unresolved_locking)]
    L += ["", "/-- files of vls-core/src and vls-protocol-signer/src that are not scanned although they contain lock",
          "expressions (file, number of expressions), each reviewed in UNSCANNED_LOCK_FILES of x_locks.py; any other such",
          "file, or a changed count, makes the extraction fail -/",
          "def unscannedLockFiles : List (String × Nat) := [%s]" % ", ".join('("%s", %d)' % kv for kv in sc.unscanned_files)]
    docs = documented_orders(repo)
    L += ["", "/-- the lock orders that comments of the sources document (`lock order: a -> b -> c`, `a before b`,",
          "monitor.rs `Lock order: after self.state`): (file:line, chain of classes) -/",
          "def documentedOrders : List (String × List Cls) := [" +
          ", ".join('("%s", [%s])' % (w, ", ".join(lean_class(c) for c in ch)) for w, ch in docs) + "]"]
    L += ["", "end VlsModel.Gen.LockTable", ""]
    facts = {k: {"edges": ["%s->%s" % e for e in table[k]["edges"]],
                 "path": " ".join(("+" if a == "acq" else "-") + c for a, c in table[k]["path"])} for k in kinds}
    facts["_ledger_sections"] = {n: " ".join(("+ns" if a == "acq" else "-ns" if a == "rel" else b) for a, b in ev) for n, ev in lp.items()}
    facts["_velocity_time"] = {n: {"insert_under_lock": v[0], "clock_read_under_lock": v[1], "arg_is_that_read": v[2]} for n, v in vt.items()}
    # pairs of request kinds that touch a common lock class (= can contend / share state): the harness
    # enumerates every single-preemption schedule of each pair it has a representative request for
    conflict_classes = ("tracker", "channels", "slot", "monitor", "node_state")
    touched = {k: {c for _, c in table[k]["path"]} | {c for e in table[k]["edges"] for c in e} for k in kinds}
    gen_pairs = [(a, b) for i, a in enumerate(kinds) for b in kinds[i:]
                 if any(c in touched[a] and c in touched[b] for c in conflict_classes)]
    rs = ("// GENERATED by translate/x_locks.py from the lock table of the current sources of /repo. Do not edit.\n"
          "// Pairs of request kinds whose programs touch a common lock class (tracker, channels, slot, monitor,\n"
          "// node_state): candidates for the single-preemption enumeration of harness-c20.\n"
          "pub const GEN_PAIRS: &[(&str, &str)] = &[\n" +
          "".join('    ("%s", "%s"),\n' % p for p in gen_pairs) + "];\n")
    import os
    gp = os.path.join(os.path.dirname(os.path.abspath(__file__)), "..", "harness-c20", "src", "gen_pairs.rs")
    try:
        old = open(gp).read()
    except OSError:
        old = None
    if old != rs:
        with open(gp, "w") as fh:
            fh.write(rs)
    facts["_generated_pairs"] = len(gen_pairs)
    facts["_front_end_programs"] = {a["name"]: {"edges": ["%s->%s" % e for e in a["edges"]],
                                                "slot_sections": [[w] + calls for w, calls in a["sections"]]}
                                    for a in sc.arms if a["edges"] or a["path"]}
    facts["_front_end_programs_without_locks"] = [a["name"] for a in sc.arms if not a["path"]]
    facts["_site_census"] = {"functions_with_lock_acquisitions": len(sc.sites),
                             "lock_expressions": sum(s[1] for s in sc.sites),
                             "in_reached_functions": sum(s[1] for s in sc.sites if s[2]),
                             "unreached": {k: NON_REQUEST_SITES[k] for k in sc.unreached}}
    facts["_unscanned_files_with_locks"] = {k: UNSCANNED_LOCK_FILES[k][1] for k, _ in sc.unscanned_files}
    facts["_call_census"] = {k: UNRESOLVED_OK[k] for k in sc.unresolved_locking}
    facts["_documented_lock_orders"] = {w: " -> ".join(ch) for w, ch in docs}
    facts["_scanned_functions"] = sorted(sc.scanned)
    facts["_recursion_cuts"] = sorted(sc.recursion_cuts)
    return {"LockTable.lean": "\n".join(L)}, {"C20": {"facts": {"lock_table": facts}, "obligations": [
        "Gen.LockTable: the sub-table of C20_partial is rank-increasing (theorem C20_subtable_acyclic, decide +kernel)",
        "Gen.LockTable: the full table contains the cycles of finding F11 (theorem C20_full_false)",
        "Gen.LockTable: every ledger read-modify-write of a Channel method sits in one node_state section (theorem C20_ledger_sections_strict2pl)",
        "Gen.LockTable.arms: every Message arm of handler.rs / approver entry / Node API respects the lock rank except the block arms and Node::persist_all (theorems C20_handler_census, C20_handler_census_names)",
        "Gen.LockTable.unreachedSites: every function with a lock acquisition is reached by a request program or is a reviewed constructor (theorem C20_site_census)"]}}


if __name__ == "__main__":
    import sys, json
    sc, table = build(sys.argv[1] if len(sys.argv) > 1 else "/repo")
    for k, v in table.items():
        print(k)
        print("   edges:", " ".join("%s->%s" % e for e in v["edges"]))
        print("   path: ", " ".join(("+" if a == "acq" else "-") + c for a, c in v["path"]))
    print(len(sc.scanned), "functions scanned; recursion cuts:", sorted(sc.recursion_cuts))
    for a in sc.arms:
        print(a["name"])
        print("   edges:", " ".join("%s->%s" % e for e in a["edges"]))
        print("   path: ", " ".join(("+" if x == "acq" else "-") + c for x, c in a["path"]))
        if a["sections"]:
            print("   sections:", a["sections"])
    print("sites:", len(sc.sites), "unreached:", sc.unreached)
    def proj(evs):
        out, er = [], []
        for e in evs:
            if e[0] == "acq":
                if e[2]:
                    out.append("+" + e[1] + "!")
                else:
                    er.append(e[1])
            elif e[1] in er:
                er.remove(e[1])
            else:
                out.append("-" + e[1])
        return out
    for k, v in table.items():
        print("W kind:" + k, " ".join(proj(v["wpath"])))
    for a in sc.arms:
        if a["wpath"]:
            print("W " + a["name"], " ".join(proj(a["wpath"])))
