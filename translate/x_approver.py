"""C12: the approver-level velocity control `VelocityApprover` (vls-protocol-signer/src/approver.rs).

The bodies of `approve_invoice` and `approve_keysend` of `impl Approve for VelocityApprover` are matched, whitespace
normalised and comments stripped, against the exact form the model `VC.approve` mirrors:

    let mut control = self.control.lock().unwrap();
    let success = control.insert(self.clock.now().as_secs(), <amount>);
    if success { true } else {
        let success = self.delegate.approve_X(<args>);
        if success { control.clear(); }
        success
    }

with <amount> = `invoice.amount_milli_satoshis()` resp. `amount_msat`, and `approve_onchain` against a plain
delegation (on-chain fees are limited by the node's fee velocity control, not here).  Anything else raises.
"""
import re
from rustsrc import read, strip_comments, ExtractError

REL = "vls-protocol-signer/src/approver.rs"


def fn_body(src, name, start):
    m = re.search(r"\bfn\s+" + name + r"\s*\(", src[start:])
    if not m:
        raise ExtractError("VelocityApprover::" + name + " not found")
    i = src.find("{", start + m.end())
    # skip the parameter list / return type: the body is the first `{` after the closing `)` of the parameters
    p = src.find("(", start + m.start())
    d, j = 0, p
    while j < len(src):
        if src[j] == "(":
            d += 1
        elif src[j] == ")":
            d -= 1
            if d == 0:
                break
        j += 1
    i = src.find("{", j)
    d, e = 0, i
    while e < len(src):
        if src[e] == "{":
            d += 1
        elif src[e] == "}":
            d -= 1
            if d == 0:
                break
        e += 1
    return re.sub(r"\s+", "", src[i + 1:e])


def extract(repo):
    src = strip_comments(read(repo, REL))
    m = re.search(r"impl\s*<A:\s*Approve>\s*Approve\s+for\s+VelocityApprover<A>\s*\{", src)
    if not m:
        raise ExtractError("impl Approve for VelocityApprover not found")
    form = ("letmutcontrol=self.control.lock().unwrap();letsuccess=control.insert(self.clock.now().as_secs(),%s);"
            "ifsuccess{true}else{letsuccess=self.delegate.%s(%s);ifsuccess{control.clear();}success}")
    want = {
        "approve_invoice": form % ("invoice.amount_milli_satoshis()", "approve_invoice", "invoice"),
        "approve_keysend": form % ("amount_msat", "approve_keysend", "payment_hash,amount_msat"),
        "approve_onchain": "self.delegate.approve_onchain(tx,prev_outs,unknown_indices)",
    }
    for name, w in want.items():
        got = fn_body(src, name, m.end())
        if got != w:
            raise ExtractError(f"VelocityApprover::{name} no longer has the modelled form: {got[:200]}")
    lean = ["/- `VelocityApprover` (vls-protocol-signer/src/approver.rs): the bodies of approve_invoice / approve_keysend /",
            "   approve_onchain have, in the current source, exactly the forms that `Model/Velocity.VC.approve` mirrors",
            "   (translate/x_approver.py raises on any other text). -/",
            "namespace VlsModel.Gen.Approver", "",
            "/-- insert(now, amount) into the approver's control; approved if accepted; else the delegate decides and a manual",
            "    approval clears the control — for invoices (amount = `invoice.amount_milli_satoshis()`) and keysends (`amount_msat`) -/",
            "def velocityApproverForm : Bool := true", "",
            "/-- `approve_onchain` only asks the delegate -/",
            "def onchainDelegatesOnly : Bool := true", "",
            "end VlsModel.Gen.Approver"]
    return {"Approver.lean": "\n".join(lean) + "\n"}, {
        "C12": {"facts": {"velocity_approver_form": want},
                "obligations": ["Gen.Approver: VelocityApprover::approve_* have the modelled form (theorem C12_gen_approver_form; model VC.approve, theorems C12_approver, C12_approver_negative)"]}}


if __name__ == "__main__":
    print(extract("/repo")[0]["Approver.lean"])
