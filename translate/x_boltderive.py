"""C19: the code templates of `bolt-derive/src/lib.rs` read statement by statement.

`#[derive(SerBolt)]` generates, for every message struct, `SerBolt::as_vec`, `SerBolt::name`, `DeBolt::TYPE` and the typed
`DeBolt::from_vec`; `#[derive(ReadMessage)]` walks the variants of `enum Message` and generates the dispatch
`Message::read_message` (one arm per variant, in declaration order), `message_name` and `inner`.  These are `quote!`
templates inside procedural macros: outside the rs2lean subset (they are token streams, not functions).  Their *bodies*
are short straight-line Rust; this extractor parses every statement of the templates and every statement of the variant
walk (fail closed: an unknown statement, a second template, a changed interpolation raises ExtractError) and emits

  Gen/BoltDerive.lean   `asVecSteps`, `fromVecSteps` (step lists, `Wire.SStep` / `Wire.DStep`), the shape of the generated
                        dispatch (`ReadMessageWalk`) and of the variant walk

`Props/C19Fn.lean` proves that the hand-written model functions `Wire.asVec`, `Wire.fromVecTyped` and `Wire.dispatch`
are the interpretation of these generated descriptions (theorems `C19_gen_as_vec`, `C19_gen_from_vec_typed`,
`C19_gen_read_message`): a change of the macro changes the generated steps and reaches the proof.
"""
import re
from rustsrc import read, strip_comments, body_after, ExtractError
from x_wireframe import stmts, norm


def fn_body(tpl, name, what):
    hdr = r"\bfn\s+" + name + r"\s*(<[^{]*>)?\s*\([^)]*\)\s*->\s*[^{;]+\{"
    ms = list(re.finditer(hdr, tpl))
    if len(ms) != 1:
        raise ExtractError("bolt-derive: expected exactly one `fn %s` in the %s template, found %d" % (name, what, len(ms)))
    return stmts(body_after(tpl, hdr))


def extract(repo):
    src = strip_comments(read(repo, "bolt-derive/src/lib.rs"))

    # ---- #[derive(SerBolt)] ---------------------------------------------------------------------------------
    sb = body_after(src, r"\bpub\s+fn\s+derive_ser_bolt\s*\(input:\s*TokenStream\)\s*->\s*TokenStream\s*\{")
    if len(re.findall(r"\bquote!\s*\{", sb)) != 1:
        raise ExtractError("bolt-derive: derive_ser_bolt must contain exactly one quote! template")
    tpl = body_after(sb, r"\bquote!\s*\{")
    if not re.search(r"let\s+DeriveInput\s*\{\s*ident,\s*attrs,\s*\.\.\s*\}\s*=\s*parse_macro_input!\(input1\);", sb):
        raise ExtractError("bolt-derive: derive_ser_bolt no longer takes `ident` and `attrs` of the derive input")
    if not re.search(r"\.find\(\|a\|\s*a\.path\(\)\.is_ident\(\"message_id\"\)\)", sb) or \
            not re.search(r"let\s+lit:\s*LitInt\s*=\s*a\.parse_args\(\)", sb):
        raise ExtractError("bolt-derive: message_id is no longer the integer literal of the `message_id` attribute")
    impls = re.findall(r"\bimpl\s+(\w+)\s+for\s+#ident\s*\{", tpl)
    if impls != ["SerBolt", "DeBolt"]:
        raise ExtractError("bolt-derive: SerBolt template implements %r (expected SerBolt, DeBolt)" % impls)
    if not re.search(r"const\s+TYPE:\s*u16\s*=\s*#message_id;", tpl):
        raise ExtractError("bolt-derive: `const TYPE: u16 = #message_id;` not found")

    as_vec = fn_body(tpl, "as_vec", "SerBolt")
    S = []
    for s in as_vec:
        if s == "let message_type = Self::TYPE;": S.append("SStep.typeConst")
        elif s == "let mut buf = message_type.to_be_bytes().to_vec();": S.append("SStep.bufTypeBe 2")   # TYPE: u16
        elif s == 'let mut val_buf = to_vec(&self).expect("serialize");': S.append("SStep.valBufExpect")
        elif s == "buf.append(&mut val_buf);": S.append("SStep.appendVal")
        elif s == "buf": S.append("SStep.retBuf")
        else: raise ExtractError("bolt-derive: as_vec template: statement not understood: " + s)
    name = fn_body(tpl, "name", "SerBolt")
    if name != ["stringify!(#ident)"]:
        raise ExtractError("bolt-derive: name() is not stringify!(#ident)")

    from_vec = fn_body(tpl, "from_vec", "DeBolt")
    D = []
    for s in from_vec:
        if s == "let mut cursor = serde_bolt::io::Cursor::new(&ser);": D.append("DStep.cursorNew")
        elif s == "let message_type = cursor.read_u16_be()?;": D.append("DStep.readTypeBe 2")
        elif s == "if message_type != Self::TYPE { return Err(Error::UnexpectedType(message_type)); }": D.append("DStep.expectType")
        elif s == "let res = Decodable::consensus_decode(&mut cursor)?;": D.append("DStep.decodeBody")
        elif re.fullmatch(r"if cursor\.position\(\) as usize != ser\.len\(\) \{ return Err\(Error::TrailingBytes\((.*), Self::TYPE\)\); \}", s):
            arg = re.fullmatch(r"if cursor\.position\(\) as usize != ser\.len\(\) \{ return Err\(Error::TrailingBytes\((.*), Self::TYPE\)\); \}", s).group(1)
            if arg == "cursor.position() as usize - ser.len()":
                D.append("DStep.expectEnd true")      # position < len here: the subtraction underflows (observation O1)
            elif arg == "ser.len() - cursor.position() as usize":
                D.append("DStep.expectEnd false")
            else:
                raise ExtractError("bolt-derive: from_vec template: TrailingBytes count not understood: " + arg)
        elif s == "Ok(res)": D.append("DStep.retOk")
        else: raise ExtractError("bolt-derive: from_vec template: statement not understood: " + s)

    # ---- #[derive(ReadMessage)] ------------------------------------------------------------------------------
    rb = body_after(src, r"\bpub\s+fn\s+derive_read_message\s*\(input:\s*TokenStream\)\s*->\s*TokenStream\s*\{")
    if len(re.findall(r"\bquote!\s*\{", rb)) != 1:
        raise ExtractError("bolt-derive: derive_read_message must contain exactly one quote! template")
    # the variant walk: `for v in variants { if v.ident == "Unknown" { continue; } … vs.push(vident); ts.push(f); … }`
    walk = body_after(rb, r"\bfor\s+v\s+in\s+variants\s*\{")
    w = stmts(walk)
    want_walk = ['if v.ident == "Unknown" { continue; }', "let vident = v.ident.clone();",
                 "let field = extract_single_type(&vident, &v.fields);"]
    if w[:3] != want_walk or len(w) != 4 or not w[3].startswith("match field {"):
        raise ExtractError("bolt-derive: the variant walk of derive_read_message changed: %r" % (w,))
    ok_arm = re.search(r"Ok\(f\)\s*=>\s*\{\s*vs\.push\(vident\);\s*ts\.push\(f\);\s*\}", w[3])
    err_arm = re.search(r"Err\(e\)\s*=>\s*match error\.as_mut\(\)", w[3])
    if not ok_arm or not err_arm:
        raise ExtractError("bolt-derive: the variant walk no longer pushes (variant, single field type) pairs in order")
    if re.search(r"\b(vs|ts)\.(sort|reverse|dedup|retain|insert|remove|swap)", rb):
        raise ExtractError("bolt-derive: derive_read_message reorders or filters the collected variants")
    est = stmts(body_after(src, r"\bfn\s+extract_single_type\s*\(vident:\s*&Ident,\s*fields:\s*&Fields\)\s*->\s*Result<TokenStream2,\s*Error>\s*\{"))
    single = (len(est) == 4 and est[0] == "let mut fields = fields.iter();"
              and est[1].startswith("let field = fields.next().ok_or_else(")
              and est[2].startswith("if fields.next().is_some() { return Err(")
              and est[3] == "Ok(field.ty.clone().into_token_stream())")
    if not single:
        raise ExtractError("bolt-derive: extract_single_type no longer demands exactly one field per variant: %r" % (est,))
    rtpl = body_after(rb, r"\bquote!\s*\{")
    rm = fn_body(rtpl, "read_message", "ReadMessage")
    if len(rm) != 2 or rm[1] != "Ok(message)":
        raise ExtractError("bolt-derive: read_message template changed: %r" % (rm,))
    m = re.fullmatch(r"let message = match message_type \{ #\(#vs::TYPE => Message::#ts\(Decodable::consensus_decode\(reader\)\?\)\),\*, "
                     r"_ => Message::Unknown\(Unknown \{ message_type \}\), \};", rm[0])
    if not m:
        raise ExtractError("bolt-derive: read_message is not the first-match dispatch on `#vs::TYPE` with `Unknown` as default: " + rm[0])
    mn = fn_body(rtpl, "message_name", "ReadMessage")
    if mn != ['match message_type { #(#vs::TYPE => stringify!(#vs)),*, _ => "Unknown", }']:
        raise ExtractError("bolt-derive: message_name template changed: %r" % (mn,))

    lean = ("import VlsModel.Model.Wire\nnamespace VlsModel.Gen.BoltDerive\nopen VlsModel.Wire\n\n"
            "/-- the statements of `SerBolt::as_vec` in the `quote!` template of `#[derive(SerBolt)]` (bolt-derive/src/lib.rs) -/\n"
            "def asVecSteps : List SStep := [%s]\n"
            "/-- the statements of the typed `DeBolt::from_vec` of the same template (`expectEnd true`: the `TrailingBytes` count\n"
            "    is `position - len`, which underflows) -/\n"
            "def fromVecSteps : List DStep := [%s]\n\n"
            "/-- `#[derive(ReadMessage)]`: which variants of `enum Message` get an arm of `read_message`, in which order, which\n"
            "    constant selects an arm and what an unmatched type becomes -/\n"
            "def readMessageWalk : ReadMessageWalk :=\n"
            "  { skipsVariantNamedUnknown := true, armsInDeclarationOrder := true, armKeyIsTypeConst := true,\n"
            "    oneFieldPerVariant := true, armDecodesBody := true, defaultIsUnknown := true }\n"
            "end VlsModel.Gen.BoltDerive\n" % (", ".join(S), ", ".join(D)))
    info = {"C19": {"facts": {"bolt_derive": {"as_vec": S, "from_vec": D, "read_message": "first match on #vs::TYPE in declaration order, default Unknown"}},
                    "obligations": [
                        "Gen.BoltDerive: Wire.asVec / Wire.fromVecTyped interpret the statement lists of the #[derive(SerBolt)] template (theorems C19_gen_as_vec, C19_gen_from_vec_typed)",
                        "Gen.BoltDerive: Wire.dispatch is the first-match dispatch the #[derive(ReadMessage)] walk generates (theorem C19_gen_read_message)"]}}
    return {"BoltDerive.lean": lean}, info
