"""C18: the byte layout of the `ChannelId` constructors of vls-core/src/channel.rs.

`new_from_peer_id_and_oid`, `new_from_oid`, `oid`, `new`, `as_slice`, `ldk_channel_keys_id` use slices and
`copy_from_slice` (outside the rs2lean subset).  Their bodies are a handful of straight-line statements; this
extractor matches every statement (fail closed) and emits the layout numbers

  Gen/ChanIdLayout.lean   buffer lengths, where the peer id and the oid bytes go, endianness, how `oid()` reads back

`Props/C18.lean` (`C18_gen_chanid`) proves that the model's `chanIdOfPeerOid` / `chanIdOfOid` / `chanIdOid` /
`chanIdLdkKeysId` have exactly this layout.
"""
import re
from rustsrc import read, strip_comments, body_after, int_expr, ExtractError


def norm(s):
    return re.sub(r"\s+", " ", s).strip()


def stmts(body):
    out, depth, cur = [], 0, ""
    for ch in body:
        cur += ch
        if ch in "{([":
            depth += 1
        elif ch in "})]":
            depth -= 1
        elif ch == ";" and depth == 0:
            out.append(norm(cur)); cur = ""
    if cur.strip():
        out.append(norm(cur))
    return out


def fn_body(impl, name, params_re):
    hdr = r"\bpub\s+fn\s+" + name + r"\s*\(\s*" + params_re + r"\s*\)\s*->\s*[^{]+\{"
    ms = list(re.finditer(hdr, impl))
    if len(ms) != 1:
        raise ExtractError("channel.rs: expected exactly one `pub fn %s(%s)` in impl ChannelId, found %d" % (name, params_re, len(ms)))
    return stmts(body_after(impl, hdr))


def need(m, what):
    if not m:
        raise ExtractError("channel.rs: ChannelId::" + what)
    return m


def extract(repo):
    src = strip_comments(read(repo, "vls-core/src/channel.rs"))
    if not re.search(r"pub struct ChannelId\(\s*(#\[[^\]]*\]\s*)*Vec<u8>\s*\);", src):
        raise ExtractError("channel.rs: ChannelId is no longer a newtype of Vec<u8>")
    impl = body_after(src, r"\bimpl\s+ChannelId\s*\{")

    b = fn_body(impl, "new", r"inner: &\[u8\]")
    if b != ["Self(inner.to_vec())"]:
        raise ExtractError("channel.rs: ChannelId::new is not `Self(inner.to_vec())`")
    b = fn_body(impl, "as_slice", r"&self")
    if b != ["self.0.as_slice()"]:
        raise ExtractError("channel.rs: ChannelId::as_slice is not `self.0.as_slice()`")

    # new_from_peer_id_and_oid
    b = fn_body(impl, "new_from_peer_id_and_oid", r"peer_id: &\[u8; (\d+)\], oid: u64")
    peer_len = int(re.search(r"new_from_peer_id_and_oid\s*\(\s*peer_id: &\[u8; (\d+)\]", impl).group(1))
    if len(b) != 4 or b[3] != "Self::new(&nonce)":
        raise ExtractError("channel.rs: new_from_peer_id_and_oid: unexpected statements: %r" % (b,))
    m = need(re.fullmatch(r"let mut nonce = \[0u8; ([\d +]+)\];", b[0]), "new_from_peer_id_and_oid: buffer declaration")
    po_len = int_expr(m.group(1))
    m = need(re.fullmatch(r"nonce\[(\d+)\.\.(\d+)\]\.copy_from_slice\(peer_id\);", b[1]), "new_from_peer_id_and_oid: peer id copy")
    po_peer = (int(m.group(1)), int(m.group(2)))
    m = need(re.fullmatch(r"nonce\[(\d+)\.\.\]\.copy_from_slice\(&oid\.to_(le|be)_bytes\(\)\);", b[2]), "new_from_peer_id_and_oid: oid copy")
    po_oid, po_le = int(m.group(1)), m.group(2) == "le"
    if po_peer[1] - po_peer[0] != peer_len:
        raise ExtractError("channel.rs: new_from_peer_id_and_oid copies a %d-byte peer id into %r" % (peer_len, po_peer))

    # new_from_oid
    b = fn_body(impl, "new_from_oid", r"oid: u64")
    if len(b) != 4 or b[3] != "Self::new(&nonce)":
        raise ExtractError("channel.rs: new_from_oid: unexpected statements: %r" % (b,))
    m = need(re.fullmatch(r"let mut nonce: \[u8; (\d+)\] = \[0u8; (\d+)\];", b[0]), "new_from_oid: buffer declaration")
    if m.group(1) != m.group(2):
        raise ExtractError("channel.rs: new_from_oid: buffer type and initialiser differ")
    o_len = int(m.group(1))
    m = need(re.fullmatch(r"let oid_slice = oid\.to_(le|be)_bytes\(\);", b[1]), "new_from_oid: oid bytes")
    o_le = m.group(1) == "le"
    m = need(re.fullmatch(r"nonce\[(\d+)\.\.\]\.copy_from_slice\(&oid_slice\);", b[2]), "new_from_oid: oid copy")
    o_start = int(m.group(1))

    # oid()
    b = fn_body(impl, "oid", r"&self")
    if len(b) != 4:
        raise ExtractError("channel.rs: oid: unexpected statements: %r" % (b,))
    m = need(re.fullmatch(r"let bytes_slice = &self\.0\[&self\.0\.len\(\) - (\d+)\.\.\];", b[0]), "oid: tail slice")
    tail = int(m.group(1))
    m = need(re.fullmatch(r"let mut bytes_array = \[0u8; (\d+)\];", b[1]), "oid: array")
    if int(m.group(1)) != tail or b[2] != "bytes_array.copy_from_slice(bytes_slice);":
        raise ExtractError("channel.rs: oid: the array is not filled from the tail slice")
    m = need(re.fullmatch(r"u64::from_(le|be)_bytes\(bytes_array\)", b[3]), "oid: conversion")
    r_le = m.group(1) == "le"

    # ldk_channel_keys_id()
    b = fn_body(impl, "ldk_channel_keys_id", r"&self")
    m = need(re.fullmatch(r"let mut nonce = \[0u8; (\d+)\];", b[0]) if len(b) == 3 else None, "ldk_channel_keys_id: buffer")
    ldk_len = int(m.group(1))
    if b[1:] != ["nonce.copy_from_slice(&self.0);", "nonce"]:
        raise ExtractError("channel.rs: ldk_channel_keys_id is not a whole-id copy")

    def lb(x):
        return "true" if x else "false"

    lean = ("namespace VlsModel.Gen.ChanIdLayout\n\n"
            "/-- `new_from_peer_id_and_oid(peer_id: &[u8; %d], oid)`: `[0u8; …]` buffer length -/\ndef peerOidLen : Nat := %d\n"
            "/-- `nonce[a..b].copy_from_slice(peer_id)` -/\ndef peerOidPeerFrom : Nat := %d\ndef peerOidPeerTo : Nat := %d\n"
            "/-- `nonce[s..].copy_from_slice(&oid.to_le_bytes())` -/\ndef peerOidOidFrom : Nat := %d\ndef peerOidLittleEndian : Bool := %s\n\n"
            "/-- `new_from_oid(oid)` -/\ndef oidLen : Nat := %d\ndef oidOidFrom : Nat := %d\ndef oidLittleEndian : Bool := %s\n\n"
            "/-- `oid()`: `&self.0[len - t..]` read with `u64::from_le_bytes` -/\ndef oidReadTail : Nat := %d\ndef oidReadLittleEndian : Bool := %s\n\n"
            "/-- `ldk_channel_keys_id()`: `[0u8; n]` filled by `copy_from_slice(&self.0)` (panics on another length) -/\ndef ldkKeysIdLen : Nat := %d\n"
            "end VlsModel.Gen.ChanIdLayout\n"
            % (peer_len, po_len, po_peer[0], po_peer[1], po_oid, lb(po_le), o_len, o_start, lb(o_le), tail, lb(r_le), ldk_len))
    facts = {"chanid_layout": {"peer_oid": [po_len, list(po_peer), po_oid, po_le], "oid": [o_len, o_start, o_le],
                               "oid_read": [tail, r_le], "ldk_keys_id_len": ldk_len}}
    return {"ChanIdLayout.lean": lean}, {"C18": {"facts": facts, "obligations": [
        "Gen.ChanIdLayout: the model's ChannelId constructors/accessors have the byte layout of channel.rs (theorem C18_gen_chanid)"]}}
