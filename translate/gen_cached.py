#!/usr/bin/env python3
"""translate/gen_cached.py --repo R --out O   (same interface and output as gen.py)

gen.py is deterministic: its output (the files under O and the JSON summary on its last line) is a function of
the repository's source files, of the translator's own files and of nothing else.  This wrapper keys exactly those
inputs AND the current contents of O by SHA-256 and re-runs gen.py unless a stamp written by a previous successful
run of gen.py on byte-identical inputs, which left byte-identical outputs, is present.  Any change to a source file
of the repository (working tree, not the index: scratch worktrees with an applied patch hash differently), to the
translator, or to a generated file invalidates the stamp, so the generated Lean files the theorems import are
always what gen.py produces from what the code says now.  VERIF_NO_GEN_CACHE=1 forces a run.
The stamp lives under lean/.lake (build output, never committed)."""
import sys, os, json, hashlib, subprocess

HERE = os.path.dirname(os.path.abspath(__file__))


def arg(name):
    return sys.argv[sys.argv.index(name) + 1]


def digest(repo, out):
    h = hashlib.sha256()

    def add(path, label):
        try:
            data = open(path, "rb").read()
        except OSError:
            data = b"<unreadable>"
        h.update(label.encode() + b"\0" + str(len(data)).encode() + b"\0")
        h.update(data)

    # repository sources (working tree)
    for root, dirs, files in os.walk(repo):
        dirs[:] = sorted(d for d in dirs if d not in (".git", "target", "node_modules"))
        for f in sorted(files):
            if f.endswith((".rs", ".toml", ".proto", ".json")) or f == "Cargo.lock":
                p = os.path.join(root, f)
                add(p, "repo:" + os.path.relpath(p, repo))
    # the translator itself
    for root, dirs, files in os.walk(HERE):
        dirs[:] = sorted(d for d in dirs if d != "__pycache__")
        for f in sorted(files):
            if f.endswith((".py", ".json", ".txt", ".md")):
                p = os.path.join(root, f)
                add(p, "translate:" + os.path.relpath(p, HERE))
    # what is in the output directory now
    for f in sorted(os.listdir(out)) if os.path.isdir(out) else []:
        add(os.path.join(out, f), "out:" + f)
    h.update(("python:" + sys.version).encode())
    return h.hexdigest()


def main():
    repo, out = os.path.abspath(arg("--repo")), os.path.abspath(arg("--out"))
    stamp_dir = os.path.join(os.path.dirname(HERE), "lean", ".lake")
    stamp = os.path.join(stamp_dir, "gen_stamp_%s.json" % hashlib.sha256((repo + "|" + out).encode()).hexdigest()[:16])
    if os.environ.get("VERIF_NO_GEN_CACHE") != "1" and os.path.exists(stamp):
        try:
            st = json.load(open(stamp))
            if st.get("key") == digest(repo, out):
                sys.stdout.write(st["stdout"])
                return 0
        except (OSError, ValueError, KeyError):
            pass
    p = subprocess.run([sys.executable, os.path.join(HERE, "gen.py")] + sys.argv[1:], stdout=subprocess.PIPE, text=True)
    sys.stdout.write(p.stdout)
    if p.returncode == 0:
        try:
            os.makedirs(stamp_dir, exist_ok=True)
            json.dump({"key": digest(repo, out), "stdout": p.stdout}, open(stamp + ".tmp", "w"))
            os.replace(stamp + ".tmp", stamp)
        except OSError:
            pass
    else:
        try:
            os.remove(stamp)
        except OSError:
            pass
    return p.returncode


if __name__ == "__main__":
    sys.exit(main())
