"""Small helpers for reading Rust source text (comments stripped, balanced-brace bodies)."""
import re


class ExtractError(Exception):
    pass


def read(repo, rel):
    with open(repo.rstrip("/") + "/" + rel) as fh:
        return fh.read()


def strip_comments(src):
    out, i, n = [], 0, len(src)
    while i < n:
        if src.startswith("//", i):
            while i < n and src[i] != "\n":
                i += 1
        elif src.startswith("/*", i):
            j = src.find("*/", i + 2)
            i = n if j < 0 else j + 2
        elif src[i] == '"':
            j = i + 1
            while j < n and src[j] != '"':
                j += 2 if src[j] == "\\" else 1
            out.append(src[i:j + 1]); i = j + 1
        else:
            out.append(src[i]); i += 1
    return "".join(out)


def body_after(src, header_regex):
    """text of the balanced {...} block following the first match of header_regex"""
    m = re.search(header_regex, src)
    if not m:
        raise ExtractError("pattern not found: " + header_regex)
    i = src.find("{", m.end() - 1 if src[m.end() - 1] == "{" else m.end())
    if i < 0:
        raise ExtractError("no body after: " + header_regex)
    depth, j = 0, i
    while j < len(src):
        if src[j] == "{":
            depth += 1
        elif src[j] == "}":
            depth -= 1
            if depth == 0:
                return src[i + 1:j]
        j += 1
    raise ExtractError("unbalanced braces after: " + header_regex)


def const_value(src, name):
    m = re.search(r"\bconst\s+" + re.escape(name) + r"\s*:\s*[\w:]+\s*=\s*([^;]+);", src)
    if not m:
        raise ExtractError("const not found: " + name)
    return m.group(1).strip()


def int_expr(s):
    """evaluate a simple Rust integer constant expression (literals with _, suffixes, + - * /)"""
    t = re.sub(r"_", "", s)
    t = re.sub(r"(\d)(u8|u16|u32|u64|usize|i32|i64)\b", r"\1", t)
    if not re.fullmatch(r"[\d\s+\-*/()x a-fA-F]+", t):
        raise ExtractError("not a simple integer expression: " + s)
    return int(eval(t.replace("/", "//"), {"__builtins__": {}}))
