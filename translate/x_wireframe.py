"""C19: the hand-written framing code of vls-protocol/src/msgs.rs read statement by statement.

`write_serial_request_header`, `read_serial_request_header`, `write_serial_response_header`,
`read_serial_response_header`, `write_vec`, `write`, `read`, `read_message`, `read_raw`, `from_vec`, `from_reader` are
not derive-generated and not inside the rs2lean subset (generic readers/writers).  Their bodies are short straight-line
sequences of reads/writes; this extractor parses every statement of them (fail closed: a statement it does not know
raises ExtractError) and emits

  Gen/WireFrame.lean   the serial headers as step lists (`Wire.HStep`), the widths of the frame length and of the type
                       prefix, and the order facts of the readers (length check first, trailing bytes refused, …)

`Props/C19.lean` proves that the hand-written model functions (`writeSerialRequest`, `readSerialRequest`, …,
`writeVec`) are the interpretation of these generated step lists (theorems `C19_gen_serial_*`, `C19_gen_frame`).
"""
import re
from rustsrc import read, strip_comments, body_after, ExtractError

W = {"u8": 1, "u16": 2, "u32": 4, "u64": 8}


def norm(s):
    return re.sub(r"\s+", " ", s).strip()


def stmts(body):
    """top-level statements of a block (split at `;` of depth 0 and after an `if … { … }` statement)"""
    out, depth, cur = [], 0, ""
    for ch in body:
        cur += ch
        if ch in "{([":
            depth += 1
        elif ch in "})]":
            depth -= 1
            if depth == 0 and ch == "}" and re.match(r"\s*if\b", cur):
                out.append(norm(cur)); cur = ""
        elif ch == ";" and depth == 0:
            out.append(norm(cur)); cur = ""
    if cur.strip():
        out.append(norm(cur))
    return out


def fn_parts(src, name):
    """(parameter list text, body) of `pub fn name` / `fn name`"""
    hdr = r"\bpub\s+fn\s+" + name + r"\s*(<[^>]*>)?\s*\(([^)]*)\)\s*->\s*[^{;]+\{"
    ms = list(re.finditer(hdr, src))
    if len(ms) != 1:
        raise ExtractError("msgs.rs: expected exactly one `pub fn %s`, found %d" % (name, len(ms)))
    params = [norm(p) for p in ms[0].group(2).split(",") if p.strip()]
    return params, body_after(src, hdr)


def lit(s):
    m = re.fullmatch(r"(0x[0-9a-fA-F_]+|\d[\d_]*)(u8|u16|u32|u64)?", s)
    if not m:
        raise ExtractError("msgs.rs: not an integer literal: " + s)
    return int(m.group(1).replace("_", ""), 0), m.group(2)


BAD_FRAMING = r"\{ error!\([^;]*\); return Err\(Error::BadFraming\); \}"


def parse_writer(name, src, fields):
    """-> list of steps ('magic', v) | ('be', width, field) | ('raw', len, field)"""
    params, body = fn_parts(src, name)
    if not params or not re.fullmatch(r"writer: &mut W", params[0]):
        raise ExtractError("msgs.rs: %s: first parameter is not `writer: &mut W`" % name)
    ptypes = {}
    for p in params[1:]:
        m = re.fullmatch(r"(\w+): (&?\w+)", p)
        if not m:
            raise ExtractError("msgs.rs: %s: parameter %r not understood" % (name, p))
        ptypes[m.group(1)] = m.group(2)
    ss = stmts(body)
    if not ss or ss[-1] != "Ok(())":
        raise ExtractError("msgs.rs: %s does not end with Ok(())" % name)
    steps = []
    for s in ss[:-1]:
        m = re.fullmatch(r"writer\.write_all\(&(\w+)\.to_be_bytes\(\)\)\?;", s)
        if m and re.match(r"0x|\d", m.group(1)):
            v, suf = lit(m.group(1))
            if suf != "u16":
                raise ExtractError("msgs.rs: %s: magic is not a u16 literal: %s" % (name, s))
            steps.append(("magic", v)); continue
        if m and ptypes.get(m.group(1)) in W:
            steps.append(("be", W[ptypes[m.group(1)]], m.group(1))); continue
        m = re.fullmatch(r"writer\.write_all\(&(\w+)\.(\w+)\.to_be_bytes\(\)\)\?;", s)
        if m and ptypes.get(m.group(1)) == "&SerialRequestHeader" and fields.get(m.group(2)) in W:
            steps.append(("be", W[fields[m.group(2)]], m.group(2))); continue
        m = re.fullmatch(r"writer\.write_all\(&(\w+)\.(\w+)\)\?;", s)
        if m and ptypes.get(m.group(1)) == "&SerialRequestHeader" and isinstance(fields.get(m.group(2)), int):
            steps.append(("raw", fields[m.group(2)], m.group(2))); continue
        raise ExtractError("msgs.rs: %s: statement not understood: %s" % (name, s))
    return steps


def parse_reader(name, src, result):
    """-> list of steps ('magic', v) | ('be', width, var) | ('raw', len, var) | ('expect', width, param);
    `result` = None (returns Ok(())) or the struct name whose literal is returned"""
    params, body = fn_parts(src, name)
    if not params or not re.fullmatch(r"reader: &mut R", params[0]):
        raise ExtractError("msgs.rs: %s: first parameter is not `reader: &mut R`" % name)
    ptypes = {}
    for p in params[1:]:
        m = re.fullmatch(r"(\w+): (\w+)", p)
        if not m:
            raise ExtractError("msgs.rs: %s: parameter %r not understood" % (name, p))
        ptypes[m.group(1)] = m.group(2)
    ss = stmts(body)
    steps, arrays = [], {}
    for s in ss[:-1]:
        m = re.fullmatch(r"let (\w+) = reader\.read_(u8|u16|u32|u64)_be\(\)\?;", s)
        if m:
            steps.append(["be", W[m.group(2)], m.group(1)]); continue
        m = re.fullmatch(r"let mut (\w+) = \[0u8; (\d+)\];", s)
        if m:
            arrays[m.group(1)] = int(m.group(2)); continue
        m = re.fullmatch(r"reader\.read_exact\(&mut (\w+)\)\?;", s)
        if m and m.group(1) in arrays:
            steps.append(["raw", arrays.pop(m.group(1)), m.group(1)]); continue
        m = re.fullmatch(r"if (\w+) != (\w+) " + BAD_FRAMING, s)
        if m and steps and steps[-1][0] == "be" and steps[-1][2] == m.group(1):
            if re.match(r"0x|\d", m.group(2)):
                v, suf = lit(m.group(2))
                if steps[-1][1] != 2 or suf not in (None, "u16"):
                    raise ExtractError("msgs.rs: %s: magic is not 16 bit: %s" % (name, s))
                steps[-1] = ["magic", v]; continue
            if ptypes.get(m.group(2)) in W and W[ptypes[m.group(2)]] == steps[-1][1]:
                steps[-1] = ["expect", steps[-1][1], m.group(2)]; continue
        raise ExtractError("msgs.rs: %s: statement not understood: %s" % (name, s))
    if arrays:
        raise ExtractError("msgs.rs: %s: buffer declared but not read: %s" % (name, sorted(arrays)))
    tail = ss[-1] if ss else ""
    if result is None:
        if tail != "Ok(())":
            raise ExtractError("msgs.rs: %s does not end with Ok(())" % name)
        if any(st[0] in ("be", "raw") for st in steps):
            raise ExtractError("msgs.rs: %s reads a value it does not return or compare" % name)
    else:
        m = re.fullmatch(r"Ok\(" + result + r" \{ ([\w, ]+) \}\)", tail)
        if not m:
            raise ExtractError("msgs.rs: %s does not end with Ok(%s { .. })" % (name, result))
        got = [x.strip() for x in m.group(1).split(",") if x.strip()]
        want = [st[2] for st in steps if st[0] in ("be", "raw")]
        if got != want:
            raise ExtractError("msgs.rs: %s: fields of the result %r are not the values read, in order %r" % (name, got, want))
    return [tuple(st) for st in steps]


def lean_steps(steps):
    def one(st):
        if st[0] == "magic": return ".magic %d" % st[1]
        if st[0] == "be": return ".be %d" % st[1]
        if st[0] == "raw": return ".raw %d" % st[1]
        if st[0] == "expect": return ".expect %d" % st[1]
        raise ExtractError("step " + repr(st))
    return "[" + ", ".join(one(s) for s in steps) + "]"


def extract(repo):
    src = strip_comments(read(repo, "vls-protocol/src/msgs.rs"))
    # struct SerialRequestHeader: field -> integer type name | array length
    sb = body_after(src, r"\bpub\s+struct\s+SerialRequestHeader\s*\{")
    fields, order = {}, []
    for f in [norm(x) for x in sb.split(",") if x.strip()]:
        m = re.fullmatch(r"pub (\w+): (u8|u16|u32|u64)", f)
        if m:
            fields[m.group(1)] = m.group(2); order.append(m.group(1)); continue
        m = re.fullmatch(r"pub (\w+): \[u8; (\d+)\]", f)
        if m:
            fields[m.group(1)] = int(m.group(2)); order.append(m.group(1)); continue
        raise ExtractError("msgs.rs: SerialRequestHeader field not understood: " + f)

    req_w = parse_writer("write_serial_request_header", src, fields)
    req_r = parse_reader("read_serial_request_header", src, "SerialRequestHeader")
    rsp_w = parse_writer("write_serial_response_header", src, fields)
    rsp_r = parse_reader("read_serial_response_header", src, None)
    wnames = [s[2] for s in req_w if s[0] != "magic"]
    if wnames != order or [s[2] for s in req_r if s[0] != "magic"] != order:
        raise ExtractError("msgs.rs: serial request header: write order %r / read order / struct order %r differ" % (wnames, order))

    # ---- length-framed stream ------------------------------------------------------------------------------
    _, wv = fn_parts(src, "write_vec")
    if stmts(wv) != ["let len: u32 = buf.len() as u32;", "writer.write_all(&len.to_be_bytes())?;",
                     "writer.write_all(&buf)?;", "Ok(())"]:
        raise ExtractError("msgs.rs: write_vec is not `u32 length (buf.len() as u32), big endian, then the bytes`")
    _, wr = fn_parts(src, "write")
    if stmts(wr) != ["let message_type = T::TYPE;", "let mut buf = message_type.to_be_bytes().to_vec();",
                     "let mut val_buf = to_vec(&value)?;", "buf.append(&mut val_buf);", "write_vec(writer, buf)"]:
        raise ExtractError("msgs.rs: write is not `T::TYPE big endian ++ to_vec(value)` handed to write_vec")
    if not re.search(r"pub trait DeBolt[^{]*\{\s*const TYPE: u16;", src):
        raise ExtractError("msgs.rs: DeBolt::TYPE is not a u16")
    facts = {}
    _, rd = fn_parts(src, "read")
    facts["readIsLenThenFromReader"] = stmts(rd) == ["let len = reader.read_u32_be()?;", "from_reader(reader, len)"]
    _, fr = fn_parts(src, "from_reader")
    fr = stmts(fr)
    facts["fromReaderChecksLengthFirst"] = bool(fr) and fr[0] == "check_message_length(len)?;"
    facts["fromReaderWindowIsLen"] = "let mut take = Take::new(Box::new(reader), len as u64);" in fr
    facts["fromReaderTypeIsU16"] = "let message_type = take.read_u16_be()?;" in fr
    facts["fromReaderRefusesTrailing"] = any(
        re.fullmatch(r"if !take\.is_empty\(\) \{ return Err\(Error::TrailingBytes\(take\.remaining\(\) as usize, message_type\)\); \}", s)
        for s in fr) and fr[-1] == "Ok(message)"
    _, fv = fn_parts(src, "from_vec")
    facts["fromVecPassesItsLength"] = stmts(fv) == ["let len = v.len();", "let mut cursor = io::Cursor::new(&mut v);",
                                                    "from_reader(&mut cursor, len as u32)"]
    _, rm = fn_parts(src, "read_message")
    rm = stmts(rm)
    facts["readMessageChecksLengthFirst"] = rm[:2] == ["let len = reader.read_u32_be()?;", "check_message_length(len)?;"]
    facts["readMessageChecksType"] = any(
        re.fullmatch(r"if message_type != T::TYPE \{ return Err\(Error::UnexpectedType\(message_type\)\); \}", s) for s in rm)
    facts["readMessageRefusesTrailing"] = any(
        re.fullmatch(r"if !take\.is_empty\(\) \{ return Err\(Error::TrailingBytes\(take\.remaining\(\) as usize, T::TYPE\)\); \}", s)
        for s in rm) and rm[-1] == "Ok(res)"
    _, rr = fn_parts(src, "read_raw")
    facts["readRawHasNoLengthCheck"] = stmts(rr) == ["let len = reader.read_u32_be()?;", "let mut data = Vec::new();",
                                                     "data.resize(len as usize, 0);", "reader.read_exact(&mut data)?;", "Ok(data)"]

    def lb(b):
        return "true" if b else "false"

    lean = ("import VlsModel.Model.Wire\nnamespace VlsModel.Gen.WireFrame\nopen VlsModel.Wire\n\n"
            "/-- `write_serial_request_header`: fields %s -/\ndef serialRequestWrite : List HStep := %s\n"
            "/-- `read_serial_request_header` (returns `SerialRequestHeader { %s }`) -/\ndef serialRequestRead : List HStep := %s\n"
            "/-- `write_serial_response_header` -/\ndef serialResponseWrite : List HStep := %s\n"
            "/-- `read_serial_response_header` -/\ndef serialResponseRead : List HStep := %s\n\n"
            "/-- `write_vec`: `let len: u32 = buf.len() as u32; write_all(&len.to_be_bytes())`; `read`/`read_message`/`read_raw`: `read_u32_be` -/\n"
            "def frameLenWidth : Nat := 4\n"
            "/-- `write`: `T::TYPE.to_be_bytes()` with `const TYPE: u16`; `from_reader`/`read_message`: `read_u16_be` -/\n"
            "def typeWidth : Nat := 2\n\n"
            % (", ".join(order), lean_steps(req_w), ", ".join(order), lean_steps(req_r), lean_steps(rsp_w), lean_steps(rsp_r)))
    for k in sorted(facts):
        lean += "def %s : Bool := %s\n" % (k, lb(facts[k]))
    lean += "end VlsModel.Gen.WireFrame\n"
    info = {"C19": {"facts": {"wire_frame": {"serial_request": [list(s) for s in req_w], "serial_response": [list(s) for s in rsp_w],
                                              **facts}},
                    "obligations": [
                        "Gen.WireFrame: the serial header writers/readers of the model interpret the generated step lists (theorems C19_gen_serial_request, C19_gen_serial_response)",
                        "Gen.WireFrame: frame length / type prefix widths and the reader order facts the model relies on (theorems C19_gen_frame, C19_gen_reader_order)"]}}
    return {"WireFrame.lean": lean}, info
