"""C19: the wire schema of the signer protocol.

Parses vls-protocol/src/msgs.rs and model.rs on every run: every struct with its derive list,
`#[message_id(N)]`, cfg gate and ordered fields (types parsed structurally), the `array_impl!` /
`secret_array_impl!` newtypes, the hand-written codec impls, `MAX_MESSAGE_SIZE`, and the `Message` enum.
Emits
  Gen/WireSchema.lean   type codes per struct + the registry in enum (= match arm) order
  Gen/WireSchema.json   the same for the Rust harness (lines starting with `--` are the header)
Fails closed: any attribute, item shape or type it does not know raises ExtractError.
"""
import re, json
from rustsrc import read, strip_comments, body_after, const_value, int_expr, ExtractError

# external types with a fixed-size byte encoding (rust-bitcoin consensus encoding)
FIXED = {"Txid": 32, "BlockHash": 32, "FilterHeader": 32, "BlockHeader": 80}
NUM = {"u8": 1, "u16": 2, "u32": 4, "u64": 8}
# hand-written / library codecs modelled as opaque leaves: type name -> (leaf, file that must contain the impls or None)
LEAVES = {
    "Transaction": ("tx", None),
    "PsbtWrapper": ("psbt", "psbt"),
    "StreamedPSBT": ("spsbt", "psbt"),
    "DebugTxoProof": ("proof", "msgs"),
}
KNOWN_DERIVES = {"SerBolt", "Debug", "Encodable", "Decodable", "Clone", "Default", "SerBoltTlvOptions",
                 "ReadMessage", "PartialEq"}


class Ty:
    def __init__(self, k, **kw):
        self.k = k
        self.__dict__.update(kw)


def parse_type(s):
    """structural parser for the field types used: Ident, Ident<T>, [u8; N]"""
    s = s.strip()
    m = re.fullmatch(r"\[\s*u8\s*;\s*(\d+)\s*\]", s)
    if m:
        return ("arr", int(m.group(1)))
    m = re.fullmatch(r"(\w+)\s*<(.*)>", s, re.S)
    if m:
        return ("gen", m.group(1), parse_type(m.group(2)))
    if re.fullmatch(r"\w+", s):
        return ("id", s)
    raise ExtractError("unsupported type syntax: " + s)


ATTR = re.compile(r"#\[((?:[^\[\]]|\[[^\]]*\])*)\]\s*")


def split_attrs(text):
    """leading attributes of an item -> (list of attr bodies, rest)"""
    attrs = []
    while True:
        m = ATTR.match(text)
        if not m:
            return attrs, text
        attrs.append(m.group(1).strip())
        text = text[m.end():]


def classify_attrs(attrs, where):
    derives, msg_id, dev, tlv = set(), None, False, None
    for a in attrs:
        m = re.fullmatch(r"derive\((.*)\)", a, re.S)
        if m:
            for d in m.group(1).split(","):
                d = d.strip()
                if d:
                    if d not in KNOWN_DERIVES:
                        raise ExtractError(f"{where}: unknown derive {d}")
                    derives.add(d)
            continue
        m = re.fullmatch(r"message_id\((\d+)\)", a)
        if m:
            msg_id = int(m.group(1)); continue
        if re.fullmatch(r'cfg\(\s*feature\s*=\s*"developer"\s*\)', a):
            dev = True; continue
        m = re.fullmatch(r"tlv_tag\s*=\s*(\d+)", a)
        if m:
            tlv = int(m.group(1)); continue
        if re.fullmatch(r"allow\(\w+\)", a) or re.fullmatch(r"cfg_attr\(test,\s*derive\(PartialEq\)\)", a):
            continue
        raise ExtractError(f"{where}: unknown attribute #[{a}]")
    return derives, msg_id, dev, tlv


def split_top(body, sep=","):
    out, depth, cur = [], 0, ""
    for ch in body:
        if ch in "<([{":
            depth += 1
        elif ch in ">)]}":
            depth -= 1
        if ch == sep and depth == 0:
            out.append(cur); cur = ""
        else:
            cur += ch
    if cur.strip():
        out.append(cur)
    return [x.strip() for x in out if x.strip()]


def strip_cfg_test(src):
    """drop `#[cfg(test)] mod tests { ... }`"""
    m = re.search(r"#\[cfg\(test\)\]\s*(?:#\[[^\]]*\]\s*)*mod\s+\w+\s*\{", src)
    if not m:
        return src
    i = src.index("{", m.start()); depth = 0; j = i
    while j < len(src):
        if src[j] == "{": depth += 1
        elif src[j] == "}":
            depth -= 1
            if depth == 0: break
        j += 1
    return src[:m.start()] + src[j + 1:]


def parse_structs(src, fname):
    """all `pub struct` items of a file: name -> dict(derives,msg_id,dev,kind,fields)"""
    structs = {}
    item = re.compile(r"((?:#\[(?:[^\[\]]|\[[^\]]*\])*\]\s*)*)pub\s+struct\s+(\w+)\s*(<[^>{(]*>)?\s*(\{|\(|;)")
    for m in item.finditer(src):
        name = m.group(2)
        if name.startswith("$"):
            continue
        attrs, _ = split_attrs(m.group(1))
        generic = m.group(3)
        if m.group(4) == "{":
            body = body_after(src[m.start():], r"pub\s+struct\s+" + name + r"\b[^{;(]*\{")
            kind = "named"
        elif m.group(4) == "(":
            j = src.index(")", m.end())
            body = src[m.end():j]
            kind = "tuple"
        else:
            body, kind = "", "unit"
        if "$" in body:
            continue   # macro template, handled through its invocations
        derives, msg_id, dev, _ = classify_attrs(attrs, f"{fname}:{name}")
        fields = []
        if generic is None:
            for f in split_top(body):
                fattrs, rest = split_attrs(f)
                _, _, fdev, tlv = classify_attrs(fattrs, f"{fname}:{name} field")
                if fdev:
                    raise ExtractError(f"{fname}:{name}: cfg-gated field not supported")
                if kind == "named":
                    fm = re.fullmatch(r"pub\s+(\w+)\s*:\s*(.+)", rest, re.S)
                    if not fm:
                        raise ExtractError(f"{fname}:{name}: field syntax not understood: {rest!r}")
                    fields.append((fm.group(1), fm.group(2).strip(), tlv))
                else:
                    fm = re.fullmatch(r"(?:pub\s+)?(.+)", rest, re.S)
                    fields.append((str(len(fields)), fm.group(1).strip(), tlv))
        if name in structs:
            raise ExtractError(f"{fname}: struct {name} declared twice")
        structs[name] = dict(name=name, derives=derives, msg_id=msg_id, dev=dev, kind=kind, fields=fields,
                             generic=generic is not None, file=fname)
    return structs


def has_impl(src, trait, ty):
    return re.search(r"impl\s+" + trait + r"\s+for\s+" + ty + r"\b", src) is not None


def extract(repo):
    msgs_raw = read(repo, "vls-protocol/src/msgs.rs")
    model_raw = read(repo, "vls-protocol/src/model.rs")
    psbt_raw = read(repo, "vls-protocol/src/psbt.rs")
    msgs = strip_cfg_test(strip_comments(msgs_raw))
    model = strip_cfg_test(strip_comments(model_raw))
    psbt = strip_cfg_test(strip_comments(psbt_raw))
    srcs = {"msgs": msgs, "model": model, "psbt": psbt}

    max_msg = int_expr(const_value(msgs, "MAX_MESSAGE_SIZE"))

    structs = {}
    for fname in ("model", "msgs"):
        for k, v in parse_structs(srcs[fname], fname).items():
            if k in structs:
                raise ExtractError(f"struct {k} declared in two files")
            structs[k] = v

    # array_impl!/secret_array_impl! newtypes: check the macro bodies, then take the invocations
    newtypes = {}
    for mac in ("array_impl", "secret_array_impl"):
        mb = body_after(model, r"macro_rules!\s*" + mac + r"\s*\{")
        if not re.search(r"\(\s*\$ty:ident\s*,\s*\$len:tt\s*\)", mb):
            raise ExtractError(mac + ": unexpected macro parameters")
        if not re.search(r"#\[derive\(Clone,\s*Encodable,\s*Decodable\)\]\s*(?:#\[cfg_attr\(test,\s*derive\(PartialEq\)\)\]\s*)?"
                         r"pub\s+struct\s+\$ty\s*\(\s*pub\s+\[u8;\s*\$len\]\s*\)\s*;", mb):
            raise ExtractError(mac + ": the newtype is no longer a derived `pub struct $ty(pub [u8; $len])`")
        if re.search(r"impl\s+(Encodable|Decodable)\s+for\s+\$ty", mb):
            raise ExtractError(mac + ": hand-written codec impl inside the macro")
        for m in re.finditer(r"\b" + mac + r"!\s*\(\s*(\w+)\s*,\s*(\d+)\s*\)\s*;", model):
            if m.group(1) in newtypes or m.group(1) in structs:
                raise ExtractError("newtype declared twice: " + m.group(1))
            newtypes[m.group(1)] = int(m.group(2))
    for m in re.finditer(r"\b(\w+)!\s*\(", model):
        if m.group(1) not in ("array_impl", "secret_array_impl", "write", "format") and not re.search(
                r"macro_rules!\s*" + m.group(1), model):
            raise ExtractError("model.rs: unknown macro invocation " + m.group(1))

    # hand-written codecs: any `impl Encodable/Decodable for X` must be one of the known leaves/wrappers
    allowed_impls = {"PsbtWrapper", "StreamedPSBT", "DebugTxoProof", "SerBoltTlvReadWrap<T>", "$ty"}
    for fname, s in srcs.items():
        for m in re.finditer(r"impl(?:<[^>]*>)?\s+(Encodable|Decodable)\s+for\s+([\w$<>]+)", s):
            if m.group(2) not in allowed_impls:
                raise ExtractError(f"{fname}.rs: hand-written {m.group(1)} impl for {m.group(2)} is not modelled")
    if not (has_impl(psbt, "Encodable", "PsbtWrapper") and has_impl(psbt, "Decodable", "PsbtWrapper")
            and has_impl(psbt, "Encodable", "StreamedPSBT") and has_impl(psbt, "Decodable", "StreamedPSBT")):
        raise ExtractError("psbt.rs: PsbtWrapper/StreamedPSBT codec impls not found")
    if not has_impl(msgs, "Decodable", "DebugTxoProof") or not re.search(
            r"impl\s+Deref\s+for\s+DebugTxoProof\s*\{\s*type\s+Target\s*=\s*TxoProof\s*;", msgs):
        raise ExtractError("msgs.rs: DebugTxoProof Decodable/Deref(TxoProof) impls not found")

    used = set()

    def resolve(t, ctx, elem_of=None):
        """type AST -> schema type (json-able dict)"""
        if t[0] == "arr":
            return {"k": "fixed", "n": t[1]}
        if t[0] == "id":
            n = t[1]
            if n in NUM:
                # numeric struct fields / Option inners are big-endian (derive); integers that are the
                # element of Array<T> go through rust-bitcoin's consensus_encode: little-endian
                return {"k": "uint", "n": NUM[n], "le": elem_of == "Array"}
            if n == "bool":
                return {"k": "bool"}
            if n in FIXED:
                return {"k": "fixed", "n": FIXED[n]}
            if n == "OutPoint":
                return {"k": "struct", "name": "OutPoint", "fields": [["txid", {"k": "fixed", "n": 32}],
                                                                       ["vout", {"k": "uint", "n": 4, "le": True}]]}
            if n == "Octets":
                return {"k": "octets"}
            if n == "LargeOctets":
                return {"k": "largeOctets"}
            if n == "WireString":
                return {"k": "wireString"}
            if n in LEAVES:
                return {"k": "leaf", "l": LEAVES[n][0]}
            if n in newtypes:
                return {"k": "fixed", "n": newtypes[n]}
            if n in structs:
                return resolve_struct(n, ctx)
            raise ExtractError(f"{ctx}: unknown type {n}")
        if t[0] == "gen":
            g, inner = t[1], t[2]
            if g == "Option":
                return {"k": "option", "t": resolve(inner, ctx)}
            if g in ("Array", "ArrayBE"):
                return {"k": "array", "t": resolve(inner, ctx, elem_of=g)}
            if g == "WithSize":
                return {"k": "withSize", "t": resolve(inner, ctx)}
            raise ExtractError(f"{ctx}: unknown generic type {g}")
        raise ExtractError(f"{ctx}: bad type")

    stack = []

    def resolve_struct(n, ctx):
        s = structs[n]
        if n in stack:
            raise ExtractError("recursive struct " + n)
        if s["generic"]:
            raise ExtractError(f"{ctx}: generic struct {n} not supported")
        used.add(n)
        if "SerBoltTlvOptions" in s["derives"]:
            # LDK TLV stream: greedy, opaque in the model; every field must be Option<_> with a distinct tag
            tags = [f[2] for f in s["fields"]]
            if any(t is None for t in tags) or len(set(tags)) != len(tags):
                raise ExtractError(f"{n}: TLV fields need distinct #[tlv_tag]")
            for f in s["fields"]:
                pt = parse_type(f[1])
                if not (pt[0] == "gen" and pt[1] == "Option"):
                    raise ExtractError(f"{n}.{f[0]}: TLV field must be Option<_>")
            return {"k": "leaf", "l": "tlv"}
        if not {"Encodable", "Decodable"} <= s["derives"]:
            raise ExtractError(f"{ctx}: struct {n} does not derive Encodable and Decodable (hand-written codec?)")
        if s["kind"] not in ("named", "tuple"):
            raise ExtractError(f"{n}: unit struct")
        stack.append(n)
        fields = []
        for fname_, ftype, tlv in s["fields"]:
            if tlv is not None:
                raise ExtractError(f"{n}.{fname_}: tlv_tag outside a TLV struct")
            fields.append([fname_, resolve(parse_type(ftype), f"{n}.{fname_}")])
        stack.pop()
        return {"k": "struct", "name": n, "fields": fields}

    # the Message enum
    ebody = body_after(msgs, r"pub\s+enum\s+Message\s*\{")
    em = re.search(r"((?:#\[[^\]]*\]\s*)*)pub\s+enum\s+Message\b", msgs)
    ederives, _, _, _ = classify_attrs(split_attrs(em.group(1))[0], "enum Message")
    if "ReadMessage" not in ederives:
        raise ExtractError("enum Message no longer derives ReadMessage")
    registry = []
    seen_unknown = False
    for v in split_top(ebody):
        vattrs, rest = split_attrs(v)
        _, _, vdev, _ = classify_attrs(vattrs, "enum Message variant")
        vm = re.fullmatch(r"(\w+)\s*\(\s*(\w+)\s*\)", rest)
        if not vm:
            raise ExtractError("enum Message: variant syntax not understood: " + rest)
        vname, vty = vm.group(1), vm.group(2)
        if vname == "Unknown":
            seen_unknown = True
            continue
        if vname != vty:
            raise ExtractError(f"enum Message: variant {vname} wraps {vty} (ReadMessage uses the variant name for ::TYPE)")
        if vty not in structs:
            raise ExtractError(f"enum Message: unknown struct {vty}")
        s = structs[vty]
        if s["msg_id"] is None or "SerBolt" not in s["derives"]:
            raise ExtractError(f"{vty}: message struct without #[message_id]/SerBolt")
        if s["dev"] != vdev:
            raise ExtractError(f"{vty}: cfg(developer) gate differs between struct and enum variant")
        if not 0 <= s["msg_id"] < 65536:
            raise ExtractError(f"{vty}: message id out of u16 range")
        registry.append({"name": vty, "id": s["msg_id"], "dev": vdev, "ty": resolve_struct(vty, "Message")})
    if not seen_unknown:
        raise ExtractError("enum Message: Unknown variant missing")
    # message structs that are not in the enum (cannot be received)
    in_enum = {e["name"] for e in registry}
    orphans = sorted(n for n, s in structs.items() if s["msg_id"] is not None and n not in in_enum)
    if orphans != ["UnknownPlaceholder"]:
        raise ExtractError("message structs outside the Message enum: " + str(orphans))

    # ReadMessage derive must still be first-match dispatch on ::TYPE
    bd = strip_comments(read(repo, "bolt-derive/src/lib.rs"))
    if not re.search(r"#\(#vs::TYPE\s*=>\s*Message::#ts\(Decodable::consensus_decode\(reader\)\?\)\),\*,\s*"
                     r"_\s*=>\s*Message::Unknown\(Unknown\s*\{\s*message_type\s*\}\)", bd):
        raise ExtractError("bolt-derive: ReadMessage dispatch is not the expected match on ::TYPE")
    if not re.search(r"let\s+mut\s+buf\s*=\s*message_type\.to_be_bytes\(\)\.to_vec\(\);\s*"
                     r"let\s+mut\s+val_buf\s*=\s*to_vec\(&self\)\.expect\(\"serialize\"\);\s*buf\.append\(&mut\s+val_buf\);", bd):
        raise ExtractError("bolt-derive: SerBolt::as_vec is not `type.to_be_bytes() ++ to_vec(self)`")

    # ---- Lean -------------------------------------------------------------------------------
    defs, done = [], set()

    def lean_ty(t):
        k = t["k"]
        if k == "uint":
            return f"(.uint {t['n']} {'true' if t['le'] else 'false'})"
        if k == "fixed":
            return f"(.fixed {t['n']})"
        if k in ("bool", "octets", "largeOctets", "wireString"):
            return "." + k
        if k in ("array", "option", "withSize"):
            return f"(.{k} {lean_ty(t['t'])})"
        if k == "leaf":
            return f"(.leaf .{t['l']})"
        if k == "struct":
            emit_struct(t)
            return "s_" + t["name"]
        raise ExtractError("lean_ty " + k)

    def emit_struct(t):
        if t["name"] in done:
            return
        fs = [lean_ty(f[1]) for f in t["fields"]]
        done.add(t["name"])
        cm = ", ".join(f[0] for f in t["fields"])
        defs.append(f"/-- fields: {cm} -/\ndef s_{t['name']} : Ty := mkStruct [{', '.join(fs)}]")

    rows = []
    for e in registry:
        ty = lean_ty(e["ty"])
        rows.append(f"  {{ name := \"{e['name']}\", id := {e['id']}, ty := {ty}, dev := {'true' if e['dev'] else 'false'} }}")
    lean = "import VlsModel.Model.Wire\nnamespace VlsModel.Gen.WireSchema\nopen VlsModel.Wire\n\n"
    lean += f"/-- `MAX_MESSAGE_SIZE` of msgs.rs -/\ndef maxMessageSize : Nat := {max_msg}\n\n"
    lean += "\n".join(defs) + "\n\n"
    lean += "/-- every variant of `enum Message` (except `Unknown`) in declaration order = order of the\n" \
            "    arms of `Message::read_message`; `dev` = behind `cfg(feature = \"developer\")` -/\n"
    lean += "def registryAll : List Entry := [\n" + ",\n".join(rows) + "\n]\n\n"
    lean += "/-- the default build (feature `developer` off) -/\n"
    lean += "def registry : List Entry := registryAll.filter (fun e => !e.dev)\n"
    lean += "end VlsModel.Gen.WireSchema\n"

    js = json.dumps({"max_message_size": max_msg, "registry": registry}, indent=0)

    ids = {}
    for e in registry:
        ids.setdefault(e["id"], []).append(e["name"])
    dup = {str(k): v for k, v in ids.items() if len(v) > 1}
    facts = {"wire_schema": {"messages": len(registry), "developer_only": sum(1 for e in registry if e["dev"]),
                             "structs": len(done), "max_message_size": max_msg, "duplicate_ids": dup}}
    return ({"WireSchema.lean": lean, "WireSchema.json": js},
            {"C19": {"facts": facts, "obligations": [
                "Gen.WireSchema: every message type is decodable at the end of a window (theorem C19_schema_wf)",
                "Gen.WireSchema: ids dispatch to their own struct except the listed shadowed ones (theorem C19_registry)"]}})
