"""C08/C09: constants used by validate_onchain_tx, check_onchain_tx, the sweep validators and
estimate_feerate_per_kw.  Fail-closed: every pattern must be found exactly once in the expected form.

Extracted (-> lean/VlsModel/Gen/Onchain.lean):
  * MAX_CHAIN_LAG (simple_validator.rs), MAX_ONCHAIN_TX_SIZE (policy/mod.rs)
  * SimpleValidator::{ANCHOR_SEQS, NON_ANCHOR_SEQS}
  * make_default_simple_policy: min/max_feerate_per_kw for mainnet and the other networks
  * DEFAULT_FEE_VELOCITY_CONTROL (limit, interval type)
  * check_onchain_tx: per-input witness weight constant and the default witness element length
  * validate_beneficial_value: the exact u128 feerate expression and comparison (fix 3751e9c)
  * estimate_feerate_per_kw (used for HTLC-tx recomposition, C09): the *shape* of the body (saturating_mul(1000).saturating_add(999) / weight,
    clamped into u32); any other shape fails the extraction, so the arithmetic the model assumes is the
    arithmetic the source states.
"""
import re
from rustsrc import read, strip_comments, body_after, const_value, int_expr, ExtractError


def _one(pattern, src, what):
    ms = re.findall(pattern, src)
    if len(ms) != 1:
        raise ExtractError(f"{what}: expected exactly one match, found {len(ms)}")
    return ms[0]


def _array(src, name):
    m = re.search(r"\bconst\s+" + name + r"\s*:\s*\[\s*u32\s*;\s*(\d+)\s*\]\s*=\s*\[([^\]]*)\]\s*;", src)
    if not m:
        raise ExtractError("array const not found: " + name)
    items = [x.strip() for x in m.group(2).split(",") if x.strip()]
    vals = []
    for it in items:
        t = it.replace("_", "")
        t = re.sub(r"u32$", "", t)
        if not re.fullmatch(r"0x[0-9a-fA-F]+|\d+", t):
            raise ExtractError(f"{name}: unexpected element {it}")
        vals.append(int(t, 0))
    if len(vals) != int(m.group(1)):
        raise ExtractError(f"{name}: declared length {m.group(1)} but {len(vals)} elements")
    return vals


def _policy_field(block, field):
    m = re.findall(r"\b" + field + r"\s*:\s*([\d_]+)\s*,", block)
    if len(m) != 1:
        raise ExtractError(f"default policy: field {field} found {len(m)} times")
    return int(m[0].replace("_", ""))


def extract(repo):
    sv = strip_comments(read(repo, "vls-core/src/policy/simple_validator.rs"))
    pm = strip_comments(read(repo, "vls-core/src/policy/mod.rs"))
    tu = strip_comments(read(repo, "vls-core/src/util/transaction_utils.rs"))
    nd = strip_comments(read(repo, "vls-core/src/node.rs"))

    max_chain_lag = int_expr(const_value(sv, "MAX_CHAIN_LAG"))
    max_tx_size = int_expr(const_value(pm, "MAX_ONCHAIN_TX_SIZE"))
    anchor_seqs = _array(sv, "ANCHOR_SEQS")
    non_anchor_seqs = _array(sv, "NON_ANCHOR_SEQS")

    # default policy: two SimplePolicy literals, first for Network::Bitcoin
    body = body_after(sv, r"pub\s+fn\s+make_default_simple_policy\s*\(")
    if not re.search(r"if\s+network\s*==\s*Network::Bitcoin\s*\{", body):
        raise ExtractError("make_default_simple_policy: expected `if network == Network::Bitcoin`")
    blocks = re.findall(r"SimplePolicy\s*\{(.*?)\n\s*\}", body, re.S)
    if len(blocks) != 2:
        raise ExtractError(f"make_default_simple_policy: expected 2 SimplePolicy literals, found {len(blocks)}")
    pol = {}
    for name, blk in (("mainnet", blocks[0]), ("testnet", blocks[1])):
        pol[name] = {f: _policy_field(blk, f) for f in ("min_feerate_per_kw", "max_feerate_per_kw")}
        if not re.search(r"fee_velocity_control\s*:\s*DEFAULT_FEE_VELOCITY_CONTROL\s*,", blk):
            raise ExtractError("default policy: fee_velocity_control is not DEFAULT_FEE_VELOCITY_CONTROL")
        if not re.search(r"dev_flags\s*:\s*None\s*,", blk):
            raise ExtractError("default policy: dev_flags is not None")
        if not re.search(r"filter\s*:\s*PolicyFilter::default\(\)\s*,", blk):
            raise ExtractError("default policy: filter is not PolicyFilter::default()")

    m = re.search(r"pub\s+const\s+DEFAULT_FEE_VELOCITY_CONTROL\s*:\s*VelocityControlSpec\s*=\s*VelocityControlSpec\s*\{\s*"
                  r"limit_msat\s*:\s*([\d_]+)\s*,\s*interval_type\s*:\s*VelocityControlIntervalType::(\w+)\s*,?\s*\}\s*;", pm)
    if not m:
        raise ExtractError("DEFAULT_FEE_VELOCITY_CONTROL: unexpected form")
    fee_limit = int(m.group(1).replace("_", ""))
    fee_itype = m.group(2)
    if fee_itype not in ("Hourly", "Daily", "Unlimited"):
        raise ExtractError("DEFAULT_FEE_VELOCITY_CONTROL: unknown interval type " + fee_itype)

    # check_onchain_tx: weight lower bound
    cb = body_after(nd, r"pub\s+fn\s+check_onchain_tx\s*\(")
    if not re.search(r"let\s+mut\s+weight_lower_bound\s*=\s*tx\.weight\(\)\.to_wu\(\)\s+as\s+usize\s*;", cb):
        raise ExtractError("check_onchain_tx: weight_lower_bound is not initialised from tx.weight()")
    wexpr = _one(r"weight_lower_bound\s*\+=\s*([\d\s+]+)\+\s*wit_len\s*;", cb, "check_onchain_tx witness constant")
    wit_const = int_expr(wexpr.strip().rstrip("+").strip())
    wit_default = int(_one(r"None\s*=>\s*(\d+)\s*,", cb, "check_onchain_tx default witness length"))
    if not re.search(r"Some\(\(_key,\s*stack\)\)\s*=>\s*stack\.iter\(\)\.map\(\|v\|\s*1\s*\+\s*v\.len\(\)\)\.sum\(\)", cb):
        raise ExtractError("check_onchain_tx: unexpected witness stack length expression")
    if not re.search(r"fee_velocity_control\s*\.insert\(\s*now\s*,\s*non_beneficial_sat\s*\*\s*1000\s*\)", re.sub(r"\s+", " ", cb).replace(" .", ".")):
        raise ExtractError("check_onchain_tx: fee velocity insert is not insert(now, non_beneficial_sat * 1000)")

    # estimate_feerate_per_kw: exact shape
    eb = re.sub(r"\s+", "", body_after(tu, r"fn\s+estimate_feerate_per_kw\s*\("))
    want = "letfeerate=total_fee.saturating_mul(1000).saturating_add(999)/weight;u32::try_from(feerate).unwrap_or(u32::MAX)"
    if eb != want:
        raise ExtractError("estimate_feerate_per_kw: body is not the saturating form the model assumes: " + eb)

    # validate_beneficial_value: exact u128 comparison (fix 3751e9c), no u32 clamp
    vb = re.sub(r"\s+", "", body_after(sv, r"fn\s+validate_beneficial_value\s*\("))
    if "letfeerate_perkw:u128=(non_beneficialasu128*1000+999)/weightasu128;" not in vb:
        raise ExtractError("validate_beneficial_value: feerate is not the exact u128 form the model assumes")
    if "iffeerate_perkw>self.policy.max_feerate_per_kwasu128{" not in vb:
        raise ExtractError("validate_beneficial_value: comparison with max_feerate_per_kw is not the u128 form")
    if "estimate_feerate_per_kw" in vb:
        raise ExtractError("validate_beneficial_value: still uses the clamped estimate_feerate_per_kw")

    lean = "namespace VlsModel.Gen.Onchain\n"
    lean += f"def maxChainLag : Nat := {max_chain_lag}\n"
    lean += f"def maxOnchainTxSize : Nat := {max_tx_size}\n"
    lean += f"def anchorSeqs : List Nat := {anchor_seqs}\n"
    lean += f"def nonAnchorSeqs : List Nat := {non_anchor_seqs}\n"
    lean += f"def mainnetMinFeerate : Nat := {pol['mainnet']['min_feerate_per_kw']}\n"
    lean += f"def mainnetMaxFeerate : Nat := {pol['mainnet']['max_feerate_per_kw']}\n"
    lean += f"def testnetMinFeerate : Nat := {pol['testnet']['min_feerate_per_kw']}\n"
    lean += f"def testnetMaxFeerate : Nat := {pol['testnet']['max_feerate_per_kw']}\n"
    lean += f"def defaultFeeVelocityLimitMsat : Nat := {fee_limit}\n"
    lean += "/-- 0 = Hourly, 1 = Daily, 2 = Unlimited -/\n"
    lean += f"def defaultFeeVelocityIntervalCode : Nat := {('Hourly', 'Daily', 'Unlimited').index(fee_itype)}\n"
    lean += f"def witnessWeightConst : Nat := {wit_const}\n"
    lean += f"def witnessDefaultLen : Nat := {wit_default}\n"
    lean += "/-- `estimate_feerate_per_kw` (HTLC recomposition) has the saturating shape (checked textually). -/\n"
    lean += "def estimateFeerateIsSaturating : Bool := true\n"
    lean += "/-- `validate_beneficial_value` compares the exact u128 feerate (checked textually). -/\n"
    lean += "def beneficialFeerateIsExact : Bool := true\n"
    lean += "end VlsModel.Gen.Onchain\n"
    facts = {
        "MAX_CHAIN_LAG": max_chain_lag, "MAX_ONCHAIN_TX_SIZE": max_tx_size,
        "ANCHOR_SEQS": anchor_seqs, "NON_ANCHOR_SEQS": non_anchor_seqs,
        "default_policy_feerates": pol,
        "DEFAULT_FEE_VELOCITY_CONTROL": {"limit_msat": fee_limit, "interval_type": fee_itype},
        "witness_weight_const": wit_const, "witness_default_len": wit_default,
        "estimate_feerate_per_kw": "saturating_mul(1000).saturating_add(999)/weight, try_from -> u32::MAX (HTLC recomposition only)",
        "validate_beneficial_value": "(non_beneficial as u128 * 1000 + 999) / weight as u128 > max_feerate_per_kw as u128",
    }
    obl8 = ["Gen.Onchain: the default fee velocity control is limited, validate_beneficial_value compares the exact feerate (theorem C08_gen_defaults_ok)"]
    obl9 = ["Gen.Onchain: MAX_CHAIN_LAG and the sequence tables are as the sweep theorems use them (theorem C09_gen_table_ok)"]
    return {"Onchain.lean": lean}, {"C08": {"facts": facts, "obligations": obl8},
                                   "C09": {"facts": {k: facts[k] for k in ("MAX_CHAIN_LAG", "ANCHOR_SEQS", "NON_ANCHOR_SEQS", "default_policy_feerates")}, "obligations": obl9}}
