"""C11: the composite persister `BackupPersister` (vls-persist/src/backup_persister.rs), method by method.

Every method of `impl Persist for BackupPersister` is matched against one of four exact forms (whitespace
normalised; anything else raises):

  write    if self.main_is_ready() { self.main.M(args)?; } self.backup.M(args)
  read     if self.main_is_ready() { self.main.M(args) } else { self.backup.M(args) }
  both     self.main.M()?; self.backup.M()                        (clear_database)
  special  on_initial_restore (sets the flag, returns true), signer_id (main's)

with `M` = the method's own name.  The methods of the trait `Persist` (vls-core/src/persist/mod.rs) that the composite
does not override keep their defaults (`enter`/`prepare`/`commit`/`put_batch_unlogged`/`begin_replication` are no-ops,
`recovery_required` is false): they are listed as `defaulted`.  `main_is_ready` itself is pinned to
`!self.main.recovery_required() || self.initial_restore_complete.load(..)`.

Output `Gen/Backup.lean`: `Method`, `kind : Method -> Kind`; theorems in Props/C11.lean (`C11_gen_backup_*`) tie the
model `Model/Backup.lean` to it.
"""
import re
from rustsrc import read, strip_comments, ExtractError

REL = "vls-persist/src/backup_persister.rs"
TRAIT = "vls-core/src/persist/mod.rs"


def balanced(src, i):
    depth, j = 0, i
    while j < len(src):
        if src[j] == "{":
            depth += 1
        elif src[j] == "}":
            depth -= 1
            if depth == 0:
                return j
        j += 1
    raise ExtractError("unbalanced braces")


def methods(body):
    """[(name, parameter names, body text)] of the fn items at depth 0 of an impl / trait body"""
    out, i = [], 0
    while True:
        m = re.search(r"\bfn\s+(\w+)\s*(?:<[^>(]*>)?\s*\(", body[i:])
        if not m:
            break
        start = i + m.end() - 1
        depth, j = 0, start
        while j < len(body):
            if body[j] == "(":
                depth += 1
            elif body[j] == ")":
                depth -= 1
                if depth == 0:
                    break
            j += 1
        params = [p.strip().split(":")[0].strip() for p in re.split(r",(?![^<]*>)", body[start + 1:j]) if p.strip()]
        params = [re.sub(r"^mut\s+", "", p) for p in params if not re.fullmatch(r"&?\s*(mut\s+)?self", p)]
        k, sq = j, 0
        while k < len(body) and not (body[k] in "{;" and sq == 0):
            if body[k] == "[":
                sq += 1
            elif body[k] == "]":
                sq -= 1
            k += 1
        if k < len(body) and body[k] == "{":
            e = balanced(body, k)
            out.append((m.group(1), params, body[k + 1:e]))
            i = e + 1
        else:
            out.append((m.group(1), params, None))
            i = k + 1
    return out


def norm(s):
    return re.sub(r"\s+", "", s)


def extract(repo):
    src = strip_comments(read(repo, REL))
    cut = src.find("#[cfg(test)]")
    if cut > 0:
        src = src[:cut]
    m = re.search(r"impl\s*<M:\s*Persist,\s*B:\s*Persist>\s*Persist\s+for\s+BackupPersister<M,\s*B>\s*\{", src)
    if not m:
        raise ExtractError("impl Persist for BackupPersister not found")
    i = m.end() - 1
    impl = src[i + 1:balanced(src, i)]
    # main_is_ready
    mr = re.search(r"fn\s+main_is_ready\s*\(&self\)\s*->\s*bool\s*\{", src)
    if not mr:
        raise ExtractError("main_is_ready not found")
    b = mr.end() - 1
    ready = norm(src[b + 1:balanced(src, b)])
    if ready != "!self.main.recovery_required()||self.initial_restore_complete.load(Ordering::Relaxed)":
        raise ExtractError("main_is_ready is no longer `!main.recovery_required() || initial_restore_complete`: " + ready)
    rows = []
    for name, params, body in methods(impl):
        if body is None:
            raise ExtractError("method without body in the impl: " + name)
        nb = norm(body)
        args = ",".join(params)
        # arguments may be passed as given or cloned for the first call
        arg_pat = ",".join("(?:%s|%s\\.clone\\(\\))" % (re.escape(p), re.escape(p)) for p in params)
        w = r"if self\.main_is_ready\(\)\{self\.main\.%s\(%s\)\?;\}self\.backup\.%s\(%s\)" % (name, arg_pat, name, arg_pat)
        r_ = r"if self\.main_is_ready\(\)\{self\.main\.%s\(%s\)\}else\{self\.backup\.%s\(%s\)\}" % (name, arg_pat, name, arg_pat)
        bo = r"self\.main\.%s\(%s\)\?;self\.backup\.%s\(%s\)" % (name, arg_pat, name, arg_pat)
        if re.fullmatch(norm(w).replace("ifself", "ifself"), nb):
            kind = "write"
        elif re.fullmatch(norm(r_), nb):
            kind = "read"
        elif re.fullmatch(norm(bo), nb):
            kind = "both"
        elif name == "on_initial_restore" and nb == "self.initial_restore_complete.store(true,Ordering::Relaxed);true":
            kind = "restoreDone"
        elif name == "signer_id" and nb == "self.main.signer_id()":
            kind = "mainOnly"
        else:
            raise ExtractError(f"BackupPersister::{name}: body is none of the known forms: {body.strip()[:120]}")
        rows.append((name, kind))
    names = [n for n, _ in rows]
    # the trait: which methods keep their default
    tsrc = strip_comments(read(repo, TRAIT))
    tm = re.search(r"pub\s+trait\s+Persist\s*:\s*SendSync\s*\{", tsrc)
    if not tm:
        raise ExtractError("trait Persist not found")
    ti = tm.end() - 1
    tbody = tsrc[ti + 1:balanced(tsrc, ti)]
    tmethods = methods(tbody)
    tnames = [n for n, _, _ in tmethods]
    required_missing = [n for n, _, b in tmethods if b is None and n not in names]
    if required_missing:
        raise ExtractError("required trait methods not implemented?: " + str(required_missing))
    for n in names:
        if n not in tnames:
            raise ExtractError("BackupPersister implements a method the trait does not have: " + n)
    defaulted = [n for n in tnames if n not in names]
    for must in ("update_node", "update_channel", "update_tracker", "update_node_allowlist", "new_channel", "delete_channel",
                 "get_nodes", "get_node_channels", "get_tracker"):
        if must not in names:
            raise ExtractError("BackupPersister no longer overrides " + must)
    L = ["/- The composite persister `BackupPersister` (vls-persist/src/backup_persister.rs): the form of every method of",
         "   its `Persist` impl, matched against the exact source text, and the trait methods it leaves defaulted. -/",
         "namespace VlsModel.Gen.Backup", "",
         "/-- write: `if main_is_ready { main.m(..)? } backup.m(..)`;  read: `if main_is_ready { main.m(..) } else { backup.m(..) }`;",
         "    both: `main.m()?; backup.m()` (unguarded);  restoreDone: sets `initial_restore_complete`;  mainOnly: asks the main store -/",
         "inductive Kind | write | read | both | restoreDone | mainOnly", "  deriving DecidableEq, Repr", "",
         "/-- the methods of `impl Persist for BackupPersister`, source order -/",
         "inductive Method", "  | " + " | ".join(names), "  deriving DecidableEq, Repr", "",
         "def Method.all : List Method := [" + ", ".join("." + n for n in names) + "]", "",
         "def kind : Method → Kind"]
    for n, k in rows:
        L.append(f"  | .{n} => .{k}")
    L += ["", "/-- methods of the trait `Persist` that the composite does not override (they keep the trait's default body) -/",
          "inductive Defaulted", "  | " + " | ".join(defaulted), "  deriving DecidableEq, Repr", "",
          "def Defaulted.all : List Defaulted := [" + ", ".join("." + n for n in defaulted) + "]", "",
          "end VlsModel.Gen.Backup"]
    facts = {"backup_persister": {"methods": dict(rows), "defaulted": defaulted, "main_is_ready": ready}}
    obl = ["Gen.Backup: every write of the composite persister goes to the main store first (when it is ready) and then to the backup, "
           "every read comes from the main store when it is ready and from the backup otherwise (theorems C11_gen_backup_table, "
           "C11_gen_backup_defaulted); model: Model/Backup.lean, C11_backup_*"]
    return {"Backup.lean": "\n".join(L) + "\n"}, {"C11": {"facts": facts, "obligations": obl}}


if __name__ == "__main__":
    out, info = extract("/repo")
    print(out["Backup.lean"])
