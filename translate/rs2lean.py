"""rs2lean: translate bodies of pure arithmetic/decision Rust functions into Lean 4 definitions.

The subset and its semantics are documented in notes/rs2lean.md; the operators used by the output are in
lean/VlsModel/Prim/Rs.lean.  Everything outside the subset raises RsError (fail closed): no statement,
expression or macro is ever skipped silently.  The only constructs dropped on purpose are the logging macros
(trace!/debug!/info!/warn!/error!) and the *message* arguments of policy_err!; every drop is recorded in the
function's summary (`dropped`).
"""
import json
import re
from rsparse import RsError, FileIndex, Parser, Tok, lex, split_macro_args, INT_SUFFIXES

UMAX = {"u8": "Rs.U8_MAX", "u16": "Rs.U16_MAX", "u32": "Rs.U32_MAX", "u64": "Rs.U64_MAX", "u128": "Rs.U128_MAX",
        "usize": "Rs.USIZE_MAX"}
UBITS = {"u8": 8, "u16": 16, "u32": 32, "u64": 64, "u128": 128, "usize": 64}
IBITS = {"i32": 32, "i64": 64}
IRNG = {"i32": "Rs.I32_MIN Rs.I32_MAX", "i64": "Rs.I64_MIN Rs.I64_MAX"}
LOG_MACROS = ("trace", "debug", "info", "warn", "error", "log",
              # vls-core: `dbgvals!` (util/debug_utils.rs: debug!-prints its arguments) and `policy_log!` (policy/error.rs:
              # error!/warn! at the level the filter gives the tag) only log
              "dbgvals", "policy_log",
              # util/debug_utils.rs: trace!-prints the enforcement state and the chain state
              "trace_enforcement_state")
LEAN_KW = set("""end from at open type instance where then else do let fun match with if in have show by local prefix
variable universe theorem def namespace section structure class inductive mutual deriving import export private
protected partial unsafe macro syntax notation infix return for break continue try catch finally mut using extends
calc Type Prop Sort abbrev example axiom opaque set_option attribute matches""".split())

STATUS_ERRS = {"Status::internal": "Status::internal", "internal_error": "Status::internal",
               "Status::invalid_argument": "Status::invalid_argument", "invalid_argument": "Status::invalid_argument",
               "Status::failed_precondition": "Status::failed_precondition", "failed_precondition": "Status::failed_precondition"}

INTLIT = ("intlit",)


class LazyTy(object):
    """Lean type of a declared external, printed when the unit is emitted: a struct type mentions the structure's type
    parameters, which are only final once every function of the unit is translated"""
    def __init__(self, unit, arg_tys, ret_ty, ret_wrap, paren=True):
        self.u, self.arg_tys, self.ret_ty, self.ret_wrap, self.paren = unit, tuple(arg_tys), ret_ty, ret_wrap, paren
    def key(self): return (self.arg_tys, self.ret_ty, self.ret_wrap)
    def __eq__(self, o): return isinstance(o, LazyTy) and self.key() == o.key()
    def __hash__(self): return hash(repr(self.key()))
    def __str__(self):
        r = self.u.lt(self.ret_ty, False)
        if self.ret_wrap: r = ("(%s %s)" if self.paren else "%s %s") % (self.ret_wrap, r)
        return " → ".join([self.u.lt(t, False) for t in self.arg_tys] + [r])
    def __repr__(self): return str(self)
UNIT = ("unit",)
BOOL = ("bool",)


def lid(name):
    return "«%s»" % name if name in LEAN_KW else name


def is_uint(t): return t[0] == "int" and t[1] in UMAX
def is_sint(t): return t[0] == "int" and t[1] in IBITS
def is_int(t): return t[0] == "int"


# ---------------------------------------------------------------------------------------------- IR
class P:      # pure leaf value
    def __init__(s, term): s.term = term
class MCall:  # monadic term
    def __init__(s, term): s.term = term
class Bind:
    def __init__(s, pat, m, body): s.pat, s.m, s.body = pat, m, body
class Let:
    def __init__(s, pat, term, body): s.pat, s.term, s.body = pat, term, body
class If:
    def __init__(s, c, a, b): s.c, s.a, s.b = c, a, b
class Match:
    def __init__(s, scrut, arms): s.scrut, s.arms = scrut, arms


def monadic(ir):
    if isinstance(ir, P): return False
    if isinstance(ir, MCall): return True
    if isinstance(ir, Bind): return True
    if isinstance(ir, Let): return monadic(ir.body)
    if isinstance(ir, If): return monadic(ir.a) or monadic(ir.b)
    if isinstance(ir, Match): return any(monadic(b) for _, b in ir.arms)
    raise AssertionError(ir)


def inline(ir):
    """single-line pure term"""
    if isinstance(ir, P): return ir.term
    if isinstance(ir, Let): return "(let %s := %s; %s)" % (ir.pat, ir.term, inline(ir.body))
    if isinstance(ir, If): return "(if %s then %s else %s)" % (ir.c, inline(ir.a), inline(ir.b))
    if isinstance(ir, Match):
        return "(match %s with %s)" % (ir.scrut, " ".join("| %s => %s" % (p, inline(b)) for p, b in ir.arms))
    raise AssertionError("inline of a monadic IR")


def emit_p(ir, ind):
    """multi-line pure term, as lines"""
    sp = " " * ind
    if isinstance(ir, P): return [sp + ir.term]
    if isinstance(ir, Let): return [sp + "let %s := %s" % (ir.pat, ir.term)] + emit_p(ir.body, ind)
    if isinstance(ir, If):
        return [sp + "if %s then" % ir.c] + emit_p(ir.a, ind + 2) + [sp + "else"] + emit_p(ir.b, ind + 2)
    if isinstance(ir, Match):
        out = [sp + "match %s with" % ir.scrut]
        for p, b in ir.arms:
            out += [sp + "| %s =>" % p] + emit_p(b, ind + 4)
        return out
    raise AssertionError(ir)


_REINDENT = [False]


def emit_m(ir, ind):
    """do-sequence lines"""
    sp = " " * ind
    if isinstance(ir, P): return [sp + "pure %s" % ir.term]
    if isinstance(ir, MCall): return [sp + ir.term]
    if isinstance(ir, Let): return [sp + "let %s := %s" % (ir.pat, ir.term)] + emit_m(ir.body, ind)
    if isinstance(ir, Bind):
        if isinstance(ir.m, MCall):
            term = ir.m.term
            if "\n" in term and _REINDENT[0]:
                # (b0809, additive; only for units that ask for it with `"reindent_closures": true`, so that the text
                # of the other generated files does not change) a closure rendered earlier at a fixed indentation: its continuation lines must stay to
                # the right of this `let` (Lean ends the enclosing `do`/`match` arm at a line that starts further left)
                ls = term.split("\n")
                low = min((len(l) - len(l.lstrip(" ")) for l in ls[1:] if l.strip()), default=ind + 1)
                if low <= ind:
                    ls = ls[:1] + [(" " * (ind + 2 - low)) + l if l.strip() else l for l in ls[1:]]
                    term = "\n".join(ls)
            head = [sp + "let %s ← %s" % (ir.pat, term)]
        elif not monadic(ir.m):
            head = [sp + "let %s := %s" % (ir.pat, inline(ir.m))]
        else:
            head = [sp + "let %s ← do" % ir.pat] + emit_m(ir.m, ind + 4)
        return head + emit_m(ir.body, ind)
    if isinstance(ir, If):
        return [sp + "if %s then" % ir.c] + emit_m(ir.a, ind + 2) + [sp + "else"] + emit_m(ir.b, ind + 2)
    if isinstance(ir, Match):
        out = [sp + "match %s with" % ir.scrut]
        for p, b in ir.arms:
            out += [sp + "| %s =>" % p] + emit_m(b, ind + 4)
        return out
    raise AssertionError(ir)


# ---------------------------------------------------------------------------------------------- unit
class FnInfo:
    pass


class NeedMutSelf(Exception):
    """a `&self` method turned out to write `self` (through an alias the prescan does not follow): translate it again
    as a state-updating method"""


def desugar_iter_mut(node):
    """(b1012, round 9) `for x in PLACE.iter_mut() { *x = RHS; }` (exactly one statement, an assignment through the loop
    variable) is `PLACE = PLACE.iter().map(|x| RHS).collect();` -- every element is replaced by RHS evaluated on it, in order.
    Any other use of `iter_mut` in a `for` stays refused."""
    if isinstance(node, list): return [desugar_iter_mut(x) for x in node]
    if not isinstance(node, tuple): return node
    if len(node) == 4 and node[0] == "for" and node[1][0] == "pvar" and isinstance(node[2], tuple) and len(node[2]) == 6 \
            and node[2][0] == "mcall" and node[2][2] == "iter_mut" and not node[2][4] \
            and node[3][0] == "block" and len(node[3][1]) == 1 and node[3][2] is None:
        st = node[3][1][0]
        if st[0] == "expr" and st[1][0] == "assign" and st[1][1] == "=" and st[1][2] == ("deref", ("path", [node[1][1]])):
            X, ln, rhs = node[2][1], node[2][5], st[1][3]
            return ("assign", "=", X, ("mcall", ("mcall", ("mcall", X, "iter", None, [], ln), "map", None,
                                                 [("closure", [node[1]], rhs, "same_elt")], ln), "collect", None, [], ln))
    return tuple(desugar_iter_mut(x) for x in node)


class Unit:
    """one Rust source file -> one Lean namespace"""

    def __init__(self, repo, rel, ns, const_files=(), externals=None, struct_files=(), src=None, foreign_structs=None,
                 tuple_structs=None, fn_files=(), views=None, rewrite=None, error_ctors=None, compact_guards=False, any_order=False):
        # `any_order`: a `for` over a set/map whose order the model does not know iterates the representing list as given;
        # the tying theorem must then hold for EVERY list (every order, duplicates included) - it is the theorem, not the
        # translator, that shows the order does not matter
        self.any_order = any_order
        self.compact_guards = compact_guards   # `if c { policy_err!(..) }` -> one step `Rs.policyErrIf` (no join points)
        self.error_ctors = error_ctors or {}   # error constructor function -> tag prefix (the argument list is appended)
        self.repo, self.rel, self.ns = repo, rel, ns
        # tuple structs (`struct KVV(pub String, pub (u64, Vec<u8>));`) are opaque unless listed here (or translating
        # from a source text, as the self-test does): then they are the tuple of their components
        self.open_tuple_structs = None if src is not None else set(tuple_structs or ())
        def load(r):
            # `@verif/<path>`: a file of the framework itself (translator fixtures), not of /repo
            if r.startswith("@verif/"):
                import os
                return open(os.path.join(os.path.dirname(os.path.abspath(__file__)), "..", r[len("@verif/"):])).read()
            return open(repo.rstrip("/") + "/" + r).read()
        text = src if src is not None else load(rel)
        self.rewrites = []          # (rule name, number of applications): trusted source normalisations, listed in the output
        self.rewrite_failed = {}    # (impl, name) -> why: functions whose normalisation did not apply as declared
        if rewrite is not None:
            text = rewrite(text, self.rewrites, self.rewrite_failed)
        self.fi = FileIndex(rel, text)
        self.struct_src = {n: rel for n in self.fi.structs}
        self.fn_src = {}            # (impl, name) -> FileIndex of another file (see fn_files)
        self.src_texts = [self.fi.src]   # every source text structures / functions are taken from
        cache = {}
        def index_of(r):
            if r not in cache:
                cache[r] = FileIndex(r, load(r)); self.src_texts.append(cache[r].src)
            return cache[r]
        if views:
            # trusted *views* of library types: struct declarations (Rust syntax) listing the fields the translated
            # code may read; they never override a struct of the file itself
            idx = FileIndex("<views>", views)
            for n, fields in idx.structs.items():
                if n not in self.fi.structs:
                    self.fi.structs[n] = fields; self.struct_src[n] = "trusted view declared in translate/x_fn.py"
            # (b1315, additive) a view may also declare the enums of library types the code matches on
            for n, vs in idx.enum_data.items():
                if n not in self.fi.enums and n not in self.fi.enum_data:
                    self.fi.enum_data[n] = vs; self.fi.enums[n] = None
            for n, vs in idx.enums.items():     # unit-variant enums of library types (e.g. atomic `Ordering`): b1012, round 9
                self.fi.enums.setdefault(n, vs)
        for r in struct_files:      # struct declarations of other files, used as local structures
            idx = index_of(r)
            for n, fields in idx.structs.items():
                if n not in self.fi.structs:
                    self.fi.structs[n] = fields; self.struct_src[n] = r
            for n, comps in idx.tuple_structs.items():
                self.fi.tuple_structs.setdefault(n, comps)
            for n, vs in idx.enum_data.items():
                if n not in self.fi.enums and n not in self.fi.enum_data:
                    self.fi.enum_data[n] = vs; self.fi.enums[n] = None
            for n, vs in idx.enums.items():
                self.fi.enums.setdefault(n, vs)
        for r in fn_files:          # functions / methods (and the unit enums they mention) of other files, translated on
            idx = index_of(r)       # demand like the functions of the unit's own file (target key `fns_from`)
            for key, k in idx.fns.items():
                if key not in self.fi.fns:
                    self.fi.fns[key] = k; self.fn_src[key] = idx
            for n, vs in idx.enums.items():
                self.fi.enums.setdefault(n, vs)
        self.const_idx = [self.fi] + [FileIndex(r, load(r)) for r in const_files] + [index_of(r) for r in fn_files]
        # structs of other crates whose fields the code reads (e.g. bitcoin::OutPoint {txid, vout}): declared in the
        # target list (trusted: field names and types are checked by rustc only through the differential harness)
        for n, flds in (foreign_structs or {}).items():
            if isinstance(flds, str):
                # b1012, round 9: `"Alias": "@path/of/file.rs::Struct"` -- a struct of another file of /repo imported under another
                # name (`use …::VelocityControl as CoreVelocityControl`): its fields are read from that file's current source
                r_, _, sn_ = flds[1:].partition("::")
                if not flds.startswith("@") or sn_ not in index_of(r_).structs:
                    raise RsError("foreign_structs: %s: no struct %s" % (n, flds))
                if n not in self.fi.structs:
                    self.fi.structs[n] = index_of(r_).structs[sn_]; self.struct_src[n] = "%s (struct %s)" % (r_, sn_)
                continue
            if n not in self.fi.structs:
                self.fi.structs[n] = [(f, Parser(lex(ty) + [Tok("eof", "", 0)], 0, "<foreign>").type_()) for f, ty in flds.items()]
                self.struct_src[n] = "declared in the target list"
        self.externals = externals or {}   # name -> {"params": [rust type str], "ret": rust type str}
        self.fns = {}        # (impl, name) -> FnInfo  (translated)
        self.order = []      # emission order
        self.failed = dict(self.rewrite_failed)     # (impl, name) -> message  (fail closed)
        self.used_fields = {}  # struct -> ordered list of fields
        self.used_enums = []
        self.used_denums = []   # enums with data-carrying variants
        self.in_progress = set()

    # ---- types
    def resolve(self, t, impl=None):
        k = t[0]
        if k == "resolved": return t[1]      # (round 9) parameter of a synthetic function (closure of a `with` external)
        if k == "named":
            n = t[1]
            if n == "Self":
                if impl is None: raise RsError("Self outside impl")
                n = impl
            if n == "_": return ("unknown",)      # `Vec<_>`: left to the initialiser
            if n in self.fi.structs: return ("struct", n)
            if n in self.fi.enums and self.fi.enums[n] is not None:
                if n not in self.used_enums: self.used_enums.append(n)
                return ("enum", n)
            if n in self.fi.enum_data:
                if n not in self.used_denums: self.used_denums.append(n)
                return ("enum", n)
            if n in self.fi.tuple_structs and len(self.fi.tuple_structs[n]) >= 2 \
                    and (self.open_tuple_structs is None or n in self.open_tuple_structs):
                return ("tuple", [self.resolve(x, n) for x in self.fi.tuple_structs[n]])
            if n in self.fi.tuple_structs and len(self.fi.tuple_structs[n]) == 1 \
                    and (self.open_tuple_structs is None or n in self.open_tuple_structs):
                # newtype `struct ChannelId(Vec<u8>)`: its only component (`x.0` and `ChannelId(v)` are the identity)
                t1 = self.resolve(self.fi.tuple_structs[n][0], n)
                self.newtype_reps = getattr(self, "newtype_reps", []) + [t1]
                return t1
            if n in ("Mutex", "Arc", "RefCell", "MutexGuard", "Rc") and len(t[2]) == 1:
                r_ = self.resolve(t[2][0], impl)     # trusted: locking is the identity on the protected value
                if n == "Mutex" and r_[0] == "opaque":
                    # (round 9) remembered so that `.lock()` on a place declared `Mutex<Opaque>` is the identity as well
                    self.mutex_opaques = getattr(self, "mutex_opaques", set()) | {r_[1]}
                return r_
            if n in getattr(self, "vec_types", ()) and len(t[2]) == 1:
                # (round 9) target key `vec_types`: wrappers that deref to a slice of their argument (`vls_protocol::Array<T>`)
                return ("vec", self.resolve(t[2][0], impl))
            if n == "Weak" and len(t[2]) == 1:
                # (round 9) `Weak<T>`: the value if it is still alive -- `Option T`; `.upgrade()` is the identity on it, so
                # `.upgrade().unwrap()` panics exactly when the target is gone
                return ("opt", self.resolve(t[2][0], impl))
            if n == "Into" and len(t[2]) == 1:
                # (round 9) `impl Into<T>` parameter: the only thing the body can do with it is `.into()`; the conversion
                # happens at the caller's type, the parameter is modelled as the `T` it is converted to
                return self.resolve(t[2][0], impl)
            if n in ATOMICS and not t[2]:
                # (b1819) `AtomicUsize` … = the integer it holds; `fetch_add/fetch_sub/store/swap/load` are place
                # operations on it (sequential semantics: the translated functions are single-threaded executions)
                return ("int", ATOMICS[n])
            if n in ("BTreeMap", "OrderedMap", "Map", "HashMap", "UnorderedMap") and len(t[2]) >= 2:
                k = self.resolve(t[2][0], impl)
                # "map": ordered by key (BTreeMap); "umap": no defined iteration order (HashMap)
                kind = "map" if n in ("BTreeMap", "OrderedMap", "Map") else "umap"
                return (kind, k, self.resolve(t[2][1], impl))
            if n in ("__set_o", "__set_u") and len(t[2]) == 1:
                return ("set" if n == "__set_o" else "uset", self.resolve(t[2][0], impl))
            return ("opaque", n)
        if k == "opt": return ("opt", self.resolve(t[1], impl))
        if k == "vec": return ("vec", self.resolve(t[1], impl))
        if k == "array": return ("vec", self.resolve(t[1], impl))
        if k == "tuple": return ("tuple", [self.resolve(x, impl) for x in t[1]])
        if k == "result": return ("result", self.resolve(t[1], impl), self.resolve(t[2], impl))
        return t

    def parse_type(self, s, impl=None):
        toks = lex(s) + [Tok("eof", "", 0)]
        return self.resolve(Parser(toks, 0, "<spec>").type_(), impl)

    def struct_field(self, sname, f):
        for fn, ty in self.fi.structs[sname]:
            if fn == f:
                if ty is None: raise RsError("field %s.%s has a type outside the subset" % (sname, f))
                u = self.used_fields.setdefault(sname, [])
                if f not in u: u.append(f)
                return self.resolve(ty, sname)
        raise RsError("no field %s in struct %s" % (f, sname))

    def variants(self, en):
        """[(variant, None | ("tuple", [resolved type]) | ("struct", [(field, resolved type)]))]"""
        if self.fi.enums.get(en) is not None:
            return [(v, None) for v in self.fi.enums[en]]
        out = []
        for v, pl in self.fi.enum_data[en]:
            if pl is None: out.append((v, None))
            elif pl[0] == "tuple": out.append((v, ("tuple", [self.resolve(x, en) for x in pl[1]])))
            else: out.append((v, ("struct", [(f, self.resolve(x, en)) for f, x in pl[1]])))
        return out

    def variant_types(self, en, v):
        for n, pl in self.variants(en):
            if n == v:
                if pl is None: return None, []
                if pl[0] == "tuple": return None, list(pl[1])
                return [f for f, _ in pl[1]], [x for _, x in pl[1]]
        raise RsError("no variant %s in enum %s" % (v, en))

    def opaques_of(self, t, acc, seen=None):
        seen = seen if seen is not None else set()
        k = t[0]
        if k == "opaque":
            if t[1] not in acc: acc.append(t[1])
        elif k in ("opt", "vec", "set", "uset", "iter"): self.opaques_of(t[1], acc, seen)
        elif k == "map" and t[1] == ("str",): self.opaques_of(t[2], acc, seen)
        elif k in ("map", "umap"):
            self.opaques_of(t[1], acc, seen); self.opaques_of(t[2], acc, seen)
        elif k == "enum" and t[1] in self.fi.enum_data:
            if ("enum", t[1]) in seen: return acc
            seen.add(("enum", t[1]))
            for _, pl in self.variants(t[1]):
                if pl is not None:
                    for x in (pl[1] if pl[0] == "tuple" else [y for _, y in pl[1]]): self.opaques_of(x, acc, seen)
        elif k == "tuple":
            for x in t[1]: self.opaques_of(x, acc, seen)
        elif k == "result": self.opaques_of(t[1], acc, seen)
        elif k == "struct":
            if t[1] in seen: return acc
            seen.add(t[1])
            for f in self.used_fields.get(t[1], []):
                self.opaques_of(self.struct_field(t[1], f), acc, seen)
        return acc

    def closed_type(self, t, seen=None):
        """True iff the Lean type of `t` can never get type parameters: no opaque type anywhere in ALL declared fields
        (not only the fields used so far: `opaques_of` goes by `used_fields`, which grows while the unit is translated,
        so it cannot decide this at the place of a literal).  Conservative: anything unknown is not closed."""
        seen = seen if seen is not None else set()
        k = t[0]
        if k in ("int", "bool", "str", "unit"): return True
        if k in ("opt", "vec", "set", "uset"): return self.closed_type(t[1], seen)
        if k == "tuple": return all(self.closed_type(x, seen) for x in t[1])
        if k == "enum": return self.fi.enums.get(t[1]) is not None
        if k == "struct":
            if t[1] in seen: return True
            seen.add(t[1])
            for fn, ty in self.fi.structs.get(t[1], [(None, None)]):
                if ty is None: return False
                try:
                    rt = self.resolve(ty, t[1])
                except RsError:
                    return False
                if not self.closed_type(rt, seen): return False
            return True
        return False

    def lt(self, t, top=True):
        k = t[0]
        if k == "int": return "Nat" if t[1] in UMAX else "Int"
        if k == "bool": return "Bool"
        if k == "str": return "String"
        if k == "unit": return "Unit"
        if k == "opaque": return t[1]
        if k == "enum":
            ops = self.opaques_of(t, []) if t[1] in self.fi.enum_data else []
            if not ops: return t[1]
            s = t[1] + " " + " ".join(ops)
            return s if top else "(" + s + ")"
        if k == "opt": return "Option %s" % self.lt(t[1], False) if top else "(Option %s)" % self.lt(t[1], False)
        if k == "vec": return "List %s" % self.lt(t[1], False) if top else "(List %s)" % self.lt(t[1], False)
        if k in ("map", "umap"):
            x = "List (%s × %s)" % (self.lt(t[1], False), self.lt(t[2], False))
            return x if top else "(" + x + ")"
        if k in ("set", "uset"):
            return "List %s" % self.lt(t[1], False) if top else "(List %s)" % self.lt(t[1], False)
        if k == "tuple":
            s = " × ".join(self.lt(x, False) for x in t[1])
            return s if top else "(" + s + ")"
        if k == "struct":
            ops = self.opaques_of(t, [])
            if not ops: return t[1]
            s = t[1] + " " + " ".join(ops)
            return s if top else "(" + s + ")"
        raise RsError("no Lean type for %r" % (t,))

    # ---- constants
    def const_value(self, name, local_consts):
        """(int value, type) of an integer constant, evaluated now; ("expr", ast, type) for other constants"""
        if name in local_consts:
            ty, e = local_consts[name]
            return self.const_eval(e, local_consts), ty
        for idx in self.const_idx:
            if name in idx.consts:
                ty, e = idx.consts[name]
                rt = self.resolve(ty)
                if not is_int(rt): return ("expr", e, rt)
                return self.const_eval(e, {}), rt
        return None

    def const_eval(self, e, lc):
        k = e[0]
        if k == "int": return e[1]
        if k == "paren": return self.const_eval(e[1], lc)
        if k == "cast": return self.const_eval(e[1], lc)
        if k == "path":
            if len(e[1]) == 2 and e[1][0] in UBITS and e[1][1] == "MAX": return 2 ** UBITS[e[1][0]] - 1
            if len(e[1]) == 1 or e[1][0] == "Self":
                r = self.const_value(e[1][-1], lc)
                if r: return r[0]
            raise RsError("constant %s not found" % "::".join(e[1]))
        if k == "binary":
            a, b = self.const_eval(e[2], lc), self.const_eval(e[3], lc)
            op = e[1]
            if op == "+": return a + b
            if op == "-": return a - b
            if op == "*": return a * b
            if op == "/": return a // b
            if op == "%": return a % b
            if op == "<<": return a << b
        raise RsError("constant expression outside the subset: %r" % (e,))

    # ---- functions
    def get_fn(self, impl, name):
        key = (impl, name)
        if key in self.fns: return self.fns[key]
        if key in self.failed: raise RsError(self.failed[key])
        if key in self.in_progress: raise RsError("recursive function %s" % name)
        self.in_progress.add(key)
        snap = ({k: list(v) for k, v in self.used_fields.items()}, list(self.used_enums), list(self.used_denums))
        n_order = len(self.order)
        try:
            src = self.fn_src.get(key)
            if src is not None:
                f = src.function(impl, name)
            else:
                f = self.fi.function(impl, name)
            f = dict(f); f["body"] = desugar_iter_mut(f["body"])
            try:
                info = FnTranslator(self, f).run()
            except NeedMutSelf:
                info = FnTranslator(self, f, force_mut=True).run()
            if src is not None: info.rel = src.rel
        except RsError as e:
            self.failed[key] = "%s%s: %s" % ((impl + "::") if impl else "", name, e)
            if len(self.in_progress) == 1:
                self.used_fields, self.used_enums, self.used_denums = snap
                # (round 9) callees translated on the way are dropped with the field usage they recorded (they are
                # translated again when another function asks for them): their structures would otherwise lack fields
                for k_ in self.order[n_order:]: self.fns.pop(k_, None)
                del self.order[n_order:]
            raise RsError(self.failed[key])
        finally:
            self.in_progress.discard(key)
        self.fns[key] = info
        self.order.append(key)
        return info

    def try_fn(self, impl, name):
        keep = _REINDENT[0]
        _REINDENT[0] = bool(getattr(self, "reindent_closures", False))     # closures are rendered while translating
        try:
            return self.get_fn(impl, name)
        except RsError as e:
            self.failed.setdefault((impl, name), str(e))
            return None
        finally:
            _REINDENT[0] = keep

    # ---- emission
    def emit(self):
        L = ["import VlsModel.Prim.Rs",
             "/-! Function bodies translated from `%s` by translate/rs2lean.py (semantics: Prim/Rs.lean)." % self.rel,
             "    Structures list only the fields read or written by the translated functions. -/",
             "namespace %s" % self.ns, "open VlsModel", ""]
        if self.rewrites:
            L[3:3] = ["/-! Source normalisations applied before translation (trusted, declared in translate/x_fn.py; each rule must",
                      "    apply exactly the declared number of times, otherwise nothing of this file is translated):"] + \
                     ["    * %s  (%d×)" % (n, c) for n, c in self.rewrites] + ["-/"]
        for en in self.used_enums:
            L.append("inductive %s" % en)
            L.append("  " + " ".join("| %s" % lid(v) for v in self.fi.enums[en]))
            L.append("deriving DecidableEq, Repr")
            L.append("")
        # structures in dependency order
        done = []
        def deps(t):
            if t[0] == "struct": emit_struct(t[1])
            elif t[0] == "enum" and t[1] in self.fi.enum_data: emit_denum(t[1])
            elif t[0] in ("opt", "vec", "set", "uset"): deps(t[1])
            elif t[0] in ("map", "umap"): deps(t[1]); deps(t[2])
            elif t[0] == "tuple":
                for x in t[1]: deps(x)
        def emit_denum(en):
            if ("enum", en) in done: return
            done.append(("enum", en))
            vs = self.variants(en)
            for _, pl in vs:
                if pl is not None:
                    for x in (pl[1] if pl[0] == "tuple" else [y for _, y in pl[1]]): deps(x)
            ops = self.opaques_of(("enum", en), [])
            L.append("/-- `enum %s` (%s) -/" % (en, self.rel))
            L.append("inductive %s%s where" % (en, (" (" + " ".join(ops) + " : Type)") if ops else ""))
            for v, pl in vs:
                if pl is None: L.append("  | %s" % lid(v))
                elif pl[0] == "tuple":
                    L.append("  | %s %s" % (lid(v), " ".join("(a%d : %s)" % (i, self.lt(x)) for i, x in enumerate(pl[1]))))
                else:
                    L.append("  | %s %s" % (lid(v), " ".join("(%s : %s)" % (lid(f), self.lt(x)) for f, x in pl[1])))
            L.append("deriving DecidableEq, Repr")
            L.append("")
        def emit_struct(s):
            if s in done: return
            done.append(s)
            for f in self.used_fields.get(s, []):
                deps(self.struct_field(s, f))
            ops = self.opaques_of(("struct", s), [])
            L.append("/-- `struct %s` (%s), fields used: %d of %d -/" % (s, self.struct_src.get(s, self.rel), len(self.used_fields.get(s, [])), len(self.fi.structs[s])))
            L.append("structure %s%s where" % (s, (" (" + " ".join(ops) + " : Type)") if ops else ""))
            for f, _ in self.fi.structs[s]:
                if f in self.used_fields.get(s, []):
                    L.append("  %s : %s" % (lid(f), self.lt(self.struct_field(s, f))))
            if not self.used_fields.get(s):
                L.append("  mk ::")
            L.append("deriving DecidableEq, Repr")
            L.append("")
        for s in list(self.used_fields):
            emit_struct(s)
        # structures that only occur in a signature (no field is read or written): emitted without fields
        def sig_structs(t):
            if t[0] == "struct": emit_struct(t[1])
            elif t[0] in ("opt", "vec", "iter", "set", "uset"): sig_structs(t[1])
            elif t[0] in ("map", "umap"): sig_structs(t[1]); sig_structs(t[2])
            elif t[0] == "tuple":
                for x in t[1]: sig_structs(x)
        for key in self.order:
            for _, t in self.fns[key].params: sig_structs(t)
            sig_structs(self.fns[key].out_ty)
        for en in self.used_denums:
            emit_denum(en)
        for key in self.order:
            L += self.fns[key].lean_lines()
            L.append("")
        for key, msg in self.failed.items():
            L.append("-- NOT TRANSLATED (outside the subset, fail closed): %s" % msg.replace("\n", " "))
        L.append("end %s" % self.ns)
        return "\n".join(L) + "\n"


# ---------------------------------------------------------------------------------------------- function
class FnTranslator:
    def __init__(self, unit, f, force_mut=False):
        self.u, self.f = unit, f
        self.force_mut = force_mut
        self.impl = f["impl"]
        self.n = 0
        self.exts = []       # external function parameters: (lean name, lean type string)
        self.ext_opaques = []  # opaque types that occur only in the types of externals (become type parameters)
        self.dropped = []
        self.needs_deq = []
        self.local_consts = {}
        self.callees = []
        self.ext_opaques = []  # opaque types that only occur in the types of externals

    def fresh(self, base="t"):
        self.n += 1
        return "%s_%d" % (base, self.n)

    def add_ext(self, name, ty, ops=()):
        # one parameter per external name; the Lean type of a declared external is a `LazyTy`, rendered at emission
        # time, when all used fields / opaque parameters of the structures it mentions are known
        for o in ops:
            if o not in self.ext_opaques: self.ext_opaques.append(o)
        if name not in [n for n, _ in self.exts]:
            self.exts.append((name, ty))
        for o in ops:
            if o not in self.ext_opaques: self.ext_opaques.append(o)

    def note_ext_opaque(self, o):
        if o not in self.ext_opaques: self.ext_opaques.append(o)

    # ---- entry
    def run(self):
        f, u = self.f, self.u
        env = {}
        params = []
        self.selfk = f["self"]
        if f["self"] in ("val", "valmut"):
            # `self` / `mut self` by value: value semantics anyway (a local `mut self` is shadowed, not returned)
            f = dict(f); f["self"] = "ref"; self.f = f
            self.selfk = "ref"
            self.byval_self = True
        self.trait_self = False
        self.loops = []      # enclosing translated loops (innermost last)
        self.patlets = []    # projections bound by struct patterns, flushed into the arm body
        if f["body"] is None:
            raise RsError("declaration without a body (trait method)")
        if f["self"]:
            if self.impl in u.fi.enum_data or u.fi.enums.get(self.impl) is not None:
                if f["self"] != "ref": raise RsError("&mut self method of an enum")
                st = u.resolve(("named", self.impl, []))
                env["self"] = st
                params.append(("self", st))
            elif self.impl in u.fi.tuple_structs and (u.resolve(("named", self.impl, []))[0] != "opaque"
                    # (round 10, b8) a listed newtype over an opaque component that has declared methods
                    # (`LdkWriterWriteAdaptor<W>(&mut W)` with `W.write_all`): `self` is that component
                    or ((u.open_tuple_structs is None or self.impl in u.open_tuple_structs)
                        and any(k.startswith(u.resolve(("named", self.impl, []))[1] + ".") for k in u.externals))):
                # (b1617, round 9) `&mut self` of a tuple struct listed under tuple_structs: `self` is the tuple / the
                # component itself; writes go through `self.0…` places and the new `self` is returned like a struct's
                st = u.resolve(("named", self.impl, []))
                env["self"] = st
                params.append(("self", st))
            elif self.impl not in u.fi.structs:
                # default method of a trait: `self` is a value of an opaque type; the required methods of the
                # trait it calls become explicit function parameters (externals)
                # (round 9) `&mut self`: the default method returns the new `self`; required `&mut self` methods of the
                # trait are externals `SelfT → args → SelfT × R` (see decl_external)
                self.trait_self = True
                env["self"] = ("opaque", "SelfT")
                params.append(("self", ("opaque", "SelfT")))
            else:
                env["self"] = ("struct", self.impl)
                u.used_fields.setdefault(self.impl, [])
                params.append(("self", ("struct", self.impl)))
        self.mut_params = []
        for pat, ty, ismut, refmut in f["params"]:
            if pat[0] != "pvar": raise RsError("parameter pattern outside the subset")
            t = u.resolve(ty, self.impl)
            env[pat[1]] = t
            params.append((pat[1], t))
            if t[0] == "struct": u.used_fields.setdefault(t[1], [])   # emitted even if no field is read
            if refmut: self.mut_params.append(pat[1])
            if ty[0] == "named" and ty[1] == "Into" and len(ty[2]) == 1:
                self.into_params = getattr(self, "into_params", set()) | {pat[1]}     # `impl Into<T>`: see Unit.resolve
        self.params_pre = params
        for mp in self.mut_params:
            # (round 9) a `&mut` parameter of an opaque type is returned like every other `&mut` parameter; the only things
            # that can be done with it are: move/assign it, hand it on as `&mut`, and call methods declared under
            # `externals` -- a method that changes it must be declared `"updates": true` (see `call_updating`).  Without
            # any declared method on the type the old refusal stays (nothing could be said about what happens to it).
            if env[mp][0] == "opaque" and not any(k.startswith(env[mp][1] + ".") for k in u.externals):
                raise RsError("&mut parameter of an opaque type is outside the subset (no method of %s is declared external)" % env[mp][1])
        self.ret = u.resolve(f["ret"], self.impl)
        self.is_result = self.ret[0] == "result"
        self.val_ty = self.ret[1] if self.is_result else self.ret
        self.params = params
        blk = f["body"]
        self.prescan(blk)
        self.str_lets = self.scan_str_lets(blk, [p[0] for p in params])
        ir = self.stmts(blk[1], blk[2], env, self.fin_return)
        info = FnInfo()
        info.impl, info.name = self.impl, f["name"]
        info.lean_name = (self.impl + "." if self.impl else "") + lid(f["name"])
        if self.impl in u.fi.structs and f["name"] in [fn_ for fn_, _ in u.fi.structs[self.impl]]:
            # (round 9) a method named like a field of its structure (`VelocityApprover::control`): Lean's projection has
            # that name already
            info.lean_name = self.impl + "." + f["name"] + "_fn"
        info.params, info.ret, info.val_ty = params, self.ret, self.val_ty
        info.is_result = self.is_result
        info.mut_self = self.selfk == "mut"
        info.mut_params = list(self.mut_params)
        info.has_self = bool(params) and params[0][0] == "self"
        info.out_names = [n for n, _ in self.out_parts()]
        info.returns_guard = "MutexGuard" in repr(f["ret"]) or "RefMut" in repr(f["ret"])
        info.monadic = self.is_result or monadic(ir)
        info.exts = self.exts
        info.ext_opaques = self.ext_opaques
        info.ext_ops = self.ext_opaques
        info.ir = ir
        info.dropped = self.dropped
        info.needs_deq = self.needs_deq
        info.line, info.text, info.vis = f["line"], f["text"], f["vis"]
        info.line = getattr(u, "line_map", {}).get((self.impl, f["name"]), info.line)
        info.end_line = f["end_line"]
        info.rel = u.rel
        info.unit = u
        info.callees = self.callees
        info.out_ty = self.out_type()
        info.lean_lines = lambda: fn_lean_lines(info)
        return info

    def scan_str_lets(self, blk, param_names):
        """(b1819, derive.rs `let hkdf_info = "c-lightning"; … hkdf_info.as_bytes()`) names bound exactly once in the
        whole body, by `let x = "literal";`, never assigned and not a parameter: name -> the literal.  Only used to spell
        out `x.as_bytes()`; anything else about such a variable is translated as before."""
        lets, bad, count = {}, set(param_names), {}
        def walk(e):
            if isinstance(e, tuple):
                if e and e[0] == "pvar" and len(e) > 1 and isinstance(e[1], str):
                    count[e[1]] = count.get(e[1], 0) + 1      # every binder of the name, whatever the construct
                if e and e[0] == "let" and isinstance(e[1], tuple) and e[1][0] == "pvar" and e[3] is not None and e[3][0] == "str":
                    lets[e[1][1]] = e[3][1]
                if e and e[0] == "assign":
                    try: bad.add(self.place_root(e[2]))
                    except RsError: pass
                if e and e[0] == "ref" and len(e) > 2 and e[2] is True:
                    try: bad.add(self.place_root(e[1]))
                    except RsError: pass
                for x in e: walk(x)
            elif isinstance(e, list):
                for x in e: walk(x)
        walk(blk)
        return {k: v for k, v in lets.items() if k not in bad and count.get(k) == 1}

    def once_bound(self, blk):
        """names with exactly one binder in the whole body, never assigned, never `&mut`-borrowed, not a parameter"""
        bad, count = set(p[0] for p in self.params), {}
        def walk(e):
            if isinstance(e, tuple):
                if e and e[0] == "pvar" and len(e) > 1 and isinstance(e[1], str): count[e[1]] = count.get(e[1], 0) + 1
                if e and e[0] == "assign":
                    try: bad.add(self.place_root(e[2]))
                    except RsError: pass
                if e and e[0] == "ref" and len(e) > 2 and e[2] is True:
                    try: bad.add(self.place_root(e[1]))
                    except RsError: pass
                for x in e: walk(x)
            elif isinstance(e, list):
                for x in e: walk(x)
        walk(blk)
        return set(k for k, n in count.items() if n == 1 and k not in bad)

    def lock_alias(self, e):
        """`X.lock().unwrap()` / `.expect(..)` -> X"""
        if e[0] == "mcall" and e[2] in ("unwrap", "expect") and e[1][0] == "mcall" and e[1][2] == "lock" and not e[1][4]:
            return e[1][1]
        return None

    def find_alias(self, e):
        """`X.iter_mut().find(closure).unwrap()` / `.expect(..)` -> (X, closure)"""
        if e[0] == "mcall" and e[2] in ("unwrap", "expect") and e[1][0] == "mcall" and e[1][2] == "find" and len(e[1][4]) == 1 \
                and e[1][1][0] == "mcall" and e[1][1][2] == "iter_mut" and not e[1][1][4]:
            return e[1][1][1], e[1][4][0]
        return None

    def some_alias(self, e):
        """`X.as_mut().unwrap()` / `.expect(..)` -> ("someof", X): a write-through alias of the content of the Option place X"""
        if e[0] == "mcall" and e[2] in ("unwrap", "expect") and e[1][0] == "mcall" and e[1][2] == "as_mut" and not e[1][4]:
            return ("someof", e[1][1])
        return None

    def prescan(self, blk):
        """a `&self` method that mutates through a lock, or calls one that does, returns the new self as well"""
        if self.selfk != "ref" or getattr(self, "byval_self", False): return
        if self.force_mut:
            self.selfk = "mut"; return
        def walk(e, fn):
            if isinstance(e, tuple):
                if e and e[0] == "macro": return
                fn(e)
                for x in e: walk(x, fn)
            elif isinstance(e, list):
                for x in e: walk(x, fn)
        aliases = []
        def f1(e):
            if e and e[0] == "let" and e[1][0] == "pvar" and e[3] is not None and self.lock_alias(e[3]) is not None:
                if self.place_root(self.lock_alias(e[3])) == "self": aliases.append(e[1][1])
        walk(blk, f1)
        if aliases:
            A = self.assigned(blk, [], set(["__none__"]))
            # `assigned` skips names declared by let: look for mutations by hand
            muts = []
            def f2(e):
                if e and e[0] == "mcall" and e[2] in MUT_METHODS and e[1][0] == "path" and e[1][1][0] in aliases: muts.append(1)
                if e and e[0] == "assign":
                    try:
                        if self.place_root(e[2]) in aliases: muts.append(1)
                    except RsError:
                        pass
            walk(blk, f2)
            if muts: self.selfk = "mut"
        calls = []
        def f3(e):
            if e and e[0] == "mcall" and e[1] == ("path", ["self"]) and (self.impl, e[2]) in self.u.fi.fns \
                    and ("self." + e[2]) not in self.u.externals \
                    and (self.impl, e[2]) not in self.u.fi.decl_only: calls.append(e[2])
        walk(blk, f3)
        for m in calls:
            if (self.impl, m) == (self.impl, self.f["name"]): continue
            info = self.u.get_fn(self.impl, m)
            if info.mut_self: self.selfk = "mut"

    def out_parts(self):
        parts = []
        if self.selfk == "mut":     # (a tuple struct listed under tuple_structs is its tuple / component: b1617, round 9;
            # a trait default method with `&mut self` returns the opaque `SelfT`: bfn, round 9)
            parts.append(("self", ("opaque", "SelfT") if getattr(self, "trait_self", False) else
                          (dict(self.params)["self"] if self.impl in self.u.fi.tuple_structs and self.params
                           and self.params[0][0] == "self" else ("struct", self.impl))))
        for mp in self.mut_params:
            parts.append((mp, dict(self.params)[mp]))
        return parts

    def out_type(self):
        parts = [t for _, t in self.out_parts()]
        if self.val_ty != UNIT or not parts: parts.append(self.val_ty)
        return parts[0] if len(parts) == 1 else ("tuple", parts)

    def pack(self, env, term):
        """the value returned by the Lean function for Rust return value `term`"""
        parts = [lid(n) for n, _ in self.out_parts()]
        if self.val_ty != UNIT or not parts: parts.append(term)
        return parts[0] if len(parts) == 1 else "(" + ", ".join(parts) + ")"

    # ---- finalisers
    def fin_return(self, env, tail):
        """tail position of the function: `tail` is an expression AST or None"""
        if tail is None:
            if self.val_ty != UNIT: raise RsError("missing tail expression")
            return P(self.pack(env, "()"))
        return self.tail(tail, env)

    def tail(self, e, env):
        k = e[0]
        if k == "paren": return self.tail(e[1], env)
        if k == "block": return self.stmts(e[1], e[2], env, self.fin_return)
        if k == "return":
            return self.fin_return(env, e[1])
        if k in ("if", "iflet", "match"):
            return self.control(e, env, lambda env2, t: self.fin_return(env2, t))
        if self.is_result:
            return self.result_comp(e, env)
        pre = []
        term, ty = self.expr(e, env, pre, self.val_ty if (self.val_ty[0] != "opaque" or e[0] == "macro") else None)   # (a diverging macro keeps the declared type: b1819's `unimplemented!()` bodies)
        if self.val_ty[0] == "opaque" and ty[0] == "struct" and self.ret == self.val_ty:
            # (b0507) a struct value returned where the signature names a type the unit does not know
            # (`Arc<dyn Validator>`, `Box<dyn Policy>`): rustc accepted it, so it is the unsizing coercion of that struct
            # to a trait object; the generated definition returns the concrete struct
            self.dropped.append("unsizing coercion of the returned %s to the declared %s" % (ty[1], self.val_ty[1]))
            self.ret = self.val_ty = ty
        self.check_ty(ty, self.val_ty, "return value")
        return self.wrap(pre, P(self.pack(env, term)))

    def result_comp(self, e, env):
        """IR computing a Result-typed expression in tail position of a Result-returning function"""
        if e[0] == "call" and e[1][0] == "path" and e[1][1] == ["Ok"]:
            pre = []
            term, ty = self.expr(e[2][0], env, pre, self.val_ty if self.val_ty != ("unknown",) else None)
            self.ret_seen = getattr(self, "ret_seen", []) + [ty]
            self.check_ty(ty, self.val_ty, "Ok value")
            return self.wrap(pre, P(self.pack(env, term)))
        if e[0] == "try" and e[1][0] == "call" and e[1][1] == ("path", ["Err"]):
            return self.result_comp(e[1], env)      # (round 9) `return Err(e)?;` = `return Err(e.into());`
        if e[0] == "macro" and e[1] in ("panic", "unreachable", "unimplemented", "todo") and self.val_ty != ("unknown",):
            # (round 10, b8) a diverging macro as the whole Result-typed tail (`fn f(..) -> Result<T, E> { unimplemented!() }`):
            # panics in every build, like the same macro in a non-Result function
            pre = []
            term, _ty = self.expr(e, env, pre, self.val_ty)
            return self.wrap(pre, P(self.pack(env, term)))
        if e[0] == "call" and e[1][0] == "path" and e[1][1] == ["Err"]:
            pre = []
            tag = self.err_tag(e[2][0], env, pre)
            return self.wrap(pre, MCall("Rs.fail %s" % tag))
        if e[0] == "mcall" and e[1] == ("path", ["self"]) and self.impl and (self.impl, e[2]) in self.u.fi.fns:
            info = self.u.get_fn(self.impl, e[2])
            if info.mut_self and info.is_result and self.selfk == "mut" and info.val_ty == self.val_ty:
                pre = []
                a = self.args_for(info, e[4], env, pre)
                for x in info.exts: self.add_ext(*x, ops=getattr(info, 'ext_opaques', ()))
                for o in info.needs_deq:          # (b04, round 9) the callee's [DecidableEq T] needs are the caller's too
                    if o not in self.needs_deq: self.needs_deq.append(o)
                self.callees.append(info.lean_name)
                return self.wrap(pre, MCall(" ".join([info.lean_name] + [n for n, _ in info.exts] + ["self"] + a)))
        if e[0] in ("call", "mcall"):
            pre = []
            r = self.call_any(e, env, pre, want_result=True)
            if r is not None and r[2] in ("comp", "tried"): self.ret_seen = getattr(self, "ret_seen", []) + [r[1]]
            if r is not None and r[2] == "comp":
                if self.selfk == "mut" or self.mut_params:
                    v = self.fresh("r")
                    return self.wrap(pre, Bind(v, MCall(r[0]), P(self.pack(env, v))))
                return self.wrap(pre, MCall(r[0]))
            if r is not None and r[2] == "tried":
                self.check_ty(r[1], self.val_ty, "tail call")
                return self.wrap(pre, P(self.pack(env, r[0])))
        raise RsError("Result-typed tail expression outside the subset: %s" % e[0])

    def log_only_iflet_err(self, s, var):
        """statement `if let Err(..) = var { logging macros only }` (no else)"""
        if not (s[0] == "expr" and s[1][0] == "iflet" and s[1][4] is None): return False
        _, pat, scrut, body, _ = s[1]
        if scrut != ("path", [var]) or pat[0] != "pctor" or pat[1] != ["Err"]: return False
        if body[0] != "block" or body[2] is not None: return False
        logs = LOG_MACROS + tuple(getattr(self.u, "log_macros", ()))
        return all(it[0] == "expr" and it[1][0] == "macro" and it[1][1] in logs for it in body[1])

    def err_tag(self, e, env, pre):
        """Lean String term standing for an error value"""
        if e[0] == "unit": return '"()"'
        if e[0] == "path": return '"%s"' % "::".join(e[1])
        if e[0] == "call" and e[1][0] == "path" and e[1][1][-1] == "policy_error":
            term, ty = self.expr(e[2][0], env, pre, ("str",))
            self.dropped.append("message of policy_error(..)")
            return term
        if e[0] == "call" and e[1][0] == "path" and e[1][1][-1] == "temporary_policy_error" and len(e[2]) == 2:
            # (b0507) policy/error.rs: same tag, kind TemporaryPolicy instead of Policy (as for temporary_policy_err!)
            term, ty = self.expr(e[2][0], env, pre, ("str",))
            self.dropped.append("message and the `temporary` kind of temporary_policy_error(..)")
            return term
        if e[0] == "call" and e[1][0] == "path" and e[1][1][-1] in self.u.error_ctors and len(e[2]) == 1:
            # declared error constructor carrying a list of indices: tag = "<prefix> " ++ toString list
            if e[2][0][0] in ("macro", "str"):
                # a message: dropped, the error is its constructor's tag
                self.dropped.append("message of %s(..)" % e[1][1][-1])
                return '"%s"' % self.u.error_ctors[e[1][1][-1]]
            term, ty = self.expr(e[2][0], env, pre, None)
            if ty[0] != "vec" or not is_uint(ty[1]): raise RsError("error constructor argument outside the subset")
            return '("%s " ++ toString %s)' % (self.u.error_ctors[e[1][1][-1]], term)
        if e[0] == "mcall" and e[2] == "into":
            return self.err_tag(e[1], env, pre)
        if e[0] == "mcall" and e[2] == "unwrap_err" and e[1][0] == "path" and len(e[1][1]) == 1 \
                and env.get(e[1][1][0], (None,))[0] == "captured":
            t = self.fresh("t")        # (b0507) the error of a captured Result is raised again
            pre.append(("bind", t, MCall("Rs.unwrapErr %s" % lid(e[1][1][0]))))
            return t
        # util/status.rs: `Status::internal(msg)`, `invalid_argument(msg)`, … -- the error class is the constructor, the
        # message is dropped
        if e[0] == "call" and e[1][0] == "path" and "::".join(e[1][1]) in STATUS_ERRS:
            self.dropped.append("message of %s(..)" % "::".join(e[1][1]))
            return '"%s"' % STATUS_ERRS["::".join(e[1][1])]
        raise RsError("error value outside the subset")

    def compat(self, a, b):
        """equal up to element types not yet known (`Vec::new()` without annotation: Lean infers them)"""
        if a == ("unknown",) or b == ("unknown",): return True
        if isinstance(a, (tuple, list)) and isinstance(b, (tuple, list)) and len(a) == len(b) and type(a) == type(b):
            return all(self.compat(x, y) for x, y in zip(a, b))
        return a == b

    def check_ty(self, got, want, what):
        if got == INTLIT and is_int(want): return
        if got != want and not self.compat(got, want):
            raise RsError("type mismatch in %s: %r vs %r" % (what, got, want))

    def wrap(self, pre, body):
        for ent in reversed(pre):
            if ent[0] == "bind": body = Bind(ent[1], ent[2], body)
            elif ent[0] == "let": body = Let(ent[1], ent[2], body)
            elif ent[0] == "optq":
                body = Match(ent[2], [("some %s" % ent[1], body), ("none", P(self.pack(None, "none")))])
            else: raise AssertionError(ent)
        return body

    # ---- statements
    def has_return(self, e):
        if isinstance(e, tuple):
            if e and e[0] == "return": return True
            if e and e[0] == "closure": return False
            if e and e[0] == "macro": return False
            return any(self.has_return(x) for x in e)
        if isinstance(e, list):
            return any(self.has_return(x) for x in e)
        return False

    def has_jump(self, e, inner=False):
        """`return` anywhere (closures excepted), or `break`/`continue` of the loop whose body `e` is part of"""
        if isinstance(e, tuple):
            if e and e[0] == "return": return True
            if e and e[0] in ("break", "continue"): return not inner
            if e and e[0] in ("closure", "macro"): return False
            if e and e[0] in ("for", "while", "whilelet", "loop"):
                return any(self.has_jump(x, True) for x in e[1:])
            return any(self.has_jump(x, inner) for x in e)
        if isinstance(e, list):
            return any(self.has_jump(x, inner) for x in e)
        return False

    def has_try(self, e):
        if isinstance(e, tuple):
            if e and e[0] == "try": return True
            if e and e[0] == "macro" and e[1] in ("policy_err", "temporary_policy_err", "transaction_format_err"): return True
            if e and e[0] == "macro": return False
            return any(self.has_try(x) for x in e)
        if isinstance(e, list):
            return any(self.has_try(x) for x in e)
        return False

    def assigned(self, e, acc, declared):
        """variables (declared outside) assigned inside e"""
        if isinstance(e, list):
            declared = set(declared)
            for x in e: self.assigned(x, acc, declared)
            return acc
        if not isinstance(e, tuple) or not e: return acc
        k = e[0]
        if k == "block":
            d = set(declared)
            for s in e[1]: self.assigned(s, acc, d)
            if e[2] is not None: self.assigned(e[2], acc, d)
            return acc
        if k == "let":
            if e[3] is not None: self.assigned(e[3], acc, declared)
            # (b1315, round 9) a write-through alias declared inside the construct (`let x = X.lock().unwrap()`,
            # `X.as_mut().unwrap()`, `X.iter_mut().find(..).unwrap()`, `&mut X`) is not a new variable: a write through it
            # is a write to the root of X.  It used to count as a local, so that the enclosing if/match/for did not
            # carry the written place over (the write was lost: monitor.rs `on_transaction_output`).
            tgt = None
            if e[1][0] == "pvar" and e[3] is not None:
                init = e[3]
                if self.lock_alias(init) is not None: tgt = self.lock_alias(init)
                elif self.some_alias(init) is not None: tgt = self.some_alias(init)[1]
                elif self.find_alias(init) is not None: tgt = self.find_alias(init)[0]
                elif init[0] == "ref" and len(init) > 2: tgt = init[1]
            aroots = self.__dict__.setdefault("_aroots", {})
            if tgt is not None:
                try:
                    aroots[e[1][1]] = self.alias_root(tgt)
                    return acc
                except RsError:
                    pass
            for v in self.pat_vars(e[1]):
                declared.add(v); aroots.pop(v, None)
            return acc
        if k == "assign":
            r = self.alias_root(e[2])
            if r not in declared and r not in acc: acc.append(r)
            self.assigned(e[3], acc, declared)
            return acc
        if k == "ref" and len(e) > 2:
            # `&mut place` handed to a callee: the place may be assigned
            try:
                r = self.alias_root(e[1])
                if r not in declared and r not in acc: acc.append(r)
            except RsError:
                pass
        if k == "mcall" and e[2] in ("or_insert", "and_modify", "or_insert_with", "or_default"):
            x = e
            while x[0] == "mcall" and x[2] != "entry": x = x[1]
            if x[0] == "mcall":
                try:
                    r = self.alias_root(x[1])
                    if r not in declared and r not in acc: acc.append(r)
                except RsError:
                    pass
        if k == "mcall":
            if e[2] in MUT_METHODS or e[2] == "take" or self.is_mut_self_call(e) or e[2] in ATOMIC_OPS \
                    or any(n.endswith("." + e[2]) and x.get("updates_receiver") for n, x in self.u.externals.items()):
                try:
                    r = self.alias_root(e[1])
                    if r not in declared and r not in acc: acc.append(r)
                except RsError:
                    pass
        if k == "macro": return acc
        for x in e[1:]:
            if isinstance(x, (tuple, list)): self.assigned(x, acc, declared)
        return acc

    def alias_root(self, place):
        """root variable of a place, seen through the write-through aliases recorded by `assigned`"""
        r = self.place_root(place)
        aroots = self.__dict__.get("_aroots", {})
        seen = set()
        while r in aroots and r not in seen:
            seen.add(r); r = aroots[r]
        return r

    def is_mut_self_call(self, e):
        impl = None
        if e[1] == ("path", ["self"]) and self.impl: impl = self.impl
        elif e[1][0] == "path" and len(e[1][1]) == 1 and e[1][1][0] in getattr(self, "mut_params", []):
            t = dict(self.params_pre).get(e[1][1][0])
            if t and t[0] == "struct": impl = t[1]
        def mut_recv(k, key=None):
            if not isinstance(k, int): return False
            t = self.u.fn_src.get(key, self.u.fi).toks      # (functions of other files: target key `fns_from`)
            j = k
            while t[j].s != "(": j += 1
            return t[j + 1].s == "&" and t[j + 2].s == "mut"
        if impl:
            info = self.u.fns.get((impl, e[2]))
            if info is not None and info.mut_self: return True     # also `&self` methods that mutate through a lock
            return mut_recv(self.u.fi.fns.get((impl, e[2])), (impl, e[2]))
        if any(k.endswith("." + e[2]) and v.get("updates") for k, v in self.u.externals.items()): return True
        if e[1] == ("path", ["self"]): return False
        # any other receiver (field, alias, local of a struct type of this file): by name, conservatively
        return any(mut_recv(k, (im, nm)) for (im, nm), k in self.u.fi.fns.items() if nm == e[2])

    def pat_vars(self, p):
        k = p[0]
        if k == "pvar": return [p[1]]
        if k == "ptuple": return [v for x in p[1] for v in self.pat_vars(x)]
        if k == "pctor": return [v for x in p[2] for v in self.pat_vars(x)]
        if k == "pstruct": return [v for _, x in p[2] for v in self.pat_vars(x)]
        if k == "por": return [v for x in p[1] for v in self.pat_vars(x)]
        return []

    def place_root(self, e):
        k = e[0]
        if k == "path" and len(e[1]) == 1: return e[1][0]
        if k in ("field", "tfield", "index", "deref", "paren", "ref", "someof"): return self.place_root(e[1])
        if k == "mcall" and e[2] in ("as_mut", "borrow_mut", "as_mut_slice") and not e[4]: return self.place_root(e[1])
        if k == "mcall" and self.lock_alias(e) is not None: return self.place_root(self.lock_alias(e))   # `*X.lock().unwrap() = v`
        raise RsError("assignment target outside the subset")

    def stmts(self, items, tail, env, fin):
        """IR of statements `items` followed by `tail`, finished by fin(env, tail)"""
        if not items:
            return fin(env, tail)
        st, rest = items[0], items[1:]
        k = st[0]
        if k == "const":
            self.local_consts[st[1]] = (self.u.resolve(st[2], self.impl), st[3])
            return self.stmts(rest, tail, env, fin)
        if k == "let":
            _, pat, ty, e, line = st
            if e is None: raise RsError("let without initialiser (line %d)" % line)
            # (b06, round 9) locals bound to a by-value copy `let [mut] v = <expr>.clone();`: a `&mut self` method of
            # the file may be called on them (the write cannot alias anything else); any other `let` of the name ends that
            if pat[0] == "pvar":
                owned = getattr(self, "owned_locals", None)
                if owned is None: owned = self.owned_locals = set()
                if e[0] == "mcall" and e[2] == "clone" and not e[4]: owned.add(pat[1])
                else: owned.discard(pat[1])
            want = self.u.resolve(ty, self.impl) if ty is not None else None
            if want is None and pat[0] == "pvar" and e[0] == "struct" and len(e) > 3 and e[3] is None \
                    and not self.mentions([rest, tail], pat[1]):
                # (round 9, bfn) `let x = S { .. };` whose only readers are logging macros (dropped): the literal would have
                # no expected type in Lean; its field expressions are still evaluated (their panics stay), the value is not bound
                pre = []
                self.expr(e, env, pre, None)
                self.dropped.append("local `%s` (line %d): a struct literal only read by dropped logging macros" % (pat[1], line))
                env2 = dict(env)
                env2[pat[1]] = ("dropped",)
                return self.wrap(pre, self.stmts(rest, tail, env2, fin))
            if want is None and pat[0] == "pvar" and e[0] == "call" and e[1][0] == "path" and len(e[1][1]) == 2 \
                    and e[1][1][1] in ("new", "with_capacity", "default") and self.f["body"][2] == ("path", [pat[1]]) \
                    and self.val_ty[0] in ("vec", "map", "umap", "set", "uset"):
                want = self.val_ty     # `let mut r = Map::new(); …; r`: the variable is the function's result
            al = self.lock_alias(e)
            if al is not None and pat[0] == "pvar":
                _, at = self.expr(al, env, [], None)
                env2 = dict(env)
                env2[pat[1]] = ("alias", al, at)
                return self.stmts(rest, tail, env2, fin)
            if e[0] == "ref" and len(e) > 2 and pat[0] == "pvar":
                # (b1315, round 9) `let x = &mut a.b.c;`: x is a write-through alias of the place.  It used to be bound
                # like a value, so that writes through x (`x.f = e`, `x.m()` for a `&mut self` method) were silently lost
                # (monitor.rs `PushListener::on_transaction_start/_output`).  Only plain field paths; anything else is refused.
                tgt = e[1]
                while tgt[0] == "paren": tgt = tgt[1]
                t2 = tgt
                while t2[0] == "field": t2 = t2[1]
                if t2[0] != "path" or len(t2[1]) != 1:
                    raise RsError("`let x = &mut place` on a place that is not a field path (line %d)" % line)
                _, at = self.expr(tgt, env, [], None)
                env2 = dict(env)
                env2[pat[1]] = ("alias", tgt, at)
                return self.stmts(rest, tail, env2, fin)
            if pat[0] == "pvar" and ("let:" + pat[1]) in self.u.externals:
                return self.let_external(pat[1], e, line, rest, tail, env, fin)
            if pat[0] == "pvar" and ty is None and e[0] in ("call", "mcall") and self.is_result and tail == ("path", [pat[1]]) \
                    and rest and all(self.log_only_iflet_err(s, pat[1]) for s in rest):
                # (b0507) `let res = f(..); if let Err(ref e) = res { <logging only> } res`: the Result of the call is
                # passed on unchanged; the logging block is dropped like every logging macro
                self.dropped.append("`if let Err(..) = %s { logging only }` after line %d" % (pat[1], line))
                return self.stmts([], e, env, fin)
            if e[0] == "macro" and e[1] == "scoped_debug_return" and pat[0] == "pvar" \
                    and "scoped_debug_return" not in getattr(self.u, "log_macros", ()):
                # util/debug_utils.rs: a guard that `debug!`-prints its arguments when it is dropped while its flag is
                # still set; the only thing the function does with it is `*guard = false` before returning Ok
                self.dropped.append("scoped_debug_return! guard `%s` at line %d (logging only)" % (pat[1], line))
                env2 = dict(env)
                env2[pat[1]] = ("dropped",)
                return self.stmts(rest, tail, env2, fin)
            fa = self.find_alias(e)
            if fa is not None and pat[0] == "pvar":
                # `let h = X.iter_mut().find(|h| pred).unwrap();`: h is a write-through alias of the first element of
                # the vector place X that satisfies pred (panic if there is none)
                X, clo = fa
                if self.place_root(X) != "self": raise RsError("iter_mut().find() on a vector that is not part of self")
                pre = []
                base, bt = self.expr(X, env, pre, None)
                if bt[0] != "vec": raise RsError("iter_mut().find() on a non-vector")
                pats, ir, t = self.closure1(clo, [bt[1]], env, BOOL)
                if monadic(ir): raise RsError("effectful predicate closure")
                self.check_ty(t, BOOL, "find")
                iv = self.fresh("i")
                pre.append(("bind", iv, MCall("Rs.unwrap (%s.findIdx? (fun %s => %s))" % (base, pats[0], inline(ir)))))
                env2 = dict(env)
                env2[iv] = ("int", "usize")
                env2[pat[1]] = ("alias", ("index", X, ("path", [iv])), bt[1])
                return self.wrap(pre, self.stmts(rest, tail, env2, fin))
            sa = self.some_alias(e)
            if sa is not None and pat[0] == "pvar":
                pre = []
                _, at = self.expr(sa, env, pre, None)      # the unwrap happens (and may panic) here
                env2 = dict(env)
                env2[pat[1]] = ("alias", sa, at)
                pre[-1] = ("bind", "_", pre[-1][2])
                return self.wrap(pre, self.stmts(rest, tail, env2, fin))
            if e[0] in ("if", "iflet", "match") and self.has_jump(e):
                if pat[0] == "pvar" and not getattr(self, "in_loop", False):
                    # (b0507) `let x = if c { a } else { …; return e };`: the rest of the function is continued in every
                    # branch that yields a value (as for `if` statements with `return`), `x` bound to that value
                    return self.control(e, env, lambda env2, t: self.stmts([("let", pat, ty, t, line)] + list(rest), tail, env2, fin))
                raise RsError("return inside a let initialiser (line %d)" % line)
            if pat[0] == "pvar" and e[0] == "mcall" and e[2] in ("unwrap", "expect") and e[1][0] == "mcall" \
                    and e[1][2] == "try_into" and not e[1][4]:
                # (b1819, derive.rs) `let x: [T; N] = slice.try_into().unwrap();`, or without annotation when `x` is bound
                # once, never assigned, and stands as a component of the function's tail tuple whose declared type is
                # `[T; N]` (that is where rustc takes the array type from): `Rs.arrayOfSlice N slice` (panic unless len = N)
                aty = ty
                if aty is None and self.f["body"][2] is not None and pat[1] in self.once_bound(self.f["body"]):
                    tl, rt = self.f["body"][2], self.f["ret"]
                    if rt is not None and rt[0] == "result" and tl[0] == "call" and tl[1] == ("path", ["Ok"]) and len(tl[2]) == 1:
                        tl, rt = tl[2][0], rt[1]
                    if tl == ("path", [pat[1]]): aty = rt
                    elif tl[0] == "tuple" and rt is not None and rt[0] == "tuple" and len(tl[1]) == len(rt[1]):
                        ix = [i for i, c in enumerate(tl[1]) if c == ("path", [pat[1]])]
                        if len(ix) == 1: aty = rt[1][ix[0]]
                if aty is None or aty[0] != "array" or aty[2][0] != "int":
                    raise RsError("try_into().unwrap() without a known array type [T; N] (line %d)" % line)
                pre = []
                term, t = self.expr(e[1][1], env, pre, None)
                if t[0] != "vec": raise RsError("try_into on %r" % (t,))
                self.check_ty(t, self.u.resolve(aty, self.impl), "let at line %d" % line)
                env2 = dict(env)
                lp = self.bind_pat(pat, t, env2)
                pre.append(("bind", lp, MCall("Rs.arrayOfSlice %d %s" % (int(aty[2][1]), self.paren(term)))))
                return self.wrap(pre, self.stmts(rest, tail, env2, fin))
            if ty is None and pat[0] == "pvar" and self.lit_only(e) and e[0] != "int":
                return self.let_inferred(pat, e, env, rest, tail, fin, line)    # e.g. `let mut min = 1 << 48;`
            pre = []
            self.last_guard = False
            try:
                term, t = self.expr(e, env, pre, want)
            except RsError as ex:
                if "Result-valued call used as a value" not in str(ex) or pat[0] != "pvar" or ty is not None \
                        or e[0] not in ("call", "mcall"):
                    raise
                # (b0507) `let r = f(..);` with a `Result`-valued call of a translated function: the `Err` is captured as a
                # value (`Rs.capture`; a panic / overflow of the callee still propagates here); `r` can then only be asked
                # `is_ok() / is_err()` and re-raised by `Err(r.unwrap_err())`
                pre = []
                r = self.call_any(e, env, pre, want_result=True)
                if r is None or r[2] != "comp": raise
                env2 = dict(env)
                lp = self.bind_pat(pat, ("captured", r[1]), env2)
                pre.append(("bind", lp, MCall("Rs.capture (%s)" % r[0])))
                return self.wrap(pre, self.stmts(rest, tail, env2, fin))
            if self.last_guard and pat[0] == "pvar":
                # the value of a function that returns a MutexGuard: a copy here, so writes through it would be lost
                self.guard_vars = getattr(self, "guard_vars", set()) | {pat[1]}
            if want is not None:
                self.check_ty(t, want, "let at line %d" % line)
                if "unknown" not in repr(want): t = want
            if t == INTLIT:
                if pat[0] != "pvar" or ty is not None:
                    raise RsError("integer literal without a type (line %d)" % line)
                return self.let_inferred(pat, e, env, rest, tail, fin, line)
            env2 = dict(env)
            lp = self.bind_pat(pat, t, env2)
            # rename the last temporary instead of an extra let
            if pre and pre[-1][0] in ("bind", "let") and pre[-1][1] == term and pat[0] == "pvar":
                pre[-1] = (pre[-1][0], lp, pre[-1][2])
            elif t[0] == "struct" and term.startswith("{ ") and t[1] in getattr(self.u, "ascribe_let_structs", ()):
                # (b0507) a struct literal bound by `let` whose type Lean cannot infer from a later use (a local struct
                # declared as a view): ascribed
                pre.append(("let", lp, "(%s : %s)" % (term, self.u.lt(t))))
            else:
                pre.append(("let", lp, term))
            pre += self.flush_patlets()
            return self.wrap(pre, self.stmts(rest, tail, env2, fin))
        if k == "letelse":
            # `let P = e else { diverges };`  =  match e { P => rest, _ => else-block }
            _, pat, ty, e, els, line = st
            want = self.u.resolve(ty, self.impl) if ty is not None else None
            pre = []
            term, t = self.expr(e, env, pre, want)
            env2 = dict(env)
            lp = self.pat(pat, t, env2)
            lets = self.flush_patlets()
            def nofall(envx, tl):
                if tl is not None and tl[0] in ("return", "break", "continue"):
                    return self.stmt_expr(tl, [], None, envx, nofall)
                if tl is not None and tl[0] == "macro" and tl[1] in ("panic", "unreachable", "unimplemented", "todo"):
                    return MCall("Rs.panic")
                raise RsError("else block of let-else that does not diverge (line %d)" % line)
            eir = self.stmts(els[1], els[2], env, nofall)
            body = self.wrap(lets, self.stmts(rest, tail, env2, fin))
            return self.wrap(pre, Match(term, [(lp, body), ("_", eir)]))
        if k == "expr":
            e = st[1]
            return self.stmt_expr(e, rest, tail, env, fin)
        raise RsError("statement outside the subset: %s" % k)

    def snap_state(self):
        """copy of the mutable translation state (for trial translations that may fail)"""
        import copy
        st = {k: copy.copy(v) for k, v in self.__dict__.items()
              if isinstance(v, (list, dict, set, int, str, tuple, bool, type(None)))}
        return (st, copy.deepcopy(self.u.used_fields))

    def restore_state(self, s):
        import copy
        for k, v in s[0].items():
            setattr(self, k, copy.copy(v))
        self.u.used_fields.clear(); self.u.used_fields.update(copy.deepcopy(s[1]))

    def lit_only(self, e):
        """an expression made of unsuffixed integer literals and arithmetic/shift operators only"""
        if e[0] == "paren": return self.lit_only(e[1])
        if e[0] == "int": return not e[2]
        if e[0] == "binary" and e[1] in ("+", "-", "*", "<<", ">>", "&", "|", "^"): return self.lit_only(e[2]) and self.lit_only(e[3])
        return False

    def let_inferred(self, pat, e, env, rest, tail, fin, line):
        """`let x = <expression made of untyped integer literals>;` without annotation: the type is the one rustc
        infers from the later uses of `x`.  The rest of the function is type-checked with `x : T` for every unsigned
        integer type T (operands of a binary operation / arguments must have equal types here as in Rust); the
        translation is accepted only if exactly ONE T type-checks (fail closed otherwise, e.g. when `x` is only
        cast, where rustc would default to i32)."""
        snap, restore = self.snap_state, self.restore_state
        s0 = snap()
        good, why = [], []
        for cand in ("u64", "u32", "usize", "u16", "u8", "u128"):
            t = ("int", cand)
            try:
                pre = []
                term, t2 = self.expr(e, env, pre, t)
                self.check_ty(t2, t, "let at line %d" % line)
                env2 = dict(env)
                lp = self.bind_pat(pat, t, env2)
                pre.append(("let", lp, term))
                ir = self.wrap(pre, self.stmts(rest, tail, env2, fin))
                good.append((cand, ir, snap()))
            except RsError as ex:
                why.append("%s: %s" % (cand, ex))
            restore(s0)
        if len(good) != 1:
            raise RsError("integer literal without a type (line %d): %d unsigned types fit the later uses%s"
                          % (line, len(good), (" [" + why[2] + "]") if not good and len(why) > 2 else ""))
        restore(good[0][2])
        return good[0][1]

    def let_external(self, name, e, line, rest, tail, env, fin):
        """`let <name> = <callee>(<expression outside the subset>)` declared in the target list as
        `"let:<name>": {"callee": f, "args": [vars], "ret": T}`: the value becomes the external function
        `ext_let_<name>` of exactly the listed variables.  Fail closed: the initialiser must still be a call of
        `callee` and its free variables must be exactly the declared ones."""
        spec = self.u.externals["let:" + name]
        x = e
        while x[0] in ("paren", "ref", "deref"): x = x[1]
        if spec["callee"] == "*":
            x = ("any", None, x)       # (round 9) any initialiser: an uninterpreted function of exactly the declared variables
        elif not (x[0] == "call" and x[1][0] == "path" and x[1][1][-1] == spec["callee"]):
            raise RsError("initialiser of `%s` (line %d) is not a call of %s" % (name, line, spec["callee"]))
        fv = []
        def walk(a):
            if isinstance(a, tuple):
                if a and a[0] == "macro":
                    # (round 9) a `"partial"` initialiser may contain `assert!`/`format!`…: every identifier token of the
                    # macro's arguments that names a variable in scope counts as read (an over-approximation)
                    if not spec.get("partial"): raise RsError("macro inside the opaque initialiser of `%s`" % name)
                    for tk in a[2]:
                        if tk.k == "id" and tk.s in env and tk.s not in fv: fv.append(tk.s)
                    return
                if len(a) == 2 and a[0] == "path" and isinstance(a[1], list) and len(a[1]) == 1 and a[1][0] in env \
                        and a[1][0] not in fv:
                    fv.append(a[1][0])
                for y in a: walk(y)
            elif isinstance(a, list):
                for y in a: walk(y)
        walk(x[2])
        if sorted(fv) != sorted(spec["args"]):
            raise RsError("the initialiser of `%s` (line %d) reads %s, declared: %s" % (name, line, sorted(fv), sorted(spec["args"])))
        rt = self.u.parse_type(spec["ret"], self.impl)
        pre, terms, tys = [], [], []
        for a in spec["args"]:
            term, t = self.expr(("path", [a]), env, pre, None)
            terms.append(term if " " not in term or term.startswith("(") else "(" + term + ")")
            tys.append(t)
        u = self.u
        lty = LazyTy(u, tys, rt, "Rs.M" if spec.get("partial") else None)     # (round 9) "partial": it may panic (`expect`, `assert!`)
        for t in tys + [rt]:
            self.u.opaques_of(t, self.ext_opaques)
        ident = "ext_let_" + name
        self.add_ext(ident, lty)
        self.dropped.append("initialiser of `%s` at line %d: `%s(..)` is not interpreted, it is the external %s of (%s)"
                            % (name, line, spec["callee"], ident, ", ".join(spec["args"])))
        env2 = dict(env)
        env2[name] = rt
        if spec.get("partial"): pre.append(("bind", lid(name), MCall("%s %s" % (ident, " ".join(terms)))))
        else: pre.append(("let", lid(name), "(%s %s)" % (ident, " ".join(terms))))
        return self.wrap(pre, self.stmts(rest, tail, env2, fin))

    def bind_pat(self, pat, t, env):
        """Lean pattern text for a Rust irrefutable pattern; extends env"""
        k = pat[0]
        if k == "pvar":
            env[pat[1]] = t; return lid(pat[1])
        if k == "pwild": return "_"
        if k == "ptuple":
            if t[0] != "tuple" or len(t[1]) != len(pat[1]): raise RsError("tuple pattern mismatch")
            return "(" + ", ".join(self.bind_pat(p, x, env) for p, x in zip(pat[1], t[1])) + ")"
        if k == "pstruct" and t[0] == "struct":
            return self.pat(pat, t, env)
        raise RsError("refutable pattern in let")

    def stmt_expr(self, e, rest, tail, env, fin):
        k = e[0]
        cont = lambda env2: self.stmts(rest, tail, env2, fin)
        if k == "paren": return self.stmt_expr(e[1], rest, tail, env, fin)
        if k == "return":
            if self.loops: return self.loop_return(env, e[1])
            return self.fin_return(env, e[1])
        if k in ("break", "continue"):
            if not self.loops: raise RsError("%s outside a translated loop" % k)
            if k == "break":
                if self.loops[-1].get("nobreak"): raise RsError("break inside this loop form is outside the subset")
                self.loops[-1]["flow"] = True
                return P("(.brk %s)" % self.loops[-1]["tup"])
            if self.loops[-1].get("nocontinue"): raise RsError("continue inside a counted while loop is outside the subset")
            self.loops[-1]["flow"] = True
            return P("(.next %s)" % self.loops[-1]["tup"])
        if k == "macro":
            pre = []
            self.macro_stmt(e, env, pre)
            return self.wrap(pre, cont(env))
        if k == "assign":
            try:
                root = self.place_root(e[2])
            except RsError:
                root = None
            if root in env and env[root] == ("dropped",):
                if e[3][0] != "bool": raise RsError("assignment to a logging guard of something else than a literal")
                return cont(env)
            pre = []
            env2 = self.assign(e, env, pre)
            return self.wrap(pre, cont(env2))
        if k == "if" and self.u.compact_guards and e[3] is None:
            g = self.guard_macro(e[2])
            if g is not None:
                pre = []
                c, ct = self.expr(e[1], env, pre, BOOL)
                self.check_ty(ct, BOOL, "if condition")
                for lg in g[1]:
                    self.dropped.append("%s! at line %d (logging: arguments not evaluated)" % (lg[1], lg[3]))
                m = g[0]
                a = split_macro_args(m[2], self.u.rel)
                if a[0] != ("path", ["self"]): raise RsError("%s! on something else than self" % m[1])
                if not self.is_result: raise RsError("%s! in a function that does not return Result" % m[1])
                ct_ = c if c.startswith("(") or " " not in c else "(" + c + ")"
                if m[1] == "policy_err":
                    if not (self.trait_self or "self" in env): raise RsError("policy_err! without self")
                    tag, t = self.expr(a[1], env, pre, ("str",))
                    self.check_ty(t, ("str",), "policy_err! tag")
                    self.add_ext("policy_filter_err", "String → Bool")
                    self.dropped.append("message arguments of policy_err! at line %d" % m[3])
                    pre.append(("bind", "_", MCall("Rs.policyErrIf policy_filter_err %s %s" % (tag, ct_))))
                else:
                    if a[1][0] != "str": raise RsError("transaction_format_err! without a literal tag")
                    self.dropped.append("tag %s and message arguments of transaction_format_err! at line %d" % (a[1][1], m[3]))
                    pre.append(("bind", "_", MCall("Rs.failIf \"transaction-format\" %s" % ct_)))
                return self.wrap(pre, cont(env))
        if k in ("if", "iflet", "match", "block"):
            if self.has_jump(e):
                # the rest of the function is appended to every branch (fail closed on shadowing)
                def k2(env2, t):
                    if t is not None and t[0] not in ("unit",):
                        # value of a unit-typed statement expression: evaluate for effect
                        return self.stmt_expr(t, rest, tail, env2, fin)
                    for v in env2:
                        if v in env and env2[v] != env[v]:
                            raise RsError("variable %s shadowed inside a branch with return" % v)
                    return self.stmts(rest, tail, {v: env2[v] for v in env2 if v in env}, fin)
                if k == "block":
                    return self.stmts(e[1], e[2], env, k2)
                return self.control(e, env, k2)
            # no return inside: join on the assigned variables
            A = self.assigned(e, [], set())
            A = [("self" if (v in env and env[v][0] == "alias") else v) for v in A if v in env]
            A = [v for i, v in enumerate(A) if v not in A[:i]]
            for v in A:
                if v != "self" and v not in env: raise RsError("assignment to unknown variable %s" % v)
            tup = "()" if not A else (lid(A[0]) if len(A) == 1 else "(" + ", ".join(lid(v) for v in A) + ")")
            def fin2(env2, t):
                if t is not None and t[0] != "unit":
                    return self.stmt_expr(t, [], None, env2, fin2)
                return P(tup)
            if k == "block":
                ir = self.stmts(e[1], e[2], env, fin2)
            else:
                ir = self.control(e, env, fin2)
            pat = "_" if not A else tup
            if not A and not monadic(ir):
                return cont(env)   # no effect at all (e.g. only logging)
            return Bind(pat, ir, cont(env))
        if k == "for":
            return self.for_stmt(e, env, cont)
        if k in ("while", "whilelet"):
            return self.while_stmt(e, env, cont)
        if k == "loop":
            raise RsError("`loop` has no structural (fuel-free) form: outside the subset")
        if k == "mcall" and e[2] == "map" and len(e[4]) == 1 and e[4][0][0] == "closure" and len(e[4][0][1]) == 1:
            # `opt.map(|x| effect);` as a statement = `if let Some(x) = opt { effect; }`
            c = e[4][0]
            body = c[2] if c[2][0] == "block" else ("block", [("expr", c[2], e[5])], None)
            return self.stmt_expr(("iflet", ("pctor", ["Some"], [c[1][0]]), e[1], body, None), rest, tail, env, fin)
        ent = self.entry_chain(e) if k == "mcall" else None
        if ent is not None:
            return self.stmt_expr(ent, rest, tail, env, fin)
        if k in ("mcall", "call", "try"):
            pre = []
            env2 = self.effect_call(e, env, pre)
            return self.wrap(pre, cont(env2))
        if k == "unit":
            return cont(env)
        raise RsError("expression statement outside the subset: %s" % k)

    def guard_macro(self, blk):
        """`{ [log!(..);]* policy_err!(..) | transaction_format_err!(..) [;] }` -> (macro, [log macros]) else None"""
        if blk[0] != "block": return None
        items = [it for it in blk[1]]
        if blk[2] is not None: items = items + [("expr", blk[2])]
        logs = []
        for it in items[:-1]:
            if it[0] == "expr" and it[1][0] == "macro" and it[1][1] in LOG_MACROS: logs.append(it[1])
            else: return None
        if not items: return None
        last = items[-1]
        if last[0] == "expr" and last[1][0] == "macro" and last[1][1] in ("policy_err", "transaction_format_err"):
            return last[1], logs
        return None

    def control(self, e, env, fin):
        """if / if-let / match whose branches are finished by fin(env, tail_ast)"""
        k = e[0]
        if k == "if":
            pre = []
            c, ct = self.expr(e[1], env, pre, BOOL)
            self.check_ty(ct, BOOL, "if condition")
            a = self.stmts(e[2][1], e[2][2], env, fin)
            if e[3] is None:
                b = fin(env, None)
            elif e[3][0] == "block":
                b = self.stmts(e[3][1], e[3][2], env, fin)
            else:
                b = self.control(e[3], env, fin)
            return self.wrap(pre, If(c, a, b))
        if k == "iflet":
            els = e[4] if e[4] is not None else ("block", [], None)
            arms = [(e[1], None, e[3]), (("pwild",), None, els)]
            return self.match_(e[2], arms, env, fin)
        if k == "match":
            return self.match_(e[1], e[2], env, fin)
        raise AssertionError(k)

    def match_(self, scrut, arms, env, fin):
        pre = []
        if scrut[0] == "tuple":
            parts = [self.expr(x, env, pre, None) for x in scrut[1]]
            sterm = ", ".join(p[0] for p in parts)
            stys = [p[1] for p in parts]
            sty = ("tuple", stys)
        else:
            sterm, sty = self.expr(scrut, env, pre, None)
        out = []
        if any(g is not None for _, g, _ in arms):
            return self.wrap(pre, self.guarded(sterm, sty, scrut[0] == "tuple", arms, env, fin))
        for pat, guard, body in arms:
            env2 = dict(env)
            if scrut[0] == "tuple":
                if pat[0] == "pwild":
                    lp = ", ".join("_" for _ in stys)
                elif pat[0] == "ptuple" and len(pat[1]) == len(stys):
                    lp = ", ".join(self.pat(p, t, env2) for p, t in zip(pat[1], stys))
                else:
                    raise RsError("tuple match pattern mismatch")
            else:
                lp = self.pat(pat, sty, env2)
            lets = self.flush_patlets()
            if body[0] == "block":
                ir = self.stmts(body[1], body[2], env2, fin)
            else:
                ir = self.stmts([], body, env2, fin)
            out.append((lp, self.wrap(lets, ir)))
        return self.wrap(pre, Match(sterm, out))

    def entry_chain(self, e):
        """`m.entry(k).or_insert(v)` / `.and_modify(|e| body).or_insert(v)` / `.and_modify(|e| body)` as a statement:
        rewritten into `if let Some(mut e) = m.get(&k).copied() { body; m.insert(k, e); } else { m.insert(k, v); }`
        (the key must be a variable or a field path, the default a variable, field path or literal: both are used twice)"""
        chain = []
        x = e
        while x[0] == "mcall" and x[2] in ("or_insert", "and_modify") and len(x[4]) == 1:
            chain.append((x[2], x[4][0])); x = x[1]
        if not chain or x[0] != "mcall" or x[2] != "entry" or len(x[4]) != 1: return None
        chain.reverse()
        names = [c[0] for c in chain]
        if names not in (["or_insert"], ["and_modify", "or_insert"], ["and_modify"]):
            raise RsError("entry API chain %s is outside the subset" % ".".join(names))
        def simple(a):
            while a[0] in ("paren", "ref", "deref"): a = a[1]
            if a[0] == "mcall" and a[2] == "clone" and not a[4]: return simple(a[1])
            return a[0] in ("int", "bool") or (a[0] == "path" and len(a[1]) == 1) or (a[0] == "field" and simple(a[1]))
        m, key = x[1], x[4][0]
        if not simple(key): raise RsError("entry(k) with a key that is not a variable or field path")
        line = e[5]
        ins = lambda val: ("expr", ("mcall", m, "insert", None, [key, val], line), line)
        then_stmts, els = [], None
        var = "entry_e"
        if names[0] == "and_modify":
            c = chain[0][1]
            if c[0] != "closure" or len(c[1]) != 1 or c[1][0][0] != "pvar": raise RsError("and_modify closure")
            var = c[1][0][1]
            body = c[2]
            then_stmts = list(body[1]) + ([("expr", body[2], line)] if body[2] is not None else []) if body[0] == "block" \
                else [("expr", body, line)]
            then_stmts.append(ins(("path", [var])))
        if names[-1] == "or_insert":
            v = chain[-1][1]
            if not simple(v): raise RsError("or_insert(v) with a default that is not a variable, field path or literal")
            els = ("block", [ins(v)], None)
        got = ("mcall", ("mcall", m, "get", None, [("ref", key)], line), "copied", None, [], line)
        return ("iflet", ("pctor", ["Some"], [("pvar", var)]), got, ("block", then_stmts, None), els)

    def flush_patlets(self):
        r = [("let", v, term) for v, term in self.patlets]
        self.patlets = []
        return r

    def irrefutable(self, p):
        if p[0] in ("pwild", "pvar"): return True
        if p[0] == "ptuple": return all(self.irrefutable(x) for x in p[1])
        return False

    def guarded(self, sterm, sty, is_tuple, arms, env, fin):
        """match with guards: an arm `P if g => A` is `match s with | P => if g then A else REST | _ => REST`
        where REST is the match on the remaining arms (Rust tries the arms in order; a failed guard falls through)"""
        if not arms: raise RsError("match whose last arm has a guard")
        pat, guard, body = arms[0]
        env2 = dict(env)
        if is_tuple:
            if pat[0] == "pwild": lp = ", ".join("_" for _ in sty[1])
            elif pat[0] == "ptuple" and len(pat[1]) == len(sty[1]):
                lp = ", ".join(self.pat(p, t, env2) for p, t in zip(pat[1], sty[1]))
            else: raise RsError("tuple match pattern mismatch")
        else:
            lp = self.pat(pat, sty, env2)
        lets = self.flush_patlets()
        def arm_ir():
            if body[0] == "block": return self.stmts(body[1], body[2], env2, fin)
            return self.stmts([], body, env2, fin)
        irref = self.irrefutable(pat)
        if guard is None:
            if irref or len(arms) == 1:
                return Match(sterm, [(lp, self.wrap(lets, arm_ir()))])
            # the remaining arms, tried when P does not match
            restm = self.guarded(sterm, sty, is_tuple, arms[1:], env, fin)
            if any(g is not None for _, g, _ in arms[1:]):
                return Match(sterm, [(lp, self.wrap(lets, arm_ir())), ("_" if not is_tuple else ", ".join("_" for _ in sty[1]), restm)])
            # no more guards: one flat match
            return Match(sterm, [(lp, self.wrap(lets, arm_ir()))] + restm.arms)
        gpre = []
        g, gt = self.expr(guard, env2, gpre, BOOL)
        self.check_ty(gt, BOOL, "match guard")
        rest1 = self.guarded(sterm, sty, is_tuple, arms[1:], env, fin)
        inner = self.wrap(lets, self.wrap(gpre, If(g, arm_ir(), rest1)))
        if irref:
            return Match(sterm, [(lp, inner)])
        rest2 = self.guarded(sterm, sty, is_tuple, arms[1:], env, fin)
        return Match(sterm, [(lp, inner), ("_" if not is_tuple else ", ".join("_" for _ in sty[1]), rest2)])

    def pat(self, p, t, env):
        k = p[0]
        if k == "pwild": return "_"
        if k == "pvar":
            env[p[1]] = t; return lid(p[1])
        if k == "plit":
            if not is_int(t): raise RsError("integer pattern on a non-integer")
            return str(p[1])
        if k == "pbool": return "true" if p[1] else "false"
        if k == "ptuple":
            if t[0] != "tuple" or len(t[1]) != len(p[1]): raise RsError("tuple pattern mismatch")
            return "(" + ", ".join(self.pat(x, y, env) for x, y in zip(p[1], t[1])) + ")"
        if k == "pctor":
            name = p[1][-1]
            if name == "Some" and t[0] == "opt" and len(p[2]) == 1:
                return "some " + self.patp(p[2][0], t[1], env)
            if t[0] == "enum" and t[1] in self.u.fi.enum_data and (len(p[1]) == 1 or p[1][-2] in (t[1], "Self")):
                names, tys = self.u.variant_types(t[1], name)
                if names is not None or len(tys) != len(p[2]): raise RsError("variant pattern arity: %s" % name)
                return "." + lid(name) + "".join(" " + self.patp(x, y, env) for x, y in zip(p[2], tys))
            raise RsError("constructor pattern outside the subset: %s" % "::".join(p[1]))
        if k == "pstruct":
            name = p[1][-1]
            if t[0] == "enum" and t[1] in self.u.fi.enum_data and (len(p[1]) == 1 or p[1][-2] in (t[1], "Self")):
                names, tys = self.u.variant_types(t[1], name)
                if names is None: raise RsError("struct pattern on a tuple variant")
                given = dict(p[2])
                for f in given:
                    if f not in names: raise RsError("no field %s in variant %s" % (f, name))
                if not p[3] and len(given) != len(names): raise RsError("struct pattern misses fields")
                return "." + lid(name) + "".join(" " + (self.patp(given[f], y, env) if f in given else "_") for f, y in zip(names, tys))
            if t[0] == "struct" and name in (t[1], "Self"):
                # only irrefutable sub-patterns: the fields are projected from a fresh variable
                v = self.fresh("s")
                for f, fp in p[2]:
                    ft = self.u.struct_field(t[1], f)
                    if fp[0] == "pwild": continue
                    if fp[0] != "pvar": raise RsError("nested pattern inside a struct pattern")
                    env[fp[1]] = ft
                    self.patlets.append((lid(fp[1]), "%s.%s" % (v, lid(f))))
                return v
            raise RsError("struct pattern outside the subset: %s" % "::".join(p[1]))
        if k == "ppath":
            name = p[1][-1]
            if name == "None" and t[0] == "opt": return "none"
            if t[0] == "enum" and name in [v for v, _ in self.u.variants(t[1])] and (len(p[1]) == 1 or p[1][-2] in (t[1], "Self")):
                return "." + lid(name)
            raise RsError("path pattern outside the subset: %s" % "::".join(p[1]))
        if k == "por":
            before = dict(env)
            alts = [self.pat(x, t, env) for x in p[1]]
            if env != before: raise RsError("or-pattern that binds variables")
            return " | ".join(alts)
        if k == "pstr":
            if t != ("str",): raise RsError("string pattern on a non-string")
            return json.dumps(p[1], ensure_ascii=False)
        raise RsError("pattern outside the subset")

    def patp(self, p, t, env):
        s = self.pat(p, t, env)
        return "(" + s + ")" if " " in s and not s.startswith("(") else s

    # ---- macros
    def macro_stmt(self, e, env, pre):
        name, toks, line = e[1], e[2], e[3]
        if name in LOG_MACROS or name in getattr(self.u, "log_macros", ()):
            self.dropped.append("%s! at line %d (logging: arguments not evaluated)" % (name, line))
            return
        if name in ("assert", "debug_assert"):
            a = split_macro_args(toks, self.u.rel)
            c, t = self.expr(a[0], env, pre, BOOL)
            self.check_ty(t, BOOL, "assert!")
            pre.append(("bind", "_", MCall("Rs.assert %s" % c)))
            return
        if name in ("assert_eq", "assert_ne", "debug_assert_eq", "debug_assert_ne"):
            a = split_macro_args(toks, self.u.rel)
            c, t = self.expr(("binary", "==" if name.endswith("eq") else "!=", a[0], a[1]), env, pre, BOOL)
            pre.append(("bind", "_", MCall("Rs.assert %s" % c)))
            return
        if name == "scoped_debug_return":
            raise RsError("scoped_debug_return! outside `let <var> = scoped_debug_return!(..)`")
        if name in ("policy_err", "temporary_policy_err"):
            if name == "temporary_policy_err":
                # same filter decision (policy/mod.rs temporary_policy_error_with_filter); the error value differs
                # only in its `temporary` kind, which the outcome type `Rs.Fail.err tag` does not carry
                self.dropped.append("the `temporary` kind of the error of temporary_policy_err! at line %d" % line)
            a = split_macro_args(toks, self.u.rel)
            # receiver: `self`, or a local bound to a declared-and-dropped external such as `self.validator()` (its value
            # is `()`: whichever validator it is, its policy filter is the external `policy_filter_err`)
            via_local = a[0][0] == "path" and len(a[0][1]) == 1 and env.get(a[0][1][0]) in (UNIT, ("opaque", "Validator"))
            # (b06, round 9) ... or a parameter of the opaque type `Validator` (`Arc<dyn Validator>`): the macro only reads
            # its policy filter, which is the same external `policy_filter_err`
            if a[0] != ("path", ["self"]) and not via_local: raise RsError("policy_err! on something else than self")
            if not (self.trait_self or "self" in env): raise RsError("policy_err! without self")
            tag, t = self.expr(a[1], env, pre, ("str",))
            self.check_ty(t, ("str",), "policy_err! tag")
            if not self.is_result: raise RsError("policy_err! in a function that does not return Result")
            self.add_ext("policy_filter_err", "String → Bool")
            self.dropped.append("message arguments of policy_err! at line %d" % line)
            pre.append(("bind", "_", MCall("Rs.policyErr policy_filter_err %s" % tag)))
            return
        if name == "transaction_format_err":
            # vls-core/src/policy/error.rs: `return Err(transaction_format_error(format!(..)))` - unconditional (the
            # policy filter is not consulted and the tag argument is not part of the error value)
            a = split_macro_args(toks, self.u.rel)
            if a[0] != ("path", ["self"]): raise RsError("transaction_format_err! on something else than self")
            if a[1][0] != "str": raise RsError("transaction_format_err! without a literal tag")
            if not self.is_result: raise RsError("transaction_format_err! in a function that does not return Result")
            self.dropped.append("tag %s and message arguments of transaction_format_err! at line %d" % (a[1][1], line))
            pre.append(("bind", "_", MCall("(Rs.fail \"transaction-format\" : Rs.M Unit)")))
            return
        if name in ("panic", "unreachable", "unimplemented", "todo"):
            pre.append(("bind", "_", MCall("(Rs.panic : Rs.M Unit)")))
            return
        raise RsError("macro %s! is outside the subset (line %d)" % (name, line))

    # ---- places and assignment
    def place_get(self, e, env, pre):
        return self.expr(e, env, pre, None)

    def place_set(self, e, new, env, pre):
        """emit bindings that store Lean term `new` into place e; returns new env"""
        k = e[0]
        if k in ("paren", "deref", "ref"): return self.place_set(e[1], new, env, pre)
        if k == "path" and len(e[1]) == 1:
            v = e[1][0]
            if v not in env: raise RsError("assignment to unknown variable %s" % v)
            if env[v][0] == "alias":
                return self.place_set(env[v][1], new, env, pre)
            if v in getattr(self, "guard_vars", ()):
                raise RsError("write through the MutexGuard returned by a function (%s) is outside the subset" % v)
            if v == "self" and self.selfk == "ref" and not getattr(self, "byval_self", False) and not self.trait_self \
                    and env.get("self", ("",))[0] == "struct":
                # a `&self` method writes `self` (interior mutability through an alias the prescan did not follow):
                # the updated self must be returned, never dropped
                raise NeedMutSelf()
            pre.append(("let", lid(v), new))
            return env
        if k == "field":
            base, bt = self.expr(e[1], env, pre, None)
            if bt[0] != "struct": raise RsError("field assignment on a non-struct")
            self.u.struct_field(bt[1], e[2])
            return self.place_set(e[1], "{ %s with %s := %s }" % (base, lid(e[2]), new), env, pre)
        if k == "someof":
            return self.place_set(e[1], "(some %s)" % new, env, pre)
        if k == "mcall" and e[2] in ("as_mut", "borrow_mut", "as_mut_slice") and not e[4]:
            return self.place_set(e[1], new, env, pre)
        if k == "mcall" and self.lock_alias(e) is not None:
            # (round 9) `*X.lock().unwrap() = v`: the lock is the identity, the write goes to the place X
            return self.place_set(self.lock_alias(e), new, env, pre)
        if k == "tfield":
            base, bt = self.expr(e[1], env, pre, None)
            if bt[0] != "tuple" and e[2] == 0 and bt in getattr(self.u, "newtype_reps", []):
                return self.place_set(e[1], new, env, pre)      # `.0` of a newtype listed under tuple_structs (b1617)
            if bt[0] != "tuple": raise RsError("tuple field assignment on a non-tuple")
            n = len(bt[1])
            comps = [(new if j == e[2] else base + ".2" * j + (".1" if j < n - 1 else "")) for j in range(n)]
            return self.place_set(e[1], "(" + ", ".join(comps) + ")", env, pre)
        if k == "index":
            base, bt = self.expr(e[1], env, pre, None)
            if bt[0] != "vec": raise RsError("index assignment on a non-vector")
            i, it = self.expr(e[2], env, pre, ("int", "usize"))
            self.check_ty(it, ("int", "usize"), "index")
            t = self.fresh("v")
            pre.append(("bind", t, MCall("Rs.setIndex %s %s %s" % (base, i, new))))
            return self.place_set(e[1], t, env, pre)
        raise RsError("assignment target outside the subset")

    def assign(self, e, env, pre):
        _, op, l, r = e
        try:
            root = self.place_root(l)
        except RsError:
            root = None
        if root is not None and env.get(root) == UNIT and getattr(self.u, "log_macros", ()):
            self.dropped.append("assignment through the logging guard `%s` (value `()`)" % root)
            return env
        lt_term, lty = self.place_get(l, env, []) if op != "=" or True else (None, None)
        if op == "=":
            term, t = self.expr(r, env, pre, lty)
            self.check_ty(t, lty, "assignment")
            return self.place_set(l, term, env, pre)
        bop = op[:-1]
        term, t = self.expr(("binary", bop, l, r), env, pre, lty)
        return self.place_set(l, term, env, pre)

    def effect_call(self, e, env, pre):
        """expression statement that is a call: mutating Vec methods on a place, &mut self methods, `?` calls"""
        if e[0] == "mcall" and any(n.endswith("." + e[2]) and x.get("updates_receiver") for n, x in self.u.externals.items()):
            # (b1819) declared external `T.m` with flag "updates_receiver": a `&mut self` method of a value of an opaque /
            # foreign type (`HashEngine::input`): `X.m(args);` is `X = ext_T_m(X, args)` — a pure function from the old
            # receiver and the arguments to the new receiver (its declared `ret` must be `T`)
            try:
                self.place_root(e[1]); _, bt0 = self.expr(e[1], env, [], None)
            except RsError:
                bt0 = None
            if bt0 is not None and bt0[0] in ("opaque", "struct"):
                nm = "%s.%s" % (bt0[1], e[2])
                if nm in self.u.externals and self.u.externals[nm].get("updates_receiver"):
                    term, t, _ = self.call_external(nm, [e[1]] + list(e[4]), env, pre)
                    self.check_ty(t, bt0, nm)
                    return self.place_set(e[1], term, env, pre)
        user_method = False
        if e[0] == "mcall" and e[2] in MUT_METHODS:
            # (round 9) a method of a structure of the unit that happens to be named like a collection method
            # (`VelocityControl::clear`): the user's method, not the collection's
            n0 = self.n
            try:
                _, pt0 = self.expr(e[1], env, [], None)
                user_method = pt0[0] in ("struct", "enum") and (pt0[1], e[2]) in self.u.fi.fns
            except RsError:
                pass
            self.n = n0
        if e[0] == "mcall" and e[2] in MUT_METHODS and not user_method:
            recv = e[1]
            base, bt = self.place_get(recv, env, pre)
            if bt[0] == "vec":
                m, a = e[2], e[4]
                el = bt[1]
                if m == "resize":
                    n, nt = self.expr(a[0], env, pre, ("int", "usize")); self.check_ty(nt, ("int", "usize"), "resize")
                    x, xt = self.expr(a[1], env, pre, el); self.check_ty(xt, el, "resize")
                    return self.place_set(recv, "(Rs.vecResize %s %s %s)" % (base, n, x), env, pre)
                if m == "insert":
                    i, it = self.expr(a[0], env, pre, ("int", "usize")); self.check_ty(it, ("int", "usize"), "insert")
                    x, xt = self.expr(a[1], env, pre, el); self.check_ty(xt, el, "insert")
                    t = self.fresh("v")
                    pre.append(("bind", t, MCall("Rs.vecInsert %s %s %s" % (base, i, x))))
                    return self.place_set(recv, t, env, pre)
                if m == "push":
                    x, xt = self.expr(a[0], env, pre, el); self.check_ty(xt, el, "push")
                    return self.place_set(recv, "(%s ++ [%s])" % (base, x), env, pre)
                if m == "clear":
                    return self.place_set(recv, "[]", env, pre)
                if m == "truncate":
                    n, nt = self.expr(a[0], env, pre, ("int", "usize"))
                    return self.place_set(recv, "(%s.take %s)" % (base, n), env, pre)
            if bt[0] == "map" and bt[1] == ("str",) and e[2] == "insert" and len(e[4]) == 2:
                k, kt = self.expr(e[4][0], env, pre, ("str",)); self.check_ty(kt, ("str",), "map key")
                x, xt = self.expr(e[4][1], env, pre, bt[2]); self.check_ty(xt, bt[2], "map value")
                return self.place_set(recv, "(Rs.smapInsert %s %s %s)" % (base, k, x), env, pre)
            if bt[0] == "map" and bt[1] == ("str",) and e[2] == "remove":
                k, kt = self.expr(e[4][0], env, pre, ("str",)); self.check_ty(kt, ("str",), "map key")
                return self.place_set(recv, "(Rs.smapRemove %s %s)" % (base, k), env, pre)
            if bt[0] == "map" and bt[1] == ("str",) and e[2] == "clear" and not e[4]:
                return self.place_set(recv, "[]", env, pre)      # (b1617, round 9) BTreeMap<String, V>::clear
            if e[2] == "copy_from_slice" and len(e[4]) == 1:
                dst = recv
                while dst[0] in ("paren", "ref"): dst = dst[1]
                U = ("int", "usize")
                if dst[0] == "index" and dst[2][0] == "range":
                    place = dst[1]
                    base, bt2 = self.expr(place, env, pre, None)
                    _, ra, rb, incl = dst[2]
                    if incl: raise RsError("copy_from_slice into an inclusive range")
                    a = "0"
                    if ra is not None:
                        a, at = self.expr(ra, env, pre, U); self.check_ty(at, U, "slice start")
                    b = "%s.length" % base
                    if rb is not None:
                        b, btt = self.expr(rb, env, pre, U); self.check_ty(btt, U, "slice end")
                else:
                    place = dst
                    base, bt2 = self.expr(place, env, pre, None)
                    a, b = "0", "%s.length" % base
                if bt2[0] != "vec": raise RsError("copy_from_slice on a non-slice")
                src, st = self.expr(e[4][0], env, pre, bt2)
                self.check_ty(st, bt2, "copy_from_slice")
                v = self.fresh("v")
                pre.append(("bind", v, MCall("Rs.copyFromSlice %s %s %s %s" % (base, self.paren(a), self.paren(b), self.paren(src)))))
                return self.place_set(place, v, env, pre)
            r = self.mutator(recv, e[2], e[4], env, pre, None, discard=True)
            if r is not None: return env
            # (b1012, round 9) a struct of the unit with a method of its own that happens to be named like a collection mutator
            # (`VelocityControl::clear`): the ordinary call of a `&mut self` method on a place, below
            if not (bt[0] == "struct" and self.u.fi.fns.get((bt[1], e[2])) not in (None, "ambiguous")):
                raise RsError("mutating method %s on %r is outside the subset" % (e[2], bt[0]))
        term, t = self.expr(e, env, pre, None)
        if t != UNIT:
            # a discarded value: fine if pure (its bindings stay for their panics)
            pass
        return env

    def for_stmt(self, e, env, cont, ctx=None):
        """`for x in <lit>..<lit>` (both bounds unsuffixed literals): the type of `x` is the one rustc infers from its
        uses; the loop (and what follows it) is type-checked with every unsigned type, exactly one must fit."""
        it = e[2]
        while it[0] == "paren": it = it[1]
        if it[0] == "range" and it[1] is not None and it[2] is not None and it[1][0] == "int" and not it[1][2] \
                and it[2][0] == "int" and not it[2][2] and getattr(self, "_range_force", None) is None:
            s0 = self.snap_state()
            good = []
            for cand in ("u64", "u32", "usize", "u16", "u8", "u128"):
                self._range_force = (id(it), ("int", cand))
                try:
                    ir = self.for_stmt_inner(e, env, cont, ctx)
                    self._range_force = None
                    good.append((cand, ir, self.snap_state()))
                except RsError:
                    pass
                self._range_force = None
                self.restore_state(s0)
                self._range_force = None
            if len(good) != 1:
                raise RsError("range over untyped literals: %d unsigned types fit the uses of the loop variable" % len(good))
            self.restore_state(good[0][2])
            self._range_force = None
            return good[0][1]
        return self.for_stmt_inner(e, env, cont, ctx)

    def for_stmt_inner(self, e, env, cont, ctx=None):
        _, pat, it, body = e
        ctx = ctx or {}
        if self.has_try(body) and not self.is_result:
            raise RsError("? inside a for loop of a function that does not return Result is outside the subset")
        jumps = self.has_jump(body)
        pre = []
        it0 = it
        while it0[0] == "paren": it0 = it0[1]
        if it0[0] == "mcall" and it0[2] == "iter_mut" and not it0[4]:
            # (round 9) `for x in v.iter_mut() { *x = e; }` with `e` free of partial operations: `v := v.map (fun x => e)`
            sts = list(body[1]) + ([("expr", body[2], 0)] if body[2] is not None else [])
            a = sts[0][1] if len(sts) == 1 and sts[0][0] == "expr" else None
            if pat[0] == "pvar" and a is not None and a[0] == "assign" and a[1] == "=" and a[2] == ("deref", ("path", [pat[1]])) \
                    and not self.has_partial(a[3]) and not jumps and not self.has_try(body):
                base, bt = self.place_get(it0[1], env, pre)
                if bt[0] != "vec": raise RsError("iter_mut on a non-vector")
                env2 = dict(env); env2[pat[1]] = bt[1]
                pre2 = []
                term, t = self.expr(a[3], env2, pre2, bt[1])
                if pre2: raise RsError("for over iter_mut(): the assigned expression has effects")
                self.check_ty(t, bt[1], "element assigned through iter_mut")
                env = self.place_set(it0[1], "(%s.map (fun %s => %s))" % (base, lid(pat[1]), term), env, pre)
                return self.wrap(pre, cont(env))
            raise RsError("for over iter_mut() other than `*x = <expression without partial operations>;` is outside the subset")
        self.allow_unordered = self.keyed_update_loop(pat, body)
        try:
            lst, elt = self.iter_expr(it, env, pre)
        finally:
            self.allow_unordered = False
        A = [("self" if env[v][0] == "alias" else v) for v in self.assigned(body, [], set()) if v in env]
        A = [v for i, v in enumerate(A) if v not in A[:i]]
        if not jumps:
            # a loop whose only effect is leaving the function with an error (`?`, policy_err!, transaction_format_err!
            # in a Result function): the failure of `List.foldlM` over the unit state stops it exactly there
            if not A and not self.has_try(body):
                raise RsError("for loop without effect on outer variables")
            tup = "()" if not A else (lid(A[0]) if len(A) == 1 else "(" + ", ".join(lid(v) for v in A) + ")")
            env2 = dict(env)
            xp = self.pat(pat, elt, env2)
            lets = self.flush_patlets()
            def fin2(envb, t):
                if t is not None and t[0] != "unit":
                    return self.stmt_expr(t, [], None, envb, fin2)
                return P(tup)
            self.loops.append({"tup": tup, "plain": True})
            try:
                bir = self.wrap(lets, self.stmts(body[1], body[2], env2, fin2))
            finally:
                self.loops.pop()
            if not A:
                if not monadic(bir): raise RsError("for loop without effect on outer variables")
                fn = "(fun _ %s => do\n%s)" % (xp, "\n".join(emit_m(bir, 8)))
                pre.append(("bind", "_", MCall("List.foldlM %s () %s" % (fn, lst))))
            elif monadic(bir):
                fn = "(fun %s %s => do\n%s)" % (tup, xp, "\n".join(emit_m(bir, 8)))
                pre.append(("bind", tup, MCall("List.foldlM %s %s %s" % (fn, tup, lst))))
            else:
                pre.append(("let", tup, "List.foldl (fun %s %s => %s) %s %s" % (tup, xp, inline(bir), tup, lst)))
            return self.wrap(pre, cont(env))
        # early exits: the body returns `Rs.Flow σ ρ` (.next s = go on / continue, .brk s = break, .ret r = return r)
        tup = "()" if not A else (lid(A[0]) if len(A) == 1 else "(" + ", ".join(lid(v) for v in A) + ")")
        ctx = dict(ctx); ctx["tup"] = tup
        self.loops.append(ctx)
        try:
            env2 = dict(env)
            xp = self.pat(pat, elt, env2)
            lets = self.flush_patlets()
            def fin3(envb, t):
                if t is not None and t[0] != "unit":
                    return self.stmt_expr(t, [], None, envb, fin3)
                return P("(.next %s)" % tup)
            bir = self.wrap(lets, self.stmts(body[1], body[2], env2, fin3))
        finally:
            self.loops.pop()
        fn = "(fun %s %s => do\n%s)" % (tup, xp, "\n".join(emit_m(bir, 8)))
        if ctx.get("ret"):
            r, v = self.fresh("lr"), self.fresh("rv")
            # the result type is printed when the function is emitted (like `LazyTy`): a structure it mentions can still
            # gain type parameters while the rest of the body is translated (b0809, approver.rs `MemoApprover`)
            late = self.u.__dict__.setdefault("late_types", {})
            rt = "⟦late%d⟧" % len(late); late[rt] = self.out_type()
            pre.append(("bind", r, MCall("Rs.loopM (ρ := %s) %s %s %s" % (rt, lst, tup, fn))))
            return self.wrap(pre, Match(r, [(".inl %s" % tup, cont(env)), (".inr %s" % v, self.ret_value(v))]))
        pre.append(("bind", tup, MCall("Rs.loopB %s %s %s" % (lst, tup, fn))))
        return self.wrap(pre, cont(env))

    def keyed_update_loop(self, pat, body):
        """is `for (k, v) in … { m.entry(k)….; }` — a single entry-API statement whose key is the loop's key variable
        and whose closures/defaults are free of partial operations?"""
        if pat[0] != "ptuple" or len(pat[1]) != 2 or pat[1][0][0] != "pvar": return False
        stmts = list(body[1]) + ([("expr", body[2], 0)] if body[2] is not None else [])
        if len(stmts) != 1 or stmts[0][0] != "expr": return False
        x = stmts[0][1]
        n = 0
        while x[0] == "mcall" and x[2] in ("or_insert", "and_modify") and len(x[4]) == 1:
            a = x[4][0]
            if x[2] == "and_modify":
                b = a[2] if a[0] == "closure" else None
                # only `*e = min/max(*e, v)` or `*e = v`-style pure updates: no arithmetic that can overflow
                if b is None or self.has_partial(b): return False
            x = x[1]; n += 1
        if n == 0 or x[0] != "mcall" or x[2] != "entry" or len(x[4]) != 1: return False
        key = x[4][0]
        while key[0] in ("paren", "ref", "deref"): key = key[1]
        return key == ("path", [pat[1][0][1]])

    def has_partial(self, e):
        """syntactic over-approximation of `may panic / overflow / fail`"""
        if isinstance(e, tuple):
            if e and e[0] == "binary" and e[1] in ("+", "-", "*", "/", "%", "<<", ">>"): return True
            if e and e[0] == "assign" and e[1] != "=": return True
            if e and e[0] in ("index", "try", "macro", "call") and not (e[0] == "call" and e[1][0] == "path" and e[1][1][-1] in ("min", "max", "Some")): return True
            if e and e[0] == "mcall" and e[2] in ("unwrap", "expect"): return True
            return any(self.has_partial(x) for x in e[1:])
        if isinstance(e, list):
            return any(self.has_partial(x) for x in e)
        return False

    def ret_value(self, v):
        """the function returns the (packed) value `v`: inside an enclosing loop this is `.ret v`"""
        if self.loops:
            if self.loops[-1].get("plain"): raise RsError("return inside a nested loop of a loop without early exit")
            self.loops[-1]["ret"] = True
            return P("(.ret %s)" % v)
        return P(v)

    def loop_return(self, env, e):
        if self.loops[-1].get("plain"): raise RsError("internal: return inside a plain fold")
        saved, self.loops = self.loops, []
        try:
            ir = self.fin_return(env, e)
        finally:
            self.loops = saved
        self.loops[-1]["ret"] = True
        if isinstance(ir, P): return P("(.ret %s)" % ir.term)
        v = self.fresh("rv")
        return Bind(v, ir, P("(.ret %s)" % v))

    def expr_vars(self, e, acc):
        if isinstance(e, tuple):
            if e and e[0] == "path" and len(e[1]) == 1: acc.add(e[1][0])
            if e and e[0] == "macro": acc.add("__macro__")
            for x in e[1:]: self.expr_vars(x, acc)
        elif isinstance(e, list):
            for x in e: self.expr_vars(x, acc)
        return acc

    def while_stmt(self, e, env, cont):
        """only the two fuel-free forms: a counted range and the draining of a collection"""
        if e[0] == "while":
            _, c, body = e
            ok = (c[0] == "binary" and c[1] == "<" and c[2][0] == "path" and len(c[2][1]) == 1 and c[2][1][0] in env
                  and body[2] is None and body[1])
            if ok:
                i = c[2][1][0]
                last = body[1][-1]
                ok = (is_uint(env[i]) and last[0] == "expr" and last[1][0] == "assign" and last[1][1] == "+="
                      and last[1][2] == ("path", [i]) and last[1][3][0] == "int" and last[1][3][1] == 1)
            if ok:
                inner = ("block", body[1][:-1], None)
                A = self.assigned(inner, [], set())
                bound_vars = self.expr_vars(c[3], set())
                ok = i not in A and not (bound_vars & set(A)) and "__macro__" not in bound_vars \
                    and not ("self" in bound_vars and any(env.get(v, ("",))[0] == "alias" for v in A))
            if not ok:
                raise RsError("while loop that is not of the counted form `while i < n { …; i += 1; }` (n not changed by the body) is outside the subset")
            bpre = []
            n, nt = self.expr(c[3], env, bpre, env[i])
            if bpre: raise RsError("bound of a counted while loop with effects")
            self.check_ty(nt, env[i], "while bound")
            f = ("for", ("pvar", i), ("range", ("path", [i]), c[3], False), inner)
            def cont2(envx):
                return Let(lid(i), "(max %s %s)" % (lid(i), n), cont(envx))
            if not self.assigned(inner, [], set()) and not self.has_jump(inner):
                raise RsError("while loop without effect")
            return self.for_stmt(f, env, cont2, {"nocontinue": True, "nobreak": True})
        _, pat, x, body = e
        if x[0] == "mcall" and x[2] in ("pop", "pop_back", "pop_front") and not x[4] and x[1][0] == "path" and len(x[1][1]) == 1 \
                and pat[0] == "pctor" and pat[1] == ["Some"] and len(pat[2]) == 1:
            v = x[1][1][0]
            if v in env and env[v][0] == "vec" and v not in self.assigned(body, [], set()):
                src = ("mcall", ("mcall", x[1], "iter", None, [], 0), "rev", None, [], 0) if x[2] in ("pop", "pop_back") \
                    else ("mcall", x[1], "iter", None, [], 0)
                f = ("for", pat[2][0], src, body)
                def cont3(envx):
                    return Let(lid(v), "[]", cont(envx))
                return self.for_stmt(f, env, cont3, {"nobreak": True})
        raise RsError("while-let loop that does not drain a vector with pop/pop_front is outside the subset")

    def iter_expr(self, it, env, pre):
        """(Lean list term, element type) of an iterable expression"""
        if it[0] == "paren": return self.iter_expr(it[1], env, pre)
        if it[0] == "range":
            rf = getattr(self, "_range_force", None)
            if rf is not None and rf[0] == id(it):
                a, _ = self.expr(it[1], env, pre, rf[1])
                b, _ = self.expr(it[2], env, pre, rf[1])
                if it[3]: raise RsError("inclusive range is outside the subset")
                return "(Rs.range %s %s)" % (a, b), rf[1]
            a, at = self.expr(it[1], env, pre, None) if it[1][0] != "int" else (None, INTLIT)
            b, bt = self.expr(it[2], env, pre, None if at == INTLIT else at)
            if it[1][0] == "int":
                a, at = self.expr(it[1], env, pre, bt)
            if bt == INTLIT: bt = at
            if not is_uint(bt): raise RsError("range over a non-unsigned type")
            if it[3]: raise RsError("inclusive range is outside the subset")
            return "(Rs.range %s %s)" % (a, b), bt
        term, t = self.expr(it, env, pre, None)
        if t[0] == "iter": return term, t[1]
        if t[0] == "vec": return term, t[1]
        unordered = t[0] == "viter" or t[0] in ("umap", "uset") or (t[0] in ("map", "set") and not (t[1] == ("str",) or is_uint(t[1])))
        if unordered and getattr(self, "allow_unordered", False) and t[0] in ("map", "umap"):
            # `for (k, v) in other { m.entry(k)… }`: one update of `m` at the loop key per iteration; the keys of a map
            # are distinct, so the updates commute and the resulting map does not depend on the order (its list
            # order does, but no admitted operation observes that)
            return term, ("tuple", [t[1], t[2]])
        if unordered and getattr(self, "allow_unordered", False) and t[0] == "viter" and t[1][0] == "tuple":
            return term, t[1]
        if unordered and self.u.any_order:
            self.dropped.append("iteration order of a set/map: the representing list as given (the tying theorem quantifies over all lists)")
            if t[0] in ("viter", "set", "uset"): return term, t[1]
            return term, ("tuple", [t[1], t[2]])
        if unordered:
            raise RsError("iteration over a collection whose order the model does not know")
        if t[0] == "map": return term, ("tuple", [t[1], t[2]])
        if t[0] == "set": return term, t[1]
        raise RsError("iteration over %r is outside the subset" % (t[0],))

    # ---- expressions
    def lit(self, v, t):
        if is_sint(t): return "(%d : Int)" % v
        if is_uint(t):
            if v < 0 or v >= 2 ** UBITS[t[1]]: raise RsError("literal out of range")
            return str(v)
        raise RsError("integer literal of non-integer type %r" % (t,))

    def expr(self, e, env, pre, want=None):
        k = e[0]
        if k == "paren" or k == "ref" or k == "deref":
            return self.expr(e[1], env, pre, want)
        if k == "int":
            t = ("int", e[2]) if e[2] else (want if want is not None and is_int(want) else INTLIT)
            if t == INTLIT: return str(e[1]), INTLIT
            return self.lit(e[1], t), t
        if k == "bool": return ("true" if e[1] else "false"), BOOL
        if k == "str" and len(e) > 2 and e[2] == "b" and want == ("vec", ("int", "u8")) and "\\" not in e[1]:
            # (b1819) byte-string literal `b"…"` where bytes are expected: its bytes, spelled out (no escapes admitted)
            return "[" + ", ".join(str(b) for b in e[1].encode("utf-8")) + "]", ("vec", ("int", "u8"))
        if k == "str": return json.dumps(e[1], ensure_ascii=False), ("str",)
        if k == "unit": return "()", UNIT
        if k == "tuple":
            ws = want[1] if want is not None and want[0] == "tuple" and len(want[1]) == len(e[1]) else [None] * len(e[1])
            parts = [self.expr(x, env, pre, w) for x, w in zip(e[1], ws)]
            tys = [w if p[1] == INTLIT and w is not None else p[1] for p, w in zip(parts, ws)]
            if any(t == INTLIT for t in tys): raise RsError("untyped integer literal in a tuple")
            return "(" + ", ".join(p[0] for p in parts) + ")", ("tuple", tys)
        if k == "path": return self.path(e, env, want, pre)
        if k == "unary": return self.unary(e, env, pre, want)
        if k == "binary": return self.binary(e, env, pre, want)
        if k == "cast": return self.cast(e, env, pre)
        if k == "field":
            base, bt = self.expr(e[1], env, pre, None)
            if bt[0] != "struct": raise RsError("field access .%s on %r" % (e[2], bt[0]))
            ft = self.u.struct_field(bt[1], e[2])
            return "%s.%s" % (base, lid(e[2])), ft
        if k == "tfield":
            base, bt = self.expr(e[1], env, pre, None)
            if bt[0] != "tuple" and e[2] == 0 and bt in getattr(self.u, "newtype_reps", []):
                return base, bt       # `.0` of a newtype listed under tuple_structs
            if bt[0] in ("opaque", "struct") and "%s.%d" % (bt[1], e[2]) in self.u.externals:
                # (round 9) declared projection of a foreign / opaque tuple struct: `"PubKey.0": {"params": [], "ret": "Vec<u8>"}`
                r_ = self.call_external("%s.%d" % (bt[1], e[2]), [], env, pre, recv=(base, bt))
                return r_[0], r_[1]
            if bt[0] != "tuple": raise RsError("tuple field on a non-tuple")
            n, i = len(bt[1]), e[2]
            if i >= n: raise RsError("tuple index out of range")
            s = base + ".2" * i + (".1" if i < n - 1 else "")
            return s, bt[1][i]
        if k == "someof":
            base, bt = self.expr(e[1], env, pre, None)
            if bt[0] != "opt": raise RsError("as_mut().unwrap() on a non-Option")
            v = self.fresh("x")
            pre.append(("bind", v, MCall("Rs.unwrap %s" % base)))
            return v, bt[1]
        if k == "array":
            el = want[1] if want is not None and want[0] == "vec" else None
            parts = []
            for x in e[1]:
                term, t = self.expr(x, env, pre, el)
                if t == INTLIT: raise RsError("array literal of untyped integers")
                if el is not None: self.check_ty(t, el, "array element")
                el = t
                parts.append(term)
            if el is None: return "[]", ("vec", ("unknown",))
            return "[" + ", ".join(parts) + "]", ("vec", el)
        if k == "arrayrep":
            el = want[1] if want is not None and want[0] == "vec" else None
            x, xt = self.expr(e[1], env, pre, el)
            if xt == INTLIT: raise RsError("array literal of untyped integers")
            n, nt = self.expr(e[2], env, pre, ("int", "usize"))
            self.check_ty(nt, ("int", "usize"), "array length")
            return "(List.replicate %s %s)" % (n, x), ("vec", xt)
        if k == "range":
            if e[1] is not None and e[2] is not None and not e[3]:
                # (b0809, additive) `(a..b)` as the source of an iterator chain (`(0..n).map(|i| …).collect()`): the same
                # list `Rs.range a b` a `for i in a..b` runs over
                term, el = self.iter_expr(e, env, pre)
                return term, ("iter", el)
            raise RsError("range expression outside a for loop or an index")
        if k == "index":
            base, bt = self.expr(e[1], env, pre, None)
            if bt[0] != "vec": raise RsError("indexing a non-vector")
            if e[2][0] == "range":
                # v[a..b], v[a..], v[..b], v[..]: panics unless a <= b <= len
                _, ra, rb, incl = e[2]
                U = ("int", "usize")
                a = "0"
                if ra is not None:
                    a, at = self.expr(ra, env, pre, U); self.check_ty(at, U, "slice start")
                if rb is not None:
                    b, btt = self.expr(rb, env, pre, U); self.check_ty(btt, U, "slice end")
                    if incl:
                        b2 = self.fresh()
                        pre.append(("bind", b2, MCall("Rs.uadd Rs.USIZE_MAX %s 1" % b))); b = b2
                else:
                    if incl: raise RsError("`..=` without an end")
                    b = "%s.length" % base
                t = self.fresh("sl")
                pre.append(("bind", t, MCall("Rs.slice %s %s %s" % (base, a, b))))
                return t, bt
            i, it = self.expr(e[2], env, pre, ("int", "usize"))
            self.check_ty(it, ("int", "usize"), "index")
            t = self.fresh("x")
            pre.append(("bind", t, MCall("Rs.index %s %s" % (base, i))))
            return t, bt[1]
        if k in ("if", "iflet", "match", "block"):
            return self.value_control(e, env, pre, want)
        if k == "try": return self.try_(e, env, pre, want)
        if k in ("call", "mcall"):
            r = self.call_any(e, env, pre, want=want)
            if r[2] == "comp": raise RsError("Result-valued call used as a value (only `?` and tail position are supported)")
            return r[0], r[1]
        if k == "macro":
            if e[1] == "format": return self.format_(e, env, pre)
            if e[1] == "vec":
                toks = [Tok("p", "[", e[3])] + list(e[2]) + [Tok("p", "]", e[3]), Tok("eof", "", e[3])]
                p = Parser(toks, 0, self.u.rel)
                a = p.primary(False)
                if p.peek().k != "eof": p.err("trailing tokens in vec!")
                return self.expr(a, env, pre, want)
            if e[1] in ("panic", "unreachable", "unimplemented", "todo"):
                if want is None: raise RsError("%s! as a value of unknown type" % e[1])
                v = self.fresh()
                pre.append(("bind", v, MCall("(Rs.panic : Rs.M %s)" % self.u.lt(want, False))))
                return v, want
            if e[1] in getattr(self.u, "log_macros", ()):
                # declared logging-only macro used as a value (a guard object that only logs when dropped): `()`
                self.dropped.append("%s! at line %d (declared logging-only: value `()`)" % (e[1], e[3]))
                return "()", UNIT
            raise RsError("macro %s! in expression position is outside the subset" % e[1])
        if k == "struct": return self.struct_lit(e, env, pre)
        if k == "closure": raise RsError("closure outside a supported method argument")
        if k == "return": raise RsError("return in expression position")
        raise RsError("expression outside the subset: %s" % k)

    def struct_lit(self, e, env, pre):
        name = e[1][-1]
        if name == "Self": name = self.impl
        if len(e[1]) >= 2 and e[3] is None:
            en = e[1][-2] if e[1][-2] != "Self" else self.impl
            if en in self.u.fi.enum_data:
                names, tys = self.u.variant_types(en, name)
                if names is None or sorted(names) != sorted(f for f, _ in e[2]): raise RsError("variant literal does not set every field")
                given = {}
                for f, fe in e[2]:       # evaluation in source order
                    ft = tys[names.index(f)]
                    term, t = self.expr(fe, env, pre, ft)
                    self.check_ty(t, ft, "field %s" % f)
                    given[f] = term if " " not in term or term.startswith("(") else "(" + term + ")"
                self.u.resolve(("named", en, []))
                return "(%s.%s %s)" % (en, lid(name), " ".join(given[f] for f in names)), ("enum", en)
        if name not in self.u.fi.structs or e[3] is not None: raise RsError("struct literal outside the subset")
        decl = [f for f, _ in self.u.fi.structs[name]]
        if sorted(decl) != sorted(f for f, _ in e[2]): raise RsError("struct literal does not set every field")
        parts = []
        for f, fe in e[2]:
            ft = self.u.struct_field(name, f)
            term, t = self.expr(fe, env, pre, ft)
            self.check_ty(t, ft, "field %s" % f)
            parts.append("%s := %s" % (lid(f), term))
        if str(self.u.struct_src.get(name, "")).startswith("trusted view") and self.u.closed_type(("struct", name)):
            # (b1617, round 9) a literal of a declared view may initialise a `let` (no expected type in Lean): ascribe it
            return "({ " + ", ".join(parts) + " } : " + name + ")", ("struct", name)
        return "{ " + ", ".join(parts) + " }", ("struct", name)

    def format_(self, e, env, pre):
        a = split_macro_args(e[2], self.u.rel)
        if a[0][0] != "str": raise RsError("format! without a literal format string")
        pieces = a[0][1].split("{}")
        if "{" in "".join(pieces) or len(pieces) - 1 != len(a) - 1: raise RsError("format! string outside the subset")
        out = []
        for i, pc in enumerate(pieces):
            if pc: out.append(json.dumps(pc, ensure_ascii=False))
            if i < len(a) - 1:
                term, t = self.expr(a[i + 1], env, pre, None)
                if t == ("str",): out.append(term)
                elif is_uint(t): out.append("toString %s" % term)
                else: raise RsError("format! argument type outside the subset")
        return "(" + " ++ ".join(out or ['""']) + ")", ("str",)

    def path(self, e, env, want, pre=None):
        segs = e[1]
        if len(segs) == 1:
            v = segs[0]
            if v in env:
                if env[v][0] == "alias":
                    return self.expr(env[v][1], env, pre if pre is not None else [], None)
                return lid(v), env[v]
            if v == "None":
                if want is not None and want[0] == "opt": return "none", want
                return "none", ("opt", ("unknown",))
            if v in self.u.externals and not self.u.externals[v].get("params"):
                # (b0507) a constant of another file whose value is outside the subset: declared external without parameters
                term, t, _k = self.call_external(v, [], env, pre)
                return term, t
            c = self.u.const_value(v, self.local_consts)
            if c is not None:
                if c[0] == "expr":
                    pre0 = []
                    term, t = self.expr(c[1], {}, pre0, c[2])
                    if pre0: raise RsError("constant %s with an effectful initialiser" % v)
                    self.check_ty(t, c[2], "constant " + v)
                    return "(%s : %s)" % (term, self.u.lt(t)), t
                return self.lit(c[0], c[1]), c[1]
            raise RsError("unknown identifier %s" % v)
        if len(segs) == 2 and segs[0] in UMAX and segs[1] == "MAX": return UMAX[segs[0]], ("int", segs[0])
        if len(segs) == 2 and segs[0] in UMAX and segs[1] == "MIN": return "0", ("int", segs[0])
        if len(segs) == 2 and segs[0] == "i64" and segs[1] in ("MAX", "MIN"): return "Rs.I64_" + segs[1], ("int", "i64")
        en = segs[-2] if segs[-2] != "Self" else self.impl
        if en in self.u.fi.enum_data and (segs[-1], None) in self.u.fi.enum_data[en]:
            self.u.resolve(("named", en, []))
            return "%s.%s" % (en, lid(segs[-1])), ("enum", en)
        if en in self.u.fi.enums and self.u.fi.enums[en] is not None and segs[-1] in self.u.fi.enums[en]:
            self.u.resolve(("named", en, []))
            return "%s.%s" % (en, lid(segs[-1])), ("enum", en)
        if segs[0] == "Self" and len(segs) == 2:
            c = self.u.const_value(segs[1], self.local_consts)
            if c is not None and c[0] != "expr": return self.lit(c[0], c[1]), c[1]
        if len(segs) == 2 and (segs[0] == "Self" or (self.impl is not None and segs[0] == self.impl)):
            # associated constant of the translated impl with a non-integer (e.g. array) initialiser
            c = self.u.const_value(segs[1], self.local_consts)
            if c is not None and c[0] == "expr":
                pre0 = []
                term, t = self.expr(c[1], {}, pre0, c[2])
                if pre0: raise RsError("constant %s with an effectful initialiser" % segs[1])
                self.check_ty(t, c[2], "constant " + segs[1])
                return "(%s : %s)" % (term, self.u.lt(t)), t
            if c is not None: return self.lit(c[0], c[1]), c[1]
        if len(segs) == 2 and segs[0] in self.u.fi.structs:
            # (round 9) integer associated constant of another structure of the unit (`Htlc::LOCAL`): looked up in the
            # file that declares the structure
            srcrel = self.u.struct_src.get(segs[0])
            for idx in self.u.const_idx:
                if idx.rel == srcrel and segs[1] in idx.consts:
                    ty, ce = idx.consts[segs[1]]
                    rt = self.u.resolve(ty)
                    if is_int(rt): return self.lit(self.u.const_eval(ce, {}), rt), rt
        if "::".join(segs) in self.u.externals and not self.u.externals["::".join(segs)].get("params"):
            # (b0507) an associated constant of a type of another file / crate (`VelocityControlSpec::UNLIMITED`): declared
            # external without parameters
            term, t, _k = self.call_external("::".join(segs), [], env, pre)
            return term, t
        raise RsError("path %s is outside the subset" % "::".join(segs))

    def unary(self, e, env, pre, want):
        op = e[1]
        if op == "!":
            term, t = self.expr(e[2], env, pre, want if want is not None and is_uint(want) else BOOL)
            if is_uint(t): return "(Rs.unot %s %s)" % (UMAX[t[1]], term), t
            if t != BOOL: raise RsError("! on %r is outside the subset" % (t,))
            return "(!%s)" % term, BOOL
        if op == "-":
            if e[2][0] == "int":
                t = ("int", e[2][2]) if e[2][2] else want
                if t is None or not is_sint(t): raise RsError("negative literal of a non-signed type")
                return "(%d : Int)" % (-e[2][1]), t
            term, t = self.expr(e[2], env, pre, want)
            if not is_sint(t): raise RsError("negation of a non-signed value")
            r = self.fresh()
            pre.append(("bind", r, MCall("Rs.ineg %s %s" % (IRNG[t[1]], term))))
            return r, t
        raise RsError("unary %s" % op)

    def operands(self, l, r, env, pre, want):
        """translate two operands of the same integer type (literal operands take the type of the other)"""
        lw = want if want is not None and is_int(want) else None
        if l[0] == "int" and not l[2]:
            b, bt = self.expr(r, env, pre, lw)
            a, at = self.expr(l, env, pre, bt if bt != INTLIT else lw)
        else:
            a, at = self.expr(l, env, pre, lw)
            b, bt = self.expr(r, env, pre, at if at != INTLIT else lw)
        if at == INTLIT and bt != INTLIT: at = bt
        if bt == INTLIT and at != INTLIT: bt = at
        return a, at, b, bt

    def binary(self, e, env, pre, want):
        _, op, l, r = e
        # (added for C18, byte_utils.rs) `8 * 7`: arithmetic on two unsuffixed literals is a literal
        # (folded only while the value stays in 0 .. 2^31-1, where every integer type Rust can infer agrees)
        ul, ur = l, r
        while ul[0] == "paren": ul = ul[1]
        while ur[0] == "paren": ur = ur[1]
        if op in ("+", "-", "*") and ul[0] == "int" and ur[0] == "int" and not ul[2] and not ur[2]:
            v = {"+": ul[1] + ur[1], "-": ul[1] - ur[1], "*": ul[1] * ur[1]}[op]
            if 0 <= v < 2 ** 31:
                return self.expr(("int", v, None), env, pre, want)
        if op in ("&&", "||"):
            a, at = self.expr(l, env, pre, BOOL)
            pre2 = []
            b, bt = self.expr(r, env, pre2, BOOL)
            self.check_ty(at, BOOL, op); self.check_ty(bt, BOOL, op)
            if not pre2:
                return "(%s %s %s)" % (a, op, b), BOOL
            t = self.fresh("b")
            rhs = self.wrap(pre2, P(b))
            ir = If(a, rhs, P("false")) if op == "&&" else If(a, P("true"), rhs)
            pre.append(("bind", t, ir))
            return t, BOOL
        if op in ("==", "!=", "<", "<=", ">", ">="):
            a, at, b, bt = self._cmp_operands(l, r, env, pre)
            if at != bt:
                if not (at[0] == "opt" and bt[0] == "opt" and (at[1] == ("unknown",) or bt[1] == ("unknown",))):
                    raise RsError("comparison of different types %r and %r" % (at, bt))
                if at[1] == ("unknown",): at = bt
            if at == INTLIT: raise RsError("comparison of two untyped literals")
            if op in ("==", "!="):
                self.note_eq(at)
                return "(%s %s %s)" % (a, op, b), BOOL
            if at[0] == "opt" and is_uint(at[1]):
                # (b0507) derived `PartialOrd` of `Option<uN>`: `None` is below every `Some`, `Some`s by their content
                t = {"<": "(Rs.optLt %s %s)" % (a, b), ">": "(Rs.optLt %s %s)" % (b, a),
                     "<=": "(!(Rs.optLt %s %s))" % (b, a), ">=": "(!(Rs.optLt %s %s))" % (a, b)}[op]
                return t, BOOL
            if not is_int(at): raise RsError("ordering comparison on a non-integer type %r" % (at,))
            lop = {"<": "<", "<=": "≤", ">": ">", ">=": "≥"}[op]
            return "(decide (%s %s %s))" % (a, lop, b), BOOL
        if op in ("+", "-", "*", "/", "%", "<<", ">>"):
            if op in ("<<", ">>"):
                a, at = self.expr(l, env, pre, want)
                b, bt = self.expr(r, env, pre, None)
                if bt == INTLIT: bt = ("int", "u32")
                if not is_uint(at) or not is_uint(bt): raise RsError("shift on non-unsigned operands")
                t = self.fresh()
                pre.append(("bind", t, MCall("Rs.%s %d %s %s" % ("ushl" if op == "<<" else "ushr", UBITS[at[1]], a, b))))
                return t, at
            a, at, b, bt = self.operands(l, r, env, pre, want)
            if at == INTLIT and bt == INTLIT:
                raise RsError("arithmetic on two untyped literals")
            if at != bt: raise RsError("arithmetic on different types %r and %r" % (at, bt))
            t = self.fresh()
            if is_uint(at):
                mx = UMAX[at[1]]
                call = {"+": "Rs.uadd %s %s %s" % (mx, a, b), "-": "Rs.usub %s %s" % (a, b),
                        "*": "Rs.umul %s %s %s" % (mx, a, b), "/": "Rs.udiv %s %s" % (a, b),
                        "%": "Rs.urem %s %s" % (a, b)}[op]
            elif is_sint(at):
                rng = IRNG[at[1]]
                call = "Rs.%s %s %s %s" % ({"+": "iadd", "-": "isub", "*": "imul", "/": "idiv", "%": "irem"}[op], rng, a, b)
            else:
                raise RsError("arithmetic on %r" % (at,))
            pre.append(("bind", t, MCall(call)))
            return t, at
        if op in ("&", "|", "^"):
            a, at, b, bt = self.operands(l, r, env, pre, want)
            if at == BOOL and bt == BOOL:
                return "(%s %s %s)" % (a, {"&": "&&", "|": "||", "^": "!="}[op], b), BOOL   # both operands already evaluated
            if at == INTLIT and bt == INTLIT: raise RsError("bitwise operator on two untyped literals")
            if at != bt or not is_uint(at): raise RsError("bitwise %s on %r and %r (only unsigned integers)" % (op, at, bt))
            return "(%s %s %s)" % (a, {"&": "&&&", "|": "|||", "^": "^^^"}[op], b), at
        raise RsError("binary operator %s is outside the subset" % op)

    def _cmp_operands(self, l, r, env, pre):
        if l[0] == "int" or r[0] == "int":
            return self.operands(l, r, env, pre, None)
        a, at = self.expr(l, env, pre, None)
        b, bt = self.expr(r, env, pre, at)
        return a, at, b, bt

    def note_eq(self, t):
        self.eq_all_fields(t, set())
        for o in self.u.opaques_of(t, []):
            if o not in self.needs_deq: self.needs_deq.append(o)

    def eq_all_fields(self, t, seen):
        """`==` / `!=` on a struct is the derived `PartialEq`: it compares EVERY field, so every field becomes part of
        the generated structure (whose `DecidableEq` is then the same relation).  Fail closed on a field whose type
        is outside the subset and on a hand-written `impl PartialEq`."""
        k = t[0]
        if k == "struct":
            if t[1] in seen: return
            seen.add(t[1])
            import re as _re
            for txt in self.u.src_texts:
                if _re.search(r"impl(\s*<[^>]*>)?\s+(PartialEq|Eq)(\s*<[^>]*>)?\s+for\s+%s\b" % _re.escape(t[1]), txt) \
                        and _re.search(r"impl(\s*<[^>]*>)?\s+PartialEq(\s*<[^>]*>)?\s+for\s+%s\b" % _re.escape(t[1]), txt):
                    raise RsError("== on %s, which has a hand-written impl PartialEq" % t[1])
            for f, _ in self.u.fi.structs[t[1]]:
                self.eq_all_fields(self.u.struct_field(t[1], f), seen)
        elif k in ("opt", "vec", "iter"): self.eq_all_fields(t[1], seen)
        elif k == "map": self.eq_all_fields(t[2], seen)
        elif k == "tuple":
            for x in t[1]: self.eq_all_fields(x, seen)

    def cast(self, e, env, pre):
        to = self.u.resolve(e[2], self.impl)
        if not is_int(to): raise RsError("cast to a non-integer type")
        if e[1][0] == "int" and not e[1][2]:
            return self.lit(e[1][1], to), to
        term, fr = self.expr(e[1], env, pre, None)
        if fr == BOOL:
            return "(if %s then %s else %s)" % (term, self.lit(1, to), self.lit(0, to)), to
        if not is_int(fr): raise RsError("cast from %r" % (fr,))
        if is_uint(fr) and is_uint(to):
            if UBITS[to[1]] >= UBITS[fr[1]]: return term, to
            return "(Rs.utrunc %s %s)" % (UMAX[to[1]], term), to
        if is_uint(fr) and is_sint(to):
            if IBITS[to[1]] > UBITS[fr[1]]: return "(%s : Int)" % term, to
            return "(Rs.itrunc %d (%s : Int))" % (IBITS[to[1]], term), to
        if is_sint(fr) and is_uint(to):
            return "(Rs.utruncI %s %s)" % (UMAX[to[1]], term), to
        if is_sint(fr) and is_sint(to):
            if IBITS[to[1]] >= IBITS[fr[1]]: return term, to
            return "(Rs.itrunc %d %s)" % (IBITS[to[1]], term), to
        raise RsError("cast %r -> %r" % (fr, to))

    def value_control(self, e, env, pre, want):
        """if/match/block used as a value"""
        if self.has_return(e): raise RsError("return inside a value expression")
        # (b1315, round 9) fail closed: a branch of a value expression that assigns an outer variable / `self` (directly or
        # through an alias) — the value is all that is kept of the branches, the assignment used to be silently lost
        # (monitor.rs `on_transaction_input`: `… else if c.includes_htlc_output(..) { v.push(..); None } …`)
        try:
            lost = [v for v in self.assigned(e, [], set()) if v in env]
        except RsError:
            lost = []
        if lost:
            raise RsError("assignment to %s inside an if/match/block used as a value is outside the subset" % ", ".join(sorted(set(lost))))
        box = []
        def fin(env2, t):
            if t is None:
                box.append(UNIT); return P("()")
            pre2 = []
            term, ty = self.expr(t, env2, pre2, want)
            box.append(ty)
            return self.wrap(pre2, P(term))
        if e[0] == "block":
            ir = self.stmts(e[1], e[2], env, fin)
        else:
            ir = self.control(e, env, fin)
        tys = [t for t in box if t != INTLIT]
        ty = tys[0] if tys else (want if want is not None else INTLIT)
        for t in tys:
            if t != ty and not (t[0] == "opt" and ty[0] == "opt"):
                raise RsError("branches of different types %r / %r" % (t, ty))
        for t in tys:
            if t[0] == "opt" and t[1] != ("unknown",): ty = t
        if isinstance(ir, P): return ir.term, ty
        if not monadic(ir): return inline(ir), ty
        v = self.fresh()
        pre.append(("bind", v, ir))
        return v, ty

    def try_(self, e, env, pre, want):
        x = e[1]
        # res.map_err(|e| e.prepend_msg(..))? : policy/error.rs prepend_msg keeps tag and kind, changes the message only
        if x[0] == "mcall" and x[2] == "map_err" and len(x[4]) == 1:
            c = x[4][0]
            if c[0] == "closure" and len(c[1]) == 1 and c[1][0][0] == "pvar" and c[2][0] == "mcall" \
                    and c[2][1] == ("path", [c[1][0][1]]) and c[2][2] == "prepend_msg":
                self.dropped.append("map_err(|e| e.prepend_msg(..)) at line %d (message only)" % x[5])
                return self.try_(("try", x[1]), env, pre, want)
            # ext(..).map_err(|e| policy_error(tag, msg))? on an external declared with a `Result<T, _>` return type
            # (an `Option T` in Lean, `none` = the external returned Err): the Err becomes the tagged policy error
            if c[0] == "closure" and len(c[1]) == 1 and self.is_result:
                body = c[2]
                if body[0] == "block" and not body[1] and body[2] is not None: body = body[2]
                if body[0] == "call" and body[1][0] == "path" and \
                        (body[1][1][-1] == "policy_error" or "::".join(body[1][1]) in STATUS_ERRS):
                    pre2 = []
                    tag = self.err_tag(body, env, pre2)
                    if pre2: raise RsError("error value with effects")
                    term, t = self.expr(x[1], env, pre, None)
                    if t[0] not in ("extres", "tryres"):
                        raise RsError("map_err(|e| policy_error(..)) on something else than an external Result")
                    v = self.fresh()
                    pre.append(("bind", v, MCall("Rs.okOr %s %s" % (term, tag))))
                    return v, t[1]
            raise RsError("map_err with a closure other than |e| e.prepend_msg(..) / |e| policy_error(..) is outside the subset")
        # opt.ok_or(e)? / opt.ok_or_else(|| e)?
        if x[0] == "mcall" and x[2] in ("ok_or", "ok_or_else") and self.is_result:
            o, ot = self.expr(x[1], env, pre, None)
            if ot[0] != "opt": raise RsError("ok_or on a non-Option")
            arg = x[4][0]
            if x[2] == "ok_or_else":
                if arg[0] != "closure" or arg[1]: raise RsError("ok_or_else argument")
                arg = arg[2]
                if arg[0] == "block" and not arg[1]: arg = arg[2]
            pre2 = []
            tag = self.err_tag(arg, env, pre2)
            if pre2: raise RsError("error value with effects")
            v = self.fresh()
            pre.append(("bind", v, MCall("Rs.okOr %s %s" % (o, tag))))
            return v, ot[1]
        if x[0] == "mcall" and x[2] == "map_err" and len(x[4]) == 1 and x[4][0][0] == "closure" and len(x[4][0][1]) == 1:
            # `.map_err(|ve| ve.prepend_msg(..))?`: `prepend_msg` keeps the tag of a ValidationError, only the message changes
            c = x[4][0]
            body = c[2]
            if body[0] == "block" and not body[1]: body = body[2]
            pv = c[1][0]
            pname = pv[1] if isinstance(pv, tuple) and pv[0] == "pvar" else (pv[0][1] if isinstance(pv, tuple) and isinstance(pv[0], tuple) and pv[0][0] == "pvar" else None)
            if body is not None and body[0] == "mcall" and body[2] == "prepend_msg" and body[1] == ("path", [pname]):
                self.dropped.append("map_err(prepend_msg): message only, the tag is kept")
                return self.try_(("try", x[1]), env, pre, want)
        if x[0] in ("call", "mcall"):
            r = self.call_any(x, env, pre, want_result=True)
            if r[2] == "comp":
                if not self.is_result: raise RsError("? on a Result in a function that does not return Result")
                v = self.fresh()
                pre.append(("bind", v, MCall(r[0])))
                return v, r[1]
            if r[2] == "tried":
                return r[0], r[1]
            term, t = r[0], r[1]
        else:
            term, t = self.expr(x, env, pre, None)
        if t[0] == "opt":
            if self.loops: raise RsError("? on an Option inside a loop")
            if self.is_result or self.val_ty[0] != "opt": raise RsError("? on an Option in a function that does not return Option")
            if self.selfk == "mut" or self.mut_params: raise RsError("? on Option in a method that returns updated state")
            v = self.fresh()
            pre.append(("optq", v, term))
            return v, t[1]
        raise RsError("? on %r is outside the subset" % (t,))

    # ---- calls
    def closure1(self, c, argtys, env, want=None):
        """translate a closure with pure or effectful body: returns (param patterns, IR of body, type)"""
        if c[0] != "closure": raise RsError("expected a closure")
        if len(c[1]) != len(argtys): raise RsError("closure arity")
        env2 = dict(env)
        pats = [self.patp(p, t, env2) for p, t in zip(c[1], argtys)]
        pre = []
        if self.has_return(c[2]) or self.has_try(c[2]): raise RsError("return or ? inside a closure")
        term, t = self.expr(c[2], env2, pre, want)
        return pats, self.wrap(pre, P(term)), t

    def call_any(self, e, env, pre, want=None, want_result=False):
        """returns (term, type, 'val'|'comp')"""
        # `wr_of[id(e)]`: is the Result of exactly this call consumed by `?` / the tail position?  (per call expression:
        # the arguments are evaluated by nested call_any's)
        if not hasattr(self, "wr_of"): self.wr_of = {}
        self.wr_of[id(e)] = want_result
        self.cur_call = e
        if e[0] == "call":
            return self.call(e, env, pre, want)
        return self.mcall(e, env, pre, want)

    def call_translated(self, info, args_terms, env, pre, self_term=None):
        if getattr(info, "returns_guard", False): self.last_guard = True
        if getattr(info, "mut_params", None): raise RsError("call of a function with &mut parameters is outside the subset")
        for x in info.exts: self.add_ext(*x, ops=getattr(info, 'ext_opaques', ()))
        for o in info.needs_deq:
            if o not in self.needs_deq: self.needs_deq.append(o)
        self.callees.append(info.lean_name)
        parts = [info.lean_name] + [n for n, _ in info.exts]
        if self_term is not None: parts.append(self_term)
        parts += args_terms
        call = " ".join(parts)
        if info.is_result and not info.mut_self:
            return call, info.val_ty, "comp"
        if info.monadic:
            v = self.fresh()
            pre.append(("bind", v, MCall(call)))
            return v, info.out_ty, "val"
        return "(" + call + ")", info.out_ty, "val"

    def invoke(self, info, recv, args, env, pre, wr=False):
        """call of a translated function that updates state (`&mut self` on an arbitrary place `recv`, `&mut` parameters):
        the updated values are stored back into the argument places"""
        a = self.args_for(info, args, env, pre)
        for x in info.exts: self.add_ext(*x)
        for o in info.needs_deq:
            if o not in self.needs_deq: self.needs_deq.append(o)
        self.callees.append(info.lean_name)
        parts = [info.lean_name] + [n for n, _ in info.exts]
        if recv is not None:
            rterm, rty = self.expr(recv, env, pre, None)
            parts.append(rterm if " " not in rterm or rterm.startswith("(") else "(" + rterm + ")")
        parts += a
        call = " ".join(parts)
        if info.is_result:
            if not wr or not self.is_result:
                raise RsError("Result of the state-updating call %s used other than by `?` or in tail position" % info.name)
        outs = []   # (fresh name, place AST)
        ps = [p for p in info.params if p[0] != "self"]
        for n in info.out_names:
            if n == "self":
                if recv is None: raise RsError("&mut self callee without receiver")
                outs.append((self.fresh("s"), recv))
            else:
                idx = [p[0] for p in ps].index(n)
                outs.append((self.fresh("m"), args[idx]))
        names = [o[0] for o in outs]
        val = None
        if info.val_ty != UNIT or not names:
            val = self.fresh("r"); names.append(val)
        patt = names[0] if len(names) == 1 else "(" + ", ".join(names) + ")"
        if info.monadic: pre.append(("bind", patt, MCall(call)))
        else: pre.append(("let", patt, call))
        for nm, place in outs:
            self.place_set(place, nm, env, pre)
        kind = "tried" if info.is_result else "val"
        return (val if val is not None else "()"), info.val_ty, kind

    def decl_external(self, impl, m, args, env, pre, wr=False):
        """a required (body-less) method of the trait whose default method is being translated: explicit parameter"""
        d = self.u.fi.function(impl, m)
        pts = [self.u.resolve(ty, impl) for _, ty, _, refmut in d["params"]]
        if any(refmut for _, _, _, refmut in d["params"]) or d["self"] not in ("ref", "mut"):
            raise RsError("required trait method %s with &mut parameters / by-value receiver" % m)
        upd = d["self"] == "mut"
        if upd and self.selfk != "mut": raise RsError("required &mut self method %s called from a &self default method" % m)
        rt = self.u.resolve(d["ret"], impl)
        if len(pts) != len(args): raise RsError("arity of trait method %s" % m)
        terms = []
        for a, pt in zip(args, pts):
            term, t = self.expr(a, env, pre, pt)
            self.check_ty(t, pt, "argument of trait method %s" % m)
            terms.append(term if " " not in term or term.startswith("(") else "(" + term + ")")
        res = rt[1] if rt[0] == "result" else rt
        if upd:
            # required `&mut self` method: `SelfT → args → SelfT × R` (`SelfT` for `R = ()`), the new `self` is rebound
            outl = "SelfT" if res == UNIT else "(SelfT × %s)" % self.u.lt(res, False)
            lty = " → ".join(["SelfT"] + [self.u.lt(t, False) for t in pts] + [("Rs.M " + outl) if rt[0] == "result" else outl])
            self.add_ext("ext_" + m, lty)
            call = ("ext_%s self %s" % (m, " ".join(terms))).rstrip()
            if rt[0] == "result" and not (wr and self.is_result):
                raise RsError("Result of the state-updating required method %s used other than by `?` or in tail position" % m)
            r_ = None if res == UNIT else self.fresh("r")
            patt = "self" if r_ is None else "(self, %s)" % r_
            pre.append(("bind", patt, MCall(call)) if rt[0] == "result" else ("let", patt, call))
            return (r_ or "()"), res, ("tried" if rt[0] == "result" else "val")
        lty = " → ".join(["SelfT"] + [self.u.lt(t, False) for t in pts] +
                         [("Rs.M " + self.u.lt(res, False)) if rt[0] == "result" else self.u.lt(res, False)])
        self.add_ext("ext_" + m, lty)
        call = "ext_%s self %s" % (m, " ".join(terms))
        if rt[0] == "result": return call.rstrip(), res, "comp"
        return "(" + call.rstrip() + ")", res, "val"

    def args_for(self, info, args, env, pre):
        ps = [p for p in info.params if p[0] != "self"]
        if len(ps) != len(args): raise RsError("arity mismatch calling %s" % info.name)
        out = []
        for (pn, pt), a in zip(ps, args):
            term, t = self.expr(a, env, pre, pt)
            self.check_ty(t, pt, "argument %s of %s" % (pn, info.name))
            out.append(term if term.startswith("(") or " " not in term else "(" + term + ")")
        return out

    def call(self, e, env, pre, want):
        fn, args = e[1], e[2]
        wr = getattr(self, "wr_of", {}).get(id(e), False)
        if fn[0] != "path": raise RsError("call of a non-path")
        segs = fn[1]
        name = segs[-1]
        if segs == ["Some"]:
            w = want[1] if want is not None and want[0] == "opt" else None
            term, t = self.expr(args[0], env, pre, w)
            if t == INTLIT: raise RsError("Some(literal) without a type")
            return "(some %s)" % term, ("opt", t), "val"
        if segs in (["Ok"], ["Err"]): raise RsError("Ok/Err outside tail position")
        if segs in (["Arc", "new"], ["Box", "new"], ["Rc", "new"]) and len(args) == 1:
            # (b0507) `Arc<T>` / `Box<T>` / `Rc<T>` are T (see resolve): their constructors are the identity
            term, t = self.expr(args[0], env, pre, want if want is not None and want[0] != "opaque" else None)
            return term, t, "val"
        if segs in (["min"], ["max"], ["cmp", "min"], ["cmp", "max"], ["core", "cmp", "min"], ["core", "cmp", "max"]):
            a, at, b, bt = self.operands(args[0], args[1], env, pre, want)
            if at != bt or not is_int(at): raise RsError("min/max on %r, %r" % (at, bt))
            return "(%s %s %s)" % (name, a, b), at, "val"
        if len(segs) == 2 and segs[0] in UMAX and name == "try_from":
            term, t = self.expr(args[0], env, pre, None)
            if not is_uint(t): raise RsError("try_from from %r" % (t,))
            return "(Rs.utryFrom %s %s)" % (UMAX[segs[0]], term), ("tryres", ("int", segs[0])), "val"
        if len(segs) == 2 and segs[0] in UMAX and name == "from":
            term, t = self.expr(args[0], env, pre, None)
            if not is_uint(t) or UBITS[t[1]] > UBITS[segs[0]]: raise RsError("from %r" % (t,))
            return term, ("int", segs[0]), "val"
        if segs == ["Vec", "new"] and not args:
            if want is not None and want[0] == "vec": return "[]", want, "val"
            return "[]", ("vec", ("unknown",)), "val"
        if len(segs) >= 2 and "::".join(segs) in self.u.externals:
            return self.call_external("::".join(segs), args, env, pre)      # declared external `Type::function`
        if len(segs) == 2 and segs[0] in ("Vec", "VecDeque", "BTreeMap", "HashMap", "BTreeSet", "HashSet", "OrderedMap",
                                          "UnorderedMap", "OrderedSet", "UnorderedSet", "Map") and name in ("new", "with_capacity", "default"):
            for x in args:
                term, t = self.expr(x, env, pre, ("int", "usize"))
            if want is not None and want[0] in ("vec", "map", "umap", "set", "uset"): return "[]", want, "val"
            raise RsError("%s::%s() without a known collection type (annotate the let)" % (segs[0], name))
        if segs in (["Box", "new"], ["Arc", "new"], ["Rc", "new"], ["Mutex", "new"], ["RefCell", "new"]) and len(args) == 1:
            # (round 9) `Box<T>` / `Arc<T>` / `Mutex<T>` are `T` (see rsparse / resolve): their constructor is the identity
            term, t = self.expr(args[0], env, pre, want)
            return term, t, "val"
        if segs == ["drop"] and len(args) == 1:
            self.expr(args[0], env, [], None)
            return "()", UNIT, "val"
        if len(segs) == 2 and segs[0] in UMAX and name in ("from_be_bytes", "from_le_bytes") and len(args) == 1:
            nb = UBITS[segs[0]] // 8
            x = args[0]
            if x[0] == "mcall" and x[2] in ("unwrap", "expect") and x[1][0] == "mcall" and x[1][2] == "try_into":
                term, t = self.expr(x[1][1], env, pre, None)
                if t != ("vec", ("int", "u8")): raise RsError("try_into on %r" % (t,))
                v = self.fresh("arr")
                pre.append(("bind", v, MCall("Rs.arrayOfSlice %d %s" % (nb, term))))
                term = v
            else:
                term, t = self.expr(x, env, pre, ("vec", ("int", "u8")))
                if t != ("vec", ("int", "u8")): raise RsError("%s on %r" % (name, t))
            return "(Rs.%s %s)" % ("fromBeBytes" if name == "from_be_bytes" else "fromLeBytes", term), ("int", segs[0]), "val"
        tsn = self.impl if segs == ["Self"] else (segs[-1] if len(segs) == 1 else None)
        if tsn in self.u.fi.tuple_structs and (self.u.open_tuple_structs is None or tsn in self.u.open_tuple_structs):
            # constructor of a tuple struct listed under tuple_structs: the tuple of the components / the component
            tyr = self.u.resolve(("named", tsn, []))
            comps = tyr[1] if len(self.u.fi.tuple_structs[tsn]) >= 2 else [tyr]
            if len(comps) != len(args): raise RsError("constructor %s arity" % tsn)
            terms = []
            for a_, ft in zip(args, comps):
                term, t = self.expr(a_, env, pre, ft)
                self.check_ty(t, ft, "argument of %s(..)" % tsn)
                terms.append(term)
            return (terms[0] if len(terms) == 1 else "(" + ", ".join(terms) + ")"), tyr, "val"
        en = (segs[-2] if segs[-2] != "Self" else self.impl) if len(segs) >= 2 else None
        if en in self.u.fi.enum_data and name in [v for v, _ in self.u.fi.enum_data[en]]:
            names, tys = self.u.variant_types(en, name)
            if names is not None or len(tys) != len(args): raise RsError("variant constructor %s arity" % name)
            terms = []
            for a_, ft in zip(args, tys):
                term, t = self.expr(a_, env, pre, ft)
                self.check_ty(t, ft, "argument of %s::%s" % (en, name))
                terms.append(term if " " not in term or term.startswith("(") else "(" + term + ")")
            self.u.resolve(("named", en, []))
            return "(%s.%s %s)" % (en, lid(name), " ".join(terms)), ("enum", en), "val"
        impl = None
        if len(segs) == 2 and segs[0] in ("Self", self.impl): impl = self.impl
        elif len(segs) == 2 and (segs[0], name) in self.u.fi.fns and (segs[0] in self.u.fi.structs or segs[0] in self.u.fi.enum_data
                                                                  or segs[0] in self.u.fi.tuple_structs):
            impl = segs[0]      # (tuple structs: b1617, round 9)
        elif len(segs) != 1: raise RsError("call of %s is outside the subset" % "::".join(segs))
        if name in self.u.externals and impl is None:
            return self.call_external(name, args, env, pre)
        if "::".join(segs) in self.u.externals:
            return self.call_external("::".join(segs), args, env, pre)
        if (impl, name) in self.u.fi.fns:
            info = self.u.get_fn(impl, name)
            if info.params and info.params[0][0] == "self":
                raise RsError("static call of a method")
            if info.mut_params:
                return self.invoke(info, None, args, env, pre, wr)
            a = self.args_for(info, args, env, pre)
            return self.call_translated(info, a, env, pre)
        raise RsError("call of unknown function %s (not in this file, not declared external)" % "::".join(segs))

    def call_external(self, name, args, env, pre, recv=None, field_style=False):
        """call of a function declared under `externals` in the target list.  `name` is the plain name of a free
        function, `Type::function` for an associated function, `self.method` for a method of the translated impl that
        is itself outside the subset (the receiver is NOT passed: the external stands for the method of this one
        `self`), or `OpaqueType.method` for a method of a value of an opaque type (`recv` = (term, type), passed as
        the first argument).  A declared `Result<T, E>` is read as `Option<T>` (`Err(_)` -> `none`; only `.unwrap()`,
        `.ok()`, `.is_ok()`, `.is_err()`, `.unwrap_or(d)` are available on it).  `"drop": True`: the call is not
        evaluated at all and yields `()` (for a value that is only the receiver of `policy_err!`).  `"monadic": True` on a
        declared `Result<T, E>`: the external has type `… → Rs.M T` (its `Err(e)` is a failure with the policy tag of `e`)
        and can be used with `?`; `"partial": True` on any other type: `… → Rs.M T` (it may panic or overflow), bound
        where it is called.  `StructType.method` (a struct imported from another file): receiver passed, as for opaque
        types.  External types are printed when the unit is emitted (`LazyTy`).
        `field.method` (`field_style`): a method of a (generic / foreign) field of `self`, `self.local.get(k)`: the field's
        value is passed as the receiver and a declared `Result` is monadic unless `"monadic": false`.
        A bare method name with a `"receiver": T` entry (b0809): a method of a value of exactly type T, the receiver is
        the first of `params`; `"may_panic"` = `"partial"`.  Wherever a receiver is passed, `params` may either list it
        first (b0507, b0809) or leave it out (b0103): decided by the arity."""
        spec = self.u.externals[name]
        if spec.get("drop"):
            if args: raise RsError("dropped external %s with arguments" % name)
            self.dropped.append("%s() (declared: only used as the receiver of policy_err!)" % name)
            return "()", UNIT, "val"
        pts = [self.u.parse_type(s, self.impl) for s in spec["params"]]
        rt = self.u.parse_type(spec["ret"], self.impl)
        terms, atys = [], []
        if recv is not None:
            if len(pts) == len(args) + 1:          # the receiver is the first of `params`
                self.check_ty(recv[1], pts[0], "receiver of external %s" % name)
                atys, pts = [pts[0]], pts[1:]
            else:
                atys = [recv[1]]
            terms.append(recv[0] if " " not in recv[0] or recv[0].startswith("(") else "(" + recv[0] + ")")
        if len(pts) != len(args): raise RsError("external %s arity" % name)
        for a, pt in zip(args, pts):
            term, t = self.expr(a, env, pre, pt)
            self.check_ty(t, pt, "argument of external %s" % name)
            terms.append(term if " " not in term or term.startswith("(") else "(" + term + ")")
        monadic_ext = rt[0] == "result" and (spec.get("monadic") or (field_style and spec.get("monadic") is not False))
        partial_ext = rt[0] != "result" and (spec.get("partial") or spec.get("may_panic"))
        if monadic_ext:
            lty = LazyTy(self.u, atys + pts, rt[1], "Rs.M")      # `Err(e)` = a failure carrying the policy tag of `e`
        elif partial_ext:
            lty = LazyTy(self.u, atys + pts, rt, "Rs.M", paren=not spec.get("may_panic"))   # may panic / overflow
        elif rt[0] == "result":
            rt = ("tryres", rt[1])
            lty = LazyTy(self.u, atys + pts, rt[1], "Option")
        else:
            lty = LazyTy(self.u, atys + pts, rt, None)
        ident = "ext_" + re.sub(r"\W+", "_", name)
        ops = []
        for t in atys + pts + [rt if rt[0] not in ("tryres", "result") else rt[1]]:
            self.u.opaques_of(t, ops)
        self.add_ext(ident, lty, ops)
        if monadic_ext:
            return ("%s %s" % (ident, " ".join(terms))).strip(), rt[1], "comp"
        if partial_ext:
            v = self.fresh()
            pre.append(("bind", v, MCall(("%s %s" % (ident, " ".join(terms))).strip())))
            return v, rt, "val"
        if not terms: return ident, rt, "val"
        return "(%s %s)" % (ident, " ".join(terms)), rt, "val"

    def mentions(self, a, name):
        """does the AST `a` read the variable `name`?  Logging macros do not count (they are dropped); the argument tokens of
        every other macro do."""
        if isinstance(a, tuple):
            if len(a) == 2 and a[0] == "path" and a[1] == [name]: return True
            if a and a[0] == "macro":
                if a[1] in ("trace", "debug", "info", "warn", "error") or a[1] in getattr(self.u, "log_macros", ()): return False
                return any(getattr(tk, "k", None) == "id" and tk.s == name for tk in a[2])
            return any(self.mentions(y, name) for y in a)
        if isinstance(a, list):
            return any(self.mentions(y, name) for y in a)
        return False

    def closure_external(self, name, recv, args, env, pre, wr):
        """(round 9) `recv.m(a…, |x| BODY)` for a method declared `"Type.m": {"closure": "X", "params": [..]}` (the shape of
        `Node::with_channel(&id, |chan| …)`: run the closure on a `&mut X` the receiver looks up, return the closure's
        `Result`).  BODY becomes a definition of its own, `<function>.<m>_<n>`, with the variables it reads as parameters
        and `x : X` as its last, `&mut`, parameter (so it returns `Rs.M (X × T)`); the method is the higher-order external
        `ext_Type_m : {T : Type} → Type → args → (X → Rs.M (X × T)) → Rs.M T`.  A tying theorem instantiates it or speaks
        about the closure's definition directly.  The value must be consumed by `?` or be in tail position."""
        spec = self.u.externals[name]
        if not (wr and self.is_result): raise RsError("Result of %s(.., closure) used other than by `?` or in tail position" % name)
        c = args[-1]
        if c[0] != "closure" or len(c[1]) != 1 or c[1][0][0] != "pvar": raise RsError("%s: expected a one-parameter closure" % name)
        pts = [self.u.parse_type(x, self.impl) for x in spec["params"]]
        if len(pts) != len(args) - 1: raise RsError("external %s arity" % name)
        rterm, rty = self.expr(recv, env, pre, None)
        terms = [self.paren(rterm)]
        for a, pt in zip(args[:-1], pts):
            term, t = self.expr(a, env, pre, pt)
            self.check_ty(t, pt, "argument of external %s" % name)
            terms.append(self.paren(term))
        xname = c[1][0][1]
        xty = self.u.parse_type(spec["closure"], self.impl)
        body = c[2] if c[2][0] == "block" else ("block", [], c[2])
        # captured variables: every variable of the environment the body mentions (in order of appearance)
        caps = []
        def walk(a):
            if isinstance(a, tuple):
                if len(a) == 2 and a[0] == "path" and isinstance(a[1], list) and len(a[1]) == 1 and a[1][0] in env \
                        and a[1][0] not in caps and a[1][0] not in ("self", xname):
                    caps.append(a[1][0])
                for y in a: walk(y)
            elif isinstance(a, list):
                for y in a: walk(y)
        walk(body)
        if any(env[v][0] in ("alias", "lockres") for v in caps): raise RsError("closure of %s captures an alias" % name)
        uses_self = "self" in env and ("path", ["self"]) in [x for x in self._paths(body)]
        self.closure_n = getattr(self, "closure_n", 0) + 1
        fname = "%s__%s_%d" % (self.f["name"], name.split(".")[-1], self.closure_n)
        def synth(ret):
            return {"name": fname, "impl": self.impl, "self": "ref" if uses_self else None, "ret": ret, "body": body,
                    "params": [(("pvar", v), ("resolved", env[v]), False, False) for v in caps] + [(("pvar", xname), ("resolved", xty), False, True)],
                    "vis": "", "line": getattr(self.u, "line_map", {}).get((self.impl, self.f["name"]), self.f["line"]), "end_line": self.f["end_line"],
                    "text": "closure |%s| of %s(..) in %s" % (xname, name, self.f["text"][:60])}
        key = (self.impl, fname)
        if key not in self.u.fns:
            # first pass: the closure has no declared return type -- the types seen in its tail positions decide
            saved = (dict((k_, list(v)) for k_, v in self.u.used_fields.items()), list(self.u.used_enums), list(self.u.used_denums))
            t1 = FnTranslator(self.u, synth(("resolved", ("result", ("unknown",), ("opaque", "Status")))))
            t1.run()
            def known(t):
                return t != ("unknown",) and t != INTLIT and all(known(x) for x in t[1:] if isinstance(x, tuple)) \
                    and all(known(y) for x in t[1:] if isinstance(x, list) for y in x)
            good = [t for t in getattr(t1, "ret_seen", []) if known(t)]
            if not good: raise RsError("closure of %s: its result type cannot be determined" % name)
            self.u.used_fields, self.u.used_enums, self.u.used_denums = saved
            info = FnTranslator(self.u, synth(("resolved", ("result", good[0], ("opaque", "Status"))))).run()
            self.u.fns[key] = info
            self.u.order.append(key)
        info = self.u.fns[key]
        for x in info.exts: self.add_ext(*x, ops=getattr(info, "ext_opaques", ()))
        for o in info.needs_deq:
            if o not in self.needs_deq: self.needs_deq.append(o)
        self.callees.append(info.lean_name)
        T = info.val_ty
        ident = "ext_" + re.sub(r"\W+", "_", name)
        ops = []
        for t in [rty] + pts + [xty]: self.u.opaques_of(t, ops)
        lt = self.u.lt
        lty = "{T : Type} → " + " → ".join([lt(t, False) for t in [rty] + pts] +
                                             ["(%s → Rs.M (%s × T))" % (lt(xty, False), lt(xty, False)), "Rs.M T"])
        self.add_ext(ident, lty, ops)
        fterm = " ".join([info.lean_name] + [n for n, _ in info.exts] + (["self"] if uses_self else []) + [lid(v) for v in caps])
        if T == UNIT:
            # the closure definition returns the new X alone: adapt to the external's `X × T`
            fterm = "fun x_ => do let s_ ← %s x_; pure (s_, ())" % fterm
        return "%s %s (%s)" % (ident, " ".join(terms), fterm), T, "comp"

    def _paths(self, a):
        if isinstance(a, tuple):
            if len(a) == 2 and a[0] == "path": yield a
            for y in a:
                for z in self._paths(y): yield z
        elif isinstance(a, list):
            for y in a:
                for z in self._paths(y): yield z

    def declared_mutex(self, recv, env):
        """is the place `recv` (a field of a structure of the unit, or a parameter) *declared* with a `Mutex<..>` type
        (under `Arc`/`Rc`/`Box`/references)?  Only then `.lock()` on a value of opaque type is known to be the mutex's."""
        def is_mutex(ty):
            while ty[0] == "named" and ty[1] in ("Arc", "Rc") and len(ty[2]) == 1: ty = ty[2][0]
            return ty[0] == "named" and ty[1] == "Mutex"
        while recv[0] in ("paren", "ref", "deref"): recv = recv[1]
        if recv[0] == "field":
            try:
                _, bt = self.expr(recv[1], env, [], None)
            except RsError:
                return False
            if bt[0] != "struct": return False
            return any(fn == recv[2] and ty is not None and is_mutex(ty) for fn, ty in self.u.fi.structs[bt[1]])
        if recv[0] == "path" and len(recv[1]) == 1:
            return any(pat[0] == "pvar" and pat[1] == recv[1][0] and is_mutex(ty) for pat, ty, _, _ in self.f["params"])
        return False

    def call_updating(self, name, recv, args, env, pre, wr):
        """(round 9) call of a method declared `"Type.m": {"params": [..], "ret": R, "updates": true}` on a *place* of the
        opaque (or imported struct) type `Type`: the external is a function `Type → args → Type × R` (`Type` alone for
        `R = ()`; `Rs.M (…)` for a declared `Result<R, _>` -- then, as for translated `&mut self` methods, only under `?`
        or in tail position -- and for `"partial": true`); the new value is stored back into the receiver place, which
        must be assignable (a `&mut` parameter, a `let mut` local, a field of a state-updating `self`).  The state after
        an `Err` is not modelled (the monad carries no state): exactly the treatment of translated `&mut self` methods."""
        spec = self.u.externals[name]
        pts = [self.u.parse_type(x, self.impl) for x in spec["params"]]
        rt = self.u.parse_type(spec["ret"], self.impl)
        rterm, rty = self.expr(recv, env, pre, None)
        if len(pts) == len(args) + 1:
            self.check_ty(rty, pts[0], "receiver of external %s" % name); pts = pts[1:]
        if len(pts) != len(args): raise RsError("external %s arity" % name)
        terms = [self.paren(rterm)]
        for a, pt in zip(args, pts):
            term, t = self.expr(a, env, pre, pt)
            self.check_ty(t, pt, "argument of external %s" % name)
            terms.append(self.paren(term))
        is_res = rt[0] == "result"
        val = rt[1] if is_res else rt
        out = rty if val == UNIT else ("tuple", [rty, val])
        mon = is_res or spec.get("partial") or spec.get("may_panic")
        lty = LazyTy(self.u, [rty] + pts, out, "Rs.M" if mon else None)
        ident = "ext_" + re.sub(r"\W+", "_", name)
        ops = []
        for t in [rty] + pts + [val]: self.u.opaques_of(t, ops)
        self.add_ext(ident, lty, ops)
        if is_res and not (wr and self.is_result):
            raise RsError("Result of the state-updating external %s used other than by `?` or in tail position" % name)
        s_, r_ = self.fresh("s"), None
        patt = s_
        if val != UNIT:
            r_ = self.fresh("r"); patt = "(%s, %s)" % (s_, r_)
        call = "%s %s" % (ident, " ".join(terms))
        pre.append(("bind", patt, MCall(call)) if mon else ("let", patt, call))
        self.place_set(recv, s_, env, pre)
        return (r_ if r_ is not None else "()"), val, ("tried" if is_res else "val")

    def mcall(self, e, env, pre, want):
        _, recv, m, turbo, args, line = e
        wr = getattr(self, "wr_of", {}).get(id(e), False)
        if m in ("unwrap", "expect") and recv[0] in ("call", "mcall") and self.is_result:
            # (b1012, round 9) `f(..).unwrap()` / `.expect(msg)` on the `Result` of a translated (or monadic external) call that
            # does not update state: an `Err` is a panic (`Rs.unwrapOk`), a panic or overflow inside stays what it is.
            # (a probe first: any other receiver goes on below, untouched)
            pre0, n0 = [], self.n
            try:
                r0 = self.call_any(recv, env, pre0, want_result=True)
            except RsError:
                r0 = None
            if r0 is not None and r0[2] == "comp":
                pre.extend(pre0)
                v = self.fresh()
                pre.append(("bind", v, MCall("Rs.unwrapOk (%s)" % r0[0])))
                return v, r0[1], "val"
            self.n = n0
        if recv[0] == "path" and len(recv[1]) == 1 and env.get(recv[1][0], (None,))[0] == "captured":
            # (b0507) a captured `Result` value (see the `let` rule)
            x = lid(recv[1][0])
            if m == "is_ok" and not args: return "(match %s with | Except.ok _ => true | Except.error _ => false)" % x, BOOL, "val"
            if m == "is_err" and not args: return "(match %s with | Except.ok _ => false | Except.error _ => true)" % x, BOOL, "val"
            raise RsError("method .%s on a captured Result is outside the subset" % m)
        if any(n.endswith("." + m) and x.get("updates_receiver") for n, x in self.u.externals.items()):
            # (b1819) receiver-updating external in value position / under `?`: `let v = r.read_u32_be()?;`,
            # `w.write_all(&b)?;` — the external returns the new receiver, or the pair (new receiver, value); a declared
            # `Result` must be "monadic" and consumed by `?` (or the tail position)
            try:
                self.place_root(recv); _, bt0 = self.expr(recv, env, [], None)
            except RsError:
                bt0 = None
            nm = "%s.%s" % (bt0[1], m) if bt0 is not None and bt0[0] in ("opaque", "struct") else None
            if nm in self.u.externals and self.u.externals[nm].get("updates_receiver"):
                term, t, kind = self.call_external(nm, [recv] + list(args), env, pre)
                if kind == "comp":
                    if not wr or not self.is_result:
                        raise RsError("Result of the receiver-updating external %s used other than by `?`" % nm)
                    v = self.fresh()
                    pre.append(("bind", v, MCall(term))); term = v
                elif t[0] in ("tryres", "extres"):
                    raise RsError("receiver-updating external %s: a declared Result must be monadic" % nm)
                k2 = "tried" if kind == "comp" else "val"
                if t == bt0:
                    self.place_set(recv, term, env, pre)
                    return "()", UNIT, k2
                if t[0] == "tuple" and len(t[1]) == 2 and t[1][0] == bt0:
                    a, b = self.fresh("rcv"), self.fresh("val")
                    pre.append(("let", "(%s, %s)" % (a, b), term))
                    self.place_set(recv, a, env, pre)
                    return b, t[1][1], k2
                raise RsError("receiver-updating external %s must return the receiver type or (receiver, value)" % nm)
        if recv == ("path", ["self"]) and ("self." + m) in self.u.externals:
            return self.call_external("self." + m, args, env, pre)
        if recv == ("path", ["self"]) and self.impl and "%s.%s" % (self.impl, m) in self.u.externals and "self" in env:
            return self.call_external("%s.%s" % (self.impl, m), [recv] + list(args), env, pre)
        # methods of the translated impl on self
        if recv == ("path", ["self"]) and self.impl and (self.impl, m) in self.u.fi.fns and m not in ("clone",) \
                and (self.impl, m) not in self.u.fi.decl_only:
            info = self.u.get_fn(self.impl, m)
            if info.mut_params:
                if info.mut_self and self.selfk != "mut": raise RsError("&mut self method called from a &self method")
                return self.invoke(info, recv, args, env, pre, wr)
            a = self.args_for(info, args, env, pre)
            if info.mut_self:
                if self.selfk != "mut": raise RsError("&mut self method called from a &self method")
                if info.is_result:
                    v = self.fresh("r")
                    call = " ".join([info.lean_name] + [n for n, _ in info.exts] + ["self"] + a)
                    for x in info.exts: self.add_ext(*x, ops=getattr(info, 'ext_opaques', ()))
                    for o in info.needs_deq:      # (b04, round 9) as in call_translated / invoke
                        if o not in self.needs_deq: self.needs_deq.append(o)
                    self.callees.append(info.lean_name)
                    if not self.is_result: raise RsError("Result method called outside a Result function")
                    if not wr:
                        raise RsError("Result of the state-updating call %s used other than by `?` or in tail position" % m)
                    if info.val_ty == UNIT:
                        pre.append(("bind", "self", MCall(call))); return "()", UNIT, "tried"
                    pre.append(("bind", "(self, %s)" % v, MCall(call)))
                    return v, info.val_ty, "tried"
                term, t, kind = self.call_translated(info, a, env, pre, "self")
                if info.val_ty == UNIT:
                    pre.append(("let", "self", term)); return "()", UNIT, "val"
                v = self.fresh("r")
                pre.append(("let", "(self, %s)" % v, term))
                return v, info.val_ty, "val"
            return self.call_translated(info, a, env, pre, "self")
        if recv[0] == "field" and recv[1] == ("path", ["self"]) and ("%s.%s" % (recv[2], m)) in self.u.externals:
            # method of a (generic / foreign) field declared external in the target list: `self.local.get(k)`
            ft, fty = self.expr(recv, env, pre, None)
            return self.call_external("%s.%s" % (recv[2], m), args, env, pre, recv=(ft, fty), field_style=True)
        if recv == ("path", ["self"]) and self.trait_self and (self.impl, m) in self.u.fi.decl_only:
            return self.decl_external(self.impl, m, args, env, pre, wr)
        if recv[0] == "path" and len(recv[1]) == 1 and recv[1][0] not in env and recv[1][0] != "self" \
                and self.u.const_value(recv[1][0], self.local_consts) is None:
            raise RsError("method call on unknown %s" % recv[1][0])
        if args and args[-1][0] == "closure" and any(k.endswith("." + m) and v.get("closure") for k, v in self.u.externals.items()):
            pre0, n0 = [], self.n
            try:
                _, ct0 = self.expr(recv, env, pre0, None)
            except RsError:
                ct0 = ("unknown",)
            self.n = n0
            if ct0[0] in ("struct", "opaque") and self.u.externals.get("%s.%s" % (ct0[1], m), {}).get("closure"):
                return self.closure_external("%s.%s" % (ct0[1], m), recv, args, env, pre, wr)
        if any(k.endswith("." + m) and v.get("updates") for k, v in self.u.externals.items()):
            # (round 9) a declared *state-updating* external method `Type.m` (`"updates": true`): the receiver is a place
            pre0, n0 = [], self.n
            try:
                _, ut0 = self.expr(recv, env, pre0, None)
            except RsError:
                ut0 = ("unknown",)
            self.n = n0
            if ut0[0] in ("struct", "opaque") and self.u.externals.get("%s.%s" % (ut0[1], m), {}).get("updates"):
                return self.call_updating("%s.%s" % (ut0[1], m), recv, args, env, pre, wr)
        if recv[0] == "path" and len(recv[1]) == 1 and recv[1][0] in env and env[recv[1][0]][0] in ("struct", "opaque") \
                and "%s.%s" % (env[recv[1][0]][1], m) in self.u.externals:
            # a method declared external in the target list: `ext_<Type>_<method> : Type → args → ret`
            # (Type: a structure, or an opaque type such as a `&dyn Trait` parameter)
            nm = "%s.%s" % (env[recv[1][0]][1], m)
            if len(self.u.externals[nm]["params"]) == len(args) + 1:      # the receiver is listed among `params`
                return self.call_external(nm, [recv] + list(args), env, pre)
            rb, rbt = self.expr(recv, env, pre, None)
            return self.call_external(nm, args, env, pre, recv=(rb, rbt))   # `params` are the arguments only
        if recv[0] == "path" and len(recv[1]) == 1 and recv[1][0] in env and env[recv[1][0]][0] == "struct" \
                and (env[recv[1][0]][1], m) in self.u.fi.fns and m != "clone":
            v = recv[1][0]
            info = self.u.get_fn(env[v][1], m)
            if info.mut_params: raise RsError("callee with &mut parameters")
            a = self.args_for(info, args, env, pre)
            if info.mut_self:
                if v not in self.mut_params and v in getattr(self, "owned_locals", ()) and not info.is_result:
                    return self.invoke(info, recv, args, env, pre)     # stored back into the local (by-value copy)
                if v not in self.mut_params: raise RsError("&mut self method on a receiver that is not a &mut parameter")
                if info.is_result: raise RsError("Result-returning &mut method on a parameter")
                term, t, kind = self.call_translated(info, a, env, pre, lid(v))
                if info.val_ty == UNIT:
                    pre.append(("let", lid(v), term)); return "()", UNIT, "val"
                r = self.fresh("r")
                pre.append(("let", "(%s, %s)" % (lid(v), r), term))
                return r, info.val_ty, "val"
            return self.call_translated(info, a, env, pre, lid(v))
        # methods of another struct/enum of the file on an arbitrary place
        if m not in ("clone",) and not (recv == ("path", ["self"])):
            try:
                _, rty0 = self.expr(recv, env, [], None)
            except RsError:
                rty0 = None
            if rty0 is not None and rty0[0] in ("struct", "enum") and (rty0[1], m) in self.u.fi.fns:
                info = self.u.get_fn(rty0[1], m)
                if info.mut_self or info.mut_params:
                    return self.invoke(info, recv, args, env, pre, wr)
                a = self.args_for(info, args, env, pre)
                rterm, _ = self.expr(recv, env, pre, None)
                return self.call_translated(info, a, env, pre, rterm if " " not in rterm or rterm.startswith("(") else "(" + rterm + ")")
        r = self.mutator(recv, m, args, env, pre, want)
        if r is not None: return r
        # place-mutating Option::take
        if m == "take" and not args:
            base, bt = self.expr(recv, env, pre, None)
            if bt[0] != "opt": raise RsError("take on a non-Option")
            v = self.fresh("old")
            pre.append(("let", v, base))
            self.place_set(recv, "none", env, pre)
            return v, bt, "val"
        if recv[0] in ("field", "mcall", "call"):
            # `self.inner.method(..)` / `self.validator().method(..)` / `f(x).method(..)` (b1819) with a receiver of an opaque type
            # (`Arc<dyn Trait>`): a method external on it
            pre0, n0 = [], self.n      # (a probe of the receiver's type: must not consume fresh names)
            try:
                _, bt0 = self.expr(recv, env, pre0, None)
            except RsError:
                bt0 = ("unknown",)
            self.n = n0
            if bt0[0] in ("struct", "opaque") and "%s.%s" % (bt0[1], m) in self.u.externals:
                if len(self.u.externals["%s.%s" % (bt0[1], m)]["params"]) == len(args) + 1:   # receiver listed in `params`
                    return self.call_external("%s.%s" % (bt0[1], m), [recv] + list(args), env, pre)
        base, bt = self.expr(recv, env, pre, None)
        k = bt[0]
        if m == "lock" and not args and k not in ("opaque", "iter", "viter", "lockres"):
            return base, ("lockres", bt), "val"      # trusted: locking is the identity on the protected value
        if m == "lock" and not args and k == "opaque" and bt[1] in getattr(self.u, "mutex_opaques", ()) \
                and (bt[1] + ".lock") not in self.u.externals and self.declared_mutex(recv, env):
            return base, ("lockres", bt), "val"      # (round 9) the place is declared `Mutex<Opaque>`: identity, as above
        if k == "lockres":
            if m in ("unwrap", "expect"): return base, bt[1], "val"
            raise RsError("lock result used other than by unwrap/expect")
        if m in self.u.externals and self.u.externals[m].get("receiver") is not None:
            # declared external method: only on a receiver of exactly the declared (opaque or view) type
            want_recv = self.u.parse_type(self.u.externals[m]["receiver"], self.impl)
            if bt == want_recv and not ((k == "struct") and (bt[1], m) in self.u.fi.fns):
                return self.call_external(m, args, env, pre, recv=(base, bt))
        if m in ("clone", "copied", "cloned", "as_ref", "to_owned", "borrow") and not args and k not in ("iter", "viter"):
            return base, bt, "val"
        if m == "to_vec" and not args and k == "vec":
            return base, bt, "val"
        if m == "into" and not args and recv[0] == "path" and len(recv[1]) == 1 and recv[1][0] in getattr(self, "into_params", ()):
            return base, bt, "val"      # (round 9) parameter declared `impl Into<T>`, modelled as the `T` it converts to
        if m == "into" and not args:
            if want is not None and is_uint(want) and is_uint(bt) and UBITS[want[1]] >= UBITS[bt[1]]: return base, want, "val"
            if want is not None and want == bt: return base, bt, "val"
            if k in ("opaque", "struct") and (bt[1] + ".into") in self.u.externals:      # (round 9) declared conversion
                return self.call_external(bt[1] + ".into", [], env, pre, recv=(base, bt))
            if want is not None and want[0] == "struct" and bt[0] == "struct" and self.u.fi.fns.get((want[1], "from")) not in (None, "ambiguous"):
                # b1012, round 9: `x.into()` where the wanted type is a struct of the unit with exactly one `impl From<_> for T`
                # (conversions between in-memory and persisted types): the call `T::from(x)`; the argument type is checked
                info = self.u.get_fn(want[1], "from")
                ps = [p_ for p_ in info.params if p_[0] != "self"]
                if len(ps) == 1 and ps[0][1] == bt and not info.mut_params:
                    return self.call_translated(info, [base if base.startswith("(") or " " not in base else "(" + base + ")"], env, pre)
            raise RsError(".into() without a known widening target")
        if k == "viter":
            # values/keys/entries of a collection in an order the model does not know
            if m in ("into_iter", "iter", "copied", "cloned") and not args: return base, bt, "val"
            if (m in ("sum", "count", "min", "max") and not args) or (m in ("any", "all") and len(args) == 1):
                return self.list_method(base, ("iter", bt[1]), m, turbo, args, env, pre, want)
            raise RsError("method .%s on a collection whose order the model does not know is outside the subset (order-sensitive)" % m)
        if is_uint(bt) or bt == INTLIT:
            return self.int_method(base, bt, m, args, env, pre, want)
        if k == "opt": return self.opt_method(base, bt, m, args, env, pre, want)
        if k == "tryres": return self.tryres_method(base, bt, m, args, env, pre)
        if k == "vec" or k == "iter": return self.list_method(base, bt, m, turbo, args, env, pre, want)
        if k == "str" and m in ("to_string", "as_str", "to_owned", "into", "as_ref") and not args: return base, bt, "val"
        if k == "str" and m == "starts_with" and len(args) == 1:
            px, pt = self.expr(args[0], env, pre, ("str",)); self.check_ty(pt, ("str",), "starts_with")
            return "(String.isPrefixOf %s %s)" % (px, base), BOOL, "val"
        # (added for C18, derive.rs) `"literal".as_bytes()`: the UTF-8 bytes of a string *literal*, spelled out (no
        # string function on the Lean side: kernel-reducible); any other `&str` receiver stays outside the subset
        if k == "str" and m == "as_bytes" and not args:
            r0 = recv
            while r0[0] in ("paren", "ref"): r0 = r0[1]
            if r0[0] == "path" and len(r0[1]) == 1 and r0[1][0] in getattr(self, "str_lets", {}):
                r0 = ("str", self.str_lets[r0[1][0]])      # an immutable local bound once to a literal
            if r0[0] != "str": raise RsError("method .as_bytes on a &str that is not a literal is outside the subset (line %d)" % line)
            return "[" + ", ".join(str(b) for b in r0[1].encode("utf-8")) + "]", ("vec", ("int", "u8")), "val"
        if k == "map" and bt[1] == ("str",) and m == "get" and len(args) == 1:
            kk, kt = self.expr(args[0], env, pre, ("str",)); self.check_ty(kt, ("str",), "map key")
            return "(Rs.smapGet %s %s)" % (base, kk), ("opt", bt[2]), "val"
        if k == "map" and bt[1] == ("str",) and m == "contains_key" and len(args) == 1:
            kk, kt = self.expr(args[0], env, pre, ("str",)); self.check_ty(kt, ("str",), "map key")
            return "(Rs.smapGet %s %s).isSome" % (base, kk), BOOL, "val"
        if k in ("opaque", "struct") and (bt[1] + "." + m) in self.u.externals:
            if len(self.u.externals[bt[1] + "." + m]["params"]) == len(args) + 1:
                return self.call_external(bt[1] + "." + m, [recv] + list(args), env, pre)
            return self.call_external(bt[1] + "." + m, args, env, pre, recv=(base, bt))
        if k in ("map", "umap"):
            g, _, _ = self.map_fns(bt, m in ("get", "contains_key"))
            if m in ("get", "contains_key") and len(args) == 1:
                kk, kt = self.expr(args[0], env, pre, bt[1]); self.check_ty(kt, bt[1], "map key")
                r = "(%s %s %s)" % (g, base, self.paren(kk))
                return (r, ("opt", bt[2]), "val") if m == "get" else (r + ".isSome", BOOL, "val")
            if m == "len" and not args: return "%s.length" % base, ("int", "usize"), "val"
            if m == "is_empty" and not args: return "%s.isEmpty" % base, BOOL, "val"
            ordered = k == "map" and (bt[1] == ("str",) or is_uint(bt[1]))
            if m in ("iter", "into_iter", "keys", "values") and not args:
                # the order is unknown to the model ("viter"): only order-insensitive consumers are admitted
                it = "iter" if ordered else "viter"
                if m == "keys": return "(%s.map (fun kv => kv.1))" % base, (it, bt[1]), "val"
                if m == "values": return "(%s.map (fun kv => kv.2))" % base, (it, bt[2]), "val"
                return base, (it, ("tuple", [bt[1], bt[2]])), "val"
        if k in ("set", "uset"):
            if m == "contains" and len(args) == 1:
                x, xt = self.expr(args[0], env, pre, bt[1]); self.check_ty(xt, bt[1], "contains"); self.note_eq(bt[1])
                return "(%s.contains %s)" % (base, self.paren(x)), BOOL, "val"
            if m == "len" and not args: return "%s.length" % base, ("int", "usize"), "val"
            if m == "is_empty" and not args: return "%s.isEmpty" % base, BOOL, "val"
            if m in ("iter", "into_iter") and not args:
                return base, ("iter" if (k == "set" and is_uint(bt[1])) else "viter", bt[1]), "val"
        raise RsError("method .%s on %r is outside the subset (line %d)" % (m, bt, line))

    def paren(self, term):
        return term if " " not in term or term.startswith("(") or term.startswith("[") else "(" + term + ")"

    def map_fns(self, bt, uses_eq=True):
        """(get, insert, remove) operators of a map type"""
        if bt[0] == "map" and bt[1] == ("str",): return "Rs.smapGet", "Rs.smapInsert", "Rs.smapRemove"
        if uses_eq: self.note_eq(bt[1])
        if bt[0] == "map" and is_uint(bt[1]): return "Rs.omapGet", "Rs.nmapInsert", "Rs.omapRemove"
        return "Rs.omapGet", "Rs.omapInsert", "Rs.omapRemove"

    def mutator(self, recv, m, args, env, pre, want, discard=False):
        """place-mutating collection methods, also in value position (`discard`: statement position, the returned old
        value is not computed); None if not applicable"""
        if m not in MUTATORS: return None
        try:
            self.place_root(recv)
            _, bt = self.expr(recv, env, [], None)
        except RsError:
            return None
        k = bt[0]
        if k not in ("vec", "opt", "map", "umap", "set", "uset") and not (is_uint(bt) and m in ATOMIC_OPS): return None
        U = ("int", "usize")
        def arg(i, ty):
            term, t = self.expr(args[i], env, pre, ty)
            self.check_ty(t, ty, "argument of %s" % m)
            return self.paren(term)
        def setp(new):
            self.place_set(recv, new, env, pre)
        if is_uint(bt):
            # (b1819) std::sync::atomic integers: the `Ordering` argument is not evaluated; `fetch_add/fetch_sub` wrap
            # around on overflow (documented behaviour of the atomics) and return the previous value
            def is_ordering(a):
                return a[0] == "path" and len(a[1]) >= 2 and a[1][-2] == "Ordering"
            if m in ("fetch_add", "fetch_sub") and len(args) == 2 and is_ordering(args[1]):
                base, _ = self.expr(recv, env, pre, None); x = arg(0, bt)
                v = self.fresh("old"); pre.append(("let", v, base))
                setp("(Rs.%s %s %s %s)" % ("uwrapAdd" if m == "fetch_add" else "uwrapSub", UMAX[bt[1]], v, x)); return v, bt, "val"
            if m == "swap" and len(args) == 2 and is_ordering(args[1]):
                base, _ = self.expr(recv, env, pre, None); x = arg(0, bt)
                v = self.fresh("old"); pre.append(("let", v, base))
                setp(x); return v, bt, "val"
            if m == "store" and len(args) == 2 and is_ordering(args[1]):
                x = arg(0, bt); setp(x); return "()", UNIT, "val"
            if m == "load" and len(args) == 1 and is_ordering(args[0]):
                base, _ = self.expr(recv, env, pre, None); return base, bt, "val"
            return None
        if k == "vec":
            el = bt[1]
            if m in ("push_back", "push") and len(args) == 1:
                base, _ = self.expr(recv, env, pre, None); x = arg(0, el)
                setp("(%s ++ [%s])" % (base, x)); return "()", UNIT, "val"
            if m == "push_front" and len(args) == 1:
                base, _ = self.expr(recv, env, pre, None); x = arg(0, el)
                setp("(%s :: %s)" % (x, base)); return "()", UNIT, "val"
            if m in ("pop", "pop_back") and not args:
                base, _ = self.expr(recv, env, pre, None)
                v = self.fresh("old"); pre.append(("let", v, "%s.getLast?" % base))
                setp("%s.dropLast" % base); return v, ("opt", el), "val"
            if m == "pop_front" and not args:
                base, _ = self.expr(recv, env, pre, None)
                v = self.fresh("old"); pre.append(("let", v, "%s.head?" % base))
                setp("%s.tail" % base); return v, ("opt", el), "val"
            if m in ("extend_from_slice", "extend") and len(args) == 1:
                base, _ = self.expr(recv, env, pre, None)
                y, yt = self.expr(args[0], env, pre, bt)
                if yt[0] not in ("vec", "iter") or (yt[1] != el and yt[1] != ("unknown",)): raise RsError("%s with %r" % (m, yt))
                setp("(%s ++ %s)" % (base, y)); return "()", UNIT, "val"
            if m == "remove" and len(args) == 1:
                base, _ = self.expr(recv, env, pre, None); i = arg(0, U)
                x, r = self.fresh("x"), self.fresh("v")
                pre.append(("bind", "(%s, %s)" % (x, r), MCall("Rs.vecRemove %s %s" % (base, i))))
                setp(r); return x, el, "val"
            if m == "retain" and len(args) == 1:
                base, _ = self.expr(recv, env, pre, None)
                pats, ir, t = self.closure1(args[0], [el], env, BOOL)
                if monadic(ir): raise RsError("effectful predicate closure")
                self.check_ty(t, BOOL, "retain")
                setp("(%s.filter (fun %s => %s))" % (base, pats[0], inline(ir))); return "()", UNIT, "val"
            if m == "drain" and len(args) == 1 and args[0] == ("range", None, None, False):
                base, _ = self.expr(recv, env, pre, None)
                v = self.fresh("dr"); pre.append(("let", v, base))
                setp("[]"); return v, ("iter", el), "val"
            if m == "reverse" and not args:
                base, _ = self.expr(recv, env, pre, None)
                setp("%s.reverse" % base); return "()", UNIT, "val"
            return None
        if k == "opt":
            el = bt[1]
            if m == "get_or_insert" and len(args) == 1:
                base, _ = self.expr(recv, env, pre, None); x = arg(0, el)
                v = self.fresh("g"); pre.append(("let", v, "(%s.getD %s)" % (base, x)))
                setp("(some %s)" % v); return v, el, "val"
            if m == "replace" and len(args) == 1:
                base, _ = self.expr(recv, env, pre, None); x = arg(0, el)
                v = self.fresh("old"); pre.append(("let", v, base))
                setp("(some %s)" % x); return v, bt, "val"
            return None
        if k in ("map", "umap"):
            g, ins, rem = self.map_fns(bt)
            if m == "insert" and len(args) == 2:
                base, _ = self.expr(recv, env, pre, None); kk = arg(0, bt[1]); x = arg(1, bt[2])
                v = self.fresh("old")
                if not discard: pre.append(("let", v, "(%s %s %s)" % (g, base, kk)))
                setp("(%s %s %s %s)" % (ins, base, kk, x)); return v, ("opt", bt[2]), "val"
            if m == "remove" and len(args) == 1:
                base, _ = self.expr(recv, env, pre, None); kk = arg(0, bt[1])
                v = self.fresh("old")
                if not discard: pre.append(("let", v, "(%s %s %s)" % (g, base, kk)))
                setp("(%s %s %s)" % (rem, base, kk)); return v, ("opt", bt[2]), "val"
            if m == "clear" and not args:
                setp("[]"); return "()", UNIT, "val"
            if m == "retain" and len(args) == 1 and args[0][0] == "closure" and len(args[0][1]) == 2:
                base, _ = self.expr(recv, env, pre, None)
                pats, ir, t = self.closure1(args[0], [bt[1], bt[2]], env, BOOL)
                if monadic(ir): raise RsError("effectful predicate closure")
                self.check_ty(t, BOOL, "retain")
                setp("(%s.filter (fun (%s, %s) => %s))" % (base, pats[0], pats[1], inline(ir))); return "()", UNIT, "val"
            return None
        if k in ("set", "uset"):
            self.note_eq(bt[1])
            ins = "Rs.nsetInsert" if k == "set" and is_uint(bt[1]) else "Rs.asetInsert"
            if m == "insert" and len(args) == 1:
                base, _ = self.expr(recv, env, pre, None); x = arg(0, bt[1])
                v = self.fresh("new")
                if not discard: pre.append(("let", v, "(!(%s.contains %s))" % (base, x)))
                setp("(%s %s %s)" % (ins, base, x)); return v, BOOL, "val"
            if m == "remove" and len(args) == 1:
                base, _ = self.expr(recv, env, pre, None); x = arg(0, bt[1])
                v = self.fresh("had")
                if not discard: pre.append(("let", v, "(%s.contains %s)" % (base, x)))
                setp("(%s.filter (fun e => e != %s))" % (base, x)); return v, BOOL, "val"
            if m == "clear" and not args:
                setp("[]"); return "()", UNIT, "val"
            return None
        return None

    def int_method(self, base, bt, m, args, env, pre, want):
        if bt == INTLIT: raise RsError("method on an untyped literal")
        mx = UMAX[bt[1]]
        def arg():
            term, t = self.expr(args[0], env, pre, bt)
            self.check_ty(t, bt, "argument of %s" % m)
            return term
        two = {"checked_add": ("Rs.ucheckedAdd %s" % mx, ("opt", bt)), "checked_sub": ("Rs.ucheckedSub", ("opt", bt)),
               "checked_mul": ("Rs.ucheckedMul %s" % mx, ("opt", bt)), "checked_div": ("Rs.ucheckedDiv", ("opt", bt)),
               "saturating_add": ("Rs.usatAdd %s" % mx, bt), "saturating_sub": ("Rs.usatSub", bt),
               "saturating_mul": ("Rs.usatMul %s" % mx, bt),
               "wrapping_add": ("Rs.uwrapAdd %s" % mx, bt), "wrapping_sub": ("Rs.uwrapSub %s" % mx, bt),
               "wrapping_mul": ("Rs.uwrapMul %s" % mx, bt), "min": ("min", bt), "max": ("max", bt)}
        if m in two and len(args) == 1:
            return "(%s %s %s)" % (two[m][0], base, arg()), two[m][1], "val"
        if m in ("to_be_bytes", "to_le_bytes") and not args:
            return "(Rs.%s %d %s)" % ("toBeBytes" if m == "to_be_bytes" else "toLeBytes", UBITS[bt[1]] // 8, base), ("vec", ("int", "u8")), "val"
        if m == "abs_diff" and len(args) == 1:
            b = arg()
            return "(if %s ≤ %s then %s - %s else %s - %s)" % (base, b, b, base, base, b), bt, "val"
        raise RsError("integer method .%s is outside the subset" % m)

    def tryres_method(self, base, bt, m, args, env, pre):
        t = bt[1]
        if m == "unwrap_or":
            d, dt = self.expr(args[0], env, pre, t); self.check_ty(dt, t, "unwrap_or")
            return "(%s.getD %s)" % (base, d), t, "val"
        if m in ("unwrap", "expect"):
            v = self.fresh(); pre.append(("bind", v, MCall("Rs.unwrap %s" % base))); return v, t, "val"
        if m == "ok": return base, ("opt", t), "val"
        if m == "is_ok": return "%s.isSome" % base, BOOL, "val"
        if m == "is_err": return "%s.isNone" % base, BOOL, "val"
        raise RsError("method .%s on try_from result" % m)

    def opt_method(self, base, bt, m, args, env, pre, want):
        el = bt[1]
        if m == "upgrade" and not args: return base, bt, "val"      # `Weak<T>` is modelled as `Option T` (see resolve)
        if m == "is_some": return "%s.isSome" % base, BOOL, "val"
        if m == "is_none": return "%s.isNone" % base, BOOL, "val"
        if m in ("unwrap", "expect"):
            v = self.fresh(); pre.append(("bind", v, MCall("Rs.unwrap %s" % base))); return v, el, "val"
        if m == "unwrap_or":
            d, dt = self.expr(args[0], env, pre, el); self.check_ty(dt, el, "unwrap_or")
            return "(%s.getD %s)" % (base, d), el, "val"
        if m == "unwrap_or_default" and is_uint(el):
            return "(%s.getD 0)" % base, el, "val"
        if m == "unwrap_or_default" and el[0] == "struct" and (el[1], "default") in self.u.fi.fns and not args:
            # (b0507) `impl Default for S` of the unit's files: the translated `S::default()`
            info = self.u.get_fn(el[1], "default")
            d, dt, kind = self.call_translated(info, [], env, pre)
            if kind != "val" or dt != el: raise RsError("unwrap_or_default: %s::default() outside the subset" % el[1])
            return "(%s.getD %s)" % (base, d), el, "val"
        if m in ("unwrap_or_else", "or_else"):
            pats, ir, t = self.closure1(args[0], [], env, el if m == "unwrap_or_else" else bt)
            rt = el if m == "unwrap_or_else" else bt
            if not monadic(ir):
                fn = "Option.getD" if m == "unwrap_or_else" else "Option.or"
                return "(%s %s %s)" % (fn, base, inline(ir)), rt, "val"
            v = self.fresh()
            some = "x_some"
            pre.append(("bind", v, Match(base, [("some %s" % some, P(some if m == "unwrap_or_else" else "(some %s)" % some)), ("none", ir)])))
            return v, rt, "val"
        if m == "or":
            o, ot = self.expr(args[0], env, pre, bt)
            return "(%s.or %s)" % (base, o), bt, "val"
        if m in ("map", "and_then"):
            pats, ir, t = self.closure1(args[0], [el], env, None)
            if t == INTLIT: raise RsError("closure returning an untyped literal")
            rt = ("opt", t) if m == "map" else t
            if m == "and_then" and t[0] != "opt": raise RsError("and_then closure type")
            if not monadic(ir):
                fn = "Option.map" if m == "map" else "Option.bind"
                if m == "map":
                    return "(Option.map (fun %s => %s) %s)" % (pats[0], inline(ir), base), rt, "val"
                return "(Option.bind %s (fun %s => %s))" % (base, pats[0], inline(ir)), rt, "val"
            v = self.fresh()
            r = self.fresh("r")
            body = Bind(r, ir, P("(some %s)" % r if m == "map" else r))
            pre.append(("bind", v, Match(base, [("some %s" % pats[0], body), ("none", P("none"))])))
            return v, rt, "val"
        if m == "map_or":
            d, dt = self.expr(args[0], env, pre, want)
            pats, ir, t = self.closure1(args[1], [el], env, dt if dt != INTLIT else want)
            if monadic(ir): raise RsError("map_or with an effectful closure")
            if t == INTLIT: t = dt
            return "(match %s with | some %s => %s | none => %s)" % (base, pats[0], inline(ir), d), t, "val"
        raise RsError("Option method .%s is outside the subset" % m)

    def list_method(self, base, bt, m, turbo, args, env, pre, want):
        el = bt[1]
        if m in ("iter", "into_iter") and not args: return base, ("iter", el), "val"
        if bt[0] == "iter" and m in ("copied", "cloned") and not args: return base, bt, "val"
        if m == "len" and not args and bt[0] == "vec": return "%s.length" % base, ("int", "usize"), "val"
        if m == "is_empty" and not args and bt[0] == "vec": return "%s.isEmpty" % base, BOOL, "val"
        if m == "count" and not args and bt[0] == "iter": return "%s.length" % base, ("int", "usize"), "val"
        if m == "collect" and not args and bt[0] == "iter": return base, ("vec", el), "val"
        if m == "rev" and not args and bt[0] == "iter": return "%s.reverse" % base, bt, "val"
        if m in ("first", "front") and bt[0] == "vec": return "%s.head?" % base, ("opt", el), "val"
        if m in ("last", "back") and not args: return "%s.getLast?" % base, ("opt", el), "val"
        if m in ("to_vec", "as_slice", "into_vec", "to_owned", "as_mut_slice") and not args and bt[0] == "vec": return base, bt, "val"
        if m == "get" and len(args) == 1 and bt[0] == "vec":
            i, it = self.expr(args[0], env, pre, ("int", "usize")); self.check_ty(it, ("int", "usize"), "get")
            return "%s[%s]?" % (base, i), ("opt", el), "val"
        if m == "enumerate" and not args and bt[0] == "iter":
            return "(Rs.enumerate %s)" % base, ("iter", ("tuple", [("int", "usize"), el])), "val"
        if m == "zip" and len(args) == 1 and bt[0] == "iter":
            o, ot = self.expr(args[0], env, pre, None)
            if ot[0] not in ("iter", "vec"): raise RsError("zip with %r" % (ot,))
            return "(List.zip %s %s)" % (base, o), ("iter", ("tuple", [el, ot[1]])), "val"
        if m in ("skip", "take") and len(args) == 1 and bt[0] == "iter":
            n, nt = self.expr(args[0], env, pre, ("int", "usize")); self.check_ty(nt, ("int", "usize"), m)
            return "(%s.%s %s)" % (base, "drop" if m == "skip" else "take", n), bt, "val"
        if m in ("min", "max") and not args and bt[0] == "iter" and is_uint(el):
            return "%s.%s?" % (base, m), ("opt", el), "val"
        if m in ("find", "position") and len(args) == 1 and bt[0] == "iter":
            pats, ir, t = self.closure1(args[0], [el], env, BOOL)
            if monadic(ir): raise RsError("effectful predicate closure")
            self.check_ty(t, BOOL, m)
            if m == "find": return "(%s.find? (fun %s => %s))" % (base, pats[0], inline(ir)), ("opt", el), "val"
            return "(%s.findIdx? (fun %s => %s))" % (base, pats[0], inline(ir)), ("opt", ("int", "usize")), "val"
        if m == "contains" and bt[0] == "vec":
            x, xt = self.expr(args[0], env, pre, el); self.check_ty(xt, el, "contains"); self.note_eq(el)
            return "(%s.contains %s)" % (base, x), BOOL, "val"
        if bt[0] != "iter": raise RsError("method .%s on a vector is outside the subset" % m)
        if m == "map":
            # (a closure made by desugar_iter_mut returns a new element: its result is typed by the element type)
            pats, ir, t = self.closure1(args[0], [el], env, el if len(args[0]) > 3 and args[0][3] == "same_elt" else None)
            if t == INTLIT: raise RsError("closure returning an untyped literal")
            if not monadic(ir):
                return "(%s.map (fun %s => %s))" % (base, pats[0], inline(ir)), ("iter", t), "val"
            v = self.fresh("l")
            fn = "(fun %s => do\n%s)" % (pats[0], "\n".join(emit_m(ir, 8)))
            pre.append(("bind", v, MCall("List.mapM %s %s" % (fn, base))))
            return v, ("iter", t), "val"
        if m in ("filter", "any", "all"):
            pats, ir, t = self.closure1(args[0], [el], env, BOOL)
            if monadic(ir): raise RsError("effectful predicate closure")
            self.check_ty(t, BOOL, m)
            if m == "filter": return "(%s.filter (fun %s => %s))" % (base, pats[0], inline(ir)), bt, "val"
            return "(%s.%s (fun %s => %s))" % (base, m, pats[0], inline(ir)), BOOL, "val"
        if m == "sum" and not args:
            t = self.u.resolve(turbo, self.impl) if turbo is not None else (want if want is not None and is_int(want) else el)
            if t != el or not is_uint(t): raise RsError("sum over %r as %r" % (el, t))
            v = self.fresh("s")
            pre.append(("bind", v, MCall("Rs.usum %s %s" % (UMAX[t[1]], base))))
            return v, t, "val"
        if m == "fold" and len(args) == 2:
            init, it = self.expr(args[0], env, pre, want)
            if it == INTLIT: raise RsError("fold with an untyped initial value")
            pats, ir, t = self.closure1(args[1], [it, el], env, it)
            self.check_ty(t, it, "fold")
            if not monadic(ir):
                return "(List.foldl (fun %s %s => %s) %s %s)" % (pats[0], pats[1], inline(ir), init, base), it, "val"
            v = self.fresh("f")
            fn = "(fun %s %s => do\n%s)" % (pats[0], pats[1], "\n".join(emit_m(ir, 8)))
            pre.append(("bind", v, MCall("List.foldlM %s %s %s" % (fn, init, base))))
            return v, it, "val"
        raise RsError("iterator method .%s is outside the subset" % m)


ATOMICS = {"AtomicUsize": "usize", "AtomicU64": "u64", "AtomicU32": "u32", "AtomicU16": "u16", "AtomicU8": "u8"}
ATOMIC_OPS = ("fetch_add", "fetch_sub", "swap", "store", "load")
MUTATORS = ("push", "push_back", "push_front", "pop", "pop_back", "pop_front", "extend_from_slice", "extend", "remove",
            "retain", "drain", "reverse", "get_or_insert", "replace", "insert", "clear") + ATOMIC_OPS
MUT_METHODS = ("resize", "insert", "push", "clear", "truncate", "extend", "remove", "pop", "retain", "drain", "sort",
               "iter_mut", "push_front", "push_back", "pop_front", "pop_back", "append", "extend_from_slice", "reverse",
               "get_or_insert", "replace", "copy_from_slice")


def fn_lean_lines(info):
    u = info.unit
    ops = []
    for _, t in info.params: u.opaques_of(t, ops)
    u.opaques_of(info.out_ty, ops)
    for o in getattr(info, "ext_opaques", ()):
        if o not in ops: ops.append(o)
    def ext_ty(n, t): return t      # (a LazyTy renders itself now)
    sig = ""
    if ops: sig += " {%s : Type}" % " ".join(ops)
    for o in info.needs_deq: sig += " [DecidableEq %s]" % o
    for n, t in info.exts: sig += " (%s : %s)" % (n, ext_ty(n, t))
    for n, t in info.params: sig += " (%s : %s)" % (lid(n), u.lt(t))
    rt = u.lt(info.out_ty, not info.monadic)
    text = info.text.replace("/-", "/ -").replace("-/", "- /")
    L = ["/- %s:%d  %s%s" % (info.rel, info.line, (info.impl + "::") if info.impl else "", info.name)]
    # normalised Rust text, wrapped
    words, cur = text.split(" "), "   "
    for w in words:
        if len(cur) + len(w) > 110:
            L.append(cur.rstrip()); cur = "   "
        cur += w + " "
    L.append(cur.rstrip())
    if info.exts:
        L.append("   externals (trusted boundary, explicit parameters): " + ", ".join("%s : %s" % (n, ext_ty(n, t)) for n, t in info.exts))
    if info.dropped:
        L.append("   dropped: " + "; ".join(info.dropped))
    L.append("-/")
    if info.monadic:
        L.append("def %s%s : Rs.M %s := do" % (info.lean_name, sig, rt))
        _REINDENT[0] = bool(getattr(u, "reindent_closures", False))
        try: L += emit_m(info.ir, 2)
        finally: _REINDENT[0] = False
    else:
        L.append("def %s%s : %s :=" % (info.lean_name, sig, rt))
        L += emit_p(info.ir, 2)
    late = getattr(u, "late_types", None)
    if late:
        L = [re.sub(r"⟦late\d+⟧", lambda m: u.lt(late[m.group(0)], False), l) if "⟦late" in l else l for l in L]
    return L
